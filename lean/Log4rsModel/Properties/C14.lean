import Log4rsModel.ConfigDoc.LemmasRender
import Log4rsModel.ConfigDoc.LemmasIsolation
import Log4rsModel.ConfigDoc.Refine
/-
C14 — Config files mean what they say in every format; loading is total and lossy.
Only property theorems and non-vacuity examples live here; helpers are in ConfigDoc/Lemmas*.lean
and ConfigDoc/Refine.lean.  Every `C14_*` theorem is about the model of the CURRENT code
(`appenderEnvelopeLazy = true`: appender entries typed lazily inside `appenders_lossy`;
`timeTriggerTotal = true`) or about the executable specification; theorems about earlier versions
of the code are named `Hist_C14_*`.

All theorems are about the model (`ConfigDoc/{Value,Schema,Pipeline}.lean`).  A document of any of
the three formats enters the model as one `Value`; that the three parsers produce the same `Value`
for equivalent documents is ASSUMED (with the exceptions modelled in `frontEnd`) and validated by
the harness, which renders every case into YAML, JSON and TOML and loads it with the real code.
The calls that leave log4rs' configuration code (opening a log file, `PatternEncoder::new`,
`TimeTrigger::new`) are the parameter `env : Env`; theorems hold for every `env` unless they say
`env.NoPanic` / `env.Benign`.
-/
namespace Log4rs.ConfigDoc
open Log4rs Log4rs.Literals Log4rs.Routing

/-! ### unknown keys -/

/-- ONE statement for every section: wherever a struct with `deny_unknown_fields` is reached from
the schema `s` through edges that propagate errors (`Sub`), a key that is not one of its fields
makes the interpretation of the whole of `s` fail. -/
theorem C14_unknown_key_rejected (ss : Bool) {s : Schema} {v : Value} {fields : List Field}
    {kvs : Entries} {k : Key}
    (hsub : Sub ss s v (.struct true fields) (.map kvs))
    (hk : k ∈ keys kvs) (hn : k ∉ fieldNames fields) :
    ∃ e, interp ss s v = .error e := by
  obtain ⟨k', he, _⟩ := interp_struct_unknown ss fields kvs k hk hn
  exact interp_sub_error ss hsub _ he

/-- the sections the statement lists: document, root, logger, each appender kind, each encoder
kind, policy, each trigger, each roller -/
def denyingSections : List Schema :=
  [docS, rootS, loggerS, consoleAppenderS, fileAppenderS, rollingFileAppenderS, patternEncoderS,
   jsonEncoderS, compoundPolicyS, sizeTriggerS, timeTriggerS, onStartUpTriggerS, fixedWindowRollerS,
   deleteRollerS]

def sectionFields : Schema → List Key
  | .struct _ fs => fieldNames fs
  | _ => []

/-- every listed section rejects every key that is not one of its fields -/
theorem C14_unknown_key_rejected_sections (ss : Bool) (s : Schema) (hs : s ∈ denyingSections)
    (kvs : Entries) (k : Key) (hk : k ∈ keys kvs) (hn : k ∉ sectionFields s) :
    ∃ e, interp ss s (.map kvs) = .error e := by
  simp only [denyingSections, List.mem_cons, List.not_mem_nil, or_false] at hs
  rcases hs with rfl | rfl | rfl | rfl | rfl | rfl | rfl | rfl | rfl | rfl | rfl | rfl | rfl | rfl <;>
    exact C14_unknown_key_rejected ss (Sub.refl _ _) hk hn

/-- document section, spelled out -/
theorem C14_unknown_key_document (ss : Bool) (kvs : Entries) (k : Key) (hk : k ∈ keys kvs)
    (hn : k ∉ [c!"refresh_rate", c!"root", c!"appenders", c!"loggers"]) :
    ∃ e, interp ss docS (.map kvs) = .error e :=
  C14_unknown_key_rejected_sections ss docS (by simp [denyingSections]) kvs k hk hn

/-- root section: the whole DOCUMENT is rejected -/
theorem C14_unknown_key_root (ss : Bool) (kvs rkvs : Entries) (k : Key)
    (hroot : lookup (c!"root") kvs = some (.map rkvs))
    (hk : k ∈ keys rkvs) (hn : k ∉ [c!"level", c!"appenders"]) :
    ∃ e, interp ss docS (.map kvs) = .error e := by
  refine C14_unknown_key_rejected ss (fields := [dfl (c!"level") (.level 4) (.leaf .level),
    dfl (c!"appenders") (.list []) namesS]) (kvs := rkvs) (k := k) ?_ hk hn
  exact Sub.field (k := c!"root") (d := some rootDefault) (s := rootS) (by simp [dfl]) hroot
    (Sub.refl _ _)

/-- logger section: the whole DOCUMENT is rejected -/
theorem C14_unknown_key_logger (ss : Bool) (kvs lkvs l : Entries) (name k : Key)
    (hl : lookup (c!"loggers") kvs = some (.map lkvs)) (hmem : (name, .map l) ∈ lkvs)
    (hk : k ∈ keys l) (hn : k ∉ [c!"level", c!"appenders", c!"additive"]) :
    ∃ e, interp ss docS (.map kvs) = .error e := by
  refine C14_unknown_key_rejected ss (fields := [req (c!"level") (.leaf .level),
    dfl (c!"appenders") (.list []) namesS, dfl (c!"additive") (.bool true) (.leaf .bool)])
    (kvs := l) (k := k) ?_ hk hn
  exact Sub.field (k := c!"loggers") (d := some (.dict [])) (s := .mapOf loggerS) (by simp [dfl]) hl
    (Sub.mapElem hmem (Sub.refl _ _))

/-- inside an appender (its own config, its encoder, policy, trigger, roller — anything reached
from the kind's config through propagating edges): the document is NOT rejected; the appender's
entry — typed by the live entry schema `appenderEntryS = .lazy appenderLazyS` — comes out as
`tagged kind filters (failed e)`, which `appenders_lossy` reports and drops
(`C14_broken_appender_reported`). -/
theorem C14_unknown_key_appender (ss : Bool) (akvs : Entries) (kind : Key)
    (es : List (Key × Typed)) (s : Schema) (fields : List Field) (kvs : Entries) (k : Key)
    (hkind : kindOf none akvs = .ok kind)
    (hes : interpFields ss [dfl (c!"filters") (.list []) (.seqOf (.lazy filterS))] akvs = .ok es)
    (hcase : caseOf [(c!"console", consoleAppenderS), (c!"file", fileAppenderS),
      (c!"rolling_file", rollingFileAppenderS)] kind = some s)
    (hsub : Sub ss s (.map (without [c!"kind", c!"filters"] akvs)) (.struct true fields) (.map kvs))
    (hk : k ∈ keys kvs) (hn : k ∉ fieldNames fields) :
    ∃ e, interp ss appenderEntryS (.map akvs) = .ok (.tagged kind es (.failed e)) := by
  obtain ⟨e, he⟩ := C14_unknown_key_rejected ss hsub hk hn
  refine ⟨e, ?_⟩
  rw [appenderEntryS_live]
  simp only [appenderLazyS, interp, hkind, hes]
  rw [interpCases_eq ss _ kind _ s hcase]
  simp only [fieldNames, dfl, List.map_cons, List.map_nil]
  rw [he]
  rfl

/-- A kind-tagged section without extra reserved keys (encoder, policy, trigger, roller) hands
EVERY key except `kind` on to the kind's config: whatever the key is called — also a name that is
reserved or legal in some OTHER section, such as `filters`, `appenders`, `path` — it is rejected
there unless it is a field of that config. -/
theorem C14_unknown_key_tagged_section (ss : Bool) (dflt : Option Key)
    (cases : List (Key × Schema)) (kvs : Entries) (kind : Key) (fields : List Field) (k : Key)
    (hkind : kindOf dflt kvs = .ok kind) (hcase : caseOf cases kind = some (.struct true fields))
    (hk : k ∈ keys kvs) (hne : k ≠ c!"kind") (hn : k ∉ fieldNames fields) :
    ∃ e, interp ss (.tagged dflt false [] cases) (.map kvs) = .error e := by
  refine C14_unknown_key_rejected ss (Sub.body hkind hcase (Sub.refl _ _))
    (mem_keys_without _ kvs k hk ?_) hn
  simpa [fieldNames] using hne

/-- truthfully: the threshold filter's config does NOT deny unknown keys (no
`deny_unknown_fields` on `ThresholdFilterConfig`); the statement's list does not include filters -/
theorem C14_threshold_filter_ignores_unknown_key (ss : Bool) (kvs : Entries) (k : Key) (v : Value)
    (hk : k ≠ c!"level") :
    interp ss thresholdS (.map (kvs ++ [(k, v)])) = interp ss thresholdS (.map kvs) := by
  simp only [thresholdS, interp, interpFields, req, lookup_append_ne _ _ _ _ hk]
  rfl

/-! ### malformed values -/

/-- an unknown kind is rejected in every kind-tagged section (`Deserializers::deserialize`: "no …
deserializer for kind … registered") -/
theorem C14_unknown_kind_rejected (ss : Bool) (dflt : Option Key) (extras : List Field)
    (cases : List (Key × Schema)) (kvs : Entries) (kind : Key) (es : List (Key × Typed))
    (hkind : kindOf dflt kvs = .ok kind) (hes : interpFields ss extras kvs = .ok es)
    (hno : caseOf cases kind = none) :
    interp ss (.tagged dflt false extras cases) (.map kvs) = .error (.unknownKind kind)
    ∧ interp ss (.tagged dflt true extras cases) (.map kvs) = .ok (.tagged kind es (.failed (.unknownKind kind))) := by
  constructor <;> simp only [interp, hkind, hes, interpCases_unknown ss cases kind _ hno] <;> rfl

/-- the scalar visitors accept exactly their value space: `u32` / `u64` the integers of the range
(so `count: -1`, `base: 4294967296`, `min_size: -1` are rejected), booleans only booleans (not
`"true"`, not `1`), strings only strings, levels the six names in any letter case, the console
target exactly `stdout` / `stderr` -/
theorem C14_malformed_leaf_rejected (v : Value) :
    ((interpLeaf .u32 v).toOption.isSome ↔ ∃ n : Nat, v = .int n ∧ n ≤ U32_MAX)
    ∧ ((interpLeaf .u64 v).toOption.isSome ↔ ∃ n : Nat, v = .int n ∧ n ≤ U64_MAX)
    ∧ ((interpLeaf .bool v).toOption.isSome ↔ ∃ b, v = .bool b)
    ∧ ((interpLeaf .str v).toOption.isSome ↔ ∃ s, v = .str s)
    ∧ ((interpLeaf .level v).toOption.isSome ↔ ∃ s, v = .str s ∧ (parseLevel s).isSome)
    ∧ ((interpLeaf .target v).toOption.isSome ↔ (v = .str (c!"stdout") ∨ v = .str (c!"stderr"))) := by
  refine ⟨?_, ?_, ?_, ?_, ?_, ?_⟩
  · cases v with
    | int n =>
      by_cases hc : 0 ≤ n ∧ n.toNat ≤ U32_MAX
      · simp only [interpLeaf, hc, and_self, if_true, Except.toOption, Option.isSome_some, true_iff]
        exact ⟨n.toNat, by congr 1; omega, hc.2⟩
      · simp only [interpLeaf, hc, if_false, Except.toOption, Option.isSome_none, Bool.false_eq_true, false_iff]
        rintro ⟨m, hm, hle⟩
        simp only [Value.int.injEq] at hm
        subst hm
        exact hc ⟨by omega, by simpa using hle⟩
    | _ => simp [interpLeaf, Except.toOption]
  · cases v with
    | int n =>
      by_cases hc : 0 ≤ n ∧ n.toNat ≤ U64_MAX
      · simp only [interpLeaf, hc, and_self, if_true, Except.toOption, Option.isSome_some, true_iff]
        exact ⟨n.toNat, by congr 1; omega, hc.2⟩
      · simp only [interpLeaf, hc, if_false, Except.toOption, Option.isSome_none, Bool.false_eq_true, false_iff]
        rintro ⟨m, hm, hle⟩
        simp only [Value.int.injEq] at hm
        subst hm
        exact hc ⟨by omega, by simpa using hle⟩
    | _ => simp [interpLeaf, Except.toOption]
  · cases v <;> simp [interpLeaf, Except.toOption]
  · cases v <;> simp [interpLeaf, Except.toOption]
  · cases v <;> simp [interpLeaf, Except.toOption]
    rename_i s
    cases parseLevel s <;> simp
  · cases v <;> simp [interpLeaf, Except.toOption]
    rename_i s
    by_cases h1 : s = c!"stdout"
    · simp [h1]
    · by_cases h2 : s = c!"stderr"
      · simp [h2]
      · simp [h1, h2]

/-- a required field that is absent makes its section fail (`missing field`) -/
theorem C14_missing_required_field_rejected (ss deny : Bool) (fields : List Field) (kvs : Entries)
    (k : Key) (s : Schema) (hf : (k, none, s) ∈ fields) (hl : lookup k kvs = none) :
    ∃ e, interp ss (.struct deny fields) (.map kvs) = .error e := by
  have hfe : ∃ e, interpFields ss fields kvs = .error e := by
    induction fields with
    | nil => cases hf
    | cons f fs ih =>
      obtain ⟨k1, d1, s1⟩ := f
      simp only [interpFields]
      rcases List.mem_cons.mp hf with h | h
      · cases h; simp only [hl]; exact ⟨_, rfl⟩
      · obtain ⟨e, he⟩ := ih h
        split
        · exact ⟨_, rfl⟩
        · rw [he]; exact ⟨e, rfl⟩
  obtain ⟨e, he⟩ := hfe
  simp only [interp, he]
  split
  · exact ⟨_, rfl⟩
  · exact ⟨e, rfl⟩

/-! ### defaults -/

/-- a struct field that has a default and is absent from the section is typed as its default -/
theorem C14_defaults_generic (ss deny : Bool) (fields : List Field) (kvs : Entries) (t : Typed)
    (k : Key) (d : Typed) (s : Schema) (hnd : (fieldNames fields).Nodup)
    (hf : (k, some d, s) ∈ fields) (hl : lookup k kvs = none)
    (h : interp ss (.struct deny fields) (.map kvs) = .ok t) : t.field k = some d := by
  obtain ⟨ts, rfl, hts⟩ := interp_struct_ok ss deny fields kvs t h
  exact interpFields_default ss fields kvs ts k d s hnd hf hl hts

/-- the documented defaults: root level Debug, root / logger appenders `[]`, additive true,
modulate false, max_random_delay 0, min_size 1, base absent (`None`, for which
`FixedWindowRollerBuilder` uses 0), a missing root section = level Debug and no appenders, no
appenders / loggers tables = empty tables, filters `[]`; encoder kind `pattern`, policy kind
`compound`; appender, filter, trigger and roller kinds are REQUIRED. -/
theorem C14_defaults (ss : Bool) (kvs : Entries) (t : Typed) :
    (lookup (c!"level") kvs = none → interp ss rootS (.map kvs) = .ok t →
        t.field (c!"level") = some (.level 4))
    ∧ (lookup (c!"appenders") kvs = none → interp ss rootS (.map kvs) = .ok t →
        t.field (c!"appenders") = some (.list []))
    ∧ (lookup (c!"additive") kvs = none → interp ss loggerS (.map kvs) = .ok t →
        t.field (c!"additive") = some (.bool true))
    ∧ (lookup (c!"appenders") kvs = none → interp ss loggerS (.map kvs) = .ok t →
        t.field (c!"appenders") = some (.list []))
    ∧ (lookup (c!"modulate") kvs = none → interp ss timeTriggerS (.map kvs) = .ok t →
        t.field (c!"modulate") = some (.bool false))
    ∧ (lookup (c!"max_random_delay") kvs = none → interp ss timeTriggerS (.map kvs) = .ok t →
        t.field (c!"max_random_delay") = some (.nat 0))
    ∧ (lookup (c!"min_size") kvs = none → interp ss onStartUpTriggerS (.map kvs) = .ok t →
        t.field (c!"min_size") = some (.nat 1))
    ∧ (lookup (c!"base") kvs = none → interp ss fixedWindowRollerS (.map kvs) = .ok t →
        t.field (c!"base") = some .nothing)
    ∧ (lookup (c!"root") kvs = none → interp ss docS (.map kvs) = .ok t →
        t.field (c!"root") = some rootDefault)
    ∧ (lookup (c!"appenders") kvs = none → interp ss docS (.map kvs) = .ok t →
        t.field (c!"appenders") = some (.dict []))
    ∧ (lookup (c!"loggers") kvs = none → interp ss docS (.map kvs) = .ok t →
        t.field (c!"loggers") = some (.dict []))
    ∧ (lookup (c!"refresh_rate") kvs = none → interp ss docS (.map kvs) = .ok t →
        t.field (c!"refresh_rate") = some .nothing)
    ∧ (lookup (c!"kind") kvs = none → kindOf (some (c!"pattern")) kvs = .ok (c!"pattern"))
    ∧ (lookup (c!"kind") kvs = none → kindOf (some (c!"compound")) kvs = .ok (c!"compound"))
    ∧ (lookup (c!"kind") kvs = none → kindOf none kvs = .error (.missingField (c!"kind"))) := by
  refine ⟨?_, ?_, ?_, ?_, ?_, ?_, ?_, ?_, ?_, ?_, ?_, ?_, ?_, ?_, ?_⟩
  · intro hl h; exact C14_defaults_generic ss true _ kvs t _ _ (.leaf .level) (by decide) (by simp [dfl]) hl h
  · intro hl h; exact C14_defaults_generic ss true _ kvs t _ _ namesS (by decide) (by simp [dfl]) hl h
  · intro hl h; exact C14_defaults_generic ss true _ kvs t _ _ (.leaf .bool) (by decide) (by simp [dfl, req]) hl h
  · intro hl h; exact C14_defaults_generic ss true _ kvs t _ _ namesS (by decide) (by simp [dfl, req]) hl h
  · intro hl h; exact C14_defaults_generic ss true _ kvs t _ _ (.leaf .bool) (by decide) (by simp [dfl, req]) hl h
  · intro hl h; exact C14_defaults_generic ss true _ kvs t _ _ (.leaf .u64) (by decide) (by simp [dfl, req]) hl h
  · intro hl h; exact C14_defaults_generic ss true _ kvs t _ _ (.leaf .u64) (by decide) (by simp [dfl]) hl h
  · intro hl h; exact C14_defaults_generic ss true _ kvs t _ _ (.opt (.leaf .u32)) (by decide) (by simp [optF, req]) hl h
  · intro hl h; exact C14_defaults_generic ss true _ kvs t _ _ rootS (by decide) (by simp [dfl, optF]) hl h
  · intro hl h; exact C14_defaults_generic ss true _ kvs t _ _ (.mapOf (appenderEntrySWith appenderEnvelopeLazy)) (by decide) (by simp [dfl, optF]) hl h
  · intro hl h; exact C14_defaults_generic ss true _ kvs t _ _ (.mapOf loggerS) (by decide) (by simp [dfl, optF]) hl h
  · intro hl h; exact C14_defaults_generic ss true _ kvs t _ _ (.opt (.leaf .duration)) (by decide) (by simp [dfl, optF]) hl h
  · exact kindOf_default _ kvs
  · exact kindOf_default _ kvs
  · exact kindOf_required kvs


/-! ### loading is total; where it can panic -/

/-- The pipelines are total functions into `Outcome` / `StrictResult`: `ok`, `err`, or an explicit
`panic`.  The model has exactly these panic sources on the load path:
  * the three components of `env : Env` — opening the log file, `PatternEncoder::new`,
    `TimeTrigger::new` — whose panic freedom is the ASSUMPTION `env.NoPanic` (C11 and C16 are about
    two of them; `realEnv_noPanic` shows it for the environment of the check runs);
  * the duration visitor of `refresh_rate`: `humantime::parse_duration` (2.4.0) panics inside
    `Duration::new` when a sum of exactly 10^9 ns is carried into `u64::MAX` seconds
    (`durAdd`, flag `humantimeCarryPanics`) — a finding, reproduced on the real crate.
Not modelled, hence assumed panic-free: the three parsers themselves (recursion limits, YAML alias
expansion), serde derive and serde_value code, `handle_error`.  The FULL statement is therefore
false of the code as it is: -/
def C14_load_total_statement : Prop :=
  ∀ (env : Env), env.NoPanic → ∀ (ss : Bool) (v : Value) (w : String), loadLossy env ss v ≠ .panic w

/-- witness: `refresh_rate: "18446744073709551615s 1000000000ns"` -/
def panicWitness : Value :=
  .map [(c!"refresh_rate", .str (c!"18446744073709551615s 1000000000ns"))]

theorem C14_load_total_refuted (hflag : humantimeCarryPanics = true) : ¬ C14_load_total_statement := by
  intro h
  have hp : humantimeCarryPanics = true → (loadLossy realEnv false panicWitness).isPanic = true := by decide
  have hp := hp hflag
  cases hl : loadLossy realEnv false panicWitness with
  | panic w => exact h realEnv realEnv_noPanic false panicWitness w hl
  | ok b => rw [hl] at hp; cases hp
  | err e => rw [hl] at hp; cases hp

/-- the only leaf visitor that can panic is the duration visitor, and only through `durAdd`'s carry -/
theorem C14_panicked_only_from_duration (l : Leaf) (v : Value) (h : interpLeaf l v = .error .panicked) :
    l = .duration ∧ ∃ s, v = .str s ∧ parseDurationFull s = .panic := by
  cases l with
  | duration =>
    cases v with
    | str s =>
      refine ⟨rfl, s, rfl, ?_⟩
      simp only [interpLeaf] at h
      cases hp : parseDurationFull s with
      | ok a b => rw [hp] at h; cases h
      | err => rw [hp] at h; cases h
      | panic => rfl
    | _ => simp [interpLeaf] at h
  | str => cases v <;> simp [interpLeaf] at h
  | bool => cases v <;> simp [interpLeaf] at h
  | level =>
    cases v <;> simp only [interpLeaf] at h <;> try cases h
    split at h <;> cases h
  | u32 =>
    cases v <;> simp only [interpLeaf] at h <;> try cases h
    split at h <;> cases h
  | u64 =>
    cases v <;> simp only [interpLeaf] at h <;> try cases h
    split at h <;> cases h
  | size => simp only [interpLeaf] at h; split at h <;> cases h
  | interval => simp only [interpLeaf] at h; split at h <;> cases h
  | target =>
    cases v <;> simp only [interpLeaf] at h <;> try cases h
    split at h
    · cases h
    · split at h <;> cases h

/-- the carry that panics: the nanoseconds add up to exactly 10^9 while the seconds are `u64::MAX` -/
theorem C14_duration_carry_panic_iff (sec nsec : Nat) (acc : Nat × Nat)
    (h1 : acc.2 + nsec ≤ U64_MAX) (h2 : acc.2 + nsec ≤ 1000000000) (h3 : acc.1 + sec ≤ U64_MAX) :
    durAdd sec nsec acc = .panic ↔
      humantimeCarryPanics = true ∧ acc.2 + nsec = 1000000000 ∧ acc.1 + sec = U64_MAX := by
  have hn1 : ¬ acc.2 + nsec > U64_MAX := by omega
  have hn2 : ¬ acc.2 + nsec > 1000000000 := by omega
  have hs : ¬ sec > U64_MAX := by omega
  have hn3 : ¬ acc.1 + sec > U64_MAX := by omega
  simp only [durAdd, hn1, hn2, hs, hn3, if_false]
  by_cases he : acc.2 + nsec = 1000000000
  · simp only [he, if_true]
    by_cases ht : acc.1 + sec + 1 > U64_MAX
    · simp only [ht, if_true]
      cases humantimeCarryPanics <;> simp <;> omega
    · simp only [ht, if_false]
      constructor
      · intro h; cases h
      · rintro ⟨_, _, h⟩; omega
  · simp [he]

/-- What holds: if the components of the environment do not panic and the duration visitor does
not hit the carry, loading — lossy or strict — never panics, for EVERY document. -/
theorem C14_load_total_partial (env : Env) (henv : env.NoPanic) (ss : Bool) (v : Value)
    (hd : interp ss docS v ≠ .error .panicked) :
    (∀ w, loadLossy env ss v ≠ .panic w) ∧ loadStrict env ss v ≠ .panic := by
  have h0 : ∀ w, loadRaw env ss v ≠ .panic w := by
    intro w
    simp only [loadRaw]
    cases hi : interp ss docS v with
    | error e =>
      cases e <;> first | exact absurd hi hd | simp
    | ok doc =>
      simp only [rawLoad]
      cases ha : appendersLossy env (Typed.asDict (doc.field (c!"appenders"))) with
      | panic w' => exact absurd ha (appendersLossy_np env henv _ w')
      | ok p => simp
      | err e => simp
  constructor
  · intro w
    simp only [loadLossy]
    cases hr : loadRaw env ss v with
    | panic w' => exact absurd hr (h0 w')
    | ok r => simp
    | err e => simp
  · simp only [loadStrict]
    cases hr : loadRaw env ss v with
    | panic w' => exact absurd hr (h0 w')
    | ok r => simp only; split <;> (try split) <;> simp
    | err e => simp

/-- historical (before /repo 80d997f): the time trigger's constructor panicked for `interval: 0`
with `modulate: true` (`% 0`) and for a count of `i64::MAX` seconds (`TimeDelta::seconds`) -/
theorem Hist_C14_time_trigger_panics :
    (timeTriggerNewWith false .second 0 true 0).isPanic = true
    ∧ (timeTriggerNewWith false .second 9223372036854775807 false 0).isPanic = true := by
  decide

/-- a document the front-end rejects is an `err`, never a panic, and strict loading says
`errParse`; strict loading accepts exactly when lossy loading has nothing to report -/
theorem C14_strict_iff_nothing_reported (env : Env) (ss : Bool) (v : Value) :
    loadStrict env ss v = .ok ↔
      ∃ b, loadLossy env ss v = .ok b ∧ b.loadErrors = [] ∧ b.buildErrors = [] := by
  simp only [loadStrict, loadLossy]
  cases hr : loadRaw env ss v with
  | err e => simp
  | panic w => simp
  | ok r =>
    simp only [Outcome.ok.injEq, exists_eq_left']
    have hle : (buildLossyNames r).loadErrors = r.errors := rfl
    rw [hle]
    cases he : r.errors with
    | cons a as => simp
    | nil =>
      cases hb : (buildLossyNames r).buildErrors with
      | nil => simp
      | cons a as => simp

/-! ### lossy isolation -/

/-- A broken appender is reported and removed; every other appender comes out exactly as from
the (typed) table without it, in the same order, with the same reported errors. -/
theorem C14_lossy_isolation_appender (env : Env) (xs ys : List (Key × Typed)) (name : Key) (t : Typed)
    (d1 d2 : List AppenderDesc) (e1 e2 errs : List LoadErr)
    (hx : appendersLossy env xs = .ok (d1, e1)) (hy : appendersLossy env ys = .ok (d2, e2))
    (hbroken : appenderOutcome env name t = (errs, .dropped)) :
    appendersLossy env (xs ++ (name, t) :: ys) = .ok (d1 ++ d2, e1 ++ (errs ++ e2))
    ∧ appendersLossy env (xs ++ ys) = .ok (d1 ++ d2, e1 ++ e2) := by
  constructor
  · rw [appendersLossy_append, hx]
    simp only [appendersLossy, hbroken, hy]
  · rw [appendersLossy_append, hx, hy]

/-- What makes an appender broken: its envelope did not type (`failed e` in place of the entry),
its config did not type (unknown kind, unknown key, bad or missing field anywhere inside: body
`failed e`), or its constructor returned an error.  It is then reported exactly once, after the
reports of its own broken filters (none for a broken envelope: the filters were not looked at). -/
theorem C14_broken_appender_reported (env : Env) (name : Key) (t : Typed)
    (h : (∃ e, t = .failed e)
      ∨ (∃ kind extras e, t = .tagged kind extras (.failed e))
      ∨ (∃ kind extras body e, t = .tagged kind extras body ∧ constructAppender env name
            ((Typed.asList (tlookup (c!"filters") extras)).filterMap filterOutcome) kind body = .err e)) :
    ∃ ferrs, appenderOutcome env name t = (ferrs ++ [.appender name], .dropped)
      ∧ ∀ x ∈ ferrs, x = .filter name := by
  have hall : ∀ (l : List Typed), ∀ x ∈ l.map (fun _ => LoadErr.filter name), x = .filter name := by
    intro l x hx
    simp only [List.mem_map] at hx
    obtain ⟨_, _, rfl⟩ := hx
    rfl
  rcases h with ⟨e, rfl⟩ | ⟨kind, extras, e, rfl⟩ | ⟨kind, extras, body, e, rfl, he⟩
  · exact ⟨[], rfl, by simp⟩
  · exact ⟨_, rfl, hall _⟩
  · cases body with
    | failed e' => exact ⟨_, rfl, hall _⟩
    | _ =>
      all_goals
        refine ⟨((Typed.asList (tlookup (c!"filters") extras)).filter
          (fun f => (filterOutcome f).isNone)).map (fun _ => LoadErr.filter name), ?_, hall _⟩
      all_goals simp only [appenderOutcome, he]

/-- A broken filter — one whose envelope (`failed e` in place of the entry) or whose config
(`tagged kind extras (failed e)`) did not type — is reported and removed; the appender is KEPT and
is otherwise exactly the appender of the (typed) entry without that filter. -/
theorem C14_lossy_isolation_filter (env : Env) (name kind : Key) (bad : Typed)
    (hbad : filterOutcome bad = none) (fs1 fs2 : List Typed) (body : Typed) :
    let withBad := appenderOutcome env name (.tagged kind [(c!"filters", .list (fs1 ++ bad :: fs2))] body)
    let without := appenderOutcome env name (.tagged kind [(c!"filters", .list (fs1 ++ fs2))] body)
    withBad.2 = without.2 ∧ withBad.1 = LoadErr.filter name :: without.1 := by
  intro withBad without
  have hlev : (fs1 ++ bad :: fs2).filterMap filterOutcome = (fs1 ++ fs2).filterMap filterOutcome := by
    simp [List.filterMap_append, List.filterMap_cons, hbad]
  have hferr : ((fs1 ++ bad :: fs2).filter (fun f => (filterOutcome f).isNone)).map
        (fun _ => LoadErr.filter name) =
      LoadErr.filter name :: ((fs1 ++ fs2).filter (fun f => (filterOutcome f).isNone)).map
        (fun _ => LoadErr.filter name) := by
    have hb : (filterOutcome bad).isNone = true := by rw [hbad]; rfl
    simp only [List.filter_append, List.map_append, List.filter_cons, hb, if_true, List.map_cons]
    exact const_map_shift _ _ _
  simp only [withBad, without, appenderOutcome, tlookup, if_true, Typed.asList, hlev, hferr]
  cases body with
  | failed e' => exact ⟨rfl, rfl⟩
  | _ =>
    all_goals
      simp only
      split <;> exact ⟨rfl, rfl⟩

/-- which typed filter entries are broken -/
theorem C14_broken_filter_forms (e : Err) (kind : Key) (extras : List (Key × Typed)) :
    filterOutcome (.failed e) = none ∧ filterOutcome (.tagged kind extras (.failed e)) = none :=
  ⟨rfl, rfl⟩

/-- The appender table cannot reject the document: whatever the entries are, each is typed or
recorded as `failed`; and filter entries cannot fail their appender's envelope. -/
theorem C14_lossy_isolation_table_total (ss : Bool) (kvs : Entries) (xs : List Value) :
    (∃ ts, interp ss (.mapOf appenderEntryS) (.map kvs) = .ok (.dict ts))
    ∧ (∃ ts, interp ss (.seqOf (.lazy filterS)) (.seq xs) = .ok (.list ts)) := by
  constructor
  · obtain ⟨ts, h⟩ := mapEntries_total (fun v => interp ss appenderEntryS v)
      (fun v => by rw [appenderEntryS_live]; exact interp_lazy_total ss appenderLazyS v) kvs
    exact ⟨ts, by rw [interp_mapOf, h]⟩
  · obtain ⟨ts, h⟩ := mapVals_total (fun v => interp ss (.lazy filterS) v)
      (fun v => interp_lazy_total ss filterS v) xs
    exact ⟨ts, by rw [interp_seqOf, h]⟩

/-- what a broken appender ENVELOPE is: the entry is not a map, or its `kind` is missing or not a
string, or its `filters` is not a sequence; such an entry is typed `failed` -/
theorem C14_broken_envelope (ss : Bool) (v : Value)
    (h : v.isMap = false
      ∨ (∃ kvs e, v = .map kvs ∧ kindOf none kvs = .error e)
      ∨ (∃ kvs f, v = .map kvs ∧ lookup (c!"filters") kvs = some f ∧ (∀ xs, f ≠ .seq xs))) :
    ∃ e, interp ss appenderLazyS v = .error e ∧ interp ss appenderEntryS v = .ok (.failed e) := by
  have key : ∃ e, interp ss appenderLazyS v = .error e := by
    rcases h with h | ⟨kvs, e, rfl, hk⟩ | ⟨kvs, f, rfl, hf, hns⟩
    · cases v with
      | map kvs => simp [Value.isMap] at h
      | _ => exact ⟨.invalidType, by simp only [appenderLazyS, interp]⟩
    · exact ⟨e, by simp only [appenderLazyS, interp, hk]⟩
    · cases hk : kindOf none kvs with
      | error e => exact ⟨e, by simp only [appenderLazyS, interp, hk]⟩
      | ok kind =>
        refine ⟨.invalidType, ?_⟩
        have hfi : interp ss (.seqOf (.lazy filterS)) f = .error .invalidType := by
          cases f <;> first | exact absurd rfl (hns _) | simp only [interp]
        simp only [appenderLazyS, interp, hk, interpFields, dfl, hf, hfi]
  obtain ⟨e, he⟩ := key
  exact ⟨e, he, by rw [appenderEntryS_live]; exact interp_lazy_error ss _ v e he⟩

/-- the typed appender table is built entry by entry: removing one entry of the document's
`appenders` map leaves the typing of every other entry unchanged -/
theorem C14_lossy_isolation_table (ss : Bool) (xs ys : Entries) (name : Key) (v : Value) :
    ∃ txs t tys,
      interp ss appenderEntryS v = .ok t
      ∧ interp ss (.mapOf appenderEntryS) (.map (xs ++ (name, v) :: ys)) = .ok (.dict (txs ++ (name, t) :: tys))
      ∧ interp ss (.mapOf appenderEntryS) (.map (xs ++ ys)) = .ok (.dict (txs ++ tys)) := by
  obtain ⟨txs, t, tys, _, _, ht, h1, h2⟩ := mapEntries_lazy_split ss appenderLazyS xs ys name v
  refine ⟨txs, t, tys, by rw [appenderEntryS_live]; exact ht, ?_, ?_⟩
  · rw [appenderEntryS_live, interp_mapOf, h1]
  · rw [appenderEntryS_live, interp_mapOf, h2]

/-- END TO END, on the live schema: take any document whose `appenders` table has an entry `name`
that is broken — its envelope does not type, or its envelope types and its config does not (unknown
key anywhere inside, unknown kind, wrong type, missing field: `C14_unknown_key_appender`,
`C14_unknown_kind_rejected`, …).  If lossy loading accepts the document, then it accepts the
document without that entry too, and the two results are the same configuration — same surviving
appenders, root, loggers, refresh rate, same builder reports (the references to `name` are dangling
in both) — except that the first additionally reports the broken appender, once, after the reports
of its own broken filters. -/
theorem C14_lossy_isolation_end_to_end (env : Env) (ss : Bool) (pre post xs ys : Entries) (name : Key)
    (v : Value) (e : Err) (bw : Built)
    (hpre : c!"appenders" ∉ keys pre)
    (hbad : interp ss appenderLazyS v = .error e
      ∨ ∃ k es, interp ss appenderLazyS v = .ok (.tagged k es (.failed e)))
    (hw : loadLossy env ss (.map (pre ++ (c!"appenders", .map (xs ++ (name, v) :: ys)) :: post)) = .ok bw) :
    ∃ bo fe, loadLossy env ss (.map (pre ++ (c!"appenders", .map (xs ++ ys)) :: post)) = .ok bo
      ∧ bw.appenders = bo.appenders ∧ bw.rootLevel = bo.rootLevel ∧ bw.rootAppenders = bo.rootAppenders
      ∧ bw.loggers = bo.loggers ∧ bw.refresh = bo.refresh ∧ bw.buildErrors = bo.buildErrors
      ∧ bw.loadErrors.Perm (bo.loadErrors ++ (fe ++ [.appender name])) ∧ ∀ x ∈ fe, x = .filter name := by
  -- the typed table with and without the entry
  obtain ⟨txs, t, tys, ht, hX, hX'⟩ := C14_lossy_isolation_table ss xs ys name v
  -- the broken entry is dropped with a report
  have hdrop : ∃ fe, appenderOutcome env name t = (fe ++ [.appender name], .dropped)
      ∧ ∀ x ∈ fe, x = .filter name := by
    rw [appenderEntryS_live] at ht
    rcases hbad with he | ⟨k, es, he⟩
    · rw [interp_lazy_error ss _ v e he] at ht
      cases ht
      exact C14_broken_appender_reported env name _ (Or.inl ⟨e, rfl⟩)
    · rw [interp_lazy_ok ss _ v _ he] at ht
      cases ht
      exact C14_broken_appender_reported env name _ (Or.inr (Or.inl ⟨k, es, e, rfl⟩))
  obtain ⟨fe, hout, hfe⟩ := hdrop
  -- the document with the entry is typed
  simp only [loadLossy, loadRaw] at hw
  cases hi : interp ss docS (.map (pre ++ (c!"appenders", .map (xs ++ (name, v) :: ys)) :: post)) with
  | error er => rw [hi] at hw; cases er <;> simp at hw
  | ok doc =>
    rw [hi] at hw
    have hdS : docS = .struct true [optF (c!"refresh_rate") (.leaf .duration), dfl (c!"root") rootDefault rootS,
        dfl (c!"appenders") (.dict []) (.mapOf appenderEntryS), dfl (c!"loggers") (.dict []) (.mapOf loggerS)] := rfl
    rw [hdS] at hi
    obtain ⟨ts, rfl, hts⟩ := interp_struct_ok ss true _ _ doc hi
    -- … and so is the document without it, with the same typed fields elsewhere
    have hi' := interp_struct_replace ss true _ (c!"appenders") (.map (xs ++ (name, v) :: ys))
      (.map (xs ++ ys)) pre post hpre (.dict (txs ++ tys))
      (by intro d s hm
          simp only [optF, dfl, List.mem_cons, Prod.mk.injEq, List.not_mem_nil, or_false] at hm
          rcases hm with ⟨h, _⟩ | ⟨h, _⟩ | ⟨_, _, rfl⟩ | ⟨h, _⟩
          · exact absurd h (by decide)
          · exact absurd h (by decide)
          · exact hX'
          · exact absurd h (by decide)) ts hi
    have hApp : tlookup (c!"appenders") ts = some (.dict (txs ++ (name, t) :: tys)) :=
      interpFields_present ss _ _ ts (c!"appenders") (some (.dict [])) (.mapOf appenderEntryS) _ _
        (by decide) (by simp [dfl]) (lookup_mid _ _ pre post hpre) hX hts
    have hApp' : tlookup (c!"appenders") (setT (c!"appenders") (.dict (txs ++ tys)) ts) = some (.dict (txs ++ tys)) :=
      tlookup_setT_eq _ _ ts (by rw [hApp]; rfl)
    have hne : ∀ k, k ≠ c!"appenders" →
        tlookup k (setT (c!"appenders") (.dict (txs ++ tys)) ts) = tlookup k ts :=
      fun k hk => tlookup_setT_ne k _ _ ts hk
    -- `appenders_lossy` on both tables
    simp only at hw
    rw [rawLoad_record, hApp] at hw
    simp only [Typed.asDict] at hw
    cases hal : appendersLossy env (txs ++ (name, t) :: tys) with
    | err er => rw [hal] at hw; cases hw
    | panic w => rw [hal] at hw; cases hw
    | ok p =>
      obtain ⟨ds, es⟩ := p
      rw [hal] at hw
      obtain ⟨d1, e1, d2, e2, _, _, hds, hes, hal'⟩ :=
        appendersLossy_split env txs tys name t _ ds es hout hal
      simp only [Outcome.ok.injEq] at hw
      subst hw
      rw [← hdS] at hi'
      have hlo : loadLossy env ss (.map (pre ++ (c!"appenders", .map (xs ++ ys)) :: post)) =
          .ok (buildLossyNames (rawOf ts (d1 ++ d2) (e1 ++ e2))) := by
        simp only [loadLossy, loadRaw, hi']
        rw [rawLoad_record, hApp']
        simp only [Typed.asDict, hal', rawOf_setT]
      refine ⟨_, fe, hlo, ?_⟩
      subst hds hes
      refine ⟨rfl, rfl, rfl, rfl, rfl, rfl, ?_, hfe⟩
      show (e1 ++ ((fe ++ [LoadErr.appender name]) ++ e2)).Perm ((e1 ++ e2) ++ (fe ++ [LoadErr.appender name]))
      rw [List.append_assoc e1 e2]
      exact List.Perm.append_left e1 List.perm_append_comm

/-- Dangling references, and bad logger names, in closed form: the builder fragment keeps the
appenders, root level and refresh rate; strips from the root and from every KEPT logger exactly the
names that are not surviving appenders (order, levels and additivity untouched); drops exactly the
loggers whose name is not well-formed; and reports exactly one `nonexistent` per stripped
reference and one `badLoggerName` per dropped logger — nothing else. -/
theorem C14_lossy_isolation_dangling (r : RawLoad) :
    let b := buildLossyNames r
    let known := r.appenders.map (·.name)
    b.appenders = r.appenders ∧ b.rootLevel = r.rootLevel ∧ b.refresh = r.refresh
    ∧ b.loadErrors = r.errors
    ∧ b.rootAppenders = r.rootAppenders.filter (known.contains ·)
    ∧ b.loggers = (r.loggers.filter (fun l => checkLoggerName l.name)).map
        (fun l => { l with appenders := l.appenders.filter (known.contains ·) })
    ∧ b.buildErrors = (r.rootAppenders.filter (!known.contains ·)).map BuildErr.nonexistent
        ++ r.loggers.flatMap (fun l => if checkLoggerName l.name
            then (l.appenders.filter (!known.contains ·)).map BuildErr.nonexistent
            else [BuildErr.badLoggerName l.name]) := by
  intro b known
  obtain ⟨h1, h2⟩ := buildLoggers_closed known r.loggers
  refine ⟨rfl, rfl, rfl, rfl, rfl, h1, ?_⟩
  show (stripRefs known r.rootAppenders).2 ++ (buildLoggers known r.loggers).2 = _
  rw [h2]
  rfl

/-- a dropped appender's name is no longer known: references to it are stripped and reported like
any other dangling reference (the interaction "dropped appender ⇒ its references dangle") -/
theorem C14_dropped_appender_references_dangle (r : RawLoad) (a : Key)
    (ha : a ∉ r.appenders.map (·.name)) :
    a ∉ (buildLossyNames r).rootAppenders
    ∧ (a ∈ r.rootAppenders → BuildErr.nonexistent a ∈ (buildLossyNames r).buildErrors) := by
  obtain ⟨_, _, _, _, hr, _, he⟩ := C14_lossy_isolation_dangling r
  constructor
  · rw [hr]
    simp only [List.mem_filter, not_and]
    intro _ hc
    exact ha (by simpa using hc)
  · intro hm
    rw [he]
    apply List.mem_append_left
    simp only [List.mem_map, List.mem_filter]
    exact ⟨a, ⟨hm, by simpa using ha⟩, rfl⟩

/-- REFINEMENT to C13 and C01.  On the builder that `deserialize()` fills (`toInput`; appender and
logger names are distinct because they are map keys) the fragment `buildLossyNames` IS C13's model
of `ConfigBuilder::build_lossy` (`Routing.buildLossy`): same configuration, same errors.  Hence the
result is `Valid`, and C01's theorem applies to it: the model of `Logger::log` (`Tree.deliver`)
delivers a record to exactly the attachments `Tree.specDeliver` lists — the list the observation
`written` of this slice is computed from. -/
theorem C14_builder_refines_C13_C01 (r : RawLoad)
    (hA : (r.appenders.map (·.name)).Nodup) (hL : (r.loggers.map (·.name)).Nodup) :
    (buildLossy (toInput r)).config = (buildLossyNames r).config
    ∧ (buildLossy (toInput r)).errors = (buildLossyNames r).buildErrors.map toCfgError
    ∧ Valid (buildLossyNames r).config
    ∧ ∀ target lvl, Tree.deliver (buildLossyNames r).config target lvl
        = some (Tree.specDeliver (buildLossyNames r).config target lvl) := by
  obtain ⟨h1, h2⟩ := buildLossyNames_refines r hA hL
  have hv := built_valid r hA hL
  exact ⟨h1, h2, hv, fun t l => Tree.deliver_eq_spec _ hv t l⟩

/-! ### the document of a logical configuration -/

/-- PER APPENDER: the section rendered from a well-formed logical appender (any kind; any subset of
its optional keys; encoder, policy kind, trigger and roller of every kind) is typed by the live
entry schema, and `appenders_lossy` turns it into exactly the component its meaning prescribes,
reporting exactly its broken filters. -/
theorem C14_render_interp_app (env : Env) (henv : env.Benign) (ss : Bool) (a : AppL) (d : AppenderDesc)
    (hwf : wfApp a) (hd : meaningApp a = some d) :
    ∃ t, interp ss appenderEntryS (renderApp a) = .ok t
      ∧ appenderOutcome env a.name t = (filterErrs a, .kept d) := by
  refine ⟨typedApp a, ?_, appenderOutcome_typed env henv a d hwf.1 hd⟩
  rw [appenderEntryS_live]
  exact interp_app ss a hwf

/-- THE DOCUMENT MEANS WHAT IT SAYS (canonical key order): every well-formed logical configuration
— refresh rate, root, any number of loggers and of appenders of all kinds with all their
sub-sections, every subset of optional keys omitted, level names in any letter case — rendered
into a document loads, through the lossy pipeline up to the builder input, to exactly its meaning:
the components the programmatic builders would be given, and no reports other than those of broken
filters. -/
theorem C14_render_interp (env : Env) (henv : env.Benign) (ss : Bool) (cfg : LogicalConfig)
    (hwf : WF cfg) (hb : ∀ a ∈ cfg.appenders, (meaningApp a).isSome) :
    loadRaw env ss (render cfg) = .ok (meaning cfg) :=
  loadRaw_render env henv ss cfg hwf hb

/-- EQUIVALENCE WITH THE PROGRAMMATIC CONFIGURATION: loading the document of a logical
configuration gives the same `Built` — hence the same observation, in particular the same
deliveries of every probe record to every appender (`written`, i.e. C01's `specDeliver`) — as
handing the components of its meaning to the builder directly; in both formats families. -/
theorem C14_equiv_programmatic (env : Env) (henv : env.Benign) (cfg : LogicalConfig)
    (hwf : WF cfg) (hb : ∀ a ∈ cfg.appenders, (meaningApp a).isSome) (ss : Bool) :
    loadLossy env ss (render cfg) = .ok (buildLossyNames (meaning cfg))
    ∧ loadStrict env ss (render cfg) = strictOf (meaning cfg)
    ∧ ∀ probes prog, renderLossy probes prog (loadLossy env ss (render cfg))
        = renderBuilt (buildLossyNames (meaning cfg)) probes prog := by
  have h := C14_render_interp env henv ss cfg hwf hb
  refine ⟨by simp only [loadLossy, h], ?_, fun probes prog => by simp only [loadLossy, h, renderLossy]⟩
  simp only [loadStrict, h, strictOf]

/-- the environment of the check runs is benign -/
theorem C14_realEnv_benign : realEnv.Benign := by
  refine ⟨fun p => rfl, fun s => rfl, ?_⟩
  intro u n m d
  show timeTriggerNewWith timeTriggerTotal u n m d = .ok ()
  rw [show timeTriggerTotal = true from rfl, timeTriggerNewWith_total]

/-- FULL statement (not proved in this form): the same with the entries of every map of the document
in ANY order (`shuffle seed`).  The typed table of a `mapOf` section follows the document's order, so
the conclusion is up to permutation of loggers, appenders and reports.  Checked on every generated
case by the driver (the model's observation of `shuffle seed (render cfg)` is compared with the
prescription computed from `meaning cfg`); proved below for one struct section at a time. -/
def C14_render_interp_any_order_statement : Prop :=
  ∀ (env : Env), env.Benign → ∀ (ss : Bool) (cfg : LogicalConfig) (seed : Nat),
    WF cfg → (∀ a ∈ cfg.appenders, (meaningApp a).isSome) →
    (cfg.appenders.map (·.name)).Nodup → (cfg.loggers.map (·.name)).Nodup →
    ∃ r, loadRaw env ss (shuffle seed (render cfg)) = .ok r ∧
      r.rootLevel = (meaning cfg).rootLevel ∧ r.rootAppenders = (meaning cfg).rootAppenders ∧
      r.refresh = (meaning cfg).refresh ∧ r.loggers.Perm (meaning cfg).loggers ∧
      r.appenders.Perm (meaning cfg).appenders ∧ r.errors.Perm (meaning cfg).errors

/-- Proved part of the any-order statement — key order inside a section does not matter: a struct section is interpreted
through `lookup` and key membership only, both invariant under permutation of entries with distinct
keys.  (When both orders are rejected for an unknown key, the key named in the error is the first
one met, so the comparison is on `toOption`.) -/
theorem C14_render_interp_partial_key_order (ss : Bool) (deny : Bool) (fields : List Field)
    (kvs kvs' : Entries) (hp : kvs.Perm kvs') (hnd : (keys kvs).Nodup) :
    (interp ss (.struct deny fields) (.map kvs)).toOption =
      (interp ss (.struct deny fields) (.map kvs')).toOption := by
  have hl : ∀ k, lookup k kvs = lookup k kvs' := fun k => lookup_perm k hp hnd
  have hf : interpFields ss fields kvs = interpFields ss fields kvs' :=
    interpFields_congr ss fields kvs kvs' hl
  have hmem : ∀ k, k ∈ keys kvs ↔ k ∈ keys kvs' := fun k => (List.Perm.map (fun (kv : Key × Value) => kv.1) hp).mem_iff
  have hu : unknownKey (fieldNames fields) kvs = none ↔ unknownKey (fieldNames fields) kvs' = none := by
    rw [unknownKey_none_iff, unknownKey_none_iff]
    exact ⟨fun h k hk => h k ((hmem k).mpr hk), fun h k hk => h k ((hmem k).mp hk)⟩
  simp only [interp, hf]
  cases deny with
  | false => rfl
  | true =>
    simp only [if_true]
    cases h1 : unknownKey (fieldNames fields) kvs with
    | none => rw [hu.mp h1]
    | some k =>
      cases h2 : unknownKey (fieldNames fields) kvs' with
      | none => rw [hu.mpr h2] at h1; cases h1
      | some k' => rfl

/-- the kind of a kind-tagged section does not depend on the key order either -/
theorem C14_render_interp_partial_kind_order (dflt : Option Key) (kvs kvs' : Entries)
    (hp : kvs.Perm kvs') (hnd : (keys kvs).Nodup) : kindOf dflt kvs = kindOf dflt kvs' := by
  simp only [kindOf, lookup_perm (c!"kind") hp hnd]


/-! ### Non-vacuity: concrete documents meeting the hypotheses and exercising each branch
(these are tests by evaluation, not proofs of the general statements) -/

/-- a full document: file appender with a threshold filter and a json encoder, a rolling appender
with a defaulted policy kind, root and one logger -/
def sampleDoc : Value :=
  .map [
    (c!"refresh_rate", .str (c!"30 seconds")),
    (c!"appenders", .map [
      (c!"f", .map [(c!"kind", .str (c!"file")), (c!"path", .str (c!"f.log")),
        (c!"filters", .seq [.map [(c!"kind", .str (c!"threshold")), (c!"level", .str (c!"Info"))]]),
        (c!"encoder", .map [(c!"kind", .str (c!"json"))])]),
      (c!"r", .map [(c!"path", .str (c!"r.log")), (c!"kind", .str (c!"rolling_file")),
        (c!"policy", .map [
          (c!"roller", .map [(c!"kind", .str (c!"fixed_window")), (c!"pattern", .str (c!"r.{}.log")),
            (c!"count", .int 3)]),
          (c!"trigger", .map [(c!"kind", .str (c!"size")), (c!"limit", .str (c!"10 mb"))])])])]),
    (c!"root", .map [(c!"appenders", .seq [.str (c!"f"), .str (c!"ghost")])]),
    (c!"loggers", .map [(c!"x::y", .map [(c!"level", .str (c!"WARN")), (c!"appenders", .seq [.str (c!"r")])])])]

/-- add the key at the end of the path (structural, so that `decide` can evaluate it) -/
def modifyAtKeys : List Key → Value → Value → Value
  | [], _, v => v
  | [k], x, .map kvs => .map (kvs ++ [(k, x)])
  | k :: rest, x, .map kvs =>
    .map (kvs.map (fun kv => if kv.1 = k then (kv.1, modifyAtKeys rest x kv.2) else kv))
  | _, _, v => v

structure Summary where
  rootLevel : Nat
  rootAppenders : List Key
  appenders : List Key
  buildErrors : List BuildErr
  loadErrors : List LoadErr
  refresh : Option Nat
  deriving DecidableEq

def summaryOf (o : Outcome Err Built) : Option Summary :=
  match o with
  | .ok b => some ⟨b.rootLevel, b.rootAppenders, b.appenders.map (·.name), b.buildErrors, b.loadErrors, b.refresh⟩
  | _ => none

example : summaryOf (loadLossy realEnv false sampleDoc) =
    some ⟨4, [c!"f"], [c!"f", c!"r"], [.nonexistent (c!"ghost")], [], some 30000000000⟩ := by decide
example : loadStrict realEnv false sampleDoc = .errBuild := by decide
-- an unknown key in the roller section: only that appender is dropped, and it is reported
example : summaryOf (loadLossy realEnv true (modifyAtKeys
      [c!"appenders", c!"r", c!"policy", c!"roller", c!"zzz"] (.int 1) sampleDoc)) =
    some ⟨4, [c!"f"], [c!"f"], [.nonexistent (c!"ghost"), .nonexistent (c!"r")], [.appender (c!"r")],
      some 30000000000⟩ := by decide
-- a key named `filters` in the roller section is an unknown key like any other
example : summaryOf (loadLossy realEnv true (modifyAtKeys
      [c!"appenders", c!"r", c!"policy", c!"roller", c!"filters"] (.seq []) sampleDoc)) =
    some ⟨4, [c!"f"], [c!"f"], [.nonexistent (c!"ghost"), .nonexistent (c!"r")], [.appender (c!"r")],
      some 30000000000⟩ := by decide
-- an unknown key in the root section: the document is rejected
example : (loadLossy realEnv false (modifyAtKeys [c!"root", c!"zzz"] (.int 1) sampleDoc)).isOk = false := by
  decide
-- an unknown key in the threshold filter is accepted (no deny_unknown_fields there)
example : (interp false thresholdS (.map [(c!"level", .str (c!"info")), (c!"zzz", .int 1)])).isOk = true := by
  decide
-- the hypothesis of `C14_load_total_partial` holds of the sample and fails of the witness
example : (interp false docS sampleDoc).toOption.isSome = true := by decide
example : (loadLossy realEnv false panicWitness).isPanic = true := by decide
-- one nanosecond less is a valid refresh rate
example : parseDurationFull (c!"18446744073709551615s 999999999ns") = .ok 18446744073709551615 999999999 := by
  decide
example : parseDuration (c!"1h 30m") = some 5400000000000 := by decide
-- hypotheses of `C14_render_interp` on a non-trivial configuration
example : (parseLevel (c!"wArN")).isSome = true ∧ (parseDuration (c!"30 seconds")).isSome = true := by decide
-- JSON / TOML take a sequence for the root struct, YAML does not (finding seq-for-struct)
example : (loadLossy realEnv true (.map [(c!"root", .seq [.str (c!"info"), .seq []])])).isOk = true := by decide
example : (loadLossy realEnv false (.map [(c!"root", .seq [.str (c!"info"), .seq []])])).isOk = false := by decide


/-- a logical configuration with every appender kind, a defaulted policy kind, a json encoder, a
filter list with a broken entry, dangling and doubled references -/
def sampleCfg : LogicalConfig :=
  { refresh := some (c!"1h 30m")
    root := some { level := some (c!"Info"), appenders := some [c!"f", c!"ghost", c!"f"] }
    loggers := [{ name := c!"x::y", level := c!"TRACE", additive := some false, appenders := some [c!"r", c!"c"] }]
    appenders := [
      { name := c!"c", kind := 0, filters := none, path := [], flag := none,
        enc := some { kindExplicit := false, json := false, pattern := some 2 }, target := some true,
        policyKind := false, trig := .onstartup none, roll := .delete },
      { name := c!"f", kind := 1, filters := some [c!"warn", c!"loud"], path := c!"f.log", flag := some false,
        enc := some { kindExplicit := true, json := true, pattern := none }, target := none,
        policyKind := false, trig := .onstartup none, roll := .delete },
      { name := c!"r", kind := 2, filters := some [], path := c!"r.log", flag := none, enc := none, target := none,
        policyKind := false, trig := .time (.str (c!"2 Days")) (some true) none,
        roll := .window (some 4294967295) 1 }] }

example : (sampleCfg.appenders.all (fun a => decide (a.kind ≤ 2) && encOk a.enc && (meaningApp a).isSome)) = true := by
  decide
-- the theorem's conclusion on the sample, evaluated (any key order included, here seed 4242)
example : (match loadRaw realEnv true (shuffle 4242 (render sampleCfg)) with
    | .ok r => (r.appenders.map (·.name), r.errors, r.rootAppenders, r.refresh)
    | _ => ([], [], [], none)) =
    ((meaning sampleCfg).appenders.map (·.name), (meaning sampleCfg).errors,
      (meaning sampleCfg).rootAppenders, (meaning sampleCfg).refresh) := by decide
example : (meaning sampleCfg).errors = [.filter (c!"f")] := by decide
example : ((buildLossyNames (meaning sampleCfg)).buildErrors) = [.nonexistent (c!"ghost")] := by decide
-- an unrepresentable window (last index above u32::MAX) is an appender that cannot be built
example : meaningRoll (c!"r.log") (.window (some 4294967295) 2) = none := by decide

end Log4rs.ConfigDoc
