import Log4rsModel.System.Lemmas
import Log4rsModel.Properties.C12
/-
System slice (audited under C01 through `extra_proof_modules`): the whole pipeline

  Logger::new(config) → Log::log(record) → ConfiguredLogger::find / ::log → Appender::append
  (real ThresholdFilter chain) → FileAppender::append (PatternEncoder, BufWriter, flush) → bytes in files

over a HISTORY of records, as the composition of the per-area models (System/Model.lean: `sysRun`),
against the end-to-end specification (System/Spec.lean: `specFile`). The proofs chain the areas'
property theorems: C01_deliver_eq_spec (which attachments), C03_threshold_chain_many (which of them
pass the appender's filters), C09_encode_parse_show / C09_parse_show (what is written per delivery),
C04_append_visible (what the file holds afterwards), by induction over the attachment list and over
the history (System/Lemmas.lean).

Every theorem quantifies over all configurations (any number of loggers and appenders, an appender
shared by several loggers, attached several times along one additive chain, nested chains cut by
non-additive loggers, implied intermediates), all patterns that are printed well-formed ASTs (all
formatters, nesting, specs), all thresholds, both open modes with any previous content, and all
histories (any length, any targets, levels, messages, per-record environments).
Only property theorems and examples live here.
-/
set_option linter.unusedSimpArgs false
namespace Log4rs.System
open Log4rs Log4rs.Routing Log4rs.Routing.Tree Log4rs.Pattern Log4rs.Pattern.Parse

/-- MAIN THEOREM. For every configuration whose routing part is `Valid` and whose patterns are printed
well-formed ASTs, and every history of records (chrono accepting the date formats of the patterns a
record is actually encoded with): building everything and logging the history does not panic, hands
no error to the error handler, leaves every `BufWriter` empty, and the files hold exactly what the
specification says — per appender, what opening left there followed, record by record in call order,
by as many copies of the pattern's meaning as the appender has attachments along the chain of the
record's effective logger (none when the logger's level or one of the appender's thresholds does not
admit the record). -/
theorem C01_sys_files_eq_spec (cfg : SysConfig) (asts : Name → List Pat) (h : SysWF cfg asts)
    (rs : List SysRecord) (hd : ∀ r ∈ rs, DatesOkFor cfg asts r) :
    ∃ st, sysRun cfg rs = .ok st ∧
      st.contents = specFiles cfg asts rs ∧
      (∀ a ∈ cfg.routing.appenders, st.disk a = some (specFile cfg asts a rs)) ∧
      st.errors = [] ∧ (∀ p ∈ st.apps, p.2.file.buf = []) :=
  ⟨_, sysRun_stateOf cfg asts h rs hd, contents_stateOf cfg asts _,
    fun a ha => disk_stateOf cfg asts _ a ha, rfl, quiet_stateOf cfg asts _⟩

/-- the observation the correspondence check compares (`observe ∘ sysRun`) is the specification -/
theorem C01_sys_observation_eq_spec (cfg : SysConfig) (asts : Name → List Pat) (h : SysWF cfg asts)
    (rs : List SysRecord) (hd : ∀ r ∈ rs, DatesOkFor cfg asts r) :
    observe (sysRun cfg rs) = some (specFiles cfg asts rs) := by
  obtain ⟨st, hst, hc, _⟩ := C01_sys_files_eq_spec cfg asts h rs hd
  simp [hst, observe, hc]

/-- the model's "compile the pattern once, encode per record" is the pattern area's
`PatternEncoder::new(p).encode(record)` (`Parse.run`, the object of C09) on every record, for every
appender that carries a pattern encoder -/
theorem C01_sys_encoder_is_pattern_run (cfg : SysConfig) (asts : Name → List Pat) (h : SysWF cfg asts)
    (a : Name) (ha : a ∈ cfg.routing.appenders) (hk : (cfg.app a).kind = .pattern) (r : SysRecord) :
    ∃ s cs, getApp (stateOf cfg asts fun b => Rolling.openContent (cfg.app b).mode (cfg.app b).pre).apps a = some s ∧
      s.enc = .pattern cs ∧
      sysOpen cfg = .ok (stateOf cfg asts fun b => Rolling.openContent (cfg.app b).mode (cfg.app b).pre) ∧
      encList r.env r.record cs = Parse.run cfg.cc cfg.P cfg.B r.env r.record (cfg.app a).pattern := by
  obtain ⟨hc, hrun⟩ := encode_eq_run cfg asts h a ha hk r
  exact ⟨_, _, getApp_map _ _ a ha, hc, sysOpen_ok cfg asts h, hrun⟩

/-- (stage 2 (B)) the line an appender with the JSON encoder adds per delivery is a line the C12
specification (`Json.specLine`: one line, valid JSON, the documented members in order, every field
round-trips, absent fields omitted) accepts for that record and environment -/
theorem C01_sys_json_line_meets_c12_spec (cfg : SysConfig) (asts : Name → List Pat) (a : Name)
    (hk : (cfg.app a).kind = .json) (r : SysRecord) (hm : Json.MdcIsMap (jsonEnv r)) :
    specLine cfg asts a r = utf8 (jsonOf r) ∧
    Json.specLine (jsonEnv r) (jsonRecord r) (jsonOf r) = .ok := by
  refine ⟨by simp [specLine, hk], ?_⟩
  exact Json.C12_model_satisfies_spec (jsonEnv r) (jsonRecord r) hm

/-- Isolation of files, for ANY state and any patterns (no well-formedness needed): a record that the
specification routes zero copies of to appender `a` — because `a` is not attached along the chain,
or the effective logger's level does not admit the record, or one of `a`'s thresholds rejects it —
leaves `a`'s file and writer exactly as they were, whatever happens at the other appenders. -/
theorem C01_sys_zero_copies_untouched (cfg : SysConfig) (hv : Valid cfg.routing) (st st' : FilesState)
    (r : SysRecord) (a : Name) (hc : specCopies cfg a r = 0) (hlog : sysLog cfg st r = .ok st') :
    getApp st'.apps a = getApp st.apps a ∧ st'.disk a = st.disk a := by
  have := sysLog_untouched cfg hv st st' r a hc hlog
  exact ⟨this, by simp [FilesState.disk, this]⟩

/-- … in particular a file whose appender is not on the record's chain is unchanged by that record. -/
theorem C01_sys_unrouted_files_untouched (cfg : SysConfig) (hv : Valid cfg.routing) (st st' : FilesState)
    (r : SysRecord) (a : Name)
    (hna : a ∉ chain cfg.routing (comps r.target).length (effective cfg.routing r.target))
    (hlog : sysLog cfg st r = .ok st') :
    getApp st'.apps a = getApp st.apps a ∧ st'.disk a = st.disk a := by
  apply C01_sys_zero_copies_untouched cfg hv st st' r a _ hlog
  unfold specCopies
  split
  · exact List.count_eq_zero.mpr hna
  · rfl

/-- Per file, records appear in call order and nothing is rewritten: the file after a longer history
is the file after any prefix of it followed by the contributions of the remaining records, in order. -/
theorem C01_sys_order (cfg : SysConfig) (asts : Name → List Pat) (h : SysWF cfg asts)
    (rs₁ rs₂ : List SysRecord) (hd : ∀ r ∈ rs₁ ++ rs₂, DatesOkFor cfg asts r)
    (a : Name) (ha : a ∈ cfg.routing.appenders) :
    ∃ st₁ st₂ d₁, sysRun cfg rs₁ = .ok st₁ ∧ sysRun cfg (rs₁ ++ rs₂) = .ok st₂ ∧
      st₁.disk a = some d₁ ∧
      st₂.disk a = some (d₁ ++ rs₂.flatMap (specContribution cfg asts a)) := by
  obtain ⟨st₁, h1, _, hd1, _⟩ := C01_sys_files_eq_spec cfg asts h rs₁ (fun r hr => hd r (by simp [hr]))
  obtain ⟨st₂, h2, _, hd2, _⟩ := C01_sys_files_eq_spec cfg asts h (rs₁ ++ rs₂) hd
  refine ⟨st₁, st₂, _, h1, h2, hd1 a ha, ?_⟩
  rw [hd2 a ha]
  simp [specFile, List.flatMap_append]

/-- What a reader sees after every single record (the snapshots the correspondence check takes):
the `k`-th snapshot is the specification of the first `k+1` records. -/
theorem C01_sys_snapshots_eq_spec (cfg : SysConfig) (asts : Name → List Pat) (h : SysWF cfg asts)
    (rs : List SysRecord) (hd : ∀ r ∈ rs, DatesOkFor cfg asts r) :
    (sysTrace cfg rs).length = rs.length ∧
    ∀ k, k < rs.length →
      ((sysTrace cfg rs)[k]?).map observe = some (some (specFiles cfg asts (rs.take (k + 1)))) := by
  have hlen : (sysTrace cfg rs).length = rs.length := by
    simp only [sysTrace, sysOpen_ok cfg asts h]
    exact sysTraceFrom_length_ok cfg asts h rs _ hd
  refine ⟨hlen, fun k hk => ?_⟩
  have hp : (sysTrace cfg rs)[k]? = some (sysRun cfg (rs.take (k + 1))) := by
    have hk' : k < (sysTrace cfg rs).length := by omega
    simp only [sysTrace, sysRun, sysOpen_ok cfg asts h] at hk' ⊢
    exact sysTraceFrom_prefix cfg rs _ k hk'
  rw [hp, Option.map_some,
    C01_sys_observation_eq_spec cfg asts h (rs.take (k + 1)) (fun r hr => hd r (List.mem_of_mem_take hr))]

/-- The files do not depend on the order in which loggers were declared nor on the order of the
appender table: under any reordering of both, every file ends up with the same content. -/
theorem C01_sys_independent_of_declaration_order (cfg : SysConfig) (asts : Name → List Pat)
    (h : SysWF cfg asts) (ls' : List LoggerCfg) (tbl' : List Name)
    (h1 : cfg.routing.loggers.Perm ls') (h2 : cfg.routing.appenders.Perm tbl')
    (rs : List SysRecord) (hd : ∀ r ∈ rs, DatesOkFor cfg asts r) :
    ∃ st st', sysRun cfg rs = .ok st ∧
      sysRun { cfg with routing := { cfg.routing with loggers := ls', appenders := tbl' } } rs = .ok st' ∧
      ∀ a ∈ cfg.routing.appenders, st'.disk a = st.disk a ∧ st.disk a = some (specFile cfg asts a rs) := by
  let cfg' : SysConfig := { cfg with routing := { cfg.routing with loggers := ls', appenders := tbl' } }
  have hv' : Valid cfg'.routing := C01_valid_perm cfg.routing h.valid ls' tbl' h1 h2
  have hdel : ∀ t lvl, specDeliver cfg'.routing t lvl = specDeliver cfg.routing t lvl := by
    intro t lvl
    have e := C01_perm_config cfg.routing h.valid ls' tbl' h1 h2 t lvl
    rw [C01_deliver_eq_spec _ hv', C01_deliver_eq_spec _ h.valid] at e
    exact Option.some.inj e
  have hwf' : SysWF cfg' asts :=
    { valid := hv', cc := h.cc, us := h.us, dcp := h.dcp, mdc := h.mdc, mdcE := h.mdcE,
      printed := fun a ha => h.printed a (h2.mem_iff.mpr ha),
      wf := fun a ha => h.wf a (h2.mem_iff.mpr ha),
      noRolling := fun a ha => h.noRolling a (h2.mem_iff.mpr ha) }
  have hd' : ∀ r ∈ rs, DatesOkFor cfg' asts r := by
    intro r hr a ha hc
    apply hd r hr a (h2.mem_iff.mpr ha)
    rwa [specCopies_congr cfg cfg' rfl hdel] at hc
  obtain ⟨st, hs, _, hdisk, _⟩ := C01_sys_files_eq_spec cfg asts h rs hd
  obtain ⟨st', hs', _, hdisk', _⟩ := C01_sys_files_eq_spec cfg' asts hwf' rs hd'
  refine ⟨st, st', hs, hs', fun a ha => ⟨?_, hdisk a ha⟩⟩
  rw [hdisk a ha, hdisk' a (h2.mem_iff.mp ha), specFile_congr cfg cfg' asts rfl hdel]

/-! ### non-vacuity (tests on samples, not proofs of the property)

Two appenders `f` and `g`. `f` is attached to the root, to logger `a` and to logger `a::b` (shared by
three loggers; along the additive chain of `a::b` it is attached three times), carries a threshold
filter at Info, is opened in append mode on a file that already holds `P`, and its pattern has a
width spec and a two-byte character. `g` is attached to `a`, has no filter, truncates. -/

def exF : Name := ['f']
def exG : Name := ['g']

def exRouting : Config :=
  { appenders := [exF, exG]
    rootLevel := 3
    rootAppenders := [exF]
    loggers := [
      { name := ['a', ':', ':', 'b'], level := 5, additive := true, appenders := [exF] },
      { name := ['a'], level := 4, additive := true, appenders := [exF, exG] }] }

/-- `{l:>6}é{m}{n}` -/
def exAstF : List Pat :=
  [.leaf .level false (some { align := some true, minW := some [6] }), .lit ⟨'é', .plain⟩,
   .leaf .message false none, .leaf .newline false none]

/-- `{(<{t}\)):.7}{m:*<3.3};` -/
def exAstG : List Pat :=
  [.group .align false [.lit ⟨'<', .plain⟩, .leaf .target false none, .lit ⟨')', .backslash⟩]
     (some { maxW := some [7] }),
   .leaf .message false (some { fill := some '*', align := some false, minW := some [3], maxW := some [3] }),
   .lit ⟨';', .plain⟩]

def exAsts (a : Name) : List Pat := if a = exF then exAstF else exAstG

def exCfg : SysConfig :=
  { routing := exRouting
    app := fun a =>
      if a = exF then
        { thresholds := [3], pattern := cs!"{l:>6}é{m}{n}", mode := .append, pre := some [80] }
      else
        { thresholds := [], pattern := cs!"{(<{t}\\)):.7}{m:*<3.3};", mode := .truncate, pre := some [81, 81] }
    cc := asciiClass
    P := Profile.debug64
    B := { renderOk := fun _ => true } }

def exEnv : Env :=
  { strftimeOk := fun _ => true, dateText := fun _ _ => [], threadName := none, threadId := 1, pid := 2,
    mdc := [], debugBuild := true }

def exRecords : List SysRecord := [
  -- Info to `a::b::c`: chain f (a::b), f g (a), f (root): three copies in f, one in g
  { record := { level := 3, message := ['h', 'i'], target := ['a', ':', ':', 'b', ':', ':', 'c'] }, env := exEnv },
  -- Debug to `a::b`: admitted by the logger, rejected by f's threshold (Info), written to g
  { record := { level := 4, message := ['d', 'e', 'b', 'u', 'g'], target := ['a', ':', ':', 'b'] }, env := exEnv },
  -- Trace to `a::bb` (textual, not component, prefix `a::b`): logger `a` (Debug) does not admit it
  { record := { level := 5, message := ['t'], target := ['a', ':', ':', 'b', 'b'] }, env := exEnv },
  -- Error to an unrelated target: the root, f once
  { record := { level := 1, message := ['€'], target := ['x'] }, env := exEnv }]

/-- the hypotheses of the theorems hold of the example -/
example : SysWF exCfg exAsts where
  valid := by unfold Valid; decide
  cc := by intro c hc; simp [exCfg, asciiClass, hc]
  us := rfl
  dcp := rfl
  mdc := rfl
  mdcE := rfl
  printed := by
    intro a ha _
    simp only [exCfg, exRouting, List.mem_cons, List.not_mem_nil, or_false] at ha
    rcases ha with rfl | rfl <;> rfl
  wf := by
    intro a ha _
    simp only [exCfg, exRouting, List.mem_cons, List.not_mem_nil, or_false] at ha
    rcases ha with rfl | rfl <;> decide
  noRolling := by intro a _; simp only [exCfg]; split <;> rfl

example : ∀ r ∈ exRecords, DatesOkFor exCfg exAsts r := by
  intro r _ a ha _ _
  simp only [exCfg, exRouting, List.mem_cons, List.not_mem_nil, or_false] at ha
  rcases ha with rfl | rfl <;>
    exact ⟨by intro f hf; simp [exAsts, exAstF, exAstG, exF, exG, allDatesPats, allDatesPat] at hf,
           by intro x hx; simp [exAsts, exAstF, exAstG, exF, exG, datesPats, datesPat] at hx⟩

/-- test on a sample: the copies per record — f gets 3, 0 (threshold), 0 (logger level), 1; g gets 1, 1, 0, 0 -/
example : exRecords.map (specCopies exCfg exF) = [3, 0, 0, 1] ∧
    exRecords.map (specCopies exCfg exG) = [1, 1, 0, 0] := by decide

/-- test on a sample: what the specification puts into the files
(f: `P`, then three times `  INFOéhi\n`, then ` ERRORé€\n`; g, truncated: `<a::b::hi*;<a::b)deb;`) -/
example : specFiles exCfg exAsts exRecords =
    [(exF, [80,
        32, 32, 73, 78, 70, 79, 195, 169, 104, 105, 10,
        32, 32, 73, 78, 70, 79, 195, 169, 104, 105, 10,
        32, 32, 73, 78, 70, 79, 195, 169, 104, 105, 10,
        32, 69, 82, 82, 79, 82, 195, 169, 226, 130, 172, 10]),
     (exG, [60, 97, 58, 58, 98, 58, 58, 104, 105, 42, 59,
        60, 97, 58, 58, 98, 41, 100, 101, 98, 59])] := by decide +kernel

/-- test on a sample: the model (parser, chunk table, encoder, filter loop, tree, BufWriter) computes the same -/
example : observe (sysRun exCfg exRecords) = some (specFiles exCfg exAsts exRecords) := by decide +kernel

end Log4rs.System
