import Log4rsModel.Pattern.Bridge
import Log4rsModel.Pattern.WritersLemmas3
import Log4rsModel.Pattern.EncodeLemmas
/-
C10 × C09/C11: the byte-level writer theorems speak about the real chunk table.
`toNode` maps every `Parse.Chunk` (the model of `impl From<Piece> for Chunk`) to a pattern tree of
the writer model; its `codeFmtOps` denotation is exactly `Parse.opsChunk`, the operation stream
the C09/C11 encoder model assigns to the chunk. Hence what C09 proves about `opsList` (for parsed
patterns: it is the pattern's meaning) holds for the BYTES the writer stack puts on the wire.
Only theorems here.
-/
namespace Log4rs.Pattern
open Log4rs

theorem C10_denotes_highlightNodes (level : Nat) (ns : List Node) :
    denotes (highlightNodes level ns) = Parse.wrapHighlight level (denotes ns) := by
  have happ : ∀ a b : List Node, denotes (a ++ b) = denotes a ++ denotes b := by
    intro a b
    induction a with
    | nil => simp [denotes]
    | cons n ns ih => simp [denotes, ih]
  unfold highlightNodes Parse.wrapHighlight
  cases highlightStyle level with
  | none => rfl
  | some s => simp [happ, denotes, denote, opsOf]

mutual
/-- the tree of a chunk denotes the chunk's operation stream -/
theorem C10_denote_toNode (env : Parse.Env) (r : Parse.Record) :
    ∀ c : Parse.Chunk, denote (toNode env r c) = Parse.opsChunk env r c
  | .text s => by simp [toNode, denote, Parse.opsChunk, opsOf]
  | .error e => by
    simp [toNode, denote, Parse.opsChunk, opsOf, Parse.errorMarker, ofText]
  | .leaf k p => by
    simp [toNode, denote, denotes, Parse.opsChunk, opsOf]
  | .group .align cs p => by
    rw [toNode, denote, Parse.opsChunk, C10_denotes_toNodes env r cs]
  | .group .highlight cs p => by
    rw [toNode, denote, Parse.opsChunk, C10_denotes_highlightNodes, C10_denotes_toNodes env r cs]
  | .group .debug cs p => by
    rw [toNode, Parse.opsChunk]
    cases env.debugBuild
    · rw [denote]; rfl
    · rw [denote, C10_denotes_toNodes env r cs]; rfl
  | .group .release cs p => by
    rw [toNode, Parse.opsChunk]
    cases env.debugBuild
    · simp only [Bool.not_false]; rw [denote, C10_denotes_toNodes env r cs]; rfl
    · simp only [Bool.not_true]; rw [denote]; rfl
theorem C10_denotes_toNodes (env : Parse.Env) (r : Parse.Record) :
    ∀ cs : List Parse.Chunk, denotes (toNodes env r cs) = Parse.opsList env r cs
  | [] => by simp [toNodes, denotes, Parse.opsList]
  | c :: cs => by
    rw [toNodes, denotes, Parse.opsList, C10_denote_toNode env r c, C10_denotes_toNodes env r cs]
end

/-- The byte-level writer stack, run over the chunk list of an encoder into a sink with any
acceptance oracle, emits exactly the rendering (UTF-8 of the characters, style calls in place) of
the operation stream `Parse.opsList` that the C09/C11 encoder model assigns to those chunks. -/
theorem Compose_C10_bytes_of_chunks (env : Parse.Env) (r : Parse.Record) (cs : List Parse.Chunk)
    (orc : List Nat) :
    (encodeNodes (toNodes env r cs) (W.sink orc [])).emitted = render (Parse.opsList env r cs) ∧
    bytesOf (encodeNodes (toNodes env r cs) (W.sink orc [])).emitted =
      utf8 (Parse.opsList env r cs).text := by
  have h := emitted_encodeNodes (toNodes env r cs) orc []
  rw [C10_denotes_toNodes, List.nil_append] at h
  exact ⟨h, by rw [h, bytesOf_render]⟩

/-- From the pattern string to the bytes: when `PatternEncoder::new(pattern)` (the C09/C11 model of
the parser and of `From<Piece> for Chunk`) yields the chunks `cs` and chrono renders their date
formats, the encoder model's outcome `run … pattern` is `ok o` and the byte-level writer stack over
those chunks emits exactly the rendering of the same `o`, for every acceptance oracle. -/
theorem Compose_C10_run_bytes (cc : Parse.CharClass) (P : Parse.Profile) (B : Parse.Build)
    (env : Parse.Env) (r : Parse.Record) (pattern : List Char) (cs : List Parse.Chunk)
    (orc : List Nat) (hnew : Parse.newEncoder cc P B pattern = .ok cs)
    (hd : ∀ x ∈ Parse.renderedTimesL env cs, env.strftimeOk x.1 = true) :
    ∃ o, Parse.run cc P B env r pattern = .ok o ∧
      (encodeNodes (toNodes env r cs) (W.sink orc [])).emitted = render o ∧
      bytesOf (encodeNodes (toNodes env r cs) (W.sink orc [])).emitted = utf8 o.text := by
  refine ⟨Parse.opsList env r cs, ?_, (Compose_C10_bytes_of_chunks env r cs orc).1,
    (Compose_C10_bytes_of_chunks env r cs orc).2⟩
  simp only [Parse.run, hnew]
  exact Parse.encList_eq_ops env r cs hd

end Log4rs.Pattern
