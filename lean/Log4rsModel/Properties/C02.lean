import Log4rsModel.Routing.LemmasBuild
/-
C02 — Level gating is coherent: enabled(), delivery and the global max level agree.
Only property theorems and non-vacuity examples live here; helpers are in Routing/Lemmas*.lean.
`enabled`, `maxLogLevel`, `run` (init; set_config*), `macroLog` are in Routing/Tree.lean; `specEnabled`,
`specMaxLevel` in Routing/Spec.lean.
-/
namespace Log4rs.Routing.Tree
open Log4rs

/-- `Logger::enabled` answers exactly whether the effective logger's threshold admits the level. -/
theorem C02_enabled_iff (cfg : Config) (hv : Valid cfg) (t : Name) (lvl : Nat) :
    enabled cfg t lvl = some (specEnabled cfg t lvl) := by
  obtain ⟨tree, hb, _, hdata, _⟩ := build_spec cfg hv
  have h := hdata (comps t)
  rw [res_eq_spec cfg (comps t) (comps t).length (Nat.le_refl _)] at h
  simp only [Prod.mk.injEq, fdata] at h
  simp only [enabled, hb, Option.map_some, specEnabled, specLevel_eq, effective, h.1]

/-- A record that reaches any appender was enabled (no validity hypothesis needed). -/
theorem C02_deliver_nonempty_imp_enabled (cfg : Config) (t : Name) (lvl : Nat) (ds : List Name)
    (h : deliver cfg t lvl = some ds) (hne : ds ≠ []) : enabled cfg t lvl = some true := by
  unfold deliver at h
  unfold enabled
  cases hb : build cfg with
  | none => simp [hb] at h
  | some tree =>
    simp only [hb, Option.map_some, Option.bind_some, Option.some.injEq, logNode] at h ⊢
    split at h
    · assumption
    · exact absurd (Option.some.inj h).symm hne

/-- `enabled` and delivery gate on the same threshold: with the gate open the whole chain is delivered. -/
theorem C02_enabled_imp_deliver_chain (cfg : Config) (hv : Valid cfg) (t : Name) (lvl : Nat)
    (h : enabled cfg t lvl = some true) :
    deliver cfg t lvl = some (chain cfg (comps t).length (effective cfg t)) := by
  rw [C02_enabled_iff cfg hv] at h
  have h' : admits (specLevel cfg t) lvl = true := by simpa [specEnabled] using h
  rw [deliver_eq_spec cfg hv]
  simp [specDeliver, h']

/-- `Logger::max_log_level` is the most verbose level among the root and the configured loggers:
implied intermediate nodes only copy levels that exist already. -/
theorem C02_maxLevel_eq (cfg : Config) (hv : Valid cfg) : maxLogLevel cfg = some (specMaxLevel cfg) := by
  obtain ⟨tree, hb, _, _, hm⟩ := build_spec cfg hv
  simp [maxLogLevel, hb, hm]

/-- The specification's maximum is attained and bounds every level (sanity of `specMaxLevel`). -/
theorem C02_specMaxLevel_is_max (cfg : Config) :
    cfg.rootLevel ≤ specMaxLevel cfg ∧ (∀ l ∈ cfg.loggers, l.level ≤ specMaxLevel cfg) ∧
      (specMaxLevel cfg = cfg.rootLevel ∨ ∃ l ∈ cfg.loggers, specMaxLevel cfg = l.level) := by
  unfold specMaxLevel
  generalize cfg.rootLevel = m
  induction cfg.loggers generalizing m with
  | nil => simp
  | cons x xs ih =>
    simp only [List.map_cons, List.foldl_cons]
    obtain ⟨h1, h2, h3⟩ := ih (max m x.level)
    refine ⟨by omega, ?_, ?_⟩
    · intro l hl
      rcases List.mem_cons.mp hl with rfl | hl'
      · omega
      · exact h2 l hl'
    · rcases h3 with h3 | ⟨l, hl, h3⟩
      · by_cases hm : x.level ≤ m
        · left; rw [h3]; omega
        · right; exact ⟨x, by simp, by rw [h3]; omega⟩
      · right; exact ⟨l, by simp [hl], h3⟩

/-- Invariant over all histories — any init path, then any sequence of `set_config` calls (through any clone
of the handle, on any thread, one after the other), of reconfigurations applied by the file reloader
(`.reload`), and of further (failing) initialisation attempts at any position, with any configuration
(valid or not) in the failed attempts: the facade's global maximum equals what the installed logger reports, and the installed
configuration is the last one that was *installed* (a failed attempt installs nothing). -/
theorem C02_globalMax_inv (h : History) (s : State) (hr : run h = some s) :
    maxLogLevel s.cfg = some s.globalMax ∧ s.cfg = (installedCfgs h).getLast (by simp [installedCfgs]) := by
  unfold run runWith at hr
  cases hi : install h.first with
  | none => simp [hi] at hr
  | some s0 =>
    simp only [hi] at hr
    obtain ⟨hc, hm⟩ := install_inv hi
    have := steps_inv h.steps s0 s (hc ▸ hm) hr
    rw [hc] at this
    exact this

/-- A failed re-initialisation is invisible: removing all of them from a history gives the same state. -/
theorem C02_failed_reinit_changes_nothing (h : History) :
    run h = run { h with steps := h.steps.filter fun
      | .setConfig _ => true
      | .reinit _ _ => false
      | .reload _ => true } := by
  unfold run runWith
  cases install h.first with
  | none => rfl
  | some s0 =>
    simp only
    generalize h.steps = sts
    induction sts generalizing s0 with
    | nil => rfl
    | cons st sts ih =>
      cases st with
      | setConfig c =>
        simp only [List.filter_cons, steps, step, if_true]
        cases install c with
        | none => rfl
        | some s' => exact ih s'
      | reinit p c =>
        simp only [List.filter_cons, steps, step, reinit, if_true]
        exact ih s0
      | reload c =>
        simp only [List.filter_cons, steps, step, if_true]
        cases install c with
        | none => rfl
        | some s' => exact ih s'

/-- A reconfiguration applied by the file reloader is a reconfiguration: replacing every `.reload c` of a
history by `.setConfig c` gives the same state (the reloader has no path of its own to the snapshot or to
the global maximum). -/
theorem C02_reload_is_set_config (h : History) :
    run h = run { h with steps := h.steps.map fun
      | .reload c => .setConfig c
      | st => st } := by
  unfold run runWith
  cases install h.first with
  | none => rfl
  | some s0 =>
    simp only
    generalize h.steps = sts
    induction sts generalizing s0 with
    | nil => rfl
    | cons st sts ih =>
      cases st with
      | setConfig c =>
        simp only [List.map_cons, steps, step]
        cases install c with
        | none => rfl
        | some s' => exact ih s'
      | reinit p c =>
        simp only [List.map_cons, steps, step]
        exact ih _
      | reload c =>
        simp only [List.map_cons, steps, step]
        cases install c with
        | none => rfl
        | some s' => exact ih s'

/-- … hence, for valid configurations, the most verbose level among root and loggers of the current one —
after levels went up and after they went down. -/
theorem C02_globalMax_eq_spec (h : History) (s : State) (hr : run h = some s) (hv : Valid s.cfg) :
    s.globalMax = specMaxLevel s.cfg := by
  have h1 := (C02_globalMax_inv h s hr).1
  rw [C02_maxLevel_eq s.cfg hv] at h1
  exact (Option.some.inj h1).symm

/-- A history whose installed configurations are valid always runs (no panic), whatever the init path and
whatever the failed attempts carried. -/
theorem C02_run_total (h : History) (hv : ∀ c ∈ installedCfgs h, Valid c) : (run h).isSome = true := by
  obtain ⟨s0, hs0⟩ := install_of_valid h.first (hv _ (by simp [installedCfgs]))
  simp only [run, runWith, hs0]
  refine steps_total h.steps s0 (fun st hst c hc => hv c ?_)
  simp only [installedCfgs, List.mem_cons, List.mem_filterMap]
  exact Or.inr ⟨st, hst, hc⟩

/-- What the logger reports (`Logger::max_log_level()` of the installed snapshot), the facade's global
maximum and the specification's "most verbose level among the root and all configured loggers" are one
number after every history — initialisation, reconfigurations through any handle, file reloads, failed
re-initialisations. -/
theorem C02_reported_eq_globalMax_eq_spec (h : History) (s : State) (hr : run h = some s) (hv : Valid s.cfg) :
    maxLogLevel s.cfg = some (specMaxLevel s.cfg) ∧ s.globalMax = specMaxLevel s.cfg :=
  ⟨C02_maxLevel_eq s.cfg hv, C02_globalMax_eq_spec h s hr hv⟩

/-- Logging through the macros equals routing: the facade filter `lvl ≤ max_level()` never drops a record
the installed configuration admits (and of course adds none). -/
theorem C02_macro_eq_route (h : History) (s : State) (hr : run h = some s) (t : Name) (lvl : Nat) :
    macroLog s t lvl = deliver s.cfg t lvl := by
  have hm := (C02_globalMax_inv h s hr).1
  unfold macroLog
  split
  · rfl
  · rename_i hgt
    unfold maxLogLevel at hm
    unfold deliver
    cases hb : build s.cfg with
    | none => simp [hb] at hm
    | some tree =>
      simp only [hb, Option.map_some, Option.some.injEq] at hm ⊢
      have hle := find_level_le_maxLevel tree (comps t)
      have : admits (find tree (comps t)).level lvl = false := by
        simp only [admits, decide_eq_false_iff_not]; omega
      simp [logNode, this]

/-- An enabled (target, level) pair passes the global filter. -/
theorem C02_enabled_le_globalMax (h : History) (s : State) (hr : run h = some s) (t : Name) (lvl : Nat)
    (he : enabled s.cfg t lvl = some true) : lvl ≤ s.globalMax := by
  have hm := (C02_globalMax_inv h s hr).1
  unfold maxLogLevel at hm
  unfold enabled at he
  cases hb : build s.cfg with
  | none => simp [hb] at hm
  | some tree =>
    simp only [hb, Option.map_some, Option.some.injEq] at hm he
    have hle := find_level_le_maxLevel tree (comps t)
    simp only [admits, decide_eq_true_eq] at he
    omega

/-- Macros reach exactly the appenders routing prescribes (C01's specification), after any history. -/
theorem C02_macro_eq_spec (h : History) (s : State) (hr : run h = some s) (hv : Valid s.cfg)
    (t : Name) (lvl : Nat) : macroLog s t lvl = some (specDeliver s.cfg t lvl) := by
  rw [C02_macro_eq_route h s hr, deliver_eq_spec s.cfg hv]

/-! ### non-vacuity: only a deep descendant is verbose; levels go up and then down; failed re-initialisations
(quieter, more verbose, not even valid) before, between and after the reconfigurations -/

def exQuiet : Config :=
  { appenders := [['x']], rootLevel := 1, rootAppenders := [['x']], loggers := [] }

def exDeep : Config :=
  { appenders := [['x']], rootLevel := 0, rootAppenders := []
    loggers := [
      { name := ['a', ':', ':', 'b', ':', ':', 'c'], level := 5, additive := false, appenders := [['x']] },
      { name := ['a'], level := 1, additive := true, appenders := [] }] }

def exOff : Config :=
  { appenders := [['x']], rootLevel := 0, rootAppenders := [['x']], loggers := [] }

/-- not even valid: a dangling appender reference and a malformed logger name -/
def exBroken : Config :=
  { appenders := [], rootLevel := 5, rootAppenders := [['q']],
    loggers := [{ name := ['a', ':', 'b'], level := 5, additive := true, appenders := [] }] }

def exHistory : History :=
  { path := .config, first := exQuiet,
    steps := [.reinit .rawConfig exBroken, .setConfig exDeep, .reinit .config exOff, .setConfig exQuiet,
      .reinit .configWithErrHandler exDeep] }

/-- `init_file`, then the reloader applies a document in which only a deep descendant is verbose, then a
quiet one again -/
def exReloadHistory : History :=
  { path := .file, first := exQuiet, steps := [.reload exDeep, .reinit .file exOff, .reload exQuiet] }

/-- The historical behaviour (before d39d776, `runWith false`): after a successful initialisation with the
deep-verbose configuration, a second `init_config` with an all-Off configuration failed but had already
lowered the global maximum to Off — the TRACE record the installed configuration admits (routing delivers
it to `x`, `enabled` says true) is dropped by the facade filter. -/
theorem C02_failed_reinit_broke_gating_unfixed :
    ∃ (h : History) (s : State) (t : Name) (lvl : Nat),
      (∀ c ∈ installedCfgs h, Valid c) ∧ runWith false h = some s ∧
      enabled s.cfg t lvl = some true ∧ deliver s.cfg t lvl = some [['x']] ∧ macroLog s t lvl = some [] ∧
      macroLog s t lvl ≠ deliver s.cfg t lvl ∧ maxLogLevel s.cfg ≠ some s.globalMax := by
  refine ⟨{ path := .config, first := exDeep, steps := [.reinit .config exOff] },
    { cfg := exDeep, globalMax := 0 }, ['a', ':', ':', 'b', ':', ':', 'c'], 5, ?_, ?_, ?_, ?_, ?_, ?_, ?_⟩
  · intro c hc
    have : c = exDeep := by simpa [installedCfgs, Step.installs] using hc
    subst this
    unfold Valid; decide
  all_goals decide

example : Valid exDeep := by unfold Valid; decide
example : Valid exQuiet := by unfold Valid; decide
/-- test on a sample: the global maximum follows the deep logger up … -/
example : (run { exHistory with steps := exHistory.steps.take 3 }).map (·.globalMax) = some 5 := by decide
/-- … and the quiet configuration down again -/
example : (run exHistory).map (·.globalMax) = some 1 := by decide
/-- test on a sample: a reload moves the global maximum up to the deep logger's level … -/
example : (run { exReloadHistory with steps := exReloadHistory.steps.take 2 }).map (·.globalMax) = some 5 := by decide
/-- … and the next one down again -/
example : (run exReloadHistory).map (·.globalMax) = some 1 := by decide
/-- test on a sample: a TRACE record for the deep logger passes the facade and reaches `x` -/
example : (run { exHistory with steps := exHistory.steps.take 3 }).bind
    (fun s => macroLog s ['a', ':', ':', 'b', ':', ':', 'c', ':', ':', 'd'] 5) = some [['x']] := by decide

end Log4rs.Routing.Tree
