import Log4rsModel.System.ReconfigLemmas
import Log4rsModel.System.ReconfigC15
import Log4rsModel.Properties.System
/-
System slice, stage 2 (audited under C01 through `extra_proof_modules`).

(A) Runtime reconfiguration inside the history: ops = `log record` | `setConfig bundle`
(System/Reconfig.lean: `sysRunOps`; specification System/ReconfigSpec.lean: `specOps`). The
stage-1 theorems are the one-segment case (`C01_sys_reconfig_no_setConfig`).
Only property theorems and examples live here.
-/
set_option linter.unusedSimpArgs false
namespace Log4rs.System
open Log4rs Log4rs.Routing Log4rs.Routing.Tree Log4rs.Pattern Log4rs.Pattern.Parse

/-- MAIN THEOREM (A). For every initial filesystem, every first configuration and every history of
`log` / `setConfig` ops in which each installed configuration is well-formed (`BundleWF`: stage-1
`SysWF` + no two appenders of one configuration on one path): nothing panics, no error reaches the
handler, every writer ends flushed, and EVERY path of the filesystem holds what the specification
says — per segment between reconfigurations what that segment's configuration prescribes (the
stage-1 `specFile`), on top of what the segment's appenders found when they were built: append mode
keeps what the earlier segments left, truncate mode empties the file at the construction of the new
appender; paths the current configuration does not own keep what they held. -/
theorem C01_sys_reconfig_eq_spec (fs0 : FS) (c0 : SpecBundle) (ops : List SpecOp)
    (h0 : BundleWF c0) (hok : OpsOk c0 ops) :
    ∃ w, sysRunOps fs0 c0.b (ops.map SpecOp.toOp) = .ok w ∧
      (∀ p, w.disk p = specOps fs0 c0 [] ops p) ∧
      w.st.errors = [] ∧ (∀ q ∈ w.st.apps, q.2.file.buf = []) := by
  obtain ⟨fs', c', p', _, hrun, hspec⟩ := runOps_normal ops fs0 c0 [] h0 hok
  refine ⟨worldOf fs' c' p', ?_, ?_, (worldOf_quiet fs' c' p').1, (worldOf_quiet fs' c' p').2⟩
  · simp only [sysRunOps, install_ok fs0 c0 h0, hrun]
  · intro p
    rw [worldOf_disk, hspec]

/-- the observation the correspondence check compares -/
theorem C01_sys_reconfig_observation_eq_spec (n : Nat) (fs0 : FS) (c0 : SpecBundle) (ops : List SpecOp)
    (h0 : BundleWF c0) (hok : OpsOk c0 ops) :
    observeWorld n (sysRunOps fs0 c0.b (ops.map SpecOp.toOp)) = some (specObserve n (specOps fs0 c0 [] ops)) := by
  obtain ⟨w, hw, hd, _⟩ := C01_sys_reconfig_eq_spec fs0 c0 ops h0 hok
  simp only [hw, observeWorld, specObserve, Option.some.injEq]
  exact List.map_congr_left fun p _ => hd p


/-- Snapshot semantics (C15 ∘ C01). The model lets a record run entirely under the configuration
installed last (`sysStep`). That is what the snapshot machine of C15 (Reconfig/Swap.lean, the code's
`LoadMode.once`) does with the `SharedLogger` the new configuration yields: in ANY state of that
machine, after `set_config` has stored the snapshot of a `Valid` configuration, a record logged for
the `k`-th target and run to completion by any interleaving without a further swap is delivered to
exactly the appenders `Tree.deliver` lists for the new configuration — never the old table, never a
mixture (`C15_after_swap_only_new`), with the tree and the table taken from the same value. -/
theorem C01_sys_reconfig_routes_under_new_snapshot (sys : Reconfig.Sys) (hsys : sys.Inv)
    (tag : Nat) (cfg : Config) (hv : Valid cfg) (targets : List Name) (k lvl : Nat)
    (evs : List Reconfig.Event) (hev : ∀ e ∈ evs, e.WF) (hno : ∀ s, Reconfig.Event.swap s ∉ evs) :
    ∃ new, snapshotOf tag cfg targets = some new ∧
      let sys1 := (sys.apply .once (.swap new)).apply .once (.spawn k lvl)
      ∀ th, (sys1.run .once evs).threads[sys.threads.length]? = some th → th.isDone = true →
        deliver cfg (targets.getD k []) lvl = some (th.out.map fun d => nameOf cfg.appenders d.2) := by
  obtain ⟨new, hs, hwf, hdel⟩ := snapshotOf_spec tag cfg hv targets
  refine ⟨new, hs, ?_⟩
  intro sys1 th hth hdone
  have := Reconfig.C15_after_swap_only_new sys hsys new hwf k lvl evs hev hno th hth hdone
  rw [this]
  exact hdel k lvl

/-- the specification of a history without `setConfig` is the stage-1 specification of the first
configuration built on the initial filesystem (stage 1 is the one-segment case) -/
theorem C01_sys_reconfig_no_setConfig (fs : FS) (c : SpecBundle) (pending rs : List SysRecord) :
    specOps fs c pending (rs.map SpecOp.log) = specSegment fs c (pending ++ rs) := by
  induction rs generalizing pending with
  | nil => simp [specOps]
  | cons r rs ih => simp [specOps, ih (pending ++ [r])]

/-- two segments: records, one reconfiguration, records — the second configuration is built on the
filesystem the first segment left -/
theorem C01_sys_reconfig_two_segments (fs : FS) (c0 c1 : SpecBundle) (rs₁ rs₂ : List SysRecord) :
    specOps fs c0 [] (rs₁.map SpecOp.log ++ SpecOp.setConfig c1 :: rs₂.map SpecOp.log) =
      specSegment (specSegment fs c0 rs₁) c1 rs₂ := by
  have h : ∀ (pending : List SysRecord) (rs : List SysRecord) (tail : List SpecOp),
      specOps fs c0 pending (rs.map SpecOp.log ++ tail) = specOps fs c0 (pending ++ rs) tail := by
    intro pending rs tail
    induction rs generalizing pending with
    | nil => simp
    | cons r rs ih => simp [specOps, ih (pending ++ [r])]
  rw [h [] rs₁]
  simp only [List.nil_append, specOps]
  have := C01_sys_reconfig_no_setConfig (specSegment fs c0 rs₁) c1 [] rs₂
  simpa using this

/-- how the file state is carried across a reconfiguration, per open mode of the NEW appender: a path
owned by appender `a` of the segment's configuration holds, in append mode, what the filesystem held
when the appender was built followed by the segment's contributions; in truncate mode only the
segment's contributions; a path the configuration does not own is unchanged. -/
theorem C01_sys_reconfig_open_modes (fs : FS) (c : SpecBundle) (rs : List SysRecord) (p : Nat) :
    (∀ a, owner c.b.cfg.routing.appenders c.b.paths p = some a →
      ((c.b.cfg.app a).mode = .append →
        specSegment fs c rs p = some ((fs p).getD [] ++ rs.flatMap (specContribution c.b.cfg c.asts a))) ∧
      ((c.b.cfg.app a).mode = .truncate →
        specSegment fs c rs p = some (rs.flatMap (specContribution c.b.cfg c.asts a)))) ∧
    (owner c.b.cfg.routing.appenders c.b.paths p = none → specSegment fs c rs p = fs p) := by
  refine ⟨fun a ho => ?_, fun ho => by simp [specSegment, ho]⟩
  have hp : c.b.paths a = p := by
    have := List.find?_some ho
    simpa using this
  have hcon : specContribution (reopen fs c.b) c.asts a = specContribution c.b.cfg c.asts a := rfl
  constructor
  · intro hm
    simp only [specSegment, ho, specFile, hcon]
    simp [reopen, hm, Rolling.openContent, hp]
  · intro hm
    simp only [specSegment, ho, specFile, hcon]
    simp [reopen, hm, Rolling.openContent]

/-- `OpsOk` of a history passes to its prefixes -/
theorem C01_sys_reconfig_ok_prefix (c : SpecBundle) (ops : List SpecOp) (k : Nat) (h : OpsOk c ops) :
    OpsOk c (ops.take k) := by
  induction ops generalizing c k with
  | nil => simp [OpsOk]
  | cons op ops ih =>
    cases k with
    | zero => simp [OpsOk]
    | succ k =>
      cases op with
      | log r => exact ⟨h.1, ih c k h.2⟩
      | setConfig c1 => exact ⟨h.1, ih c1 k h.2⟩

/-- What a reader sees after every single op (the snapshots the correspondence check takes): the
`k`-th snapshot is the specification of the first `k+1` ops. -/
theorem C01_sys_reconfig_snapshots_eq_spec (n : Nat) (fs0 : FS) (c0 : SpecBundle) (ops : List SpecOp)
    (h0 : BundleWF c0) (hok : OpsOk c0 ops) (k : Nat)
    (hk : k < (sysTraceOps fs0 c0.b (ops.map SpecOp.toOp)).length) :
    ((sysTraceOps fs0 c0.b (ops.map SpecOp.toOp))[k]?).map (observeWorld n) =
      some (some (specObserve n (specOps fs0 c0 [] (ops.take (k + 1))))) := by
  have hp : (sysTraceOps fs0 c0.b (ops.map SpecOp.toOp))[k]? =
      some (sysRunOps fs0 c0.b ((ops.take (k + 1)).map SpecOp.toOp)) := by
    simp only [sysTraceOps, sysRunOps, install_ok fs0 c0 h0] at hk ⊢
    rw [sysTraceOpsFrom_prefix _ _ k hk, List.map_take]
  rw [hp, Option.map_some,
    C01_sys_reconfig_observation_eq_spec n fs0 c0 _ h0 (C01_sys_reconfig_ok_prefix c0 ops (k + 1) hok)]

/-! ### non-vacuity (tests on samples, not proofs of the property)

The stage-1 example configuration (`exCfg`: appender `f` on path 0 in append mode, `g` on path 1 in
truncate mode) logs one record; then a configuration whose only appender is called `g` but writes to
path 0 — `f`'s file, under another name — in truncate mode is installed and logs one record; then a
configuration whose only appender is called `f`, attached twice to the root, on path 1 — the file the
first configuration's `g` wrote — in append mode. -/

def exB0 : SpecBundle := { b := { cfg := exCfg, paths := fun a => if a = exF then 0 else 1 }, asts := exAsts }

def exB1 : SpecBundle :=
  { b := { cfg := { exCfg with routing := { appenders := [exG], rootLevel := 5, rootAppenders := [exG], loggers := [] } },
           paths := fun _ => 0 },
    asts := exAsts }

def exB2 : SpecBundle :=
  { b := { cfg := { exCfg with routing := { appenders := [exF], rootLevel := 5, rootAppenders := [exF, exF], loggers := [] } },
           paths := fun _ => 1 },
    asts := exAsts }

def exFs0 : FS := fun p => if p = 0 then some [80] else none

def exOps : List SpecOp :=
  [.log (exRecords.getD 0 default), .setConfig exB1, .log (exRecords.getD 3 default), .setConfig exB2,
   .log (exRecords.getD 3 default)]
  where default : SysRecord := { record := { level := 1, message := [], target := [] }, env := exEnv }

private theorem exWF (c : SpecBundle) (hc : c.b.cfg.cc = asciiClass) (hP : c.b.cfg.P = Profile.debug64)
    (hB : c.b.cfg.B.mdcWhole = true) (hE : c.b.cfg.B.mdcEmptyOk = true) (happ : c.b.cfg.app = exCfg.app) (hasts : c.asts = exAsts)
    (hv : Valid c.b.cfg.routing) (hsub : ∀ a ∈ c.b.cfg.routing.appenders, a = exF ∨ a = exG)
    (hinj : PathsInj c) : BundleWF c where
  wf :=
    { valid := hv
      cc := by rw [hc]; intro ch hch; simp [asciiClass, hch]
      us := by rw [hP]; rfl
      dcp := by rw [hP]; rfl
      mdc := hB
      mdcE := hE
      printed := by
        intro a ha _
        rw [happ, hasts]
        rcases hsub a ha with rfl | rfl <;> rfl
      wf := by
        intro a ha _
        rw [hP, hasts]
        rcases hsub a ha with rfl | rfl <;> decide
      noRolling := by intro a _; rw [happ]; simp only [exCfg]; split <;> rfl }
  paths := hinj

example : BundleWF exB0 :=
  exWF exB0 rfl rfl rfl rfl rfl rfl (by unfold Valid; decide)
    (by intro a ha; simpa [exB0, exCfg, exRouting] using ha)
    (by
      intro a ha a' ha' h
      simp only [exB0, exCfg, exRouting, List.mem_cons, List.not_mem_nil, or_false] at ha ha'
      rcases ha with rfl | rfl <;> rcases ha' with rfl | rfl <;> first | rfl | (exact absurd h (by decide)))

example : BundleWF exB1 :=
  exWF exB1 rfl rfl rfl rfl rfl rfl (by unfold Valid; decide)
    (by intro a ha; right; simpa [exB1] using ha)
    (by intro a ha a' ha' _; simp only [exB1, List.mem_cons, List.not_mem_nil, or_false] at ha ha'; rw [ha, ha'])

example : BundleWF exB2 :=
  exWF exB2 rfl rfl rfl rfl rfl rfl (by unfold Valid; decide)
    (by intro a ha; left; simpa [exB2] using ha)
    (by intro a ha a' ha' _; simp only [exB2, List.mem_cons, List.not_mem_nil, or_false] at ha ha'; rw [ha, ha'])

/-- test on a sample: what the specification leaves in paths 0 and 1.
path 0: `P` + three INFO lines (segment 0, `f` appends), emptied when `g` of the second configuration
is built on it, then `<x)€**;`.  path 1: `<a::b::hi*;` from segment 0 (`g` truncated a missing file),
kept by the third configuration's append-mode `f`, which adds ` ERRORé€\n` twice. -/
example : specObserve 2 (specOps exFs0 exB0 [] exOps) =
    [some [60, 120, 41, 226, 130, 172, 42, 42, 59],
     some [60, 97, 58, 58, 98, 58, 58, 104, 105, 42, 59,
       32, 69, 82, 82, 79, 82, 195, 169, 226, 130, 172, 10,
       32, 69, 82, 82, 79, 82, 195, 169, 226, 130, 172, 10]] := by decide +kernel

/-- test on a sample: the model computes the same -/
example : observeWorld 2 (sysRunOps exFs0 exB0.b (exOps.map SpecOp.toOp)) =
    some (specObserve 2 (specOps exFs0 exB0 [] exOps)) := by decide +kernel

/-- test on a sample: after the first two ops (record, then the second configuration built and
installed) path 0 is empty — truncated at the construction of the new appender, before any record -/
example : specObserve 2 (specOps exFs0 exB0 [] (exOps.take 2)) =
    [some [], some [60, 97, 58, 58, 98, 58, 58, 104, 105, 42, 59]] := by decide +kernel

/-! ### (B) JSON-encoder appenders — non-vacuity (tests on samples)

The stage-1 example with appender `f` carrying the JSON encoder instead of its pattern (its threshold,
its three attachments along the chain of `a::b`, its append mode and the previous content `P` stay). -/

def exCfgJ : SysConfig :=
  { exCfg with app := fun a => if a = exF then { exCfg.app a with kind := .json } else exCfg.app a }

example : SysWF exCfgJ exAsts where
  valid := by unfold Valid; decide
  cc := by intro c hc; simp [exCfgJ, exCfg, asciiClass, hc]
  us := rfl
  dcp := rfl
  mdc := rfl
  mdcE := rfl
  printed := by
    intro a ha hk
    simp only [exCfgJ, exCfg, exRouting, List.mem_cons, List.not_mem_nil, or_false] at ha
    rcases ha with rfl | rfl
    · exact absurd hk (by decide)
    · rfl
  wf := by
    intro a ha hk
    simp only [exCfgJ, exCfg, exRouting, List.mem_cons, List.not_mem_nil, or_false] at ha
    rcases ha with rfl | rfl
    · exact absurd hk (by decide)
    · decide
  noRolling := by
    intro a _
    simp only [exCfgJ, exCfg]
    split <;> (try split) <;> rfl

/-- test on a sample: the line one delivery of the first record adds to `f` -/
example : specLine exCfgJ exAsts exF (exRecords.getD 0 ⟨⟨1, [], [], none, none, none⟩, exEnv⟩) =
    utf8 cs!"{\"time\":\"\",\"level\":\"INFO\",\"message\":\"hi\",\"target\":\"a::b::c\",\"thread\":null,\"thread_id\":1,\"mdc\":{}}\n" := by
  decide +kernel

/-- test on a sample: model = specification with a JSON appender next to a pattern appender;
`f` holds `P`, three copies of the first record's line and one of the last record's -/
example : observe (sysRun exCfgJ exRecords) = some (specFiles exCfgJ exAsts exRecords) ∧
    exRecords.map (specCopies exCfgJ exF) = [3, 0, 0, 1] := by decide +kernel

/-- test on a sample: every record's JSON line is accepted by the C12 specification -/
example : ∀ r ∈ exRecords, Json.specLine (jsonEnv r) (jsonRecord r) (jsonOf r) = .ok := by decide +kernel

end Log4rs.System
