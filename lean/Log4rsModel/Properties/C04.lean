import Log4rsModel.Rolling.File
namespace Log4rs.Rolling

theorem C04_flush_empties (w : BufFile) : w.flush.buf = [] := rfl

end Log4rs.Rolling
