import Log4rsModel.Rolling.LemmasConc
/-
C04 — File appender: acknowledged records are visible, whole, ordered, not interleaved.
Model: `Rolling/BufWriter.lean` (std BufWriter, capacity 1024), `Rolling/File.lean`
(FileAppender, sequential histories, the lock machine). Specification: `Rolling/Spec.lean`.

Assumption of the concurrent part, stated once: `parking_lot::Mutex` gives mutual exclusion and
the guard spans encode + flush as in `FileAppender::append` (that is how `stepThread` is
written). A guard narrowed in the code is not visible to these theorems; it is looked for by the
harness's multi-thread exploration with the critical-section amplifier.
-/
namespace Log4rs.Rolling
open FileAppender

/-- Once `append` has returned, the complete encoded record is on disk behind what was there and
nothing is left in the buffer — for every chunking the encoder may use (no slice, empty slices,
1023/1024/1025-byte slices, many slices; since 9f38f0b the record reaches the BufWriter as one
slice, `C04_append_visible_unfixed` is the same fact for the slice-by-slice code before it). -/
theorem C04_append_visible (w : BufFile) (r : Rec) (hq : w.buf = []) :
    (append w r).disk = w.disk ++ encBytes r ∧ (append w r).buf = [] := by
  simp [append_disk, hq]

/-- the same for the code before 9f38f0b, where every slice of the encoder went through the spill
rule on its own -/
theorem C04_append_visible_unfixed (w : BufFile) (r : Rec) (hq : w.buf = []) :
    (encodeUnfixed w r).flush.disk = w.disk ++ encBytes r ∧ (encodeUnfixed w r).flush.buf = [] := by
  have := BufFile.logical_foldl_writeAll r w
  simp only [BufFile.logical] at this
  simp [encodeUnfixed, encBytes, this, hq]

/-- Only the bytes matter: two chunkings of the same record leave the same file. -/
theorem C04_chunking_irrelevant (w : BufFile) (r₁ r₂ : Rec) (hq : w.buf = [])
    (h : encBytes r₁ = encBytes r₂) : append w r₁ = append w r₂ := by
  have h1 := C04_append_visible w r₁ hq
  have h2 := C04_append_visible w r₂ hq
  cases h₁ : append w r₁; cases h₂ : append w r₂
  simp_all

/-- After any sequence of appends the file is exactly what open left there followed by the whole
records in call order. -/
theorem C04_history_concat (m : OpenMode) (pre : Option Bytes) (rs : List Rec) :
    (runOps m (build m pre) (rs.map Op.append)).disk = openContent m pre ++ rs.flatMap encBytes ∧
    (runOps m (build m pre) (rs.map Op.append)).buf = [] :=
  runOps_appends m rs (build m pre) rfl

/-- Observed after every single call, for every history of appends and restarts in both modes:
what another reader sees is what the statement says (`Spec.expectedTrace`): append mode keeps
everything ahead of the new records, truncate mode discards at open time only. -/
theorem C04_trace_eq_spec (m : OpenMode) (pre : Option Bytes) (ops : List Op) :
    trace m (build m pre) ops = Spec.expectedTrace m pre ops :=
  trace_eq_fileTrace m ops (build m pre) rfl

/-- the two open modes -/
theorem C04_open_modes (c : Bytes) :
    openContent .append (some c) = c ∧ openContent .append none = [] ∧
    (∀ pre, openContent .truncate pre = []) := ⟨rfl, rfl, fun _ => rfl⟩


/-- Several handles, failing encoders, external truncation — the repaired crate, BOTH open modes.
For every history of appends through any number of `FileAppender`s on the same path, encoders that
fail after any number of slices, foreign `O_APPEND` writes between them, external truncations of the
file to length 0, further appenders being built, and restarts: after every single operation the file
is the plain concatenation, in call order, of what the last open/truncation left, the whole
acknowledged records and the foreign appends since — nothing acknowledged or foreign is overwritten or
cut, no hole appears, and a failed append leaves no trace. Every descriptor `build` opens has
`O_APPEND` (`truncateUsesAppendFlag = true`: since the repair truncate mode opens with `append(true)`
and truncates explicitly), so the kernel puts every write at the current end of the file — that
placement is the modelled assumption, the per-descriptor offset of a handle without the flag is
modelled too (`Handles.commit`, `writeAt`) and is what makes the unrepaired variant fail below. -/
theorem C04_multi_trace_eq_spec (m : OpenMode) (pre : Option Bytes) (ops : List MOp)
    (hv : validOps 1 ops = true) :
    Handles.traceV true m (Handles.init m pre true) ops = Spec.expectedTraceM m pre ops :=
  Handles.traceV_eq_fileTraceM true m (Or.inr rfl) ops _ (Handles.init_quiet m pre true)
    (Handles.init_allAppend m pre true (Or.inr rfl)) hv

/-- the model the driver runs against the crate (`Handles.trace`, default flags) is that repaired
variant, so the same holds of it: all modes, full strength -/
theorem C04_multi_trace_eq_spec_default (m : OpenMode) (pre : Option Bytes) (ops : List MOp)
    (hv : validOps 1 ops = true) :
    Handles.trace m (Handles.init m pre) ops = Spec.expectedTraceM m pre ops := by
  rw [Handles.trace_eq_traceV]
  exact C04_multi_trace_eq_spec m pre ops hv

/-- The crate before the repair (`truncateUsesAppendFlag = false`): the same statement restricted,
visibly, to append mode — the only mode in which its descriptors had `O_APPEND`. -/
theorem C04_multi_trace_eq_spec_unfixed_partial (pre : Option Bytes) (ops : List MOp)
    (hv : validOps 1 ops = true) :
    Handles.traceV false .append (Handles.init .append pre false) ops = Spec.expectedTraceM .append pre ops :=
  Handles.traceV_eq_fileTraceM false .append (Or.inl rfl) ops _ (Handles.init_quiet .append pre false)
    (Handles.init_allAppend .append pre false (Or.inl rfl)) hv

/-- … and the full statement is FALSE of the crate before the repair (former finding
`C04/seq-truncate-private-offset`): a truncate-mode appender acknowledges `[1,2,3]`, the file is
truncated from outside, the appender acknowledges `[4]` — which lands at the stale offset 3 behind a
hole of three NUL bytes instead of being the file. -/
theorem C04_truncate_private_offset_unfixed :
    ¬ (∀ (m : OpenMode) (pre : Option Bytes) (ops : List MOp), validOps 1 ops = true →
        Handles.traceV false m (Handles.init m pre false) ops = Spec.expectedTraceM m pre ops) := by
  intro h
  have := h .truncate none [.append 0 [[1, 2, 3]] none, .truncate, .append 0 [[4]] none] (by decide)
  revert this
  decide

/-- the other faces of the same defect, as tests on samples of the unrepaired variant: a second
truncate-mode appender (configuration reload overlap) — the older appender's next record `[3]`
overwrites the second byte of the newer one's acknowledged `[2,2]`; a foreign `>>` append `[7,7]` is
overwritten by the appender's next record `[5]`. The repaired variant keeps everything. -/
theorem C04_truncate_private_offset_overwrites_unfixed :
    Handles.traceV false .truncate (Handles.init .truncate none false)
      [.append 0 [[1]] none, .build, .append 1 [[2, 2]] none, .append 0 [[3]] none] = [[1], [], [2, 2], [2, 3]] ∧
    Handles.traceV true .truncate (Handles.init .truncate none true)
      [.append 0 [[1]] none, .build, .append 1 [[2, 2]] none, .append 0 [[3]] none] = [[1], [], [2, 2], [2, 2, 3]] ∧
    Handles.traceV false .truncate (Handles.init .truncate none false)
      [.append 0 [[1]] none, .foreign [7, 7], .append 0 [[5]] none] = [[1], [1, 7, 7], [1, 5, 7]] ∧
    Handles.traceV true .truncate (Handles.init .truncate none true)
      [.append 0 [[1]] none, .foreign [7, 7], .append 0 [[5]] none] = [[1], [1, 7, 7], [1, 7, 7, 5]] := by
  decide

/-- The former defect (`C04/seq-encoder-error-torn`, repaired by 9f38f0b), as a test on a sample of
the historical semantics `traceUnfixed`: an encoder that failed after its first slice left that
slice in the BufWriter, and the appender's next record carried it into the file — `[1]` of the
failed record `[1][2]` in front of `[3]`. -/
theorem C04_encoder_error_tears_unfixed (m : OpenMode) :
    Handles.traceUnfixed m (Handles.init m none) [.append 0 [[1], [2]] (some 1), .append 0 [[3]] none] = [[], [1, 3]] ∧
    Handles.trace m (Handles.init m none) [.append 0 [[1], [2]] (some 1), .append 0 [[3]] none] = [[], [3]] := by
  cases m <;> decide

/-- Every state any scheduler can reach from the start of `progs` (the per-thread lists of
appends) satisfies:
* lock free ⇒ nothing is buffered and the file is `initial ++` the committed records, whole, in
  commit order;
* the commit log is a merge of the threads' sequences: restricted to thread `j` it is exactly what
  `j` has had acknowledged (plus the record `j` has flushed but not yet returned from), every entry
  belongs to a thread, and what a thread has acknowledged is a prefix of its program — so nothing is
  lost, duplicated or reordered;
* lock held by thread `h` ⇒ `h` is inside `append` for the record `r` at the head of its remaining
  program, and the file is the committed whole records followed by a prefix of THAT record's bytes
  (while `h` is writing `r`), or exactly the committed records, `r` being the last of them (once `h`
  has flushed) — never a mixture, never bytes of another thread's record. -/
theorem C04_schedule_serial (m : OpenMode) (pre : Option Bytes) (progs : List (List Rec)) (sched : List Nat) :
    let s := runSched (CState.init m pre progs) sched
    (s.holder = none → s.w.buf = [] ∧ s.w.disk = openContent m pre ++ s.committed) ∧
    (∀ j t, s.threads[j]? = some t →
        ∃ p, progs[j]? = some p ∧ t.acked <+: p ∧
          (s.logOf j = t.acked ∨ ∃ r, t.pc = .flushed r ∧ s.logOf j = t.acked ++ [r])) ∧
    (∀ e ∈ s.log, e.1 < progs.length) ∧
    (∀ h, s.holder = some h → ∃ t r tl, s.threads[h]? = some t ∧ t.todo = r :: tl ∧
        ((∃ dn rest q, t.pc = .writing r dn rest ∧ q <+: encBytes r ∧
            s.w.disk = openContent m pre ++ s.committed ++ q) ∨
         (t.pc = .flushed r ∧ s.w.disk = openContent m pre ++ s.committed))) := by
  intro s
  have inv : CInv progs (openContent m pre) s := (CInv.init m pre progs).run sched
  have rng : LogRange progs.length s :=
    LogRange.run sched (s := CState.init m pre progs) ⟨by simp [CState.init], by simp [CState.init]⟩
  refine ⟨?_, ?_, rng.2, ?_⟩
  · intro hh
    have lk := inv.lockOk
    simp only [LockOk, hh] at lk
    exact ⟨lk.2.1, lk.2.2⟩
  · intro j t ht
    obtain ⟨⟨p, hp1, hp2⟩, hl⟩ := inv.threadsOk j t ht
    refine ⟨p, hp1, ⟨t.todo, hp2⟩, ?_⟩
    cases hpc : t.pc with
    | idle => simp only [hpc] at hl; exact Or.inl hl
    | writing r dn rest => simp only [hpc] at hl; exact Or.inl hl.1
    | flushed r => simp only [hpc] at hl; exact Or.inr ⟨r, rfl, hl.1⟩
  · intro h hh
    have lk := inv.lockOk
    simp only [LockOk, hh] at lk
    obtain ⟨t, ht, _, hbody⟩ := lk
    obtain ⟨_, hl⟩ := inv.threadsOk h t ht
    cases hpc : t.pc with
    | idle => simp [hpc] at hbody
    | writing r dn rest =>
      simp only [hpc] at hbody hl
      obtain ⟨q, hq1, hq2⟩ := hbody
      obtain ⟨tl, htl⟩ := hl.2.1
      refine ⟨t, r, tl, ht, htl, Or.inl ⟨dn, rest, q, hpc, ?_, hq1⟩⟩
      refine ⟨s.w.buf ++ rest.flatten, ?_⟩
      have hfl : encBytes r = (dn ++ rest).flatten := by rw [← hl.2.2]; simp
      rw [← List.append_assoc, hq2, hfl]
      simp
    | flushed r =>
      simp only [hpc] at hbody hl
      obtain ⟨tl, htl⟩ := hl.2
      exact ⟨t, r, tl, ht, htl, Or.inr ⟨hpc, hbody.2⟩⟩

/-- In particular: when all threads have finished, the file is `initial ++` a merge of all the
threads' programs, each thread's records in its own order. -/
theorem C04_quiescent_all_done (m : OpenMode) (pre : Option Bytes) (progs : List (List Rec)) (sched : List Nat)
    (hdone : ∀ (j : Nat) (t : Thread), (runSched (CState.init m pre progs) sched).threads[j]? = some t →
      t.todo = [] ∧ t.pc = Pc.idle) :
    let s := runSched (CState.init m pre progs) sched
    s.w.disk = openContent m pre ++ s.committed ∧ ∀ j p, progs[j]? = some p → s.logOf j = p := by
  intro s
  have inv : CInv progs (openContent m pre) s := (CInv.init m pre progs).run sched
  have rng : LogRange progs.length s :=
    LogRange.run sched (s := CState.init m pre progs) ⟨by simp [CState.init], by simp [CState.init]⟩
  have hfree : s.holder = none := by
    cases hh : s.holder with
    | none => rfl
    | some h =>
      have lk := inv.lockOk
      simp only [LockOk, hh] at lk
      obtain ⟨t, ht, _, hbody⟩ := lk
      have := (hdone h t ht).2
      simp [this] at hbody
  have lk := inv.lockOk
  simp only [LockOk, hfree] at lk
  refine ⟨lk.2.2, ?_⟩
  intro j p hp
  have hj : j < s.threads.length := by
    rw [rng.1]
    exact (List.getElem?_eq_some_iff.mp hp).1
  have ht : s.threads[j]? = some s.threads[j] := List.getElem?_eq_getElem hj
  obtain ⟨⟨p', hp1, hp2⟩, hl⟩ := inv.threadsOk j _ ht
  have hd := hdone j _ ht
  rw [hp] at hp1
  have : p' = p := (Option.some.inj hp1).symm
  subst this
  simp only [hd.2] at hl
  rw [hd.1] at hp2
  simpa [CState.logOf, hl] using hp2

/-! ### non-vacuity (tests on samples, not proofs of the property) -/

/-- two appenders on one path and a foreign writer in between: everything is kept, in call order -/
example :
    Handles.trace .append (Handles.init .append (some [0]))
      [.append 0 [[1]] none, .build, .append 0 [[2]] none, .foreign [7, 7], .append 1 [[3]] none, .append 0 [[4]] none]
      = [[0, 1], [0, 1], [0, 1, 2], [0, 1, 2, 7, 7], [0, 1, 2, 7, 7, 3], [0, 1, 2, 7, 7, 3, 4]] := by
  decide

/-- every branch of the spill rule is reachable (slice-by-slice code): fill exactly, spill, write-through -/
example : (encodeUnfixed (build .append (some [1, 2])) [List.replicate 1000 7, List.replicate 24 8, [9]]).flush.disk.length = 1027 := by
  decide +kernel

/-- a record larger than the buffer is written through in one piece -/
example : (append (build .append (some [1, 2])) [List.replicate 1000 7, List.replicate 24 8, [9]]).disk.length = 1027 := by
  decide +kernel

/-- two threads, records of 1500 and 3 bytes; the scheduler switches to thread 1 while thread 0
is inside the critical section (thread 1's picks are skipped: it is blocked on the lock) -/
example :
    let s := runSched (CState.init .truncate none [[[List.replicate 1500 1]], [[[2, 2, 2]]]]) [0, 1, 0, 1, 1, 0, 1, 0, 1, 1, 1, 1]
    s.holder = none ∧ s.w.disk = List.replicate 1500 1 ++ [2, 2, 2] ∧ s.log.map (·.1) = [0, 1] := by
  decide +kernel

/-- the same programs under another schedule commit in the other order -/
example :
    let s := runSched (CState.init .truncate none [[[List.replicate 1500 1]], [[[2, 2, 2]]]]) [1, 0, 1, 0, 1, 1, 0, 0, 0, 0]
    s.holder = none ∧ s.w.disk = [2, 2, 2] ++ List.replicate 1500 1 ∧ s.log.map (·.1) = [1, 0] := by
  decide +kernel

end Log4rs.Rolling
