import Log4rsModel.Literals.Lemmas
/-
C20 — Size and interval literals parse exactly; bad or overflowing ones are rejected.
Only property theorems and non-vacuity examples live here; helpers are in Literals/Lemmas.lean.
-/
namespace Log4rs.Literals
open Log4rs.Str

/-- The model of the size visitor agrees with the specification on every scalar. -/
theorem C20_size_eq_spec (sc : Scalar) : exceptToOption (parseSize sc) = specSize sc := by
  cases sc with
  | other => rfl
  | int n =>
    simp only [parseSize, specSize]
    by_cases h0 : 0 ≤ n
    · by_cases h1 : n.toNat ≤ U64_MAX <;> simp [h0, h1, exceptToOption]
    · simp only [h0, if_false]; split <;> rfl
  | str s =>
    simp only [parseSize, specSize, parseSizeStr, splitNumberUnit, denote]
    have hds := takeWhile_all isAsciiDigit s
    generalize hd : s.takeWhile isAsciiDigit = ds at *
    have hsplit := take_drop_while isAsciiDigit s
    rw [hd] at hsplit
    cases hr : s.dropWhile isAsciiDigit with
    | nil =>
      rw [hr] at hsplit
      simp only [List.append_nil] at hsplit
      subst hsplit
      simp only [trim_digits ds hds]
      by_cases he : ds = []
      · subst he; simp [parseUnsigned, parseDigits, stripPlus, exceptToOption]
      · rw [parseUnsigned_digits _ ds he hds]
        by_cases hm : digitsVal ds ≤ U64_MAX <;> simp [he, hm, exceptToOption]
    | cons c t =>
      simp only [trim_digits ds hds]
      by_cases he : ds = []
      · subst he; simp [parseUnsigned, parseDigits, stripPlus, exceptToOption]
      · rw [parseUnsigned_digits _ ds he hds]
        simp only [he, List.isEmpty_iff, if_false, List.isEmpty_cons, Bool.false_eq_true]
        cases hl : lookupUnit sizeUnitTable (trim (c :: t)) with
        | none =>
          by_cases hm : digitsVal ds ≤ U64_MAX <;> simp [hm, exceptToOption]
        | some mult =>
          obtain ⟨e, hemem, hemult, _⟩ := lookupUnit_mem _ _ _ hl
          have hpos : 1 ≤ mult := hemult ▸ sizeUnit_pos e hemem
          by_cases hm : digitsVal ds ≤ U64_MAX
          · by_cases hmm : digitsVal ds * mult ≤ U64_MAX <;> simp [hm, hmm, exceptToOption]
          · have : ¬ digitsVal ds * mult ≤ U64_MAX := by
              intro hc
              have : digitsVal ds ≤ digitsVal ds * mult := Nat.le_mul_of_pos_right _ hpos
              omega
            simp [hm, this, exceptToOption]


/-- Same for the interval visitor (with the integer range check of the `fix:` commit). -/
theorem C20_interval_eq_spec (sc : Scalar) :
    exceptToOption (parseInterval sc) = specInterval sc := by
  cases sc with
  | other => rfl
  | int n =>
    simp only [parseInterval, parseIntervalWith, specInterval]
    by_cases h0 : 0 ≤ n
    · by_cases h1 : n.toNat ≤ I64_MAX
      · simp [h0, h1, exceptToOption]
      · simp only [h0, h1, if_true, if_false, and_false]
        split <;> rfl
    · simp only [h0, if_false, false_and]; split <;> rfl
  | str s =>
    simp only [parseInterval, parseIntervalWith, specInterval, parseIntervalStr, splitNumberUnit,
      denote]
    have hds := takeWhile_all isAsciiDigit s
    generalize hd : s.takeWhile isAsciiDigit = ds at *
    have hsplit := take_drop_while isAsciiDigit s
    rw [hd] at hsplit
    have hsigned : ∀ (hne : ds ≠ []), parseSigned ds =
        if digitsVal ds ≤ I64_MAX then some (Int.ofNat (digitsVal ds)) else none := by
      intro hne
      cases hdd : ds with
      | nil => exact absurd hdd hne
      | cons a t =>
        have ha : a ≠ '-' := by
          intro e; subst e
          have := hds '-' (by simp [hdd])
          simp [isAsciiDigit] at this
        have : parseSigned (a :: t) = (parseUnsigned I64_MAX (a :: t)).map Int.ofNat := by
          unfold parseSigned
          split
          · rename_i r heq; simp at heq; exact absurd heq.1 ha
          · rfl
        rw [this, parseUnsigned_digits _ (a :: t) (by simp) (by rw [← hdd]; exact hds)]
        split <;> simp
    cases hr : s.dropWhile isAsciiDigit with
    | nil =>
      rw [hr] at hsplit
      simp only [List.append_nil] at hsplit
      subst hsplit
      simp only [trim_digits ds hds]
      by_cases he : ds = []
      · subst he; simp [parseSigned, parseUnsigned, parseDigits, stripPlus, exceptToOption]
      · rw [hsigned he]
        have hnn : ¬ ((digitsVal ds : Int) < 0) := by omega
        by_cases hm : digitsVal ds ≤ I64_MAX <;> simp [he, hm, hnn, exceptToOption]
    | cons c t =>
      simp only [trim_digits ds hds]
      by_cases he : ds = []
      · subst he; simp [parseSigned, parseUnsigned, parseDigits, stripPlus, exceptToOption]
      · rw [hsigned he]
        simp only [he, List.isEmpty_iff, if_false, List.isEmpty_cons, Bool.false_eq_true]
        by_cases hm : digitsVal ds ≤ I64_MAX
        · have : ¬ ((digitsVal ds : Int) < 0) := by omega
          cases hl : lookupUnit timeUnitTable (trim (c :: t)) <;>
            simp [hm, this, exceptToOption]
        · cases hl : lookupUnit timeUnitTable (trim (c :: t)) <;> simp [hm, exceptToOption]

/-! ### The statement's clauses, one theorem each (all on the model of the code) -/

/-- '<number><unit>': any letter case, optional white space between number and unit (and after the
unit): exactly number × unit when it fits in `u64`, rejected otherwise — never wrapped. -/
theorem C20_size_number_unit (e : List Char × Nat) (he : e ∈ sizeUnitTable)
    (ds ws u ws' : List Char) (hne : ds ≠ []) (hds : ∀ c ∈ ds, isAsciiDigit c = true)
    (hws : ∀ c ∈ ws, isWhitespace c = true) (hws' : ∀ c ∈ ws', isWhitespace c = true)
    (hu : eqIgnoreAsciiCase u e.1 = true) :
    exceptToOption (parseSize (.str (ds ++ (ws ++ (u ++ ws'))))) =
      if digitsVal ds * e.2 ≤ U64_MAX then some (digitsVal ds * e.2) else none := by
  rw [C20_size_eq_spec]
  simp only [specSize, denote_unit sizeUnitTable sizeUnit_self sizeUnit_lower e he ds ws u ws'
    hne hds hws hws' hu]

/-- a bare number means bytes -/
theorem C20_size_bare (ds : List Char) (hne : ds ≠ []) (hds : ∀ c ∈ ds, isAsciiDigit c = true) :
    exceptToOption (parseSize (.str ds)) =
      if digitsVal ds ≤ U64_MAX then some (digitsVal ds) else none := by
  rw [C20_size_eq_spec]
  simp only [specSize, denote_bare sizeUnitTable ds hne hds]

/-- whatever is accepted is a digit string followed by nothing or by a known unit word, and the
value is the exact product, which fits in `u64`: negative numbers, leading signs or spaces,
fractions, unknown units, junk suffixes and overflowing values are all rejected. -/
theorem C20_size_accept_sound (s : List Char) (v : Nat) (h : parseSize (.str s) = .ok v) :
    v ≤ U64_MAX ∧ ∃ ds rest, s = ds ++ rest ∧ ds ≠ [] ∧ (∀ c ∈ ds, isAsciiDigit c = true) ∧
      ((rest = [] ∧ v = digitsVal ds) ∨
       (∃ e ∈ sizeUnitTable, eqIgnoreAsciiCase (trim rest) e.1 = true ∧ v = digitsVal ds * e.2)) := by
  have hs : specSize (.str s) = some v := by rw [← C20_size_eq_spec, h]; rfl
  simp only [specSize] at hs
  cases hd : denote sizeUnitTable s with
  | none => simp [hd] at hs
  | some p =>
    obtain ⟨n, o⟩ := p
    obtain ⟨ds, rest, hsplit, hne, hds, hn, hcase⟩ := denote_some _ _ _ _ hd
    rw [hd] at hs
    rcases hcase with ⟨hr, ho⟩ | ⟨e, hemem, ho, heq⟩
    · subst ho
      simp only at hs
      split at hs
      · simp at hs; subst hs
        exact ⟨by assumption, ds, rest, hsplit, hne, hds, Or.inl ⟨hr, hn⟩⟩
      · simp at hs
    · subst ho
      simp only at hs
      split at hs
      · simp at hs; subst hs
        exact ⟨by assumption, ds, rest, hsplit, hne, hds, Or.inr ⟨e, hemem, heq, by rw [hn]⟩⟩
      · simp at hs

/-- a string that does not start with an ASCII digit (sign, space, letter, empty) is rejected -/
theorem C20_size_leading_nondigit_rejected (s : List Char)
    (h : s = [] ∨ ∃ c t, s = c :: t ∧ isAsciiDigit c = false) :
    exceptToOption (parseSize (.str s)) = none := by
  cases hp : parseSize (.str s) with
  | error _ => rfl
  | ok v =>
    obtain ⟨_, ds, rest, hsplit, hne, hds, _⟩ := C20_size_accept_sound s v hp
    exfalso
    cases ds with
    | nil => exact hne rfl
    | cons a t =>
      rcases h with rfl | ⟨c, t', rfl, hc⟩
      · simp at hsplit
      · simp at hsplit
        have := hds a (by simp)
        rw [← hsplit.1] at this
        rw [this] at hc
        exact absurd hc (by simp)

/-- integer scalars: exactly the non-negative 64-bit values are accepted, unchanged -/
theorem C20_size_int (n : Int) :
    exceptToOption (parseSize (.int n)) = if 0 ≤ n ∧ n.toNat ≤ U64_MAX then some n.toNat else none := by
  rw [C20_size_eq_spec]; rfl

theorem C20_interval_number_unit (e : List Char × TUnit) (he : e ∈ timeUnitTable)
    (ds ws u ws' : List Char) (hne : ds ≠ []) (hds : ∀ c ∈ ds, isAsciiDigit c = true)
    (hws : ∀ c ∈ ws, isWhitespace c = true) (hws' : ∀ c ∈ ws', isWhitespace c = true)
    (hu : eqIgnoreAsciiCase u e.1 = true) :
    exceptToOption (parseInterval (.str (ds ++ (ws ++ (u ++ ws'))))) =
      if digitsVal ds ≤ I64_MAX then some (e.2, (digitsVal ds : Int)) else none := by
  rw [C20_interval_eq_spec]
  simp only [specInterval, denote_unit timeUnitTable timeUnit_self timeUnit_lower e he ds ws u ws'
    hne hds hws hws' hu]

theorem C20_interval_bare (ds : List Char) (hne : ds ≠ []) (hds : ∀ c ∈ ds, isAsciiDigit c = true) :
    exceptToOption (parseInterval (.str ds)) =
      if digitsVal ds ≤ I64_MAX then some (.second, (digitsVal ds : Int)) else none := by
  rw [C20_interval_eq_spec]
  simp only [specInterval, denote_bare timeUnitTable ds hne hds]

/-- no accepted interval is negative or out of `i64` range — for every scalar form (this is the
clause the original code violated for integer scalars above `i64::MAX`, finding F8) -/
theorem C20_interval_never_wraps (sc : Scalar) (u : TUnit) (k : Int)
    (h : parseInterval sc = .ok (u, k)) : 0 ≤ k ∧ k ≤ (I64_MAX : Int) := by
  have hs : specInterval sc = some (u, k) := by rw [← C20_interval_eq_spec, h]; rfl
  cases sc with
  | other => simp [specInterval] at hs
  | int n =>
    simp only [specInterval] at hs
    split at hs
    · rename_i hc; simp at hs; rw [← hs.2]; omega
    · simp at hs
  | str s =>
    simp only [specInterval] at hs
    split at hs
    · simp at hs
    · split at hs
      · simp at hs; rw [← hs.2]; omega
      · simp at hs
    · split at hs
      · simp at hs; rw [← hs.2]; omega
      · simp at hs

/-- F8, historical: the unfixed integer path wraps `2^64 - 1` to `-1`. -/
theorem C20_F8_unfixed_wraps :
    parseIntervalWith false (.int 18446744073709551615) = .ok (.second, -1) := by
  simp [parseIntervalWith, I64_MAX, U64_MAX]

/-! ### Non-vacuity: concrete inputs meeting the hypotheses and exercising each branch -/

example : exceptToOption (parseSize (.str "10 Kb".toList)) = some 10240 := by decide
example : exceptToOption (parseSize (.str "16777216 TiB".toList)) = none := by decide
example : exceptToOption (parseSize (.str "16777215tb".toList)) = some 18446742974197923840 := by decide
example : exceptToOption (parseSize (.str "18446744073709551616".toList)) = none := by decide
example : exceptToOption (parseSize (.str "-1".toList)) = none := by decide
example : exceptToOption (parseSize (.str "1.5kb".toList)) = none := by decide
example : exceptToOption (parseInterval (.str "7 Days".toList)) = some (.day, 7) := by decide
example : exceptToOption (parseInterval (.int 18446744073709551615)) = none := by decide

end Log4rs.Literals
