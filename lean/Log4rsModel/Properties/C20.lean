import Log4rsModel.Literals.Lemmas
import Log4rsModel.Literals.DurationArith
/-
C20 — Size and interval literals parse exactly; bad or overflowing ones are rejected.
Only property theorems and non-vacuity examples live here; helpers are in Literals/Lemmas.lean.
-/
namespace Log4rs.Literals
open Log4rs.Str Log4rs

/-! ### The vocabulary of the statement -/

/-- "number": the value of a digit string is the number its decimal numeral denotes -/
theorem C20_digitsVal_decimal (n : Nat) : digitsVal (Nat.toDigits 10 n) = n := by
  rw [digitsVal_eq]; exact Nat.ofDigitChars_ten_toDigits

/-- leading zeros do not change it -/
theorem C20_digitsVal_leading_zeros (k : Nat) (ds : List Char) :
    digitsVal (List.replicate k '0' ++ ds) = digitsVal ds := by
  rw [digitsVal_eq, digitsVal_eq, Nat.ofDigitChars_append]; simp

/-- "white space": `isWhitespace` is exactly the 25 code points of the Unicode White_Space property -/
theorem C20_whitespace_table (c : Char) :
    isWhitespace c = true ↔ c.toNat ∈ [9, 10, 11, 12, 13, 0x20, 0x85, 0xA0, 0x1680, 0x2000, 0x2001, 0x2002,
      0x2003, 0x2004, 0x2005, 0x2006, 0x2007, 0x2008, 0x2009, 0x200A, 0x2028, 0x2029, 0x202F, 0x205F, 0x3000] := by
  simp only [isWhitespace, List.mem_cons, List.mem_nil_iff, or_false, Bool.or_eq_true, Bool.and_eq_true,
    decide_eq_true_eq]
  omega

/-- "powers of 1024 for b/kb/mb/gb/tb and their -ib forms": the nine words and their exponents -/
theorem C20_size_unit_words (w : List Char) (k : Nat) :
    unitExp w = some k ↔ (w, k) ∈ sizeWords :=
  ⟨unitExp_words w k, fun h => sizeWords_exp _ h⟩

/-- "the named unit, singular or plural": the fourteen words -/
theorem C20_interval_unit_words (w : List Char) (t : TUnit) :
    unitOf w = some t ↔ (w = t.word ∨ w = t.word ++ ['s']) := by
  constructor
  · intro h
    have := List.find?_some h
    simpa using this
  · intro h
    have hm : (w, t) ∈ timeWords := by rcases h with rfl | rfl <;> cases t <;> decide
    exact timeWords_unit _ hm

/-- The unit chain of `size.rs` IS the statement's table: for every unit text, in any letter case, the
multiplier the code uses is 1024 to the power named by the word (and no other word is a unit). -/
theorem C20_size_units (u : List Char) :
    lookupUnit sizeUnitTable u = (unitExp (u.map toAsciiLower)).map (fun k => 1024 ^ k) :=
  size_units u

/-- The unit chain of `time.rs` IS "the named unit, singular or plural", in any letter case. -/
theorem C20_interval_units (u : List Char) :
    lookupUnit timeUnitTable u = unitOf (u.map toAsciiLower) :=
  interval_units u

/-! ### No panic: the byte slicing of the visitors -/

/-- The one panic source of the two visitors, `v[..n]` / `v[n..]` with `n` from `str::find`, is
always at a character boundary: the split succeeds and yields the longest digit prefix and the rest. -/
theorem C20_split_at_find (v : List Char) :
    splitNumberUnit v =
      .ok (if v.dropWhile isAsciiDigit = [] then (trim v, none)
           else (trim (v.takeWhile isAsciiDigit), some (trim (v.dropWhile isAsciiDigit)))) :=
  splitNumberUnit_eq v

theorem C20_size_no_panic (sc : Visit) (w : String) : visitSize sc ≠ .panic w := by
  cases sc with
  | u64 v h => simp [visitSize]
  | i64 v h => simp only [visitSize]; split <;> simp
  | other => simp [visitSize]
  | str s =>
    simp only [visitSize, parseSizeStr, splitNumberUnit_eq]
    split <;> (try simp) <;> (repeat (split <;> try simp))

theorem C20_interval_no_panic (sc : Visit) (w : String) : visitInterval sc ≠ .panic w := by
  cases sc with
  | u64 v h => simp only [visitInterval]; split <;> simp
  | i64 v h => simp only [visitInterval]; split <;> simp
  | other => simp [visitInterval]
  | str s =>
    simp only [visitInterval, parseIntervalStr, splitNumberUnit_eq]
    split <;> (try simp) <;> (repeat (split <;> try simp))

/-! ### Model = executable specification, on every scalar -/

theorem C20_size_eq_spec (sc : Visit) : toOpt (visitSize sc) = specSize sc := by
  cases sc with
  | other => rfl
  | u64 v h => rfl
  | i64 v h =>
    simp only [visitSize, specSize]
    by_cases h0 : v < 0
    · have : ¬ 0 ≤ v := by omega
      simp [h0, this, toOpt]
    · have : 0 ≤ v := by omega
      simp [h0, this, toOpt]
  | str s =>
    simp only [visitSize, specSize, parseSizeStr, splitNumberUnit_eq, readLit_eq]
    have hds := takeWhile_all isAsciiDigit s
    generalize hd : s.takeWhile isAsciiDigit = ds at *
    have hsplit := take_drop_while isAsciiDigit s
    rw [hd] at hsplit
    cases hr : s.dropWhile isAsciiDigit with
    | nil =>
      rw [hr] at hsplit
      simp only [List.append_nil] at hsplit
      subst hsplit
      simp only [if_true, trim_digits ds hds]
      by_cases he : ds = []
      · subst he; simp [parseUnsigned, parseDigits, stripPlus, toOpt]
      · rw [parseUnsigned_digits _ ds he hds]
        by_cases hm : digitsVal ds ≤ U64_MAX <;> simp [he, hm, toOpt, fit]
    | cons c t =>
      simp only [reduceCtorEq, if_false, trim_digits ds hds]
      by_cases he : ds = []
      · subst he; simp [parseUnsigned, parseDigits, stripPlus, toOpt]
      · rw [parseUnsigned_digits _ ds he hds, size_units]
        simp only [he, if_false]
        cases hl : unitExp ((trim (c :: t)).map toAsciiLower) with
        | none =>
          by_cases hm : digitsVal ds ≤ U64_MAX <;> simp [hm, toOpt]
        | some k =>
          have hpos : 1 ≤ 1024 ^ k := Nat.pow_pos (by decide)
          by_cases hm : digitsVal ds ≤ U64_MAX
          · by_cases hmm : digitsVal ds * 1024 ^ k ≤ U64_MAX <;> simp [hm, hmm, toOpt, fit]
          · have : ¬ digitsVal ds * 1024 ^ k ≤ U64_MAX := by
              intro hc
              have : digitsVal ds ≤ digitsVal ds * 1024 ^ k := Nat.le_mul_of_pos_right _ hpos
              omega
            simp [hm, this, toOpt, fit]

theorem C20_interval_eq_spec (sc : Visit) : toOpt (visitInterval sc) = specInterval sc := by
  cases sc with
  | other => rfl
  | u64 v h =>
    simp only [visitInterval, specInterval, fit]
    by_cases h1 : v ≤ I64_MAX <;> simp [h1, toOpt]
  | i64 v h =>
    simp only [visitInterval, specInterval]
    by_cases h0 : v < 0
    · have : ¬ 0 ≤ v := by omega
      simp [h0, this, toOpt]
    · have : 0 ≤ v := by omega
      simp [h0, this, toOpt]
  | str s =>
    simp only [visitInterval, specInterval, parseIntervalStr, splitNumberUnit_eq, readLit_eq]
    have hds := takeWhile_all isAsciiDigit s
    generalize hd : s.takeWhile isAsciiDigit = ds at *
    have hsplit := take_drop_while isAsciiDigit s
    rw [hd] at hsplit
    have hsigned : ∀ (hne : ds ≠ []), parseSigned ds =
        if digitsVal ds ≤ I64_MAX then some (Int.ofNat (digitsVal ds)) else none := by
      intro hne
      cases hdd : ds with
      | nil => exact absurd hdd hne
      | cons a t =>
        have ha : a ≠ '-' := by
          intro e; subst e
          have := hds '-' (by simp [hdd])
          simp [isAsciiDigit] at this
        have : parseSigned (a :: t) = (parseUnsigned I64_MAX (a :: t)).map Int.ofNat := by
          unfold parseSigned
          split
          · rename_i r heq; simp at heq; exact absurd heq.1 ha
          · rfl
        rw [this, parseUnsigned_digits _ (a :: t) (by simp) (by rw [← hdd]; exact hds)]
        split <;> simp
    cases hr : s.dropWhile isAsciiDigit with
    | nil =>
      rw [hr] at hsplit
      simp only [List.append_nil] at hsplit
      subst hsplit
      simp only [if_true, trim_digits ds hds]
      by_cases he : ds = []
      · subst he; simp [parseSigned, parseUnsigned, parseDigits, stripPlus, toOpt]
      · rw [hsigned he]
        have hnn : ¬ ((digitsVal ds : Int) < 0) := by omega
        by_cases hm : digitsVal ds ≤ I64_MAX <;> simp [he, hm, hnn, toOpt, fit]
    | cons c t =>
      simp only [reduceCtorEq, if_false, trim_digits ds hds]
      by_cases he : ds = []
      · subst he; simp [parseSigned, parseUnsigned, parseDigits, stripPlus, toOpt]
      · rw [hsigned he, interval_units]
        simp only [he, if_false]
        by_cases hm : digitsVal ds ≤ I64_MAX
        · have : ¬ ((digitsVal ds : Int) < 0) := by omega
          cases hl : unitOf ((trim (c :: t)).map toAsciiLower) <;>
            simp [hm, this, toOpt, fit]
        · cases hl : unitOf ((trim (c :: t)).map toAsciiLower) <;> simp [hm, toOpt, fit]

/-! ### The statement as an equivalence: the code accepts exactly the literals, with exactly their value -/

/-- `deserialize_limit` on a string: accepted with value `v` iff the text is a size literal denoting
`v` (number x power of 1024, or a bare number of bytes) and `v` fits `u64`. Everything else — negative
or fractional numbers, unknown units, junk, values that do not fit — is an error. -/
theorem C20_size_iff (s : List Char) (v : Nat) :
    visitSize (.str s) = .ok v ↔ SizeLit s v ∧ v < 2 ^ 64 := by
  rw [← toOpt_eq_some, C20_size_eq_spec]
  simp only [specSize]
  constructor
  · intro h
    cases hr : readLit unitExp s with
    | none => simp [hr] at h
    | some p =>
      obtain ⟨n, o⟩ := p
      obtain ⟨hdig, hn, hcase⟩ := readLit_some _ _ _ _ hr
      have hsplit := take_drop_while isAsciiDigit s
      rw [hr] at h
      rcases hcase with ⟨hrest, ho⟩ | ⟨hrest, k, ho, hk⟩
      · subst ho
        simp only [fit_eq_some] at h
        rw [hrest, List.append_nil] at hsplit
        refine ⟨?_, by have := h.1; simp only [U64_MAX] at this; omega⟩
        rw [h.2, hn]
        have := SizeLit.bare _ hdig
        rw [hsplit] at this ⊢
        exact this
      · subst ho
        simp only [fit_eq_some] at h
        obtain ⟨ws, ws', hdec, hws, hws'⟩ := trim_decomp (s.dropWhile isAsciiDigit)
        refine ⟨?_, by have := h.1; simp only [U64_MAX] at this; omega⟩
        rw [h.2, hn]
        have := SizeLit.unit _ ws _ ws' k hdig hws hws' hk
        rwa [← hdec, hsplit] at this
  · rintro ⟨hl, hv⟩
    cases hl with
    | bare ds hds =>
      rw [readLit_bare _ _ hds]
      simp only [fit_eq_some, and_true]
      simp only [U64_MAX]; omega
    | unit ds ws u ws' k hds hws hws' hk =>
      rw [readLit_unit sizeWords unitExp unitExp_words sizeWords_lower ds ws u ws' k hds hws hws' hk]
      simp only [fit_eq_some, and_true]
      simp only [U64_MAX]; omega

/-- the same for `TimeTriggerInterval`: accepted as `n` units `t` iff the text is an interval literal
denoting that and `n` fits `i64` -/
theorem C20_interval_iff (s : List Char) (t : TUnit) (k : Int) :
    visitInterval (.str s) = .ok (t, k) ↔ ∃ n : Nat, IntervalLit s t n ∧ n < 2 ^ 63 ∧ k = (n : Int) := by
  rw [← toOpt_eq_some, C20_interval_eq_spec]
  simp only [specInterval]
  constructor
  · intro h
    cases hr : readLit unitOf s with
    | none => simp [hr] at h
    | some p =>
      obtain ⟨n, o⟩ := p
      obtain ⟨hdig, hn, hcase⟩ := readLit_some _ _ _ _ hr
      have hsplit := take_drop_while isAsciiDigit s
      rw [hr] at h
      rcases hcase with ⟨hrest, ho⟩ | ⟨hrest, u, ho, hk⟩
      · subst ho
        by_cases hm1 : n ≤ I64_MAX
        · simp [fit, hm1] at h
          rw [hrest, List.append_nil] at hsplit
          refine ⟨n, ?_, by simp only [I64_MAX] at hm1; omega, h.2.symm⟩
          rw [← h.1, hn]
          have := IntervalLit.bare _ hdig
          rw [hsplit] at this ⊢
          exact this
        · simp [fit, hm1] at h
      · subst ho
        by_cases hm1 : n ≤ I64_MAX
        · simp [fit, hm1] at h
          obtain ⟨ws, ws', hdec, hws, hws'⟩ := trim_decomp (s.dropWhile isAsciiDigit)
          refine ⟨n, ?_, by simp only [I64_MAX] at hm1; omega, h.2.symm⟩
          rw [← h.1, hn]
          have := IntervalLit.unit _ ws _ ws' u hdig hws hws' hk
          rwa [← hdec, hsplit] at this
        · simp [fit, hm1] at h
  · rintro ⟨n, hl, hv, hk⟩
    subst hk
    cases hl with
    | bare _ hds =>
      rw [readLit_bare _ _ hds]
      have : digitsVal s ≤ I64_MAX := by simp only [I64_MAX]; omega
      simp [fit, this]
    | unit ds ws u ws' t hds hws hws' hk =>
      rw [readLit_unit timeWords unitOf unitOf_words timeWords_lower ds ws u ws' t hds hws hws' hk]
      have : digitsVal ds ≤ I64_MAX := by simp only [I64_MAX]; omega
      simp [fit, this]

/-! ### The statement's clauses, one theorem each (corollaries, in the shape of the English text) -/

/-- '<number><unit>': any letter case of any of the nine unit words, any white space between number
and unit and after the unit: exactly number x 1024^k when that fits `u64`, rejected otherwise —
never wrapped. -/
theorem C20_size_number_unit (ds ws u ws' : List Char) (k : Nat)
    (hds : Digits ds) (hws : AllWs ws) (hws' : AllWs ws') (hu : unitExp (u.map toAsciiLower) = some k) :
    toOpt (visitSize (.str (ds ++ (ws ++ (u ++ ws'))))) =
      if digitsVal ds * 1024 ^ k < 2 ^ 64 then some (digitsVal ds * 1024 ^ k) else none := by
  rw [C20_size_eq_spec]
  simp only [specSize, readLit_unit sizeWords unitExp unitExp_words sizeWords_lower ds ws u ws' k hds hws
    hws' hu, fit_u64]

/-- a bare number means bytes -/
theorem C20_size_bare (ds : List Char) (hds : Digits ds) :
    toOpt (visitSize (.str ds)) = if digitsVal ds < 2 ^ 64 then some (digitsVal ds) else none := by
  rw [C20_size_eq_spec]
  simp only [specSize, readLit_bare unitExp ds hds, fit_u64]

/-- whatever is accepted starts with digits; the number is the LONGEST digit prefix; what follows is
nothing, or (after trimming) one of the nine unit words in some letter case; the value is the exact
product and fits `u64` -/
theorem C20_size_accept_sound (s : List Char) (v : Nat) (h : visitSize (.str s) = .ok v) :
    v < 2 ^ 64 ∧ Digits (s.takeWhile isAsciiDigit) ∧
      ((s.dropWhile isAsciiDigit = [] ∧ v = digitsVal (s.takeWhile isAsciiDigit)) ∨
       (∃ k, unitExp ((trim (s.dropWhile isAsciiDigit)).map toAsciiLower) = some k ∧
          v = digitsVal (s.takeWhile isAsciiDigit) * 1024 ^ k)) := by
  rw [← toOpt_eq_some, C20_size_eq_spec] at h
  simp only [specSize] at h
  cases hr : readLit unitExp s with
  | none => simp [hr] at h
  | some p =>
    obtain ⟨n, o⟩ := p
    obtain ⟨hdig, hn, hcase⟩ := readLit_some _ _ _ _ hr
    rw [hr] at h
    rcases hcase with ⟨hrest, ho⟩ | ⟨_, k, ho, hk⟩
    · subst ho
      simp only [fit_eq_some, U64_MAX] at h
      exact ⟨by omega, hdig, Or.inl ⟨hrest, by rw [h.2, hn]⟩⟩
    · subst ho
      simp only [fit_eq_some, U64_MAX] at h
      exact ⟨by omega, hdig, Or.inr ⟨k, hk, by rw [h.2, hn]⟩⟩

/-- a string that does not start with an ASCII digit is rejected: negative numbers (`-5`, `-5kb`),
explicit signs, leading white space, digits of other scripts, a unit without a number, the empty string -/
theorem C20_size_leading_nondigit_rejected (s : List Char)
    (h : s = [] ∨ ∃ c t, s = c :: t ∧ isAsciiDigit c = false) :
    toOpt (visitSize (.str s)) = none := by
  rw [C20_size_eq_spec]; simp only [specSize, readLit_leading_nondigit unitExp s h]

theorem C20_size_negative_rejected (r : List Char) : toOpt (visitSize (.str ('-' :: r))) = none :=
  C20_size_leading_nondigit_rejected _ (Or.inr ⟨'-', r, rfl, by decide⟩)

/-- fractional numbers are rejected: digits, a '.', anything -/
theorem C20_size_fraction_rejected (ds r : List Char) (hds : Digits ds) :
    toOpt (visitSize (.str (ds ++ '.' :: r))) = none := by
  rw [C20_size_eq_spec]
  simp only [specSize, readLit_nonletter sizeWords unitExp unitExp_words sizeWords_lower ds r '.' hds
    (by decide) (by decide) (by decide)]

/-- unknown units and junk suffixes are rejected: digits followed by a remainder that is not (after
trimming, in lower case) one of the nine words -/
theorem C20_size_unknown_unit_rejected (ds rest : List Char) (hds : Digits ds)
    (hr : ∃ c t, rest = c :: t ∧ isAsciiDigit c = false)
    (hu : unitExp ((trim rest).map toAsciiLower) = none) :
    toOpt (visitSize (.str (ds ++ rest))) = none := by
  rw [C20_size_eq_spec]; simp only [specSize, readLit_unknown unitExp ds rest hds hr hu]

/-- integer scalars, `visit_u64`: every value is the number of bytes -/
theorem C20_size_u64 (v : Nat) (h : v < 2 ^ 64) : visitSize (.u64 v h) = .ok v := rfl

/-- integer scalars, `visit_i64`: negative rejected, everything else unchanged -/
theorem C20_size_i64 (v : Int) (h : -(2 ^ 63 : Int) ≤ v ∧ v < 2 ^ 63) :
    visitSize (.i64 v h) = if v < 0 then .err .negative else .ok v.toNat := rfl

/-- The signed visitor method agrees with the unsigned one: an integer that reaches the visitor
through TOML (always `visit_i64`) gets the same answer as through JSON / YAML. -/
theorem C20_size_routes_agree (sc : Scalar) (t : Visit) (h : sc.visitToml = some t) :
    visitSize t = visitSize sc.visit := by
  cases sc with
  | str s => simp only [Scalar.visitToml, Option.some.injEq] at h; subst h; rfl
  | other => simp only [Scalar.visitToml, Option.some.injEq] at h; subst h; rfl
  | int n =>
    by_cases h2 : -(2 ^ 63 : Int) ≤ n ∧ n < 2 ^ 63
    · rw [visitToml_int n h2] at h
      simp only [Option.some.injEq] at h; subst h
      by_cases h0 : 0 ≤ n
      · have h1 : n.toNat < 2 ^ 64 := by omega
        have hn : ¬ n < 0 := by omega
        rw [visit_int_u64 n h0 h1]
        simp [visitSize, hn]
      · rw [visit_int_i64 n (by omega) h2]
    · rw [visitToml_int_none n h2] at h; simp at h

/-- a document integer (any size): exactly the values `0 ..= u64::MAX` are accepted, unchanged;
negative numbers and larger ones are rejected -/
theorem C20_size_int (n : Int) :
    (parseSize (.int n)).toOption = if 0 ≤ n ∧ n.toNat ≤ U64_MAX then some n.toNat else none := by
  unfold parseSize
  by_cases h0 : 0 ≤ n
  · by_cases h1 : n.toNat < 2 ^ 64
    · have : n.toNat ≤ U64_MAX := by simp only [U64_MAX]; omega
      rw [visit_int_u64 n h0 h1, if_pos ⟨h0, this⟩]; rfl
    · have : ¬ (0 ≤ n ∧ n.toNat ≤ U64_MAX) := by simp only [U64_MAX]; omega
      rw [visit_int_other n (by omega) (by omega), if_neg this]; rfl
  · have : ¬ (0 ≤ n ∧ n.toNat ≤ U64_MAX) := fun hc => h0 hc.1
    rw [if_neg this]
    by_cases h2 : -(2 ^ 63 : Int) ≤ n ∧ n < 2 ^ 63
    · rw [visit_int_i64 n (by omega) h2]
      have : n < 0 := by omega
      simp [visitSize, this, toExcept, Except.toOption]
    · rw [visit_int_other n (fun hc => h0 hc.1) h2]; rfl

/-- '<number><unit>' for intervals: any letter case of any of the fourteen words, any white space:
exactly `number` of the named unit when the number fits `i64`, rejected otherwise — never wrapped.
The count is not multiplied out: what `n` months or years are is decided by the schedule (C16). -/
theorem C20_interval_number_unit (ds ws u ws' : List Char) (t : TUnit)
    (hds : Digits ds) (hws : AllWs ws) (hws' : AllWs ws') (hu : unitOf (u.map toAsciiLower) = some t) :
    toOpt (visitInterval (.str (ds ++ (ws ++ (u ++ ws'))))) =
      if digitsVal ds < 2 ^ 63 then some (t, (digitsVal ds : Int)) else none := by
  rw [C20_interval_eq_spec]
  simp only [specInterval, readLit_unit timeWords unitOf unitOf_words timeWords_lower ds ws u ws' t hds hws
    hws' hu, fit_i64]
  split <;> rfl

/-- a bare number means seconds -/
theorem C20_interval_bare (ds : List Char) (hds : Digits ds) :
    toOpt (visitInterval (.str ds)) =
      if digitsVal ds < 2 ^ 63 then some (.second, (digitsVal ds : Int)) else none := by
  rw [C20_interval_eq_spec]
  simp only [specInterval, readLit_bare unitOf ds hds, fit_i64]
  split <;> rfl

theorem C20_interval_accept_sound (s : List Char) (t : TUnit) (k : Int)
    (h : visitInterval (.str s) = .ok (t, k)) :
    0 ≤ k ∧ k < 2 ^ 63 ∧ Digits (s.takeWhile isAsciiDigit) ∧
      k = (digitsVal (s.takeWhile isAsciiDigit) : Int) ∧
      ((s.dropWhile isAsciiDigit = [] ∧ t = .second) ∨
       unitOf ((trim (s.dropWhile isAsciiDigit)).map toAsciiLower) = some t) := by
  rw [← toOpt_eq_some, C20_interval_eq_spec] at h
  simp only [specInterval] at h
  cases hr : readLit unitOf s with
  | none => simp [hr] at h
  | some p =>
    obtain ⟨n, o⟩ := p
    obtain ⟨hdig, hn, hcase⟩ := readLit_some _ _ _ _ hr
    rw [hr] at h
    rcases hcase with ⟨hrest, ho⟩ | ⟨_, u, ho, hk⟩
    · subst ho
      simp only [fit_i64] at h
      split at h
      · simp at h
        refine ⟨by omega, by omega, hdig, by rw [← h.2, hn], Or.inl ⟨hrest, h.1.symm⟩⟩
      · simp at h
    · subst ho
      simp only [fit_i64] at h
      split at h
      · simp at h
        refine ⟨by omega, by omega, hdig, by rw [← h.2, hn], Or.inr (by rw [hk, h.1])⟩
      · simp at h

theorem C20_interval_leading_nondigit_rejected (s : List Char)
    (h : s = [] ∨ ∃ c t, s = c :: t ∧ isAsciiDigit c = false) :
    toOpt (visitInterval (.str s)) = none := by
  rw [C20_interval_eq_spec]; simp only [specInterval, readLit_leading_nondigit unitOf s h]

theorem C20_interval_negative_rejected (r : List Char) : toOpt (visitInterval (.str ('-' :: r))) = none :=
  C20_interval_leading_nondigit_rejected _ (Or.inr ⟨'-', r, rfl, by decide⟩)

theorem C20_interval_fraction_rejected (ds r : List Char) (hds : Digits ds) :
    toOpt (visitInterval (.str (ds ++ '.' :: r))) = none := by
  rw [C20_interval_eq_spec]
  simp only [specInterval, readLit_nonletter timeWords unitOf unitOf_words timeWords_lower ds r '.' hds
    (by decide) (by decide) (by decide)]

theorem C20_interval_unknown_unit_rejected (ds rest : List Char) (hds : Digits ds)
    (hr : ∃ c t, rest = c :: t ∧ isAsciiDigit c = false)
    (hu : unitOf ((trim rest).map toAsciiLower) = none) :
    toOpt (visitInterval (.str (ds ++ rest))) = none := by
  rw [C20_interval_eq_spec]; simp only [specInterval, readLit_unknown unitOf ds rest hds hr hu]

/-- `visit_u64`: seconds; values above `i64::MAX` are rejected, not wrapped (finding F8, fixed in a913ecb) -/
theorem C20_interval_u64 (v : Nat) (h : v < 2 ^ 64) :
    visitInterval (.u64 v h) = if v < 2 ^ 63 then .ok (.second, (v : Int)) else .err .overflow := by
  show (if v ≤ I64_MAX then _ else _) = _
  by_cases hv : v < 2 ^ 63
  · have : v ≤ I64_MAX := by simp only [I64_MAX]; omega
    rw [if_pos hv, if_pos this]
  · have : ¬ v ≤ I64_MAX := by simp only [I64_MAX]; omega
    rw [if_neg hv, if_neg this]

theorem C20_interval_i64 (v : Int) (h : -(2 ^ 63 : Int) ≤ v ∧ v < 2 ^ 63) :
    visitInterval (.i64 v h) = if v < 0 then .err .negative else .ok (.second, v) := rfl

theorem C20_interval_routes_agree (sc : Scalar) (t : Visit) (h : sc.visitToml = some t) :
    visitInterval t = visitInterval sc.visit := by
  cases sc with
  | str s => simp only [Scalar.visitToml, Option.some.injEq] at h; subst h; rfl
  | other => simp only [Scalar.visitToml, Option.some.injEq] at h; subst h; rfl
  | int n =>
    by_cases h2 : -(2 ^ 63 : Int) ≤ n ∧ n < 2 ^ 63
    · rw [visitToml_int n h2] at h
      simp only [Option.some.injEq] at h; subst h
      by_cases h0 : 0 ≤ n
      · have h1 : n.toNat < 2 ^ 64 := by omega
        have hn : ¬ n < 0 := by omega
        rw [visit_int_u64 n h0 h1, C20_interval_u64, C20_interval_i64, if_neg hn, if_pos (by omega)]
        congr 2; omega
      · rw [visit_int_i64 n (by omega) h2]
    · rw [visitToml_int_none n h2] at h; simp at h

/-- a document integer: exactly `0 ..= i64::MAX` is accepted, as that many seconds -/
theorem C20_interval_int (n : Int) :
    (parseInterval (.int n)).toOption =
      if 0 ≤ n ∧ n.toNat ≤ I64_MAX then some (.second, n) else none := by
  unfold parseInterval
  by_cases h0 : 0 ≤ n
  · by_cases h1 : n.toNat < 2 ^ 64
    · rw [visit_int_u64 n h0 h1, C20_interval_u64]
      by_cases h3 : n.toNat < 2 ^ 63
      · have : n.toNat ≤ I64_MAX := by simp only [I64_MAX]; omega
        rw [if_pos h3, if_pos ⟨h0, this⟩]
        simp only [toExcept, Except.toOption]
        congr 2; omega
      · have : ¬ (0 ≤ n ∧ n.toNat ≤ I64_MAX) := by simp only [I64_MAX]; omega
        rw [if_neg h3, if_neg this]; rfl
    · have : ¬ (0 ≤ n ∧ n.toNat ≤ I64_MAX) := by simp only [I64_MAX]; omega
      rw [visit_int_other n (by omega) (by omega), if_neg this]; rfl
  · have : ¬ (0 ≤ n ∧ n.toNat ≤ I64_MAX) := fun hc => h0 hc.1
    rw [if_neg this]
    by_cases h2 : -(2 ^ 63 : Int) ≤ n ∧ n < 2 ^ 63
    · rw [visit_int_i64 n (by omega) h2]
      have : n < 0 := by omega
      simp [visitInterval, this, toExcept, Except.toOption]
    · rw [visit_int_other n (fun hc => h0 hc.1) h2]; rfl

/-- no accepted interval is negative or out of `i64` range — for every scalar form -/
theorem C20_interval_never_wraps (sc : Visit) (u : TUnit) (k : Int)
    (h : visitInterval sc = .ok (u, k)) : 0 ≤ k ∧ k < 2 ^ 63 := by
  cases sc with
  | other => simp [visitInterval] at h
  | u64 v hv =>
    rw [C20_interval_u64] at h
    split at h
    · simp at h; omega
    · simp at h
  | i64 v hv =>
    rw [C20_interval_i64] at h
    split at h
    · simp at h
    · simp at h; omega
  | str s =>
    have := C20_interval_accept_sound s u k h
    exact ⟨this.1, this.2.1⟩

/-- The boundary with C16. The parser accepts every count up to `i64::MAX` with every unit; it does
not multiply the count by a unit length, so `9223372036854775807 years` IS accepted here. Whether the
schedule can represent that span is C16's question (signature `C16/interval-overflows-chrono`, fixed:
the schedule answers "never"); on the configuration path the harness also builds the real
`TimeTrigger` from every accepted interval and observes that nothing panics. -/
theorem C20_interval_count_not_scaled :
    visitInterval (.str "9223372036854775807 years".toList) = .ok (.year, 9223372036854775807) ∧
    visitInterval (.str "9223372036854775808 seconds".toList) = .err .notNumber := by
  constructor <;> decide

/-! ### Non-vacuity: concrete inputs meeting the hypotheses and exercising each branch (tests) -/

example : toOpt (visitSize (.str "10 Kb".toList)) = some 10240 := by decide
example : toOpt (visitSize (.str "1 KiB　".toList)) = some 1024 := by decide
example : toOpt (visitSize (.str "3b".toList)) = some 3 := by decide
example : toOpt (visitSize (.str "3 mB".toList)) = some 3145728 := by decide
example : toOpt (visitSize (.str "3GiB".toList)) = some 3221225472 := by decide
example : toOpt (visitSize (.str "16777216 TiB".toList)) = none := by decide
example : toOpt (visitSize (.str "16777215tb".toList)) = some 18446742974197923840 := by decide
example : toOpt (visitSize (.str "18446744073709551616".toList)) = none := by decide
example : toOpt (visitSize (.str "-1".toList)) = none := by decide
example : toOpt (visitSize (.str "1.5kb".toList)) = none := by decide
example : toOpt (visitSize (.str "5 ".toList)) = none := by decide
example : toOpt (visitInterval (.str "7 Days".toList)) = some (.day, 7) := by decide
example : toOpt (visitInterval (.str "2MONTHS".toList)) = some (.month, 2) := by decide
example : toOpt (visitInterval (.str "1 secondss".toList)) = none := by decide
example : toOpt (visitInterval (.u64 18446744073709551615 (by decide))) = none := by decide
example : SizeLit "10 Kb".toList 10240 :=
  SizeLit.unit ['1','0'] [' '] ['K','b'] [] 1 (by unfold Digits; decide) (by unfold AllWs; decide)
    (by unfold AllWs; decide) (by decide)
/-- slicing does panic off a boundary: the model's panic branch is reachable in general, the theorem
`C20_split_at_find` says `find` never produces such an offset -/
example : splitAtByte ['é', 'x'] 1 = none := by decide
example : splitAtByte ['é', 'x'] 2 = some (['é'], ['x']) := by decide

end Log4rs.Literals

/-! ## `refresh_rate` (`de_duration` → `humantime::parse_duration`)

Claimed for it (scope decision, props.d/C20.json): the value is exactly the sum of number x unit, a
value that overflows is rejected with an error, nothing panics, junk is rejected. The first two and
the last hold of the code (theorems below); "nothing panics" is FALSE of the code as it is
(`C20_refresh_panic_witness`) and holds with one input class excluded (`C20_refresh_no_panic_partial`).
Not claimed (humantime's own grammar): bare numbers, letter case, fractions — what the code does
there is recorded by `C20_refresh_bare_number_rejected` and the examples at the end. -/
namespace Log4rs.Literals.Dur
open Log4rs.Str Log4rs Log4rs.Literals

theorem texts_ne_zero (l : List SpanLit) (hl : ∀ p ∈ l, p.wf) (hne : l ≠ []) : texts l ≠ ['0'] := by
  cases l with
  | nil => exact absurd rfl hne
  | cons p l' =>
    obtain ⟨⟨hd, _⟩, _, _, hw, _⟩ := hl p (by simp)
    intro h
    have hlen := congrArg List.length h
    simp only [texts, SpanLit.text, List.length_append, List.length_cons, List.length_nil] at hlen
    have h1 := List.length_pos_iff.mpr hd
    have h2 := List.length_pos_iff.mpr hw
    omega

/-- Structure: on a text that is a sequence of spans `<digits><white space><letters><white space>`
(the shape the documentation describes, any number of spans, any White_Space characters) the parser
is the left-to-right fold of "number must fit u64, look the word up, add number x unit". -/
theorem C20_refresh_spans (l : List SpanLit) (hl : ∀ p ∈ l, p.wf) (hne : l ≠ []) :
    parseDuration (texts l) = foldSpans l ⟨0, 0⟩ := by
  unfold parseDuration
  rw [if_neg (texts_ne_zero l hl hne)]
  exact run_spans l hl false ⟨0, 0⟩ (Or.inl hne)

/-- Exact value: whatever is accepted is exactly the sum of number x unit over the spans (in
nanoseconds; `DUnit.nanos` is humantime's documented length of each unit), normalised, within `u64`
seconds; and every word is one of humantime's suffixes (case-sensitive `unitTable`). -/
theorem C20_refresh_exact (l : List SpanLit) (hl : ∀ p ∈ l, p.wf) (hne : l ≠ []) (d : Dur)
    (h : parseDuration (texts l) = .ok d) :
    d.secs * NPS + d.nanos = valueOf l ∧ d.nanos < NPS ∧ d.secs < 2 ^ 64 ∧
      ∀ p ∈ l, (unitOfWord p.word).isSome = true := by
  rw [C20_refresh_spans l hl hne] at h
  obtain ⟨ht, hn, hs, hu⟩ := foldSpans_ok l ⟨0, 0⟩ d (by decide) (by decide) h
  refine ⟨by simpa [Dur.total] using ht, hn, ?_, hu⟩
  simp only [U64_MAX] at hs; omega

/-- Overflow is rejected, never wrapped: a span list whose exact sum is 2^64 seconds or more is not accepted. -/
theorem C20_refresh_overflow_rejected (l : List SpanLit) (hl : ∀ p ∈ l, p.wf) (hne : l ≠ [])
    (hbig : 2 ^ 64 * NPS ≤ valueOf l) (d : Dur) : parseDuration (texts l) ≠ .ok d := by
  intro h
  obtain ⟨ht, hn, hs, _⟩ := C20_refresh_exact l hl hne d h
  have : d.secs * NPS + NPS ≤ 2 ^ 64 * NPS := by
    have : (d.secs + 1) * NPS ≤ 2 ^ 64 * NPS := Nat.mul_le_mul_right _ (by omega)
    rw [Nat.add_mul] at this; omega
  omega

/-- ... and what fits is accepted: every span's number x multiplier fits `u64` in the unit's own
resolution (a sub-second span staying 10^9 below 2^64 ns) and the sum is below 2^64 seconds. -/
theorem C20_refresh_accepts_when_fits (l : List SpanLit) (hl : ∀ p ∈ l, p.wf) (hne : l ≠ [])
    (hfit : ∀ p ∈ l, Fits p) (htot : valueOf l < 2 ^ 64 * NPS) :
    ∃ d, parseDuration (texts l) = .ok d ∧ d.secs * NPS + d.nanos = valueOf l := by
  have h64 : U64_MAX + 1 = 2 ^ 64 := by decide
  obtain ⟨d, hd⟩ := foldSpans_fits l ⟨0, 0⟩ (by decide) hfit (by rw [h64]; simpa [Dur.total] using htot)
  rw [← C20_refresh_spans l hl hne] at hd
  exact ⟨d, hd, (C20_refresh_exact l hl hne d hd).1⟩

/-- No panic, partial: on span texts the parser panics only when the exact sum of the spans read so
far is EXACTLY 2^64 seconds (reached through a nanosecond carry). Everything else is accepted or
rejected with an error. -/
theorem C20_refresh_no_panic_partial (l : List SpanLit) (hl : ∀ p ∈ l, p.wf) (hne : l ≠ []) (w : String)
    (h : parseDuration (texts l) = .panic w) :
    ∃ l1 p l2, l = l1 ++ p :: l2 ∧ valueOf (l1 ++ [p]) = 2 ^ 64 * NPS := by
  rw [C20_refresh_spans l hl hne] at h
  obtain ⟨l1, p, l2, hl', hv⟩ := foldSpans_panic l ⟨0, 0⟩ w (by decide) h
  have h64 : U64_MAX + 1 = 2 ^ 64 := by decide
  exact ⟨l1, p, l2, hl', by rw [← h64]; simpa [Dur.total] using hv⟩

/-- The full "nothing panics" is false of the code as it is: this `refresh_rate` panics inside
`Duration::new` (reproduced on the real crate through YAML, JSON and TOML; corpus/C20.cases). -/
theorem C20_refresh_panic_witness :
    parseRefreshWith false "18446744073709551615s 1000000000ns".toList = .panic "overflow in Duration::new" := by
  decide

theorem C20_refresh_no_panic_fails : ¬ ∀ s w, parseRefreshWith false s ≠ .panic w :=
  fun h => h _ _ C20_refresh_panic_witness

/-- with the proposed repair (the call wrapped in `catch_unwind`) nothing panics, on any text -/
theorem C20_refresh_caught_no_panic (s : List Char) (w : String) : parseRefreshWith true s ≠ .panic w := by
  unfold parseRefreshWith
  cases parseDuration s <;> simp

/-- the statement for the code as configured in the model (`refreshPanicCaught` is flipped to `true`
by the integrator together with the `fix:` commit; until then the hypothesis is false) -/
theorem C20_refresh_no_panic_when_caught (h : refreshPanicCaught = true) (s : List Char) (w : String) :
    parseRefresh s ≠ .panic w := by
  unfold parseRefresh; rw [h]; exact C20_refresh_caught_no_panic s w

/-- ... and the repair changes nothing else -/
theorem C20_refresh_caught_same (s : List Char) (d : Dur) :
    parseRefreshWith true s = .ok d ↔ parseRefreshWith false s = .ok d := by
  unfold parseRefreshWith
  cases parseDuration s <;> simp

/-- Junk is rejected: a character that is no digit, white space, ASCII letter, 'µ' or '.' anywhere
in the text (`-`, `+`, `_`, `,`, `:`, digits and letters of other scripts, look-alike blanks …). -/
theorem C20_refresh_invalid_char_rejected (s : List Char) (h : ∃ c ∈ s, BadChar c) (d : Dur) :
    parseDuration s ≠ .ok d := by
  unfold parseDuration
  split
  · rename_i h0
    subst h0
    obtain ⟨c, hc, hb⟩ := h
    simp only [List.mem_singleton] at hc
    subst hc
    exact absurd hb.1 (by decide)
  · exact run_bad s _ _ h d

/-- Junk is rejected: the first non-blank character must be a digit (negative numbers, signs, a unit
without a number). -/
theorem C20_refresh_leading_nondigit_rejected (ws r : List Char) (c : Char) (hws : AllWs ws)
    (hd : isAsciiDigit c = false) (hw : isWhitespace c = false) :
    parseDuration (ws ++ c :: r) = .err .numberExpected := by
  unfold parseDuration
  have hne : ws ++ c :: r ≠ ['0'] := by
    intro h
    cases ws with
    | nil =>
      simp only [List.nil_append, List.cons.injEq] at h
      rw [h.1] at hd; exact absurd hd (by decide)
    | cons a t =>
      simp only [List.cons_append, List.cons.injEq] at h
      have := hws a (by simp)
      rw [h.1] at this; exact absurd this (by decide)
  rw [if_neg hne, run_ws_first _ _ _ _ hws, run_cons]
  simp [step, hd, hw, obind]

/-- NOT claimed for refresh_rate, recorded: a bare number is rejected ("time unit needed"), except the
single text `0`. (The trigger literals accept bare numbers as bytes / seconds.) -/
theorem C20_refresh_bare_number_rejected (ds : List Char) (hds : Digits ds) (hne : ds ≠ ['0']) (d : Dur) :
    parseDuration ds ≠ .ok d := by
  unfold parseDuration
  rw [if_neg hne]
  obtain ⟨hnil, hdig⟩ := hds
  cases ds with
  | nil => exact absurd rfl hnil
  | cons a t =>
    have ha := hdig a (by simp)
    have ha9 : digitVal a ≤ U64_MAX := by
      simp only [isAsciiDigit, Bool.and_eq_true, decide_eq_true_eq] at ha
      simp only [digitVal, U64_MAX]
      have : a.toNat ≤ 57 := ha.2
      omega
    rw [run_cons]
    simp only [step, ha, if_true, obind]
    have := run_digits t [] (digitVal a) ⟨0, 0⟩ ha9 (fun c hc => hdig c (by simp [hc]))
    rw [List.append_nil] at this
    rw [this]
    split
    · simp [run, finish, parseUnit, unitOfWord, unitTable]
    · simp

/-! ### Non-vacuity and the clauses that are not claimed (tests on samples) -/

example : parseDuration "30 seconds".toList = .ok ⟨30, 0⟩ := by decide
example : parseDuration "1hour 12min 5s".toList = .ok ⟨4325, 0⟩ := by decide
example : parseDuration "18446744073709551615ns 1ns".toList = .ok ⟨18446744073, 709551616⟩ := by decide
example : parseDuration "18446744073709551615s 999999999ns".toList = .ok ⟨18446744073709551615, 999999999⟩ := by decide
example : parseDuration "18446744073709551615s 1000000001ns".toList = .err .overflow := by decide
example : parseDuration "18446744073709551616s".toList = .err .overflow := by decide
-- letter case is significant (not claimed): `Seconds` is no unit, `M` is a month and `m` a minute
example : parseDuration "30 Seconds".toList = .err .unknownUnit := by decide
example : parseDuration "1 M".toList = .ok ⟨2630016, 0⟩ := by decide
example : parseDuration "1 m".toList = .ok ⟨60, 0⟩ := by decide
-- fractions are accepted (not claimed)
example : parseDuration "1.5s".toList = .ok ⟨1, 500000000⟩ := by decide
-- bare numbers (not claimed)
example : parseDuration "30".toList = .err .unknownUnit := by decide
example : parseDuration "0".toList = .ok ⟨0, 0⟩ := by decide
-- white space inside a number is skipped
example : parseDuration "1 2 s".toList = .ok ⟨12, 0⟩ := by decide
example : (⟨['3','0'], [' '], ['s','e','c','o','n','d','s'], []⟩ : SpanLit).wf := by
  unfold SpanLit.wf Digits AllWs; decide

end Log4rs.Literals.Dur
