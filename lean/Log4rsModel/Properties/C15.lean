import Log4rsModel.Reconfig.LemmasSwap
import Log4rsModel.Reconfig.LemmasReloader
import Log4rsModel.Reconfig.LemmasFacade
import Log4rsModel.Reconfig.LemmasSpecTrace
/-
C15 — Runtime reconfiguration is atomic; the file reloader keeps the last good config.
Only property theorems and non-vacuity examples live here; helpers are in Reconfig/Lemmas*.lean.
Every `C15_*` theorem is about the code as it is now (model flags `codeFixed`,
`setConfigSerialised`, `initStatsBeforeRead` all true) or about the current executable Spec;
`Hist_C15_*` theorems are about the variants before the three fixes and are not counted.

Part (a) is about the machine of Reconfig/Swap.lean: any number of `log` calls stepping in any
order against one store holding ONE snapshot (tree + appender table), with `set_config` swaps
anywhere in between, including inside a delivery (`LoadMode.once` is the code), and about
Reconfig/Facade.lean: `set_config` as two writes under a lock, records gated by the facade.
Part (b) is about `runOnce` of Reconfig/Reloader.lean, the mirror of `ConfigReloader::run_once`.
-/
set_option linter.unusedSimpArgs false
namespace Log4rs.Reconfig

/-! ## (a) the snapshot swap -/

/-- `SharedLogger::new` turns appender names into indices of the table it builds in the same
value: every snapshot is well-formed by construction, for every configuration -/
theorem C15_snapshot_wellformed (c : MiniCfg) : (mkSnapshot c).WF := mkSnapshot_WF c

/-- `SharedLogger::new` with its panic (`appender_map[name]` on an unknown name) made explicit:
whenever it returns, the snapshot is well-formed; on every configuration `Config::build` can
produce (`c.valid`) it does return, and it returns `mkSnapshot c`; and it panics exactly on a
configuration that names an appender missing from the table — nothing is silently dropped -/
theorem C15_snapshot_construction (c : MiniCfg) :
    (∀ s, mkSnapshotO c = .ok s → s.WF) ∧
    (c.valid = true → mkSnapshotO c = .ok (mkSnapshot c)) ∧
    (mkSnapshotO c ≠ .ok (mkSnapshot c) → ∃ why, mkSnapshotO c = .panic why) := by
  refine ⟨?_, ?_, ?_⟩
  · intro s hs
    unfold mkSnapshotO at hs
    split at hs
    · cases hs; exact mkSnapshot_WF c
    · cases hs
  · intro hv
    simp only [MiniCfg.valid, Bool.and_eq_true] at hv
    unfold mkSnapshotO
    rw [if_pos]
    rw [Bool.and_eq_true]
    exact ⟨hv.1.1.2, hv.1.2⟩
  · intro h
    unfold mkSnapshotO at h ⊢
    split
    · rename_i hc; rw [if_pos hc] at h; exact absurd rfl h
    · exact ⟨_, rfl⟩

/-- … and resolving those indices in the snapshot's own table gives back exactly the configured
appenders (tagged with the snapshot), or nothing when the level gate is closed -/
theorem C15_snapshot_prescribes_names (c : MiniCfg) (hv : c.valid = true) (t : Target) (l : Level) :
    prescribed (mkSnapshot c) t l =
      if (c.effective t).1 ≥ l then (c.effective t).2.map (fun n => (c.tag, n)) else [] :=
  prescribed_mkSnapshot c hv t l

/-- (a) Atomicity, for every interleaving. Start from any consistent system state, let any list of
events happen — steps of any number of concurrent or nested `log` calls, in any order, with any
number of `set_config` swaps at any position, including between "enter `append`" and "return from
`append`" of a delivery (the re-entrant case). Then for every `log` call:
* it has not panicked;
* the deliveries it has made *so far* are a prefix of what the one snapshot it loaded prescribes;
* once it has finished, its deliveries are exactly what that one snapshot prescribes —
  entirely one configuration, never a mixture. -/
theorem C15_snapshot_atomic (sys : Sys) (hsys : sys.Inv) (evs : List Event) (hev : ∀ e ∈ evs, e.WF) :
    ∀ th ∈ (sys.run .once evs).threads,
      th.isPanicked = false ∧
      (∀ s, th.atLoad = some s → ∃ rest, th.out ++ rest = prescribed s th.target th.level) ∧
      (th.isDone = true → ∃ s, th.atLoad = some s ∧ th.out = prescribed s th.target th.level) := by
  intro th hth
  have hinv := (Sys.run_inv sys hsys evs hev).2 th hth
  refine ⟨hinv.not_panicked, fun s hs => (hinv.pre hs).2, fun hd => ?_⟩
  obtain ⟨s, h1, _, h2⟩ := hinv.of_done hd
  exact ⟨s, h1, h2⟩

/-- the ghost field `atLoad` means what it says: the step a call takes from `init` is the `load`,
and it records the value the store holds at that very moment -/
theorem C15_load_reads_store (mode : LoadMode) (store : Snapshot) (tid : Nat) (th : Thread)
    (h : th.atLoad = none) (s : Snapshot) (hs : (th.step mode store tid).1.atLoad = some s) :
    s = store := by
  rcases Thread.step_atLoad mode store tid th s hs with h1 | h1
  · rw [h] at h1; cases h1
  · exact h1

/-- general form: a call spawned when the store holds `cur` ends up routed under `cur` or under a
snapshot stored later -/
theorem C15_routed_under_loaded (sys : Sys) (hsys : sys.Inv)
    (t : Target) (l : Level) (evs : List Event) (hev : ∀ e ∈ evs, e.WF) :
    let sys1 := sys.apply .once (.spawn t l)
    ∀ th, (sys1.run .once evs).threads[sys.threads.length]? = some th → th.isDone = true →
      ∃ s, (s = sys.store ∨ Event.swap s ∈ evs) ∧ th.out = prescribed s t l := by
  intro sys1 th hth hdone
  let P : Snapshot → Prop := fun s => s = sys.store ∨ Event.swap s ∈ evs
  have h0 : LoadsIn P sys1 sys.threads.length := by
    refine ⟨Or.inl rfl, { target := t, level := l }, ?_, ?_⟩
    · simp [sys1, Sys.apply]
    · intro s hs; simp at hs
  have h1 := LoadsIn.run (P := P) .once evs h0 (fun s hs => Or.inr hs)
  obtain ⟨_, th', hth', hat⟩ := h1
  rw [hth] at hth'; cases hth'
  have hinv1 : sys1.Inv := Sys.apply_inv sys hsys (.spawn t l) trivial
  have hmem : th ∈ (sys1.run .once evs).threads := List.mem_of_getElem? hth
  have hinv := (Sys.run_inv sys1 hinv1 evs hev).2 th hmem
  have htl := Sys.run_target .once evs sys1 sys.threads.length { target := t, level := l } th
    (by simp [sys1, Sys.apply]) hth
  rcases th with ⟨t', l', pc, al, out⟩
  cases pc with
  | done =>
    simp only [Thread.Inv] at hinv
    obtain ⟨s, h1, _, h2⟩ := hinv
    simp only at htl
    refine ⟨s, hat s h1, ?_⟩
    simp only at h2 ⊢
    rw [h2, htl.1, htl.2]
  | _ => simp [Thread.isDone] at hdone

theorem C15_after_swap_new (sys : Sys) (hsys : sys.Inv) (new : Snapshot) (hnew : new.WF)
    (t : Target) (l : Level) (evs : List Event) (hev : ∀ e ∈ evs, e.WF) :
    let sys1 := (sys.apply .once (.swap new)).apply .once (.spawn t l)
    ∀ th, (sys1.run .once evs).threads[sys.threads.length]? = some th → th.isDone = true →
      ∃ s, (s = new ∨ Event.swap s ∈ evs) ∧ th.out = prescribed s t l := by
  intro sys1 th hth hdone
  exact C15_routed_under_loaded (sys.apply .once (.swap new)) (Sys.apply_inv sys hsys (.swap new) hnew)
    t l evs hev th hth hdone

/-- … and when nobody swaps again, it is the new configuration and nothing else -/
theorem C15_after_swap_only_new (sys : Sys) (hsys : sys.Inv) (new : Snapshot) (hnew : new.WF)
    (t : Target) (l : Level) (evs : List Event) (hev : ∀ e ∈ evs, e.WF)
    (hno : ∀ s, Event.swap s ∉ evs) :
    let sys1 := (sys.apply .once (.swap new)).apply .once (.spawn t l)
    ∀ th, (sys1.run .once evs).threads[sys.threads.length]? = some th → th.isDone = true →
      th.out = prescribed new t l := by
  intro sys1 th hth hdone
  obtain ⟨s, hs, hout⟩ := C15_after_swap_new sys hsys new hnew t l evs hev th hth hdone
  rcases hs with rfl | hs
  · exact hout
  · exact absurd hs (hno s)

/-- "entirely under the old configuration or entirely under the new one": one `set_config(new)`
somewhere — anywhere — in the interleaving of a record that starts under `old` -/
theorem C15_old_or_new (sys : Sys) (hsys : sys.Inv) (new : Snapshot)
    (t : Target) (l : Level) (evs : List Event) (hev : ∀ e ∈ evs, e.WF)
    (hsw : ∀ s, Event.swap s ∈ evs → s = new) :
    let sys1 := sys.apply .once (.spawn t l)
    ∀ th, (sys1.run .once evs).threads[sys.threads.length]? = some th → th.isDone = true →
      th.out = prescribed sys.store t l ∨ th.out = prescribed new t l := by
  intro sys1 th hth hdone
  obtain ⟨s, hs, hout⟩ := C15_routed_under_loaded sys hsys t l evs hev th hth hdone
  rcases hs with rfl | hs
  · exact Or.inl hout
  · rw [hsw s hs] at hout; exact Or.inr hout


/-- every index is resolved in the table of the snapshot it came from: no call ever panics on
`appenders[idx]`, and every delivery made so far is (tag of the loaded snapshot, the appender that
snapshot's own table holds at an index that snapshot's own routing function produced) -/
theorem C15_no_mixed_index (sys : Sys) (hsys : sys.Inv) (evs : List Event) (hev : ∀ e ∈ evs, e.WF) :
    ∀ th ∈ (sys.run .once evs).threads,
      th.isPanicked = false ∧
      ∀ d ∈ th.out, ∃ s, th.atLoad = some s ∧ d.1 = s.tag ∧
        ∃ i, i ∈ s.route th.target th.level ∧ i < s.table.length ∧ s.table[i]? = some d.2 := by
  intro th hth
  have hinv := (Sys.run_inv sys hsys evs hev).2 th hth
  refine ⟨hinv.not_panicked, ?_⟩
  intro d hd
  cases hal : th.atLoad with
  | none =>
    -- nothing loaded yet: nothing delivered yet
    rcases th with ⟨t, l, pc, al, out⟩
    cases pc <;> simp only [Thread.Inv] at hinv <;> simp_all
  | some s =>
    obtain ⟨hwf, rest, hpre⟩ := hinv.pre hal
    have hmem : d ∈ prescribed s th.target th.level := by rw [← hpre]; simp [hd]
    obtain ⟨i, hi, hget, htag⟩ := mem_resolve hmem
    exact ⟨s, rfl, htag, i, hi, hwf.route _ _ i hi, hget⟩

/-- what an observer sees: in the trace of any run that starts with no call in flight, the
deliveries recorded for a completed call are exactly what the one snapshot it loaded prescribes
(this is the list the harness compares, record by record, with the real appenders' captures) -/
theorem C15_observed_deliveries_atomic (s0 : Snapshot) (h0 : s0.WF) (evs : List Event)
    (hev : ∀ e ∈ evs, e.WF) :
    let sys := Sys.run .once { store := s0 } evs
    ∀ tid th, sys.threads[tid]? = some th → th.isDone = true →
      ∃ s, th.atLoad = some s ∧ sys.trace.filterMap (delivOf tid) = prescribed s th.target th.level := by
  intro sys tid th hth hdone
  have hinv : (Sys.mk s0 [] []).Inv := ⟨h0, by simp⟩
  have htr : (Sys.mk s0 [] []).TraceInv := ⟨by simp, by simp⟩
  have h1 := (Sys.run_traceInv .once evs _ htr).1 tid th hth
  obtain ⟨s, hs, hout⟩ := (C15_snapshot_atomic _ hinv evs hev th (List.mem_of_getElem? hth)).2.2 hdone
  exact ⟨s, hs, h1.trans hout⟩

/-- the scripted scenarios the harness drives (re-entrant `set_config` from inside `append` at any
fan-out position, several swaps in one record, nested records) are interleavings of this machine:
every call of every scenario is routed entirely under the snapshot it loaded -/
theorem C15_scenario_atomic (sc : Scenario) (sys : Sys) (hinit : sc.init = some sys) :
    ∀ th ∈ (sys.run .once (sc.events sys)).threads,
      th.isPanicked = false ∧
      (th.isDone = true → ∃ s, th.atLoad = some s ∧ th.out = prescribed s th.target th.level) := by
  have hsys : sys.Inv := by
    unfold Scenario.init at hinit
    cases hc : sc.cfgs[0]? with
    | none => simp [hc] at hinit
    | some c =>
      simp [hc] at hinit; subst hinit
      exact ⟨mkSnapshot_WF c, by simp⟩
  have hev : ∀ e ∈ sc.events sys, e.WF := schedule_WF sc _ sys _ [] (by simp)
  intro th hth
  have h := C15_snapshot_atomic sys hsys (sc.events sys) hev th hth
  exact ⟨h.1, h.2.2⟩

/-- Impl = Spec for part (a): on EVERY event list over the configurations of a case — any number of
concurrent or nested calls, swaps anywhere — whose calls have all completed, the observable trace
of the machine satisfies the executable specification `specTrace` (windowed form: each record is
routed entirely under one configuration that was current at some moment between its begin and its
end). This is the specification the driver evaluates on the real code's trace. -/
theorem C15_run_meets_spec (c0 : MiniCfg) (more : List MiniCfg) (evs : List Event)
    (hev : ∀ e ∈ evs, ∀ s, e = .swap s → ∃ c ∈ c0 :: more, s = mkSnapshot c)
    (hdone : ∀ th ∈ (Sys.run .once { store := mkSnapshot c0 } evs).threads, th.isDone = true) :
    specTrace (c0 :: more) false (Sys.run .once { store := mkSnapshot c0 } evs).trace = none :=
  specTrace_run c0 more evs hev hdone

/-- the same for the scripted scenarios of the harness, whenever the scheduler ran every call to
completion (the driver checks that on every case, and additionally evaluates the strict form —
"the configuration in force at begin" — on the model's own trace; see `handleSwap`) -/
theorem C15_scenario_meets_spec (sc : Scenario) (c0 : MiniCfg) (more : List MiniCfg)
    (hcfgs : sc.cfgs = c0 :: more)
    (hdone : ∀ th ∈ (Sys.run .once { store := mkSnapshot c0 } (sc.events { store := mkSnapshot c0 })).threads,
      th.isDone = true) :
    specTrace sc.cfgs false (Sys.run .once { store := mkSnapshot c0 } (sc.events { store := mkSnapshot c0 })).trace = none := by
  rw [hcfgs]
  apply specTrace_run c0 more _ _ hdone
  -- every swap the scheduler emits stores the snapshot of one of the scenario's configurations
  intro e he s hs
  have key : ∀ (fuel : Nat) (sys : Sys) (stack : List Frame) (acc : List Event),
      (∀ e ∈ acc, ∀ s, e = Event.swap s → ∃ c ∈ sc.cfgs, s = mkSnapshot c) →
      ∀ e ∈ schedule sc fuel sys stack acc, ∀ s, e = Event.swap s → ∃ c ∈ sc.cfgs, s = mkSnapshot c := by
    intro fuel sys stack acc hacc
    fun_induction schedule sc fuel sys stack acc with
    | case1 => simpa using hacc
    | case2 => simpa using hacc
    | case3 _ _ _ _ _ ih => exact ih hacc
    | case4 _ _ _ _ _ _ _ _ ih => exact ih hacc
    | case5 _ _ _ _ _ _ k c hk _ ih =>
      apply ih
      intro e he s hs
      simp only [List.mem_cons] at he
      rcases he with he | he
      · rw [he] at hs
        have hs' : Event.swap (mkSnapshot c) = Event.swap s := hs
        injection hs' with h
        exact ⟨c, List.mem_of_getElem? hk, h.symm⟩
      · exact hacc e he s hs
    | case6 _ _ _ _ _ _ _ _ _ ih =>
      apply ih
      intro e he s hs
      simp only [List.mem_cons] at he
      rcases he with he | he
      · rw [he] at hs
        have hs' : Event.spawn _ _ = Event.swap s := hs
        cases hs'
      · exact hacc e he s hs
    | case7 _ _ _ _ _ _ _ ih => exact ih hacc
    | case8 _ _ _ _ _ _ _ _ _ ih => exact ih hacc
    | case9 _ _ _ _ _ _ _ _ _ _ _ _ ih =>
      apply ih
      intro e he s hs
      simp only [List.mem_cons] at he
      rcases he with he | he
      · rw [he] at hs
        have hs' : Event.step _ = Event.swap s := hs
        cases hs'
      · exact hacc e he s hs
  have := key _ _ _ [] (by simp) e he s hs
  rw [hcfgs] at this
  exact this

/-! ### non-vacuity of (a): the theorems tell the code from the variant that re-reads the pointer -/

/-- the wrong variant (pointer re-read at every step) delivers a mixture … -/
theorem Variant_C15_reload_mixes :
    outs (Sys.run .everyStep { store := wOld } (wEvents wBig)) = [([(0, 10), (1, 22)], true, false)] ∧
    prescribed wOld 0 3 = [(0, 10), (0, 12)] ∧ prescribed wBig 0 3 = [(1, 21)] := by
  decide

/-- … or indexes the smaller new table with an index of the old tree and panics -/
theorem Variant_C15_reload_panics :
    outs (Sys.run .everyStep { store := wOld } (wEvents wSmall)) = [([(0, 10)], false, true)] := by
  decide

/-- the realistic wrong variant — "is it enabled" decided on a first load, find + fan-out done on a
second one — lets a record through on the old configuration's level and delivers it to the new
configuration's appender, which the new configuration would not have done: a mixture. (This is the
variant a seeded change of `Logger::log` introduced; the deterministic re-entrant enumeration cannot
reach the window between two loads, the theorem can.) -/
theorem Variant_C15_double_load_mixes :
    outs (Sys.run .gateThenReload { store := wOld } (wEventsEarly wQuiet)) = [([(1, 21)], true, false)] ∧
    prescribed wOld 0 3 = [(0, 10), (0, 12)] ∧ prescribed wQuiet 0 3 = [] ∧
    outs (Sys.run .once { store := wOld } (wEventsEarly wQuiet)) = [([(0, 10), (0, 12)], true, false)] := by
  decide

/-- the code (pointer loaded once) on the very same interleavings: entirely the old configuration -/
theorem C15_code_on_same_interleavings :
    outs (Sys.run .once { store := wOld } (wEvents wBig)) = [([(0, 10), (0, 12)], true, false)] ∧
    outs (Sys.run .once { store := wOld } (wEvents wSmall)) = [([(0, 10), (0, 12)], true, false)] := by
  decide


end Log4rs.Reconfig

namespace Log4rs.Reconfig.Reloader
section
variable {Text : Type} [DecidableEq Text] (parse : Text → Option (ConfigTag × Option Rate))

/-! ## (b) the file reloader -/

/-- "leaves the logger untouched for unchanged files": same mtime as remembered, or same text as
remembered (touch without change) ⇒ no `set_config`, nothing changes -/
theorem C15_unchanged_untouched (fixed : Bool) (st : RState Text) (fv : FileView Text)
    (h : (∃ m, st.modified = some m ∧ fv.mtime? = some m) ∨ fv.text? = some st.source) :
    (runOnce parse fixed st fv).2 ≠ .applied ∧
    (runOnce parse fixed st fv).1.active = st.active ∧ (runOnce parse fixed st fv).1.rate = st.rate ∧
    (runOnce parse fixed st fv).1.alive = st.alive ∧ (runOnce parse fixed st fv).1.source = st.source := by
  rcases st with ⟨modified, source, active, rate, alive⟩
  rcases h with ⟨m, h1, h2⟩ | h
  · simp only at h1; subst h1
    simp [runOnce, h2]
  · cases fv with
    | missing => simp [FileView.text?] at h
    | unreadable m => simp [FileView.text?] at h
    | ok m t =>
      simp only [FileView.text?, Option.some.injEq] at h
      subst h
      cases modified with
      | none => simp [runOnce, readAndApply, FileView.text?]
      | some l =>
        by_cases hlm : l = m <;> cases fixed <;> simp [runOnce, readAndApply, FileView.text?, FileView.mtime?, hlm]

/-- the visible hypothesis of change detection: an edit that keeps the mtime the reloader
remembers is not seen — whatever the new text is (by design of the code) -/
theorem C15_same_mtime_edit_missed (fixed : Bool) (st : RState Text) (m : Mtime) (t : Text)
    (h : st.modified = some m) : runOnce parse fixed st (.ok m t) = (st, .unchanged) := by
  simp [runOnce, h, FileView.mtime?]

/-- "applies a changed file's configuration and refresh rate": the mtime differs from the
remembered one (or mtimes are unavailable), the text differs from the remembered source and parses -/
theorem C15_changed_applied (fixed : Bool) (st : RState Text) (m : Mtime) (t : Text) (c : ConfigTag) (r : Option Rate)
    (hvis : st.modified = none ∨ ∃ l, st.modified = some l ∧ l ≠ m) (hne : t ≠ st.source)
    (hp : parse t = some (c, r)) :
    runOnce parse fixed st (.ok m t) =
      ({ modified := st.modified.map (fun _ => m), source := t, active := c, rate := r.getD st.rate, alive := r.isSome },
       .applied) := by
  rcases st with ⟨modified, source, active, rate, alive⟩
  simp only at hne
  rcases hvis with h | ⟨l, h, hl⟩ <;> simp only at h <;> subst h
  · simp [runOnce, readAndApply, FileView.text?, hne, hp]
  · cases fixed <;> simp [runOnce, readAndApply, FileView.text?, FileView.mtime?, hne, hp, hl]

/-- "on an unreadable or unparsable file keeps the last good configuration active and keeps
polling": missing, unreadable, or unparsable ⇒ no `set_config`, configuration, rate and liveness
unchanged, and the loop goes on -/
theorem C15_bad_keeps_good_and_polls (fixed : Bool) (st : RState Text) (fv : FileView Text)
    (hbad : fv = .missing ∨ (∃ m, fv = .unreadable m) ∨ ∃ m t, fv = .ok m t ∧ parse t = none) :
    (runOnce parse fixed st fv).2 ≠ .applied ∧
    (runOnce parse fixed st fv).1.active = st.active ∧ (runOnce parse fixed st fv).1.rate = st.rate ∧
    (runOnce parse fixed st fv).1.alive = st.alive ∧
    (st.alive = true → (poll parse fixed st fv).2 ≠ .dead ∧ (poll parse fixed st fv).1.alive = true) := by
  rcases st with ⟨modified, source, active, rate, alive⟩
  have key : (runOnce parse fixed ⟨modified, source, active, rate, alive⟩ fv).2 ≠ .applied ∧
      (runOnce parse fixed ⟨modified, source, active, rate, alive⟩ fv).1.active = active ∧
      (runOnce parse fixed ⟨modified, source, active, rate, alive⟩ fv).1.rate = rate ∧
      (runOnce parse fixed ⟨modified, source, active, rate, alive⟩ fv).1.alive = alive := by
    rcases hbad with rfl | ⟨m, rfl⟩ | ⟨m, t, rfl, hp⟩
    · cases modified <;> simp [runOnce, readAndApply, FileView.text?, FileView.mtime?]
    · cases modified with
      | none => simp [runOnce, readAndApply, FileView.text?, FileView.mtime?]
      | some l => by_cases hlm : l = m <;> cases fixed <;> simp [runOnce, readAndApply, FileView.text?, FileView.mtime?, hlm]
    · cases modified with
      | none => by_cases hts : t = source <;> simp [runOnce, readAndApply, FileView.text?, FileView.mtime?, hp, hts]
      | some l =>
        by_cases hlm : l = m <;> by_cases hts : t = source <;> cases fixed <;>
          simp [runOnce, readAndApply, FileView.text?, FileView.mtime?, hlm, hp, hts]
  refine ⟨key.1, key.2.1, key.2.2.1, key.2.2.2, ?_⟩
  intro ha
  simp only at ha
  subst ha
  simp only [poll, if_true]
  refine ⟨?_, key.2.2.2⟩
  -- `run_once` never answers `dead`
  rcases hbad with rfl | ⟨m, rfl⟩ | ⟨m, t, rfl, hp⟩
  · cases modified <;> simp [runOnce, readAndApply, FileView.text?, FileView.mtime?]
  · cases modified with
    | none => simp [runOnce, readAndApply, FileView.text?, FileView.mtime?]
    | some l => by_cases hlm : l = m <;> cases fixed <;> simp [runOnce, readAndApply, FileView.text?, FileView.mtime?, hlm]
  · cases modified with
    | none => by_cases hts : t = source <;> simp [runOnce, readAndApply, FileView.text?, FileView.mtime?, hp, hts]
    | some l =>
      by_cases hlm : l = m <;> by_cases hts : t = source <;> cases fixed <;>
        simp [runOnce, readAndApply, FileView.text?, FileView.mtime?, hlm, hp, hts]

/-- `set_config` is called exactly when a text was read that differs from the remembered source
and parses; then the configuration *and* the refresh rate of that text take effect: a new rate is
what `run` sleeps next, a missing rate ends the loop. In every other case configuration, rate and
liveness are what they were. -/
theorem C15_rate_follows (fixed : Bool) (st : RState Text) (fv : FileView Text) :
    ((runOnce parse fixed st fv).2 = .applied →
      ∃ t c r, fv.text? = some t ∧ t ≠ st.source ∧ parse t = some (c, r) ∧
        (runOnce parse fixed st fv).1.active = c ∧
        (runOnce parse fixed st fv).1.rate = r.getD st.rate ∧
        (runOnce parse fixed st fv).1.alive = r.isSome) ∧
    ((runOnce parse fixed st fv).2 ≠ .applied →
      (runOnce parse fixed st fv).1.active = st.active ∧ (runOnce parse fixed st fv).1.rate = st.rate ∧
      (runOnce parse fixed st fv).1.alive = st.alive) := by
  rcases st with ⟨modified, source, active, rate, alive⟩
  have ra : ∀ (st' : RState Text), 
      ((readAndApply parse st' fv).2 = .applied →
        ∃ t c r, fv.text? = some t ∧ t ≠ st'.source ∧ parse t = some (c, r) ∧
          (readAndApply parse st' fv).1.active = c ∧ (readAndApply parse st' fv).1.rate = r.getD st'.rate ∧
          (readAndApply parse st' fv).1.alive = r.isSome) ∧
      ((readAndApply parse st' fv).2 ≠ .applied →
        (readAndApply parse st' fv).1.active = st'.active ∧ (readAndApply parse st' fv).1.rate = st'.rate ∧
        (readAndApply parse st' fv).1.alive = st'.alive) := by
    intro st'
    unfold readAndApply
    cases hft : fv.text? with
    | none => simp
    | some t =>
      simp only
      by_cases hts : t = st'.source
      · simp [hts]
      · simp only [hts, if_false]
        cases hp : parse t with
        | none => simp
        | some p => obtain ⟨c, r⟩ := p; simp [hts]; exact ⟨c, r, hp, rfl, rfl, rfl⟩
  cases modified with
  | none => simpa [runOnce] using ra ⟨none, source, active, rate, alive⟩
  | some l =>
    cases hfm : fv.mtime? with
    | none => simp [runOnce, hfm]
    | some m =>
      by_cases hlm : l = m
      · simp [runOnce, hfm, hlm]
      · cases fixed with
        | false => simpa [runOnce, hfm, hlm] using ra ⟨some m, source, active, rate, alive⟩
        | true =>
          cases hft : fv.text? with
          | none => simp [runOnce, hfm, hlm, hft]
          | some t => simpa [runOnce, hfm, hlm, hft] using ra ⟨some m, source, active, rate, alive⟩

/-- removal of `refresh_rate`: the configuration without a rate is applied, and that was the last
thing the reloader ever did — whatever happens to the file afterwards is never looked at -/
theorem C15_rate_removal_stops_polling (fixed : Bool) (st : RState Text) (m : Mtime) (t : Text) (c : ConfigTag)
    (hvis : st.modified = none ∨ ∃ l, st.modified = some l ∧ l ≠ m) (hne : t ≠ st.source)
    (hp : parse t = some (c, none)) (later : List (FileView Text)) :
    let st' := (runOnce parse fixed st (.ok m t)).1
    st'.active = c ∧ st'.alive = false ∧ runAll parse fixed st' later = st' ∧
    ∀ fv, poll parse fixed st' fv = (st', .dead) := by
  intro st'
  have h := C15_changed_applied parse fixed st m t c none hvis hne hp
  have hdead : st'.alive = false := by
    show (runOnce parse fixed st (.ok m t)).1.alive = false
    rw [h]; rfl
  have hact : st'.active = c := by
    show (runOnce parse fixed st (.ok m t)).1.active = c
    rw [h]
  refine ⟨hact, hdead, runAll_dead parse fixed later st' hdead, ?_⟩
  intro fv
  simp [poll, hdead]

/-- The active configuration after any history of `run_once` calls, stated as three independent
layers: (1) `reads` — which polls read the file at all (mtime rule; a failed read still consumes
the mtime in the historical variant `fixed = false`); (2) `changes` — which of the read texts differ from the source
remembered at that moment (a text that failed to parse *is* remembered: re-polling it is "no
change", restoring the previous good text afterwards is a change and is applied again);
(3) `lastGood` — the last changed text that parses decides configuration, rate and liveness. -/
theorem C15_active_is_last_good (fixed : Bool) (st : RState Text) (h : List (FileView Text)) :
    let r := stepAll parse fixed st h
    (r.active, r.rate, r.alive) =
      lastGood parse (st.active, st.rate, st.alive) (changes st.source (reads fixed st.modified h)) ∧
    r.source = ((changes st.source (reads fixed st.modified h)).getLast?).getD st.source ∧
    r.modified = finalModified fixed st.modified h := by
  have h1 := stepAll_eq parse fixed h st
  have h2 := foldl_applyText parse (reads fixed st.modified h) st
  simp only at h2
  intro r
  have hr : r = _ := h1
  rw [hr]
  exact ⟨h2.1, h2.2, rfl⟩

/-- the same for the loop of `run`, for EVERY history — refresh-rate removal included: the loop
stops at the first applied text that has no refresh rate (`lastGoodRun` ignores whatever comes
after it), so an edit made after the removal is never applied -/
theorem C15_active_is_last_good_run (fixed : Bool) (st : RState Text) (h : List (FileView Text)) :
    let r := runAll parse fixed st h
    (r.active, r.rate, r.alive) =
      lastGoodRun parse (st.active, st.rate, st.alive) (changes st.source (reads fixed st.modified h)) :=
  runAll_lastGoodRun parse fixed h st

/-! ### the model against the executable specification (the one the driver evaluates on the
implementation's observation) -/

/-- On every history of file states, for a consistent initial pair (text, mtime), what the reloader
does satisfies `Spec.specHistory`; the parametrised form (any `fixed`) is used for the historical
refutation `Hist_C15_mtime_consumed_refutes`. -/
def C15_reloader_meets_spec_for (fixed : Bool) : Prop :=
  ∀ (Text : Type) [DecidableEq Text] (parse : Text → Option (ConfigTag × Option Rate))
    (m0 : Option Mtime) (text0 : Text) (st0 : RState Text) (h : List (FileView Text)),
    initState parse m0 text0 = some st0 →
    specHistory parse m0 text0 (obsOf .unchanged st0) (modelPolls parse fixed st0 h) = none

def C15_reloader_meets_spec_statement : Prop := C15_reloader_meets_spec_for codeFixed

/-- the code as it is now (`codeFixed = true`: the mtime is remembered only after the read
succeeded) satisfies the full statement -/
theorem C15_reloader_meets_spec : C15_reloader_meets_spec_statement := by
  intro Text _ parse m0 text0 st0 h hinit
  exact specHistory_model parse codeFixed m0 text0 st0 hinit h (Or.inl rfl) .unchanged

/-- the initialisation looks at the file twice (`v1` then `v2`): whatever edit lands in between,
the history that follows satisfies the specification — the code as it is now takes the mtime
first (`initStatsBeforeRead = true`) -/
def C15_init_then_polls_meets_spec_for (statsFirst : Bool) : Prop :=
  ∀ (Text : Type) [DecidableEq Text] (parse : Text → Option (ConfigTag × Option Rate))
    (noMtime : Bool) (v1 v2 : FileView Text) (st0 : RState Text) (h : List (FileView Text)),
    initState2 parse statsFirst noMtime v1 v2 = some st0 →
    specHistory2 parse noMtime v1 v2 (obsOf .unchanged st0) (modelPolls parse codeFixed st0 h) = none

def C15_init_then_polls_meets_spec_statement : Prop := C15_init_then_polls_meets_spec_for initStatsBeforeRead

theorem C15_init_then_polls_meets_spec : C15_init_then_polls_meets_spec_statement := by
  intro Text _ parse noMtime v1 v2 st0 h hinit
  exact specHistory2_model_statsFirst parse codeFixed noMtime v1 v2 st0 h hinit (Or.inl rfl) .unchanged

/-! ### the real thread: `loop { sleep(rate); poll }` with time abstracted -/

/-- the basis of the timing abstraction: it does not matter how many times the loop polls between
two edits — a second poll of the same file view changes nothing and never calls `set_config` -/
theorem C15_repeated_polls_idempotent (fixed : Bool) (st : RState Text) (fv : FileView Text) (n : Nat) :
    pollMany parse fixed st fv n = (poll parse fixed st fv).1 ∧
    (poll parse fixed (poll parse fixed st fv).1 fv).2 ≠ .applied :=
  ⟨pollMany_eq parse fixed fv n st, (poll_idem parse fixed st fv).2⟩

/-- what the thread shows, for ANY refresh rates: the observations of the steps at which the loop
polls are exactly the poll history of `run` over the views it polls (`polledViews`: every edit
while the current rate is an ordinary one, the current file at a long wait), and at a step at which
it does not poll (it is inside the `sleep` of a slow rate — "the new refresh rate is used from the
next sleep") nothing is applied -/
theorem C15_thread_shows_poll_history (fixed : Bool) (steps : List (TStep Text))
    (st : RState Text) (cur : FileView Text) :
    (threadRun parse fixed st cur steps).filter (·.polled) =
      (pollAll parse fixed st (polledViews parse fixed st cur steps)).map tobsOf ∧
    ∀ o ∈ threadRun parse fixed st cur steps, o.polled = false → o.touched = false :=
  threadRun_polled parse fixed steps st cur

end

/-! ### HISTORICAL (not counted): the variant before fix 6066c40, `fixed = false` -/

/-- before 6066c40 `run_once` remembered the new mtime before the read had succeeded: the failed
read consumed mtime 11 and the changed, valid file was never applied -/
theorem Hist_C15_mtime_consumed_witness :
    initState parseDoc (some 10) wA = some wInit ∧
    (pollAll parseDoc false wInit wHistory).map (fun p => (p.1, p.2.active)) = [(.error, 1), (.unchanged, 1)] ∧
    (pollAll parseDoc true wInit wHistory).map (fun p => (p.1, p.2.active)) = [(.error, 1), (.applied, 2)] ∧
    (specHistory parseDoc (some 10) wA (obsOf .unchanged wInit) (modelPolls parseDoc false wInit wHistory)).isSome = true := by
  decide

theorem Hist_C15_mtime_consumed_refutes : ¬ C15_reloader_meets_spec_for false := by
  intro hst
  have h := hst Doc parseDoc (some 10) wA wInit wHistory (by decide)
  have h2 := Hist_C15_mtime_consumed_witness.2.2.2
  rw [h] at h2
  exact absurd h2 (by decide)

/-- the unfixed variant did satisfy the specification on histories in which no poll found the
file unreadable while its metadata was readable -/
theorem Hist_C15_reloader_meets_spec_partial (m0 : Option Mtime) (text0 : Doc) (st0 : RState Doc)
    (h : List (FileView Doc)) (hinit : initState parseDoc m0 text0 = some st0)
    (hsafe : Safe false st0 h) :
    specHistory parseDoc m0 text0 (obsOf .unchanged st0) (modelPolls parseDoc false st0 h) = none :=
  specHistory_model parseDoc false m0 text0 st0 hinit h hsafe .unchanged

/-! ### non-vacuity of (b): concrete histories through every branch, on the code as it is now -/

/-- syntax error keeps A and keeps polling; re-polling the same bad text is "unchanged"; restoring
A afterwards counts as a change and is applied again -/
example : (pollAll parseDoc codeFixed wInit [.ok 11 wBad, .ok 12 wBad, .ok 13 wA]).map
    (fun p => (p.1, p.2.active, p.2.alive)) = [(.error, 1, true), (.unchanged, 1, true), (.applied, 1, true)] := by
  decide
/-- a same-mtime edit is missed, and seen as soon as the mtime moves -/
example : (pollAll parseDoc codeFixed wInit [.ok 10 wB, .ok 11 wB]).map
    (fun p => (p.1, p.2.active, p.2.rate)) = [(.unchanged, 1, 30), (.applied, 2, 60)] := by decide
/-- an unreadable file (directory, EACCES, not UTF-8) is an error at every poll, does not consume
its mtime, and a valid file keeping that mtime is applied (the one place where `codeFixed` matters) -/
example : (pollAll parseDoc codeFixed wInit [.unreadable 11, .unreadable 11, .ok 11 wB]).map
    (fun p => (p.1, p.2.active, p.2.modified)) = [(.error, 1, some 10), (.error, 1, some 10), (.applied, 2, some 11)] := by
  decide
/-- a slow refresh rate defers the next poll: the edit is picked up only after the long wait -/
example : (threadRun parseDoc codeFixed wInit (.ok 10 wA)
      [.edit (.ok 11 { kind := .good, tag := 5, rate := some 3000, nonce := 0 }), .edit (.ok 12 wB), .longWait]).map
    (fun o => (o.active, o.touched, o.polled)) = [(5, true, true), (5, false, false), (2, true, true)] := by decide
/-- deletion keeps the configuration and the loop; removal of refresh_rate ends the loop, a later
valid change is never applied (`C15_active_is_last_good_run` covers this history) -/
example : (pollAll parseDoc codeFixed wInit [.missing, .ok 11 wNoRate, .ok 12 wB]).map
    (fun p => (p.1, p.2.active, p.2.alive)) = [(.error, 1, true), (.applied, 3, false), (.dead, 3, false)] := by
  decide
example : lastGoodRun parseDoc (1, 30, true)
    (changes wInit.source (reads codeFixed wInit.modified [.missing, .ok 11 wNoRate, .ok 12 wB])) = (3, 30, false) := by
  decide
/-- the two-look initialisation with an edit in between, on the code as it is now: B is loaded, the
older mtime is remembered, the first poll re-examines the file and leaves it alone -/
example : (initState2 parseDoc initStatsBeforeRead false (.ok 10 wA) (.ok 11 wB)).map
    (fun st => (st.modified, st.active,
      (pollAll parseDoc codeFixed st [.ok 11 wB, .ok 12 wA]).map (fun p => (p.1, p.2.active)))) =
    some (some 10, 2, [(.unchanged, 2), (.applied, 1)]) := by decide

end Log4rs.Reconfig.Reloader

namespace Log4rs.Reconfig

/-! ## (a) reconfiguring threadS: `set_config` is two writes under one lock -/

/-- whenever no `set_config` call is in flight, the facade's gate is that of the configuration whose
snapshot is stored — for every interleaving of any number of `set_config` calls -/
def C15_set_config_consistent_for (serialised : Bool) : Prop :=
  ∀ (cfgs : List MiniCfg) (evs : List FEvent),
    let s := FSys.run serialised cfgs (FSys.init cfgs) evs
    s.quiescent = true → s.maxLevel = cfgMax cfgs s.store

def C15_set_config_consistent_statement : Prop := C15_set_config_consistent_for setConfigSerialised

/-- the code as it is now (both writes under one process-wide lock, `setConfigSerialised = true`):
a second call waits until the first has stored, so the statement holds for every interleaving -/
theorem C15_set_config_consistent : C15_set_config_consistent_statement := by
  intro cfgs evs s hq
  have h := FSys.run_serialised_consistent cfgs evs _ (FSys.init_consistent cfgs)
  simp only [FSys.quiescent, Bool.and_eq_true, List.isEmpty_iff] at hq
  exact h.2.1 hq.1

/-- and while calls are in flight at most one of them is between its two writes, and the gate is
that call's -/
theorem C15_set_config_one_writer (cfgs : List MiniCfg) (evs : List FEvent) :
    let s := FSys.run setConfigSerialised cfgs (FSys.init cfgs) evs
    s.atHook.length ≤ 1 ∧ ∀ k, s.atHook = [k] → s.maxLevel = cfgMax cfgs k := by
  intro s
  have h := FSys.run_serialised_consistent cfgs evs _ (FSys.init_consistent cfgs)
  exact ⟨h.1, h.2.2⟩

/-- one record, in any such state: the gate never produces a mixture — the record is treated
entirely as the stored configuration prescribes or entirely as the configuration whose level the
gate holds prescribes (dropped: above that configuration's max level nothing is routed anyway) -/
theorem C15_gate_one_config (cfgs : List MiniCfg) (s : FSys) (j : Nat) (cs cj : MiniCfg)
    (hs : cfgs[s.store]? = some cs) (hj : cfgs[j]? = some cj) (hmax : s.maxLevel = cfgMax cfgs j)
    (t : Target) (l : Level) :
    s.record cfgs t l = prescribed (mkSnapshot cs) t l ∨ s.record cfgs t l = prescribed (mkSnapshot cj) t l := by
  unfold FSys.record
  split
  · left; simp [hs]
  · right
    rename_i hl
    have hc : cfgMax cfgs j = cj.maxLevel := by simp [cfgMax, hj]
    have hl' : ¬ l ≤ cj.maxLevel := by rw [← hc, ← hmax]; exact hl
    have : cj.maxLevel < l := Nat.lt_of_not_le hl'
    rw [prescribed_above_max cj t l this]

/-- non-vacuity on the code as it is now: the schedule that used to break it — the second call
waits, both stores happen in turn, gate and snapshot agree -/
example : (FSys.states setConfigSerialised [fc0, fc1, fc2] (FSys.init [fc0, fc1, fc2]) fRace).map
    (fun s => (s.maxLevel, s.store, s.atHook, s.waiting)) =
    [(3, 0, [], []), (5, 0, [1], []), (5, 0, [1], [2]), (5, 0, [1], [2]), (1, 1, [2], [])] := by decide

/-! ### HISTORICAL (not counted): `set_config` before fix 411af7e, two unsynchronised writes -/

/-- (case `C15 race 10;3;10|20;5;20|30;1;30 a1,a2,s2,s1 0.1,0.2,0.3,0.4,0.5`) both calls have
returned, the snapshot is A's (root Trace), the gate is B's (Error): an error record is delivered by
A's appender, everything else is dropped as B would — for good -/
theorem Hist_C15_two_writers_witness :
    let s := FSys.run false [fc0, fc1, fc2] (FSys.init [fc0, fc1, fc2]) fRace
    s.quiescent = true ∧ s.done = [2, 1] ∧ s.store = 1 ∧ s.maxLevel = 1 ∧ cfgMax [fc0, fc1, fc2] 1 = 5 ∧
    s.record [fc0, fc1, fc2] 0 1 = [(1, 20)] ∧ s.record [fc0, fc1, fc2] 0 4 = [] ∧
    prescribed (mkSnapshot fc1) 0 4 = [(1, 20)] ∧ prescribed (mkSnapshot fc2) 0 1 = [(2, 30)] := by
  decide

theorem Hist_C15_two_writers_refute : ¬ C15_set_config_consistent_for false := by
  intro hst
  have h := hst [fc0, fc1, fc2] fRace
  have hw := Hist_C15_two_writers_witness
  simp only at h hw
  have := h hw.1
  rw [hw.2.2.1, hw.2.2.2.1, hw.2.2.2.2.1] at this
  exact absurd this (by decide)

/-- the unserialised variant was consistent on interleavings in which at most one call at a time was
between its two writes -/
theorem Hist_C15_set_config_consistent_partial (cfgs : List MiniCfg) (evs : List FEvent)
    (hone : ∀ s' ∈ FSys.states false cfgs (FSys.init cfgs) evs, s'.atHook.length ≤ 1) :
    let s := FSys.run false cfgs (FSys.init cfgs) evs
    s.quiescent = true → s.maxLevel = cfgMax cfgs s.store := by
  intro s hq
  have h := FSys.run_consistent_of_one false cfgs evs _ (FSys.init_consistent cfgs) hone
  simp only [FSys.quiescent, Bool.and_eq_true, List.isEmpty_iff] at hq
  exact h.2.1 hq.1

end Log4rs.Reconfig

namespace Log4rs.Reconfig.Reloader

/-! ### HISTORICAL (not counted): `init_file` before fix b32fc8c, read first and stat afterwards -/

/-- (case `C15 reload g:1:30:0;g:2:60:0 0:10:0:f:e1.11 w:1:11,w:1:11`) the text of version A
(mtime 10) was read, then the file became B (mtime 11), then the mtime was taken: the reloader
remembered (A's text, B's mtime) and never looked at B -/
theorem Hist_C15_init_race_witness :
    initState2 parseDoc false false (.ok 10 wA) (.ok 11 wB) = some { wInit with modified := some 11 } ∧
    (pollAll parseDoc codeFixed { wInit with modified := some 11 } [.ok 11 wB, .ok 11 wB]).map
      (fun p => (p.1, p.2.active)) = [(.unchanged, 1), (.unchanged, 1)] ∧
    (specHistory2 parseDoc false (.ok 10 wA) (.ok 11 wB) (obsOf .unchanged { wInit with modified := some 11 })
      (modelPolls parseDoc codeFixed { wInit with modified := some 11 } [.ok 11 wB, .ok 11 wB])).isSome = true := by
  decide

theorem Hist_C15_init_race_refute : ¬ C15_init_then_polls_meets_spec_for false := by
  intro hst
  have h := hst Doc parseDoc false (.ok 10 wA) (.ok 11 wB) { wInit with modified := some 11 } [.ok 11 wB, .ok 11 wB]
    Hist_C15_init_race_witness.1
  have h2 := Hist_C15_init_race_witness.2.2
  rw [h] at h2
  exact absurd h2 (by decide)

end Log4rs.Reconfig.Reloader
