import Log4rsModel.Rolling.LemmasRolling
import Log4rsModel.TimeTrigger.Model
/-
C16, clause "the trigger fires … BEFORE that record is written", through the C05 model of
`RollingFileAppender::append` + `CompoundPolicy::process` (Rolling/Model.lean): the time trigger is
an instance of C05's abstract `Trigger` with `pre := true`; C05's `append_pre_spec` then says, at
the level of bytes on the disk, that on a firing the roller runs on the file WITHOUT the record and
the record is written into the re-opened file afterwards.
-/
namespace Log4rs.TimeTrigger
open Log4rs.Rolling

/-- `TimeTrigger` as a C05 trigger: the state is the scheduled instant, `nextOf now` is what
`TimeTrigger::new` schedules when the clock reads `now` (C16 proves what that is); pre-process. -/
def timeTriggerOf (nextOf : Nat → Nat) : Rolling.Trigger Nat :=
  { pre := true,
    fire := fun sched _ now => if now ≥ sched then (.yes, nextOf now) else (.no, sched),
    reinit := fun _ now => nextOf now }

/-- the instance answers exactly as `stepFixed` (the C16 model of `Trigger::trigger`) does -/
theorem C16_rolling_trigger_is_stepFixed (nextOf : Nat → Nat) (sched len now : Nat) :
    stepFixed (sched : Int) (now : Int) (.ok ((nextOf now : Nat) : Int))
      = (match ((timeTriggerOf nextOf).fire sched len now).1 with
          | .yes => .ok true
          | _ => .ok false,
         ((((timeTriggerOf nextOf).fire sched len now).2 : Nat) : Int)) := by
  simp only [stepFixed, timeTriggerOf]
  by_cases h : now ≥ sched
  · have : (now : Int) ≥ (sched : Int) := by omega
    simp [h, this]
  · have : ¬ (now : Int) ≥ (sched : Int) := by omega
    simp [h, this]

/-- "Before that record is written", on the disk: with the time trigger installed, an append whose
clock reading is at or after the schedule rolls the file that does NOT yet contain the record
(`d1` holds the old content `a0`), and if the roller succeeds the record is the first thing written
to the active file after the roll; the schedule moves to `nextOf now`. An append before the schedule
appends to the old content and leaves the schedule alone. -/
theorem C16_fired_record_written_after_roll (nextOf : Nat → Nat) (cfg : Cfg Nat)
    (htrig : cfg.trig = timeTriggerOf nextOf) (s : St Nat) (r : Rec) (fault : Nat → Bool) (hwf : WF cfg s) :
    let out := (append cfg s r fault).1
    let s' := (append cfg s r fault).2
    (s.now < s.tst → out.res = .ok ∧ out.rolled = none ∧ s'.tst = s.tst
        ∧ Opened cfg s' (openView cfg s ++ encBytes r))
    ∧ (s.now ≥ s.tst → s'.tst = nextOf s.now ∧ ∃ d1, d1.get? cfg.path = some (openView cfg s) ∧
        ((∃ x, (cfg.roll cfg.path fault d1).1 = .ok x ∧ out.res = .ok ∧ out.rolled = some true
            ∧ Opened cfg s' (fileOf cfg (cfg.roll cfg.path fault d1).2 ++ encBytes r))
         ∨ (∃ e, (cfg.roll cfg.path fault d1).1 = .error e ∧ out.res = .errRoll ∧ out.rolled = some false))) := by
  intro out s'
  have hpre : cfg.trig.pre = true := by rw [htrig]; rfl
  obtain ⟨_, htst, _, _, hno, _, hyes⟩ := append_pre_spec cfg s r fault hwf hpre (openView cfg s)
    (cfg.trig.fire s.tst (openView cfg s).length s.now) out s' rfl rfl rfl
  constructor
  · intro hlt
    have hf : cfg.trig.fire s.tst (openView cfg s).length s.now = (.no, s.tst) := by
      rw [htrig]; simp only [timeTriggerOf]; rw [if_neg (by omega)]
    obtain ⟨h1, h2, h3, _⟩ := hno (by rw [hf])
    exact ⟨h1, h2, by rw [htst, hf], h3⟩
  · intro hge
    have hf : cfg.trig.fire s.tst (openView cfg s).length s.now = (.yes, nextOf s.now) := by
      rw [htrig]; simp only [timeTriggerOf]; rw [if_pos hge]
    obtain ⟨d1, hd1, _, hor⟩ := hyes (by rw [hf])
    refine ⟨by rw [htst, hf], d1, hd1, ?_⟩
    rcases hor with ⟨x, hx, h1, h2, h3, _⟩ | ⟨e, he, h1, h2, _⟩
    · exact Or.inl ⟨x, hx, h1, h2, h3⟩
    · exact Or.inr ⟨e, he, h1, h2⟩

end Log4rs.TimeTrigger
