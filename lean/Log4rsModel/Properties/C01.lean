import Log4rsModel.Routing.LemmasBuild
/-
C01 — Routing delivers each record to exactly the appenders of its logger chain.
Only property theorems and non-vacuity examples live here; helpers are in Routing/Lemmas*.lean.
`deliver` (Routing/Tree.lean) is the model of `Logger::new` + `Log::log`; `none` would be a panic of
`appender_map[..]`. `specDeliver` (Routing/Spec.lean) is the statement.
-/
namespace Log4rs.Routing.Tree
open Log4rs

/-- Main theorem: for every valid configuration, target and level the appenders called — as a list, in
call order, with multiplicity — are exactly the attachments along the additive chain of the effective
logger when its threshold admits the level, and nothing otherwise. -/
theorem C01_deliver_eq_spec (cfg : Config) (hv : Valid cfg) (t : Name) (lvl : Nat) :
    deliver cfg t lvl = some (specDeliver cfg t lvl) :=
  deliver_eq_spec cfg hv t lvl

/-- The specification's `effective` really is the configured logger with the longest component-wise
prefix (and `none`, the root, exactly when no configured name is a component prefix). -/
theorem C01_effective_longest (cfg : Config) (t : Name) :
    match effective cfg t with
    | some l => l ∈ cfg.loggers ∧ comps l.name <+: comps t ∧
        ∀ l' ∈ cfg.loggers, comps l'.name <+: comps t → (comps l'.name).length ≤ (comps l.name).length
    | none => ∀ l ∈ cfg.loggers, ¬ comps l.name <+: comps t := by
  unfold effective
  generalize comps t = p
  induction p using snoc_induction with
  | hnil =>
    rw [effectiveAt_nil]
    intro l _ h
    exact comps_ne_nil l.name (List.prefix_nil.mp h)
  | hsnoc p c ih =>
    rw [effectiveAt_concat]
    cases hl : lookupLogger cfg.loggers (p ++ [c]) with
    | some l =>
      have hc := lookupLogger_comps hl
      refine ⟨List.mem_of_find?_eq_some hl, hc ▸ List.prefix_refl _, ?_⟩
      intro l' _ hp
      rw [hc]; exact hp.length_le
    | none =>
      have hno : ∀ l ∈ cfg.loggers, comps l.name ≠ p ++ [c] := by
        intro l hm
        have := List.find?_eq_none.mp hl l hm
        simpa using this
      simp only
      cases he : effectiveAt cfg.loggers p with
      | some l =>
        rw [he] at ih
        refine ⟨ih.1, ih.2.1.trans (List.prefix_append _ _), ?_⟩
        intro l' hm hp
        rcases List.prefix_concat_iff.mp hp with h1 | h1
        · exact absurd h1 (hno l' hm)
        · exact ih.2.2 l' hm h1
      | none =>
        rw [he] at ih
        intro l hm hp
        rcases List.prefix_concat_iff.mp hp with h1 | h1
        · exact hno l hm h1
        · exact ih l hm h1

/-- The outcome does not depend on the order in which loggers were declared. -/
theorem C01_perm_loggers (cfg : Config) (hv : Valid cfg) (ls' : List LoggerCfg)
    (hp : cfg.loggers.Perm ls') (t : Name) (lvl : Nat) :
    deliver { cfg with loggers := ls' } t lvl = deliver cfg t lvl := by
  have hv' : Valid { cfg with loggers := ls' } := by
    obtain ⟨h1, h2, h3, h4⟩ := hv
    exact ⟨h1, ((hp.map _).nodup_iff).mp h2, fun l hl => h3 l (hp.mem_iff.mpr hl), h4⟩
  rw [C01_deliver_eq_spec _ hv', C01_deliver_eq_spec _ hv]
  have hnd : ((cfg.loggers.map entOfCfg).map (·.comps)).Nodup := by
    rw [List.map_map, List.nodup_iff_pairwise_ne, List.pairwise_map]
    refine (List.pairwise_map.mp (List.nodup_iff_pairwise_ne.mp hv.2.1)).imp ?_
    intro a b hne hc
    exact hne (comps_inj hc)
  have h1 := res_eq_spec cfg (comps t) (comps t).length (Nat.le_refl _)
  have h2 := res_eq_spec { cfg with loggers := ls' } (comps t) (comps t).length (Nat.le_refl _)
  rw [res_perm _ hnd (hp.map entOfCfg)] at h1
  have h := h1.symm.trans h2
  simp only [Prod.mk.injEq] at h
  simp only [specDeliver, specLevel_eq, effective, h.1, h.2]

/-- … nor on the order of the declared appender table. -/
theorem C01_perm_appenders (cfg : Config) (hv : Valid cfg) (tbl' : List Name)
    (hp : cfg.appenders.Perm tbl') (t : Name) (lvl : Nat) :
    deliver { cfg with appenders := tbl' } t lvl = deliver cfg t lvl := by
  have hv' : Valid { cfg with appenders := tbl' } := by
    obtain ⟨h1, h2, h3, h4⟩ := hv
    exact ⟨hp.nodup_iff.mp h1, h2, fun l hl => ⟨(h3 l hl).1, fun a ha => hp.mem_iff.mp ((h3 l hl).2 a ha)⟩,
      fun a ha => hp.mem_iff.mp (h4 a ha)⟩
  rw [C01_deliver_eq_spec _ hv', C01_deliver_eq_spec _ hv]
  have h1 := res_eq_spec cfg (comps t) (comps t).length (Nat.le_refl _)
  have h2 := res_eq_spec { cfg with appenders := tbl' } (comps t) (comps t).length (Nat.le_refl _)
  have h := h1.symm.trans h2
  simp only [Prod.mk.injEq] at h
  simp only [specDeliver, specLevel_eq, effective, h.1, h.2]

/-- An appender that returns an error does not starve the others: whatever set of appenders fails, every
attachment along the chain is still called exactly once, in the same order, and exactly the failing ones
are reported to the error handler. -/
theorem C01_failing_appender_isolated (cfg : Config) (hv : Valid cfg) (fails : Name → Bool) (t : Name)
    (lvl : Nat) :
    deliverF cfg fails t lvl = some (specDeliver cfg t lvl, specFailures cfg fails t lvl) := by
  rw [deliverF_eq, deliver_eq_spec cfg hv]
  rfl

/-- The Rust branch "child exists and `rest` is empty" (`child.add("")`) is never taken while building
the tree of a valid configuration. -/
theorem C01_weird_branch_dead (cfg : Config) (hv : Valid cfg) : buildWeird cfg = some false := by
  obtain ⟨_, _, hw, _⟩ := build_spec cfg hv
  exact hw

/-- `Logger::new` does not panic on a valid configuration. -/
theorem C01_build_total (cfg : Config) (hv : Valid cfg) : (build cfg).isSome = true := by
  obtain ⟨_, hb, _⟩ := build_spec cfg hv
  simp [hb]

/-! ### non-vacuity: a valid configuration with an implied intermediate (`a::b`), a non-additive cut
(`a`), loggers declared longest first, and a sibling sharing a textual but not a component prefix -/

def exCfg : Config :=
  { appenders := [['x'], ['y'], ['r']]
    rootLevel := 3
    rootAppenders := [['r']]
    loggers := [
      { name := ['a', ':', ':', 'b', ':', ':', 'a'], level := 4, additive := true, appenders := [['x'], ['x']] },
      { name := ['a', ':', ':', 'b', 'b'], level := 5, additive := true, appenders := [] },
      { name := ['a'], level := 1, additive := false, appenders := [['y']] }] }

example : Valid exCfg := by unfold Valid; decide

/-- test on a sample: own attachments twice, then the non-additive ancestor's, never the root's -/
example : deliver exCfg ['a', ':', ':', 'b', ':', ':', 'a', ':', ':', 'z'] 4 = some [['x'], ['x'], ['y']] := by decide
/-- test on a sample: the implied node `a::b` copies `a` -/
example : deliver exCfg ['a', ':', ':', 'b', ':', ':', 'c'] 1 = some [['y']] := by decide
/-- test on a sample: `a::bb` is not below `a::b`; textual prefix `a::b` of `a::bb::q` plays no role -/
example : deliver exCfg ['a', ':', ':', 'b', 'b', ':', ':', 'q'] 5 = some [['y']] := by decide
/-- test on a sample: unrelated target goes to the root, gated by the root's threshold -/
example : deliver exCfg ['a', 'b'] 3 = some [['r']] ∧ deliver exCfg ['a', 'b'] 4 = some [] := by decide

end Log4rs.Routing.Tree
