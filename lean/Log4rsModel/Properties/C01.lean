import Log4rsModel.Routing.LemmasChain
/-
C01 — Routing delivers each record to exactly the appenders of its logger chain.
Only property theorems and non-vacuity examples live here; helpers are in Routing/Lemmas*.lean.

* `deliver` (Routing/Tree.lean) is the model of `Logger::new` + `Log::log`: `none` would be a panic
  (`appender_map[..]` at construction or `appenders[idx]` at delivery) — the theorems show `some`.
* `specDeliver` (Routing/Spec.lean) is the statement as a program; the theorems of the first section say what its
  ingredients (`comps`, `admits`, `effective`, `parent`, `chain`) are, without reference to any program.
* hypothesis `Valid cfg` = what `ConfigBuilder::build{,_lossy}` guarantees (C13; composed in Properties/Compose.lean).
-/
namespace Log4rs.Routing.Tree
open Log4rs

/-- Main theorem: for every valid configuration, target and level the appenders called — as a list, in
call order, with multiplicity — are exactly the attachments along the additive chain of the effective
logger when its threshold admits the level, and nothing otherwise. -/
theorem C01_deliver_eq_spec (cfg : Config) (hv : Valid cfg) (t : Name) (lvl : Nat) :
    deliver cfg t lvl = some (specDeliver cfg t lvl) :=
  deliver_eq_spec cfg hv t lvl

/-! ### what the specification's words mean (no reference to the tree) -/

/-- The specification's `effective` really is the configured logger with the longest component-wise
prefix (and `none`, the root, exactly when no configured name is a component prefix). -/
theorem C01_effective_longest (cfg : Config) (t : Name) :
    match effective cfg t with
    | some l => l ∈ cfg.loggers ∧ comps l.name <+: comps t ∧
        ∀ l' ∈ cfg.loggers, comps l'.name <+: comps t → (comps l'.name).length ≤ (comps l.name).length
    | none => ∀ l ∈ cfg.loggers, ¬ comps l.name <+: comps t :=
  effectiveAt_spec cfg.loggers (comps t)

/-- "the" longest-prefix logger: in a valid configuration two configured loggers that are component prefixes
of the same path and have the same number of components are the same logger. -/
theorem C01_effective_unique (cfg : Config) (hv : Valid cfg) (p : List Name) (l l' : LoggerCfg)
    (hl : l ∈ cfg.loggers) (hl' : l' ∈ cfg.loggers) (hp : comps l.name <+: p) (hp' : comps l'.name <+: p)
    (hlen : (comps l.name).length = (comps l'.name).length) : l = l' :=
  effective_unique cfg hv p l l' hl hl' hp hp' hlen

/-- The specification's `parent` is the configured logger with the longest *proper* component prefix of the
logger's name (`none`, the root, when there is none). Implied (unconfigured) intermediates are transparent. -/
theorem C01_parent_longest_proper (cfg : Config) (l : LoggerCfg) :
    match parent cfg l with
    | some q => q ∈ cfg.loggers ∧ comps q.name <+: comps l.name ∧ comps q.name ≠ comps l.name ∧
        ∀ q' ∈ cfg.loggers, comps q'.name <+: comps l.name → comps q'.name ≠ comps l.name →
          (comps q'.name).length ≤ (comps q.name).length
    | none => ∀ q ∈ cfg.loggers, comps q.name <+: comps l.name → comps q.name = comps l.name := by
  have h := effectiveAt_spec cfg.loggers (comps l.name).dropLast
  have hne := comps_ne_nil l.name
  unfold parent
  cases he : effectiveAt cfg.loggers (comps l.name).dropLast with
  | some q =>
    rw [he] at h
    obtain ⟨h1, h2, h3⟩ := h
    have := (prefix_dropLast_iff _ _ hne).mp h2
    refine ⟨h1, this.1, this.2, ?_⟩
    intro q' hq' hp hn
    exact h3 q' hq' ((prefix_dropLast_iff _ _ hne).mpr ⟨hp, hn⟩)
  | none =>
    rw [he] at h
    intro q hq hp
    apply Classical.byContradiction
    intro hn
    exact h q hq ((prefix_dropLast_iff _ _ hne).mpr ⟨hp, hn⟩)

/-- `chain` is nothing but the attachments of the visited loggers, concatenated in walk order. -/
theorem C01_chain_is_visited (cfg : Config) (t : Name) :
    chain cfg (comps t).length (effective cfg t) =
      ((visited cfg (comps t).length (effective cfg t)).map (attached cfg)).flatten :=
  chain_is_visited cfg _ _

/-- Shape of the walk for any target: it starts at the effective logger; every step goes from an *additive*
logger to its parent (the chain is unbroken); it ends at the root, or at the first non-additive logger. -/
theorem C01_visited_shape (cfg : Config) (t : Name) :
    let v := visited cfg (comps t).length (effective cfg t)
    v.head? = some (effective cfg t) ∧
    (∀ i a b, v[i]? = some a → v[i + 1]? = some b → ∃ l, a = some l ∧ l.additive = true ∧ b = parent cfg l) ∧
    (v.getLast? = some none ∨ ∃ l, v.getLast? = some (some l) ∧ l.additive = false) :=
  visited_shape cfg _ _ (fun _ h => effectiveAt_length h)

/-- "Each attachment along that chain produces exactly one delivery and no other appender sees the record":
an appender is delivered to as many times as it is attached along the walk — zero for every other appender. -/
theorem C01_deliveries_count (cfg : Config) (hv : Valid cfg) (t : Name) (lvl : Nat) (a : Name) :
    ∃ ds, deliver cfg t lvl = some ds ∧
      ds.count a = if admits (specLevel cfg t) lvl
        then ((visited cfg (comps t).length (effective cfg t)).map fun v => (attached cfg v).count a).sum
        else 0 := by
  refine ⟨_, deliver_eq_spec cfg hv t lvl, ?_⟩
  unfold specDeliver
  split
  · rw [C01_chain_is_visited, List.count_flatten, List.map_map]; rfl
  · simp

/-- The bound in `chain` (the number of components of the target) never cuts a chain: any larger bound gives
the same list. -/
theorem C01_chain_fuel (cfg : Config) (t : Name) (n : Nat) (hn : (comps t).length ≤ n) :
    chain cfg n (effective cfg t) = chain cfg (comps t).length (effective cfg t) :=
  chain_fuel cfg (comps t) n _ hn (Nat.le_refl _)

/-- `comps` — the specification's (and the model's) reading of "'::'-separated" — splits at the *leftmost*
occurrences of `"::"`: joining the components with `"::"` gives the text back, no component contains `"::"`,
and no component before a separator ends in a colon. -/
theorem C01_comps_char (s : Name) :
    joinC (comps s) = s ∧ (∀ c ∈ comps s, NoSep c) ∧ (∀ c ∈ (comps s).dropLast, c.getLast? ≠ some ':') :=
  comps_char s

/-- … and that determines it: any such decomposition of `s` is `comps s`. -/
theorem C01_comps_unique (s : Name) (cs : List Name) (hne : cs ≠ []) (h : joinC cs = s)
    (h1 : ∀ c ∈ cs, NoSep c) (h2 : ∀ c ∈ cs.dropLast, c.getLast? ≠ some ':') : cs = comps s :=
  comps_unique s cs hne h h1 h2

/-- `admits` — the specification's (and the model's) reading of "threshold admitting L" — is `L ≤ threshold`
in the numbering Off=0 < Error=1 < Warn=2 < Info=3 < Debug=4 < Trace=5 (all naturals, hence the whole table). -/
theorem C01_admits_iff (threshold lvl : Nat) : admits threshold lvl = true ↔ lvl ≤ threshold := by
  simp [admits]

/-! ### independence of declaration order -/

/-- permuting the logger list and the appender table keeps a configuration valid -/
theorem C01_valid_perm (cfg : Config) (hv : Valid cfg) (ls' : List LoggerCfg) (tbl' : List Name)
    (h1 : cfg.loggers.Perm ls') (h2 : cfg.appenders.Perm tbl') :
    Valid { cfg with loggers := ls', appenders := tbl' } := by
  obtain ⟨v1, v2, v3, v4⟩ := hv
  exact ⟨h2.nodup_iff.mp v1, ((h1.map _).nodup_iff).mp v2,
    fun l hl => ⟨(v3 l (h1.mem_iff.mpr hl)).1, fun a ha => h2.mem_iff.mp ((v3 l (h1.mem_iff.mpr hl)).2 a ha)⟩,
    fun a ha => h2.mem_iff.mp (v4 a ha)⟩

/-- The outcome does not depend on the order in which loggers were declared. -/
theorem C01_perm_loggers (cfg : Config) (hv : Valid cfg) (ls' : List LoggerCfg)
    (hp : cfg.loggers.Perm ls') (t : Name) (lvl : Nat) :
    deliver { cfg with loggers := ls' } t lvl = deliver cfg t lvl := by
  have hv' : Valid { cfg with loggers := ls' } := by
    obtain ⟨h1, h2, h3, h4⟩ := hv
    exact ⟨h1, ((hp.map _).nodup_iff).mp h2, fun l hl => h3 l (hp.mem_iff.mpr hl), h4⟩
  rw [C01_deliver_eq_spec _ hv', C01_deliver_eq_spec _ hv]
  have hnd : ((cfg.loggers.map entOfCfg).map (·.comps)).Nodup := by
    rw [List.map_map, List.nodup_iff_pairwise_ne, List.pairwise_map]
    refine (List.pairwise_map.mp (List.nodup_iff_pairwise_ne.mp hv.2.1)).imp ?_
    intro a b hne hc
    exact hne (comps_inj hc)
  have h1 := res_eq_spec cfg (comps t) (comps t).length (Nat.le_refl _)
  have h2 := res_eq_spec { cfg with loggers := ls' } (comps t) (comps t).length (Nat.le_refl _)
  rw [res_perm _ hnd (hp.map entOfCfg)] at h1
  have h := h1.symm.trans h2
  simp only [Prod.mk.injEq] at h
  simp only [specDeliver, specLevel_eq, effective, h.1, h.2]

/-- … nor on the order of the declared appender table. -/
theorem C01_perm_appenders (cfg : Config) (hv : Valid cfg) (tbl' : List Name)
    (hp : cfg.appenders.Perm tbl') (t : Name) (lvl : Nat) :
    deliver { cfg with appenders := tbl' } t lvl = deliver cfg t lvl := by
  have hv' : Valid { cfg with appenders := tbl' } := by
    obtain ⟨h1, h2, h3, h4⟩ := hv
    exact ⟨hp.nodup_iff.mp h1, h2, fun l hl => ⟨(h3 l hl).1, fun a ha => hp.mem_iff.mp ((h3 l hl).2 a ha)⟩,
      fun a ha => hp.mem_iff.mp (h4 a ha)⟩
  rw [C01_deliver_eq_spec _ hv', C01_deliver_eq_spec _ hv]
  have h1 := res_eq_spec cfg (comps t) (comps t).length (Nat.le_refl _)
  have h2 := res_eq_spec { cfg with appenders := tbl' } (comps t) (comps t).length (Nat.le_refl _)
  have h := h1.symm.trans h2
  simp only [Prod.mk.injEq] at h
  simp only [specDeliver, specLevel_eq, effective, h.1, h.2]

/-- Both at once: any reordering of the declared loggers together with any reordering of the appender table. -/
theorem C01_perm_config (cfg : Config) (hv : Valid cfg) (ls' : List LoggerCfg) (tbl' : List Name)
    (h1 : cfg.loggers.Perm ls') (h2 : cfg.appenders.Perm tbl') (t : Name) (lvl : Nat) :
    deliver { cfg with loggers := ls', appenders := tbl' } t lvl = deliver cfg t lvl := by
  have hv1 : Valid { cfg with loggers := ls' } := by
    have := C01_valid_perm cfg hv ls' cfg.appenders h1 (List.Perm.refl _)
    exact this
  have e1 := C01_perm_appenders { cfg with loggers := ls' } hv1 tbl' h2 t lvl
  have e2 := C01_perm_loggers cfg hv ls' h1 t lvl
  exact e1.trans e2

/-- Reordering the attachment list *inside* the root or inside a logger changes the order of the calls but not
which appender is called how often: the deliveries are a permutation of each other. -/
theorem C01_perm_attachments (cfg cfg' : Config) (hv : Valid cfg) (hv' : Valid cfg') (h : AttachPerm cfg cfg')
    (t : Name) (lvl : Nat) :
    ∃ a b, deliver cfg t lvl = some a ∧ deliver cfg' t lvl = some b ∧ a.Perm b := by
  refine ⟨_, _, deliver_eq_spec cfg hv t lvl, deliver_eq_spec cfg' hv' t lvl, ?_⟩
  obtain ⟨_, hl, hr, hls⟩ := h
  have h1 := res_eq_spec cfg (comps t) (comps t).length (Nat.le_refl _)
  have h2 := res_eq_spec cfg' (comps t) (comps t).length (Nat.le_refl _)
  have hp := res_attachPerm hls cfg.rootLevel cfg.rootAppenders cfg'.rootAppenders hr (comps t)
  rw [hl] at h1 hp
  rw [h1] at hp
  rw [h2] at hp
  simp only at hp
  simp only [specDeliver, specLevel_eq, effective, hp.1]
  split
  · exact hp.2
  · exact List.Perm.refl _

/-- An appender that returns an error does not starve the others: whatever set of appenders fails, every
attachment along the chain is still called exactly once, in the same order, and exactly the failing ones
are reported to the error handler. -/
theorem C01_failing_appender_isolated (cfg : Config) (hv : Valid cfg) (fails : Name → Bool) (t : Name)
    (lvl : Nat) :
    deliverF cfg fails t lvl = some (specDeliver cfg t lvl, specFailures cfg fails t lvl) := by
  rw [deliverF_eq, deliver_eq_spec cfg hv]
  rfl

/-- The Rust branch "child exists and `rest` is empty" (`child.add("")`) is never taken while building
the tree of a valid configuration. The flag is the one returned by the model's `add` itself (the function that
builds the tree), accumulated over the insertion loop. Model-only: the real code offers no way to observe it. -/
theorem C01_weird_branch_dead (cfg : Config) (hv : Valid cfg) : buildWeird cfg = some false := by
  obtain ⟨_, _, hw, _⟩ := build_spec cfg hv
  exact hw

/-- The fuel that makes `add` structurally recursive is inert, for every tree and every path (valid or not):
more fuel than `add` passes gives the same tree and the same flag, so the fuel-exhausted arm is never the answer. -/
theorem C01_add_fuel_inert (node : Node) (path : Name) (apps : List Nat) (additive : Bool) (level : Nat)
    (f : Nat) (hf : path.length + node.depth + 1 ≤ f) :
    addAux f node path apps additive level = add node path apps additive level :=
  addAux_fuel f node path apps additive level hf

/-- `Logger::new` does not panic on a valid configuration (the `appender_map[..]` look-ups succeed); that no
`appenders[idx]` index is out of range at delivery is part of `C01_deliver_eq_spec` (`deliver` is `some`). -/
theorem C01_build_total (cfg : Config) (hv : Valid cfg) : (build cfg).isSome = true := by
  obtain ⟨_, hb, _⟩ := build_spec cfg hv
  simp [hb]

/-! ### non-vacuity: a valid configuration with an implied intermediate (`a::b`), a non-additive cut
(`a`), loggers declared longest first, and a sibling sharing a textual but not a component prefix -/

def exCfg : Config :=
  { appenders := [['x'], ['y'], ['r']]
    rootLevel := 3
    rootAppenders := [['r']]
    loggers := [
      { name := ['a', ':', ':', 'b', ':', ':', 'a'], level := 4, additive := true, appenders := [['x'], ['x']] },
      { name := ['a', ':', ':', 'b', 'b'], level := 5, additive := true, appenders := [] },
      { name := ['a'], level := 1, additive := false, appenders := [['y']] }] }

example : Valid exCfg := by unfold Valid; decide

/-- test on a sample: own attachments twice, then the non-additive ancestor's, never the root's -/
example : deliver exCfg ['a', ':', ':', 'b', ':', ':', 'a', ':', ':', 'z'] 4 = some [['x'], ['x'], ['y']] := by decide
/-- test on a sample: the implied node `a::b` copies `a` -/
example : deliver exCfg ['a', ':', ':', 'b', ':', ':', 'c'] 1 = some [['y']] := by decide
/-- test on a sample: `a::bb` is not below `a::b`; textual prefix `a::b` of `a::bb::q` plays no role -/
example : deliver exCfg ['a', ':', ':', 'b', 'b', ':', ':', 'q'] 5 = some [['y']] := by decide
/-- test on a sample: the walk of `a::b::a::z` is [a::b::a, a] — the implied `a::b` is transparent, the
non-additive `a` ends it before the root -/
example : (visited exCfg 4 (effective exCfg ['a', ':', ':', 'b', ':', ':', 'a', ':', ':', 'z'])).map
    (fun o => o.map (·.name)) = [some ['a', ':', ':', 'b', ':', ':', 'a'], some ['a']] := by decide
/-- test on a sample: `x` is attached twice along that walk, `r` never -/
example : (specDeliver exCfg ['a', ':', ':', 'b', ':', ':', 'a', ':', ':', 'z'] 4).count ['x'] = 2 ∧
    (specDeliver exCfg ['a', ':', ':', 'b', ':', ':', 'a', ':', ':', 'z'] 4).count ['r'] = 0 := by decide
/-- test on a sample: stray colons — `a:::b` splits at the leftmost `::` into `a` and `:b` -/
example : comps ['a', ':', ':', ':', 'b'] = [['a'], [':', 'b']] := by decide
/-- test on a sample: unrelated target goes to the root, gated by the root's threshold -/
example : deliver exCfg ['a', 'b'] 3 = some [['r']] ∧ deliver exCfg ['a', 'b'] 4 = some [] := by decide

end Log4rs.Routing.Tree
