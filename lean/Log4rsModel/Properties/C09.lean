import Log4rsModel.Pattern.MeaningLemmas2
/-
C09 — Pattern encoder output equals the pattern's meaning for well-formed patterns.

Code side: the model of `parser.rs`, `From<Piece> for Chunk`, `Chunk::encode` (Pattern/Parser,
Chunk, Encode). Spec side: the AST of the documented grammar with printer `showPats`, meaning
`denotePats`, style calls `stylesPats` and decidable well-formedness `WF` (Pattern/Ast).
Only property theorems and examples live here; the proofs' machinery is in
`Pattern/RoundTripLemmas*.lean` (parser round trip, mutual induction over the nested AST) and
`Pattern/MeaningLemmas*.lean` (compositionality of the encoder).

Every theorem quantifies over all ASTs — every formatter and alias, arbitrary literal text in both
escape styles, arguments, every nesting depth —, all records, all environments (date texts, thread
name and ids, MDC content, build profile) and all character classifications that behave as Rust's
on ASCII (`CCAscii`).
-/
namespace Log4rs.Pattern.Parse

/-- Parser round trip, exact: parsing the printed AST yields precisely the pieces `piecesOf`
(ordinary neighbouring characters merged into one `Text` piece), at every nesting depth. -/
theorem C09_parse_show (cc : CharClass) (hcc : CCAscii cc) (P : Profile) (ps : List Pat) (h : WF P ps) :
    parse cc P (showPats ps) = .ok (piecesOf [] ps) :=
  parse_show cc hcc P ps h

/-- `PatternEncoder::new(show ps).encode(record)` has the same outcome — operations or panic — as
encoding the direct translation of the AST. No hypothesis on the date formats. -/
theorem C09_run_show (cc : CharClass) (hcc : CCAscii cc) (P : Profile) (env : Env) (r : Record)
    (ps : List Pat) (h : WF P ps) :
    run cc P env r (showPats ps) = encList env r (chunksOf ps) := by
  have hm := meaning_piecesOf P.wordBits env r ps false h []
  simp only [run, newEncoder, C09_parse_show cc hcc P ps h, omap]
  rw [hm]
  simp [ofText, seqOut_ok_nil]

/-- The operation stream (characters and style calls, in order) of encoding a printed
well-formed AST, when chrono accepts the date formats it renders. -/
theorem C09_ops_parse_show (cc : CharClass) (hcc : CCAscii cc) (P : Profile) (env : Env) (r : Record)
    (ps : List Pat) (h : WF P ps) (hd : DatesOk env ps) :
    run cc P env r (showPats ps) = .ok (opsList env r (chunksOf ps)) := by
  rw [C09_run_show cc hcc P env r ps h]
  apply encList_eq_ops
  rw [rendered_chunksOf]
  exact hd

/-- MAIN THEOREM. For every well-formed pattern (every AST of the documented grammar, every
nesting depth), every record and environment: the text the encoder writes for the printed pattern
is exactly the pattern's meaning — literal text with escapes reduced, each formatter's value
(`???` for absent fields, MDC value or default, date in the requested format and zone, nested
groups, debug/release groups by build profile), each under its format spec — nothing added,
dropped or reordered. -/
theorem C09_encode_parse_show (cc : CharClass) (hcc : CCAscii cc) (P : Profile) (env : Env) (r : Record)
    (ps : List Pat) (h : WF P ps) (hd : DatesOk env ps) :
    ∃ o, run cc P env r (showPats ps) = .ok o ∧ o.text = denotePats env r ps :=
  ⟨_, C09_ops_parse_show cc hcc P env r ps h hd, text_chunksOf P.wordBits env r ps false h⟩

/-- Style calls are exactly: the level's style before and the plain style after every rendered
highlight group, in order — a format spec never drops or moves them, nothing else sets a style. -/
theorem C09_styles_only_around_highlight (cc : CharClass) (hcc : CCAscii cc) (P : Profile) (env : Env)
    (r : Record) (ps : List Pat) (h : WF P ps) (hd : DatesOk env ps) :
    ∃ o, run cc P env r (showPats ps) = .ok o ∧ o.styles = stylesPats env r ps :=
  ⟨_, C09_ops_parse_show cc hcc P env r ps h hd, styles_chunksOf env r ps⟩

/-- no highlight group, no style call -/
theorem C09_no_highlight_no_styles (env : Env) (r : Record) (ps : List Pat)
    (h : hasHighlightL ps = false) : stylesPats env r ps = [] :=
  stylesPats_noHighlight env r ps h

/-- the Debug level (and anything without a style in the table) is never styled -/
theorem C09_debug_level_unstyled (env : Env) (r : Record) (ps : List Pat)
    (h : highlightStyle r.level = none) : stylesPats env r ps = [] :=
  stylesPats_unstyledLevel env r h ps

/-- Aliases are equivalent: writing every formatter in its short form changes nothing — the
outcome of construct + encode is the same for all records and environments. -/
theorem C09_alias_equiv (cc : CharClass) (hcc : CCAscii cc) (P : Profile) (env : Env) (r : Record)
    (ps : List Pat) (h : WF P ps) :
    run cc P env r (showPats ps) = run cc P env r (showPats (unaliasL ps)) := by
  rw [C09_run_show cc hcc P env r ps h,
    C09_run_show cc hcc P env r (unaliasL ps) (wfPats_unalias P.wordBits ps false h), chunksOf_unalias]

/-! ## the findings that restrict `WF` -/

/-- the statement without the restriction on the `thread_id` alias (false: F5) -/
def C09_full_with_thread_id_alias : Prop :=
  ∀ (env : Env) (r : Record), ∃ o,
    run asciiClass Profile.debug64 env r (showPats [.leaf .threadId true none]) = .ok o ∧
      o.text = denotePats env r [.leaf .threadId true none]

/-- F5: the documented alias `{thread_id}` cannot be parsed — `Parser::name` stops at `_`. -/
theorem C09_F5_thread_id_alias_unparsable :
    showPats [.leaf .threadId true none] = cs!"{thread_id}" ∧
    parse asciiClass Profile.debug64 cs!"{thread_id}" = .ok [.error cs!"expected '}'"] := by
  constructor <;> rfl

theorem C09_full_with_thread_id_alias_false : ¬ C09_full_with_thread_id_alias := by
  intro h
  obtain ⟨o, ho, ht⟩ := h witnessEnv witnessRecord
  have hrun : run asciiClass Profile.debug64 witnessEnv witnessRecord
      (showPats [.leaf .threadId true none]) = .ok (ofText (errorMarker cs!"expected '}'")) := by rfl
  rw [hrun] at ho
  cases ho
  rw [ofText_text] at ht
  have : denotePats witnessEnv witnessRecord [.leaf .threadId true none] = ['7'] := by
    rw [denotePats_cons, denotePats_nil, denotePat_leaf]
    decide
  rw [this] at ht
  exact absurd ht (by decide)

/-- F6 (a): inside a parenthesised argument the doubled form `))` does not produce `)`: the first
`)` closes the argument, whatever follows. -/
theorem C09_F6_doubled_close_paren_closes_argument (cc : CharClass) (P : Profile) (more : List Char)
    (acc : List Piece) : argB cc P (')' :: ')' :: more) acc = .ok acc (')' :: more) :=
  argB_close cc P _ acc

/-- F6 (a), end to end: `{(a)))}` is an error instead of `a)`. -/
theorem C09_F6_witness :
    showPats [.group .align false [.lit ⟨'a', .plain⟩, .lit ⟨')', .doubled⟩] none] = cs!"{(a)))}" ∧
    newEncoder asciiClass Profile.debug64 cs!"{(a)))}" = .ok [.error cs!"expected '}'"] := by
  constructor <;> rfl

/-- F6 (b): the MDC key (and default) keep only the first text piece of their argument, so an
escape inside the key cuts it. -/
theorem C09_F6_mdc_first_piece_only (k : List Char) (more : List Piece) (p : Params) :
    compile (.arg ['X'] [.text k :: more] p) = .leaf (.mdc k []) p := by
  rw [compile_arg]
  simp [groupOfName, leafOfName, mdcChunk, mdcTextOf]

theorem C09_F6_mdc_witness :
    newEncoder asciiClass Profile.debug64 cs!"{X(a{{b)}" = .ok [.leaf (.mdc ['a'] []) {}] := by rfl

/-! ## examples: the hypotheses are satisfiable on non-trivial inputs (tests) -/

/-- `[{l:>7}] {h({m} \(x\))}{D({({t}{{):*<4.6})}` : alias-free, escapes in both styles, nesting 3 -/
def examplePattern : List Pat :=
  [.lit ⟨'[', .plain⟩, .leaf .level false (some { align := some true, minW := some [7] }), .lit ⟨']', .plain⟩,
   .lit ⟨' ', .plain⟩,
   .group .highlight false [.leaf .message false none, .lit ⟨' ', .plain⟩, .lit ⟨'(', .backslash⟩,
     .lit ⟨'x', .plain⟩, .lit ⟨')', .backslash⟩] none,
   .group .debug false [.group .align false [.leaf .target false none, .lit ⟨'{', .doubled⟩]
     (some { fill := some '*', align := some false, minW := some [4], maxW := some [6] })] none]

example : showPats examplePattern = cs!"[{l:>7}] {h({m} \\(x\\))}{D({({t}{{):*<4.6})}" := by rfl
example : WF Profile.debug64 examplePattern := by decide
example : WF Profile.debug64 [.mdc true [⟨'k', .plain⟩] (some [⟨'d', .plain⟩]) none,
    .date false (some ([⟨'%', .plain⟩, ⟨'Y', .plain⟩, ⟨')', .backslash⟩], some true)) none] := by decide
/-- outside WF: the alias `thread_id`, `))` inside an argument, an escape in an MDC key, m > M -/
example : ¬ WF Profile.debug64 [.leaf .threadId true none] := by decide
example : ¬ WF Profile.debug64 [.group .align false [.lit ⟨')', .doubled⟩] none] := by decide
example : ¬ WF Profile.debug64 [.mdc false [⟨'k', .plain⟩, ⟨'{', .doubled⟩] none none] := by decide
example : ¬ WF Profile.debug64 [.leaf .message false (some { minW := some [9], maxW := some [3] })] := by decide

end Log4rs.Pattern.Parse
