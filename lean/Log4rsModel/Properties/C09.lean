import Log4rsModel.Pattern.MeaningLemmas2
import Log4rsModel.Pattern.RoundTripLemmas5
/-
C09 — Pattern encoder output equals the pattern's meaning for well-formed patterns.

Code side: the model of `parser.rs`, `From<Piece> for Chunk`, `Chunk::encode` (Pattern/Parser,
Chunk, Encode). Spec side: the AST of the documented grammar with printer `showPats`, meaning
`denotePats`, style calls `stylesPats` and decidable well-formedness `WF` (Pattern/Ast).
Only property theorems and examples live here; the proofs' machinery is in
`Pattern/RoundTripLemmas*.lean` (parser round trip, mutual induction over the nested AST) and
`Pattern/MeaningLemmas*.lean` (compositionality of the encoder).

Every theorem quantifies over all ASTs — every formatter and alias (`thread_id` too), arbitrary literal text in both
escape styles, arguments, every nesting depth up to the code's limit `Profile.maxDepth` (= 64; what
happens beyond it is `C09_depth_limit`) —, all records, all environments (date texts, thread
name and ids, MDC content, build profile) and all character classifications that behave as Rust's
on ASCII (`CCAscii`).
-/
namespace Log4rs.Pattern.Parse

/-- Parser round trip, exact: parsing the printed AST yields precisely the pieces `piecesOf`
(ordinary neighbouring characters merged into one `Text` piece), at every nesting depth up to the
code's limit (`WF` contains `depthPats ps ≤ P.maxDepth`). -/
theorem C09_parse_show (cc : CharClass) (hcc : CCAscii cc) (P : Profile) (hus : P.underscoreNames = true) (hP : P.doubledCloseParen = true)
    (ps : List Pat) (h : WF P ps) :
    parse cc P (showPats ps) = .ok (piecesOf [] ps) :=
  parse_show cc hcc P hus hP ps h

/-- `PatternEncoder::new(show ps).encode(record)` has the same outcome — operations or panic — as
encoding the direct translation of the AST. No hypothesis on the date formats (a format chrono's
item parser rejects is the `{ERROR: invalid date format …}` chunk on both sides). -/
theorem C09_run_show (cc : CharClass) (hcc : CCAscii cc) (P : Profile) (hus : P.underscoreNames = true) (hP : P.doubledCloseParen = true)
    (B : Build) (hB : B.mdcWhole = true) (hE : B.mdcEmptyOk = true) (env : Env) (r : Record) (ps : List Pat) (h : WF P ps) :
    run cc P B env r (showPats ps) = encList env r (chunksOf B ps) := by
  have hm := meaning_piecesOf B hB hE P.wordBits env r ps false h.1 []
  simp only [run, newEncoder, C09_parse_show cc hcc P hus hP ps h, omap]
  rw [hm]
  simp [ofText, seqOut_ok_nil]

/-- The operation stream (characters and style calls, in order) of encoding a printed
well-formed AST, when chrono accepts its date formats. -/
theorem C09_ops_parse_show (cc : CharClass) (hcc : CCAscii cc) (P : Profile) (hus : P.underscoreNames = true) (hP : P.doubledCloseParen = true)
    (B : Build) (hB : B.mdcWhole = true) (hE : B.mdcEmptyOk = true) (env : Env) (r : Record) (ps : List Pat) (h : WF P ps)
    (hd : DatesOk B env ps) :
    run cc P B env r (showPats ps) = .ok (opsList env r (chunksOf B ps)) := by
  rw [C09_run_show cc hcc P hus hP B hB hE env r ps h]
  apply encList_eq_ops
  rw [rendered_chunksOf B env ps hd.1]
  exact hd.2

/-- MAIN THEOREM. For every well-formed pattern (every AST of the documented grammar — all
formatters and aliases including `thread_id`, MDC keys and defaults with escaped specials, every
nesting depth up to the code's limit of `Profile.maxDepth` = 64 open arguments), every record and environment: the text the encoder writes for the printed pattern
is exactly the pattern's meaning — literal text with escapes reduced, each formatter's value
(`???` for absent fields, MDC value or default, date in the requested format and zone, nested
groups, debug/release groups by build profile), each under its format spec — nothing added,
dropped or reordered. (`hus`, `hP`, `hB`: the current code, i.e. the defaults of `Profile` / `Build`.) -/
theorem C09_encode_parse_show (cc : CharClass) (hcc : CCAscii cc) (P : Profile)
    (hus : P.underscoreNames = true) (hP : P.doubledCloseParen = true) (B : Build) (hB : B.mdcWhole = true) (hE : B.mdcEmptyOk = true) (env : Env) (r : Record)
    (ps : List Pat) (h : WF P ps) (hd : DatesOk B env ps) :
    ∃ o, run cc P B env r (showPats ps) = .ok o ∧ o.text = denotePats env r ps :=
  ⟨_, C09_ops_parse_show cc hcc P hus hP B hB hE env r ps h hd,
    text_chunksOf B P.wordBits env r ps false h.1 hd.1⟩

/-- Style calls are exactly: the level's style before and the plain style after every rendered
highlight group, in order — a format spec never drops or moves them, nothing else sets a style. -/
theorem C09_styles_only_around_highlight (cc : CharClass) (hcc : CCAscii cc) (P : Profile)
    (hus : P.underscoreNames = true) (hP : P.doubledCloseParen = true) (B : Build) (hB : B.mdcWhole = true) (hE : B.mdcEmptyOk = true) (env : Env)
    (r : Record) (ps : List Pat) (h : WF P ps) (hd : DatesOk B env ps) :
    ∃ o, run cc P B env r (showPats ps) = .ok o ∧ o.styles = stylesPats env r ps :=
  ⟨_, C09_ops_parse_show cc hcc P hus hP B hB hE env r ps h hd, styles_chunksOf B env r ps⟩

/-- no highlight group, no style call -/
theorem C09_no_highlight_no_styles (env : Env) (r : Record) (ps : List Pat)
    (h : hasHighlightL ps = false) : stylesPats env r ps = [] :=
  stylesPats_noHighlight env r ps h

/-- the Debug level (and anything without a style in the table) is never styled -/
theorem C09_debug_level_unstyled (env : Env) (r : Record) (ps : List Pat)
    (h : highlightStyle r.level = none) : stylesPats env r ps = [] :=
  stylesPats_unstyledLevel env r h ps

/-- Aliases are equivalent — `thread_id` included: writing every formatter in its short form
changes nothing; the outcome of construct + encode is the same for all records and environments. -/
theorem C09_alias_equiv (cc : CharClass) (hcc : CCAscii cc) (P : Profile) (hus : P.underscoreNames = true) (hP : P.doubledCloseParen = true)
    (B : Build) (hB : B.mdcWhole = true) (hE : B.mdcEmptyOk = true) (env : Env) (r : Record) (ps : List Pat) (h : WF P ps) :
    run cc P B env r (showPats ps) = run cc P B env r (showPats (unaliasL ps)) := by
  rw [C09_run_show cc hcc P hus hP B hB hE env r ps h,
    C09_run_show cc hcc P hus hP B hB hE env r (unaliasL ps) (WF_unalias P ps h),
    chunksOf_unalias]

/-- in particular `{thread_id}` and `{I}` -/
theorem C09_thread_id_alias (cc : CharClass) (hcc : CCAscii cc) (P : Profile) (hus : P.underscoreNames = true) (hP : P.doubledCloseParen = true)
    (B : Build) (hB : B.mdcWhole = true) (hE : B.mdcEmptyOk = true) (env : Env) (r : Record) :
    run cc P B env r cs!"{thread_id}" = run cc P B env r cs!"{I}" := by
  have h : WF P [.leaf .threadId true none] :=
    ⟨rfl, by simp [depthPats_cons, depthPats_nil, depthPat_leaf]⟩
  have := C09_alias_equiv cc hcc P hus hP B hB hE env r [.leaf .threadId true none] h
  simpa [showPats_cons, showPats_nil, showPat_leaf, unaliasL, unalias, leafName, showSpec] using this

/-! ## the nesting limit -/

/-- the elements in front of the first too-deep one are well formed when the whole list is -/
theorem wfPats_okPrefix (P : Profile) (bits : Nat) (inArg : Bool) : ∀ (ps : List Pat),
    wfPats bits inArg ps = true → wfPats bits inArg (okPrefix P ps) = true
  | [], _ => by rw [okPrefix_nil, wfPats_nil]
  | p :: ps, h => by
    rw [wfPats_cons] at h
    simp only [Bool.and_eq_true] at h
    by_cases hd : depthPat p ≤ P.maxDepth
    · rw [okPrefix_cons_ok P p ps hd, wfPats_cons, h.1, wfPats_okPrefix P bits inArg ps h.2]; rfl
    · rw [okPrefix_cons_deep P p ps hd, wfPats_nil]

/-- `WF` is honest about the limit: `Profile.maxDepth` (= `MAX_DEPTH = 64` of parser.rs, pinned by
`C09_gen_max_depth`) open parenthesised arguments are inside, one more is outside. A pattern that
is well formed but for going deeper — at any position, by any kind of argument (group body, date
format, MDC key) — is parsed as: the pieces of the top-level elements in front of the first one
that goes too deep, then `Error("expected '}'")`, and nothing after it (the rest of the pattern
is swallowed; the text `nesting too deep` never reaches the output). -/
theorem C09_depth_limit (cc : CharClass) (hcc : CCAscii cc) (P : Profile) (hus : P.underscoreNames = true)
    (hP : P.doubledCloseParen = true) (ps : List Pat) (hwf : wfPats P.wordBits false ps = true)
    (hdeep : P.maxDepth < depthPats ps) :
    parse cc P (showPats ps) = .ok (piecesOf [] (okPrefix P ps) ++ [.error cs!"expected '}'"]) :=
  parse_too_deep cc hcc P hus hP ps hwf hdeep

/-- … and so the encoder writes the meaning of those elements followed by the marker
`{ERROR: expected '}'}` — the behaviour C11 promises for rejected patterns, exactly. -/
theorem C09_depth_limit_text (cc : CharClass) (hcc : CCAscii cc) (P : Profile) (hus : P.underscoreNames = true)
    (hP : P.doubledCloseParen = true) (B : Build) (hB : B.mdcWhole = true) (hE : B.mdcEmptyOk = true) (env : Env) (r : Record)
    (ps : List Pat) (hwf : wfPats P.wordBits false ps = true) (hdeep : P.maxDepth < depthPats ps)
    (hd : DatesOk B env (okPrefix P ps)) :
    ∃ o, run cc P B env r (showPats ps) = .ok o ∧
      o.text = denotePats env r (okPrefix P ps) ++ errorMarker cs!"expected '}'" ∧
      o.styles = stylesPats env r (okPrefix P ps) := by
  have hwf' := wfPats_okPrefix P P.wordBits false ps hwf
  have hm := meaning_piecesOf B hB hE P.wordBits env r (okPrefix P ps) false hwf' []
  have hops : encList env r (chunksOf B (okPrefix P ps)) = .ok (opsList env r (chunksOf B (okPrefix P ps))) := by
    apply encList_eq_ops
    rw [rendered_chunksOf B env _ hd.1]
    exact hd.2
  refine ⟨opsList env r (chunksOf B (okPrefix P ps)) ++ ofText (errorMarker cs!"expected '}'"), ?_, ?_, ?_⟩
  · simp only [run, newEncoder, C09_depth_limit cc hcc P hus hP ps hwf hdeep, omap, compileL_append,
      encList_append]
    rw [hm, hops]
    simp [ofText, seqOut, compileL_cons, compileL_nil, compile, encList, encChunk]
  · rw [text_append, text_chunksOf B P.wordBits env r _ false hwf' hd.1, ofText_text]
  · rw [styles_append, styles_chunksOf B env r]
    simp [ofText, Out.styles]

/-- at the limit and one beyond it (tests of the two theorems' hypotheses on `{(`×n `x` `)}`×n):
depth 64 is well formed, depth 65 is not and satisfies the hypotheses of `C09_depth_limit` -/
def nestN : Nat → List Pat
  | 0 => [.lit ⟨'x', .plain⟩]
  | n + 1 => [.group .align false (nestN n) none]

example : WF Profile.debug64 (nestN 64) := by decide +kernel
example : ¬ WF Profile.debug64 (nestN 65) := by decide +kernel
example : wfPats Profile.debug64.wordBits false (.lit ⟨'a', .plain⟩ :: nestN 65 ++ [.leaf .message false none]) = true ∧
    Profile.debug64.maxDepth < depthPats (.lit ⟨'a', .plain⟩ :: nestN 65 ++ [.leaf .message false none]) ∧
    (okPrefix Profile.debug64 (.lit ⟨'a', .plain⟩ :: nestN 65 ++ [.leaf .message false none])).length = 1 := by
  decide +kernel

/-! ## findings -/

/-- F5 (historical, repaired by commit eb8340d): before `_` was accepted in names the documented
alias `{thread_id}` could not be parsed — `Parser::name` stopped at `_`. -/
theorem C09_F5_thread_id_alias_unparsable_unfixed :
    showPats [.leaf .threadId true none] = cs!"{thread_id}" ∧
    parse asciiClass Profile.unfixed64 cs!"{thread_id}" = .ok [.error cs!"expected '}'"] ∧
    parse asciiClass Profile.debug64 cs!"{thread_id}" = .ok [.arg cs!"thread_id" [] {}] := by
  refine ⟨?_, ?_, ?_⟩ <;> rfl

/-- F6 (a) (historical, repaired by commit 185a57e): inside a parenthesised argument the doubled
form `))` did not produce `)`: the first `)` closed the argument, whatever followed. -/
theorem C09_F6_doubled_close_paren_closes_argument_unfixed (cc : CharClass) (P : Profile)
    (hP : P.doubledCloseParen = false) (d : Nat) (more : List Char) (acc : List Piece) :
    argB cc P d (')' :: ')' :: more) acc = .ok acc (')' :: more) :=
  argB_close_unfixed cc P d hP _ acc

/-- since the repair: `))` inside an argument is the piece `Text(")")`, and the loop goes on -/
theorem C09_doubled_close_paren_is_literal (cc : CharClass) (P : Profile) (hP : P.doubledCloseParen = true)
    (d : Nat) (more : List Char) (acc : List Piece) :
    argB cc P d (')' :: ')' :: more) acc = argB cc P d more (acc ++ [.text [')']]) :=
  argB_dbl cc P d hP more acc

/-- F6 (a), end to end: `{(a)))}` was an error, and is `a)` now. -/
theorem C09_F6_witness (B : Build) :
    showPats [.group .align false [.lit ⟨'a', .plain⟩, .lit ⟨')', .doubled⟩] none] = cs!"{(a)))}" ∧
    newEncoder asciiClass Profile.unfixed64 B cs!"{(a)))}" = .ok [.error cs!"expected '}'"] ∧
    newEncoder asciiClass Profile.debug64 B cs!"{(a)))}" =
      .ok [.group .align [.text ['a'], .text [')']] {}] := by
  refine ⟨?_, ?_, ?_⟩ <;> rfl

/-- the instance of the main statement with `))` inside an argument: false before the repair … -/
def C09_with_doubled_close_paren (P : Profile) : Prop :=
  ∀ (B : Build) (env : Env) (r : Record), ∃ o,
    run asciiClass P B env r
      (showPats [.group .align false [.lit ⟨'a', .plain⟩, .lit ⟨')', .doubled⟩] none]) = .ok o ∧
    o.text = denotePats env r [.group .align false [.lit ⟨'a', .plain⟩, .lit ⟨')', .doubled⟩] none]

theorem C09_with_doubled_close_paren_false_unfixed : ¬ C09_with_doubled_close_paren Profile.unfixed64 := by
  intro h
  obtain ⟨o, ho, ht⟩ := h { renderOk := fun _ => true } witnessEnv witnessRecord
  have hrun : run asciiClass Profile.unfixed64 { renderOk := fun _ => true } witnessEnv witnessRecord
      (showPats [.group .align false [.lit ⟨'a', .plain⟩, .lit ⟨')', .doubled⟩] none]) =
      .ok (ofText (errorMarker cs!"expected '}'")) := by rfl
  rw [hrun] at ho
  cases ho
  rw [ofText_text] at ht
  have : denotePats witnessEnv witnessRecord
      [.group .align false [.lit ⟨'a', .plain⟩, .lit ⟨')', .doubled⟩] none] = ['a', ')'] := by
    simp [denotePats_cons, denotePats_nil, denotePat_group, denotePat_lit, applySpec]
  rw [this] at ht
  exact absurd ht (by decide)

/-- … and true of the current code (an instance of `C09_encode_parse_show`). -/
theorem C09_with_doubled_close_paren_holds : C09_with_doubled_close_paren Profile.debug64 := by
  intro B env r
  have hcc : CCAscii asciiClass := by
    intro c hc; simp [asciiClass, hc]
  have hwf : WF Profile.debug64 [.group .align false [.lit ⟨'a', .plain⟩, .lit ⟨')', .doubled⟩] none] := by
    decide
  obtain ⟨o, ho, ht⟩ := C09_encode_parse_show asciiClass hcc Profile.debug64 rfl rfl
    { B with mdcWhole := true, mdcEmptyOk := true } rfl rfl env r _ hwf ⟨by intro f hf; simp [allDatesPats, allDatesPat] at hf,
      by intro x hx; simp [datesPats, datesPat] at hx⟩
  refine ⟨o, ?_, ht⟩
  rw [← ho]
  rfl

/-- F6 (b) (historical, repaired by commit 7be4123): the MDC key (and default) kept only the first
text piece of their argument, so an escape inside the key cut it … -/
theorem C09_F6_mdc_first_piece_only_unfixed (B : Build) (hB : B.mdcWhole = false) (k : List Char)
    (more : List Piece) (p : Params) :
    compile B (.arg ['X'] [.text k :: more] p) = .leaf (.mdc k []) p := by
  rw [compile_arg]
  simp [groupOfName, leafOfName, leafTable, leafLookup, mdcChunk, mdcArg, mdcArgText, hB, mdcTextOf]

/-- … now the whole text is the key -/
theorem C09_mdc_whole_key_witness (B : Build) (hB : B.mdcWhole = true) (hE : B.mdcEmptyOk = true) :
    newEncoder asciiClass Profile.debug64 B cs!"{X(a{{b)}" = .ok [.leaf (.mdc cs!"a{b" []) {}] := by
  have hp : parse asciiClass Profile.debug64 cs!"{X(a{{b)}" =
      .ok [.arg ['X'] [[.text ['a'], .text ['{'], .text ['b']]] {}] := by rfl
  simp only [newEncoder, hp, omap, compileL_cons, compileL_nil]
  rw [compile_arg]
  simp [groupOfName, leafOfName, leafTable, leafLookup, mdcChunk, mdcArg, mdcArgText, hB, plainTextOf, plainTextLoop]

/-- `C09/mdc-empty-argument` (repaired in round 6): an explicitly empty MDC default `{X(k)()}` — and
the empty key `{X()}` — was rejected (`invalid MDC default` / `invalid MDC key`) although the
documented default of the default is the empty string; now it is the empty string. -/
theorem C09_mdc_empty_argument_witness :
    showPats [.mdc false [⟨'k', .plain⟩] (some []) none] = cs!"{X(k)()}" ∧
    newEncoder asciiClass Profile.debug64 { renderOk := fun _ => true, mdcEmptyOk := false } cs!"{X(k)()}" =
      .ok [.error cs!"invalid MDC default"] ∧
    newEncoder asciiClass Profile.debug64 { renderOk := fun _ => true, mdcEmptyOk := false } cs!"{X()}" =
      .ok [.error cs!"invalid MDC key"] ∧
    newEncoder asciiClass Profile.debug64 { renderOk := fun _ => true } cs!"{X(k)()}" = .ok [.leaf (.mdc ['k'] []) {}] ∧
    newEncoder asciiClass Profile.debug64 { renderOk := fun _ => true } cs!"{X()}" = .ok [.leaf (.mdc [] []) {}] := by
  refine ⟨?_, ?_, ?_, ?_, ?_⟩ <;> rfl

/-- the instance of the main statement with an explicitly empty MDC default: false before the repair … -/
def C09_with_empty_mdc_default (B : Build) : Prop :=
  ∀ (env : Env) (r : Record), ∃ o,
    run asciiClass Profile.debug64 B env r (showPats [.mdc false [⟨'k', .plain⟩] (some []) none]) = .ok o ∧
    o.text = denotePats env r [.mdc false [⟨'k', .plain⟩] (some []) none]

theorem C09_with_empty_mdc_default_false_unfixed :
    ¬ C09_with_empty_mdc_default { renderOk := fun _ => true, mdcEmptyOk := false } := by
  intro h
  obtain ⟨o, ho, ht⟩ := h witnessEnv witnessRecord
  have hrun : run asciiClass Profile.debug64 { renderOk := fun _ => true, mdcEmptyOk := false } witnessEnv witnessRecord
      (showPats [.mdc false [⟨'k', .plain⟩] (some []) none]) =
      .ok (ofText (errorMarker cs!"invalid MDC default")) := by rfl
  rw [hrun] at ho
  cases ho
  rw [ofText_text] at ht
  have : denotePats witnessEnv witnessRecord [.mdc false [⟨'k', .plain⟩] (some []) none] = [] := by
    simp [denotePats_cons, denotePats_nil, denotePat_mdc, applySpec, mdcValue, litChars, witnessEnv, mdcGet]
  rw [this] at ht
  exact absurd ht (by decide)

/-- … and true of the current code (an instance of `C09_encode_parse_show`). -/
theorem C09_with_empty_mdc_default_holds (B : Build) (hB : B.mdcWhole = true) (hE : B.mdcEmptyOk = true) :
    C09_with_empty_mdc_default B := by
  intro env r
  have hcc : CCAscii asciiClass := by
    intro c hc; simp [asciiClass, hc]
  exact C09_encode_parse_show asciiClass hcc Profile.debug64 rfl rfl B hB hE env r _ (by decide)
    ⟨by intro f hf; simp [allDatesPats, allDatesPat] at hf, by intro x hx; simp [datesPats, datesPat] at hx⟩

/-! ## examples: the hypotheses are satisfiable on non-trivial inputs (tests) -/

/-- `[{l:>7}] {h({m} \(x\))}{D({({t}{{):*<4.6})}` : alias-free, escapes in both styles, nesting 3 -/
def examplePattern : List Pat :=
  [.lit ⟨'[', .plain⟩, .leaf .level false (some { align := some true, minW := some [7] }), .lit ⟨']', .plain⟩,
   .lit ⟨' ', .plain⟩,
   .group .highlight false [.leaf .message false none, .lit ⟨' ', .plain⟩, .lit ⟨'(', .backslash⟩,
     .lit ⟨'x', .plain⟩, .lit ⟨')', .backslash⟩] none,
   .group .debug false [.group .align false [.leaf .target false none, .lit ⟨'{', .doubled⟩]
     (some { fill := some '*', align := some false, minW := some [4], maxW := some [6] })] none]

example : showPats examplePattern = cs!"[{l:>7}] {h({m} \\(x\\))}{D({({t}{{):*<4.6})}" := by rfl
example : WF Profile.debug64 examplePattern := by decide
example : WF Profile.debug64 [.mdc true [⟨'k', .plain⟩] (some [⟨'d', .plain⟩]) none,
    .date false (some ([⟨'%', .plain⟩, ⟨'Y', .plain⟩, ⟨')', .backslash⟩], some true)) none] := by decide
/-- inside WF since the repairs: the alias `thread_id`, escapes in an MDC key / default -/
example : WF Profile.debug64 [.leaf .threadId true none] := by decide
example : WF Profile.debug64 [.mdc false [⟨'k', .plain⟩, ⟨'{', .doubled⟩, ⟨')', .backslash⟩]
    (some [⟨'\\', .doubled⟩]) none] := by decide
/-- inside WF since the repair of F6a: `))` inside an argument, also in an MDC key -/
example : WF Profile.debug64 [.group .align false [.lit ⟨')', .doubled⟩, .lit ⟨')', .doubled⟩] none] := by decide
example : WF Profile.debug64 [.mdc false [⟨'k', .plain⟩, ⟨')', .doubled⟩] none none] := by decide
/-- outside WF: an unescaped special; m > M -/
example : ¬ WF Profile.debug64 [.lit ⟨')', .plain⟩] := by decide
/-- inside WF since the repair of `C09/mdc-empty-argument`: an empty MDC key, an explicitly empty default -/
example : WF Profile.debug64 [.mdc false [] none none, .mdc true [⟨'k', .plain⟩] (some []) none] := by decide
example : ¬ WF Profile.debug64 [.leaf .message false (some { minW := some [9], maxW := some [3] })] := by decide

end Log4rs.Pattern.Parse
