import Log4rsModel.Rolling.Model
namespace Log4rs.Rolling

theorem C06_placeholder : True := trivial

end Log4rs.Rolling
