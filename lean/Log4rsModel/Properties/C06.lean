import Log4rsModel.Rolling.LemmasRoller
/-
C06 — Size trigger rolls exactly when the limit is exceeded; size accounting is exact.
Model: `Rolling/Model.lean` (`append`, `getWriter`, `process`) with `sizeTrigger N`
(`len_estimate() > limit`, post-process). Histories are arbitrary lists of appends (any record, any
chunking, any injected roller fault), restarts and clock ticks, from any initial disk, in append and
truncate mode.
-/
namespace Log4rs.Rolling
open Log4rs.Roller

variable {σ : Type}

/-- the rolling appender with a size trigger of limit `N` and any roller -/
def sizeCfg (path : Path) (appendMode : Bool) (N : Nat) (roll : RollFn) : Cfg Unit :=
  { path, appendMode, trig := sizeTrigger N, roll }

/-- At every policy consultation of every history — whatever the trigger and the roller — the
length shown to the policy (`len_estimate()`) equals the true size of the active file on disk at
that moment: append mode seeds the counter from the pre-existing size, truncate mode empties the
file at the appender's first open and starts from 0, and every later reopen (after a roll, failed
or not) seeds the counter from the size found. -/
theorem C06_len_is_disk_size (cfg : Cfg σ) (d : Disk) (t0 : σ) (now : Nat) (ops : List Op) :
    ∀ e ∈ trace cfg (init cfg d t0 now) ops, ∀ out, e.1 = some out → ∃ L, out.consult = some (L, L) := by
  refine trace_forall cfg (P := WF cfg) (Q := fun e => ∀ out, e.1 = some out → ∃ L, out.consult = some (L, L))
    ?_ ops _ (WF_init cfg d t0 now)
  intro s op hwf
  refine ⟨WF_applyOp cfg s op hwf, ?_⟩
  cases op with
  | append r f =>
    intro out h
    have := (append_wf cfg s r (faultFn f) hwf).2
    simp only [applyOp] at h
    rw [← Option.some.inj h]
    exact this
  | restart => intro out h; simp [applyOp] at h
  | tick dt => intro out h; simp [applyOp] at h

/-- One append with a size trigger: the size shown is exactly what was in the file when the writer
was (re)opened plus the bytes of the record, and the roller is invoked iff that size exceeds `N` —
never earlier, never deferred. -/
theorem C06_rolls_iff_exceeds (path : Path) (am : Bool) (N : Nat) (roll : RollFn) (s : St Unit)
    (r : Rec) (fault : Nat → Bool) (hwf : WF (sizeCfg path am N roll) s) :
    let L := (openView (sizeCfg path am N roll) s).length + (encBytes r).length
    (append (sizeCfg path am N roll) s r fault).1.consult = some (L, L) ∧
    ((append (sizeCfg path am N roll) s r fault).1.rolled.isSome ↔ L > N) := by
  intro L
  obtain ⟨hc, _, _, _, hno, _, hyes⟩ :=
    append_post_spec (sizeCfg path am N roll) s r fault hwf rfl _ _
      (append (sizeCfg path am N roll) s r fault).1 (append (sizeCfg path am N roll) s r fault).2 rfl rfl rfl
  have hL : (openView (sizeCfg path am N roll) s ++ encBytes r).length = L := by simp [L]
  rw [hL] at hc hno hyes
  refine ⟨hc, ?_⟩
  by_cases hgt : L > N
  · have hans : ((sizeCfg path am N roll).trig.fire s.tst L s.now).1 = .yes := by
      simp [sizeCfg, sizeTrigger, hgt]
    obtain ⟨d1, _, _, _, _, h⟩ := hyes hans
    rcases h with ⟨_, _, _, hr⟩ | ⟨_, _, _, hr⟩ <;> simp [hr, hgt]
  · have hans : ((sizeCfg path am N roll).trig.fire s.tst L s.now).1 = .no := by
      simp [sizeCfg, sizeTrigger, hgt]
    simp [(hno hans).2.1, hgt]

/-- The same over whole histories: in every history, at every append, the roller runs iff the true
size of the active file after the write exceeds `N`. -/
theorem C06_rolls_iff_exceeds_history (path : Path) (am : Bool) (N : Nat) (roll : RollFn) (d : Disk) (now : Nat)
    (ops : List Op) :
    ∀ e ∈ trace (sizeCfg path am N roll) (init (sizeCfg path am N roll) d () now) ops, ∀ out, e.1 = some out →
      ∃ L, out.consult = some (L, L) ∧ (out.rolled.isSome ↔ L > N) := by
  refine trace_forall _ (P := WF (sizeCfg path am N roll))
    (Q := fun e => ∀ out, e.1 = some out → ∃ L, out.consult = some (L, L) ∧ (out.rolled.isSome ↔ L > N))
    ?_ ops _ (WF_init _ d () now)
  intro s op hwf
  refine ⟨WF_applyOp _ s op hwf, ?_⟩
  cases op with
  | append r f =>
    intro out h
    simp only [applyOp] at h
    rw [← Option.some.inj h]
    exact ⟨_, C06_rolls_iff_exceeds path am N roll s r (faultFn f) hwf⟩
  | restart => intro out h; simp [applyOp] at h
  | tick dt => intro out h; simp [applyOp] at h

/-- After every successful append of every history the active file has just been rotated away or
holds at most `N` bytes — including `N = 0`, a pre-existing file larger than `N` and restarts —
for every roller that honours `Roll::roll`'s contract (`RollGone`). -/
theorem C06_bounded_after_append (path : Path) (am : Bool) (N : Nat) (roll : RollFn) (hroll : RollGone roll path)
    (d : Disk) (now : Nat) (ops : List Op) :
    ∀ e ∈ trace (sizeCfg path am N roll) (init (sizeCfg path am N roll) d () now) ops, ∀ out, e.1 = some out →
      out.res = .ok → e.2.disk.get? path = none ∨ ∃ a, e.2.disk.get? path = some a ∧ a.length ≤ N := by
  refine trace_forall _ (P := WF (sizeCfg path am N roll))
    (Q := fun e => ∀ out, e.1 = some out → out.res = .ok →
      e.2.disk.get? path = none ∨ ∃ a, e.2.disk.get? path = some a ∧ a.length ≤ N)
    ?_ ops _ (WF_init _ d () now)
  intro s op hwf
  refine ⟨WF_applyOp _ s op hwf, ?_⟩
  cases op with
  | restart => intro out h; simp [applyOp] at h
  | tick dt => intro out h; simp [applyOp] at h
  | append r f =>
    intro out h hok
    simp only [applyOp] at h ⊢
    have hout := (Option.some.inj h).symm
    obtain ⟨_, _, _, _, hno, herr, hyes⟩ :=
      append_post_spec (sizeCfg path am N roll) s r (faultFn f) hwf rfl _ _
        (append (sizeCfg path am N roll) s r (faultFn f)).1 (append (sizeCfg path am N roll) s r (faultFn f)).2 rfl rfl rfl
    by_cases hgt : (openView (sizeCfg path am N roll) s ++ encBytes r).length > N
    · have key : ∀ L, L > N → ((sizeCfg path am N roll).trig.fire s.tst L s.now).1 = .yes := by
        intro L h; simp [sizeCfg, sizeTrigger, h]
      have hans := key _ hgt
      obtain ⟨d1, _, _, _, hd, hres⟩ := hyes hans
      rcases hres with ⟨x, hx, _, _⟩ | ⟨e, _, hr, _⟩
      · left
        rw [hd]
        exact hroll (faultFn f) d1 x _ (by rw [← hx]; rfl)
      · rw [hout, hr] at hok
        cases hok
    · have key : ∀ L, ¬ L > N → ((sizeCfg path am N roll).trig.fire s.tst L s.now).1 = .no := by
        intro L h; simp [sizeCfg, sizeTrigger, h]
      have hans := key _ hgt
      obtain ⟨_, _, ⟨w, _, _, hg, _⟩, _⟩ := hno hans
      right
      exact ⟨_, hg, Nat.le_of_not_gt hgt⟩

/-- the contract holds for the delete roller and for the fixed-window roller (any base, count,
compression) whose slot `base` is not the log file itself -/
theorem C06_rollers_honour_contract (path : Path) (r : RollerCfg) (h : r.nameOf r.base ≠ path) :
    RollGone (fun p f d => deleteRoll p f d) path ∧ RollGone (fixedWindowRoll r) path :=
  ⟨rollGone_delete path, rollGone_fixedWindow r path h⟩

/-- the size at (re)open: append mode keeps the pre-existing content and counts it, truncate mode
empties the file -/
theorem C06_open_seeds_len (cfg : Cfg σ) (d : Disk) (t0 : σ) (now : Nat) :
    Opened cfg (init cfg d t0 now) (if cfg.appendMode then fileOf cfg d else []) := by
  have h := (getWriter_spec cfg { disk := d, writer := none, tst := cfg.trig.reinit t0 now, now := now, opened := false } (Or.inl rfl)).1
  simpa [openView, init, build] using h

/-! ### non-vacuity (tests on samples) -/

private def demoPath : Path := ['a']

/-- limit 0, pre-existing 3 bytes kept in append mode: the first 1-byte record makes 4 > 0 and rolls -/
example :
    let cfg := sizeCfg demoPath true 0 (fun p f d => deleteRoll p f d)
    let s0 := init cfg (Disk.empty.set demoPath [1, 2, 3]) () 0
    (append cfg s0 [[9]] (fun _ => false)).1 = { res := .ok, consult := some (4, 4), rolled := some true } := by
  decide +kernel

/-- limits in the upper half of the u64 range never roll -/
example :
    let cfg := sizeCfg demoPath true 18446744073709551615 (fun p f d => deleteRoll p f d)
    (append cfg (init cfg (Disk.empty.set demoPath [1, 2, 3]) () 0) [[9]] (fun _ => false)).1.rolled = none := by
  decide +kernel

/-- limit 7: a record that makes exactly 7 bytes does not roll, one more byte does -/
example :
    let cfg := sizeCfg demoPath false 7 (fun p f d => deleteRoll p f d)
    let s0 := init cfg Disk.empty () 0
    let s1 := (append cfg s0 [[1, 2, 3], [4, 5, 6, 7]] (fun _ => false))
    s1.1.rolled = none ∧ s1.1.consult = some (7, 7) ∧ (append cfg s1.2 [[8]] (fun _ => false)).1.rolled = some true := by
  decide +kernel

end Log4rs.Rolling
