import Log4rsModel.Rolling.Ext06Lemmas
import Log4rsModel.Rolling.Ext06WriteLemmas
import Log4rsModel.Rolling.LemmasWindow
/-
C06 — Size trigger rolls exactly when the limit is exceeded; size accounting is exact.

Model: `Rolling/Model.lean` (`append`, `appendFail`, `getWriter`, `process`) with `sizeTrigger N`
(`len_estimate() > limit`, post-process). Histories (`Spec06.Op6`): appends of any record with any
chunking and any injected roller fault, appends whose encoder fails, restarts with the same or a
CHANGED mode / limit, clock ticks; from any initial disk, in append and truncate mode. The
executable statement is `Spec06.okEntry` / `Spec06.go` (`Rolling/Ext06Spec.lean`), which the driver
evaluates on the real probe values; `C06_model_meets_spec` proves the model satisfies it. The byte
counter is not definitional: `Rolling/Ext06Write.lean` models `LogWriter::write` with a short-write
oracle and the `write_all` loop; `C06_write_all_accounting` / `C06_counting_appender_is_model`.

Clause map
  S1/S2 rotation iff the append leaves > N bytes      C06_rolls_iff_exceeds, C06_shown_is_disk_plus_record,
        (never earlier, never deferred)               C06_model_meets_spec (calls = [shown > N], also when the roller fails;
                                                      restarts / ticks / failed encodes: no consultation, no request)
  S4    afterwards ≤ N or just rotated away            C06_bounded_after_append, C06_after_failed_roll
  S5/S6 shown = true size incl. pre-existing content   C06_len_is_disk_size, C06_open_seeds_len, C06_restart_seeds,
                                                      C06_write_all_accounting, C06_counting_appender_is_model
  S7/S8 any bytes, below / above the buffer            the theorems quantify over all byte lists and lengths
  contracts of the rollers                              C06_rollers_honour_contract; C06_self_archiving_roller_unbounded (negative)
-/
namespace Log4rs.Rolling
open Log4rs.Roller

variable {σ : Type}

/-! ### S5 / S6 the size shown is the size on disk -/

/-- At every policy consultation of every history — whatever the trigger and the roller — the
length shown to the policy (`len_estimate()`) equals the true size of the active file on disk at
that moment. Histories over `XOp`: appends (any roller fault), appends whose encoder fails,
restarts, ticks. -/
theorem C06_len_is_disk_size (cfg : Cfg σ) (d : Disk) (t0 : σ) (now : Nat) (ops : List XOp) :
    ∀ e ∈ traceX cfg (init cfg d t0 now) ops, ∀ out, e.1 = some out → ∀ c, out.consult = some c → c.1 = c.2 := by
  have key : ∀ (ops : List XOp) (s : St σ), WF cfg s →
      ∀ e ∈ traceX cfg s ops, ∀ out, e.1 = some out → ∀ c, out.consult = some c → c.1 = c.2 := by
    intro ops
    induction ops with
    | nil => intro s _ e he; simp [traceX] at he
    | cons op ops ih =>
      intro s hwf e he
      simp only [traceX, List.mem_cons] at he
      rcases he with rfl | he
      · intro out hout c hc
        cases op with
        | appendFail r n f =>
          cases hpre : cfg.trig.pre with
          | true =>
            obtain ⟨hcc, _⟩ := appendFail_pre_spec cfg s r n (faultFn f) hwf hpre _ _
              (appendFail cfg s r n (faultFn f)).1 (appendFail cfg s r n (faultFn f)).2 rfl rfl rfl
            simp only [applyX] at hout
            rw [← Option.some.inj hout, hcc] at hc
            rw [← Option.some.inj hc]
          | false =>
            have := (appendFail_post_spec cfg s r n (faultFn f) hwf hpre).1
            simp only [applyX] at hout
            rw [← Option.some.inj hout, this] at hc
            cases hc
        | op o =>
          cases o with
          | append r f =>
            obtain ⟨L, hL⟩ := (append_wf cfg s r (faultFn f) hwf).2
            simp only [applyX, applyOp] at hout
            rw [← Option.some.inj hout, hL] at hc
            rw [← Option.some.inj hc]
          | restart => simp [applyX, applyOp] at hout
          | tick dt => simp [applyX, applyOp] at hout
      · exact ih _ (WF_applyX cfg s op hwf) e he
  exact key ops _ (WF_init cfg d t0 now)

/-- the size at the first open: append mode keeps the pre-existing content and counts it, truncate
mode empties the file and starts from 0 -/
theorem C06_open_seeds_len (cfg : Cfg σ) (d : Disk) (t0 : σ) (now : Nat) :
    Opened cfg (init cfg d t0 now) (if cfg.appendMode then fileOf cfg d else []) := by
  have h := (getWriter_spec cfg { disk := d, writer := none, tst := cfg.trig.reinit t0 now, now := now, opened := false } (Or.inl rfl)).1
  simpa [openView, init, build] using h

/-- ALL RESTARTS, also with a changed configuration: dropping the appender and building a new one
on the same path — any mode, any limit, any trigger, any roller — opens the file with the counter
equal to the size of what it holds: everything that was on disk in append mode, nothing (file
emptied) in truncate mode. -/
theorem C06_restart_seeds (cfg cfg' : Cfg σ) (hp : cfg'.path = cfg.path) (s : St σ) (hwf : WF cfg s) :
    Opened cfg' (build cfg' (dropWriter cfg s)) (if cfg'.appendMode then fileOf cfg s.disk else []) := by
  have hdrop : (dropWriter cfg s).disk.get? cfg.path = s.disk.get? cfg.path := by
    unfold dropWriter
    cases hw : s.writer with
    | none => rfl
    | some w =>
      rcases hwf.2 with h | ⟨a, w', hw', hb, hg, _⟩
      · rw [hw] at h; cases h
      · rw [hw] at hw'
        have : w' = w := (Option.some.inj hw').symm
        subst this
        simp only [flushW, hb, List.append_nil]
        rw [fileOf_of_get hg, DiskL.get?_set_self]
        exact hg.symm
  let s1 : St σ :=
    { dropWriter cfg s with writer := none, tst := cfg'.trig.reinit (dropWriter cfg s).tst (dropWriter cfg s).now, opened := false }
  have h := (getWriter_spec cfg' s1 (Or.inl rfl)).1
  have hov : openView cfg' s1 = if cfg'.appendMode then fileOf cfg s.disk else [] := by
    show (if cfg'.appendMode || false then fileOf cfg' (dropWriter cfg s).disk else []) = _
    have : fileOf cfg' (dropWriter cfg s).disk = fileOf cfg s.disk := by
      unfold fileOf
      rw [hp, hdrop]
    rw [this]
    cases cfg'.appendMode <;> rfl
  rw [hov] at h
  exact h

/-! ### S1 / S2 rotation exactly when the limit is exceeded -/

/-- One append with a size trigger, from any well-formed state: the size shown is exactly the size
of the file ON DISK before the append plus the bytes of the record, it equals the true size at the
consultation, and the roller is invoked iff it exceeds `N` — never earlier, never deferred; it
reports success (`rolled = some true`) iff moreover the roller succeeds. -/
theorem C06_rolls_iff_exceeds (path : Path) (am : Bool) (N : Nat) (roll : RollFn) (s : St Unit)
    (r : Rec) (fault : Nat → Bool) (hwf : WF (sizeCfg path am N roll) s) :
    let L := (fileOf (sizeCfg path am N roll) s.disk).length + (encBytes r).length
    (append (sizeCfg path am N roll) s r fault).1.consult = some (L, L) ∧
    ((append (sizeCfg path am N roll) s r fault).1.rolled.isSome ↔ L > N) := by
  intro L
  obtain ⟨hc, _, _, _, hno, _, hyes⟩ :=
    append_post_spec (sizeCfg path am N roll) s r fault hwf rfl _ _
      (append (sizeCfg path am N roll) s r fault).1 (append (sizeCfg path am N roll) s r fault).2 rfl rfl rfl
  have hL : (openView (sizeCfg path am N roll) s ++ encBytes r).length = L := by
    rw [openView_of_opened _ s hwf.1]; simp [L]
  rw [hL] at hc hno hyes
  refine ⟨hc, ?_⟩
  by_cases hgt : L > N
  · have hans : ((sizeCfg path am N roll).trig.fire s.tst L s.now).1 = .yes := by
      simp [sizeCfg, sizeTrigger, hgt]
    obtain ⟨d1, _, _, _, _, h⟩ := hyes hans
    rcases h with ⟨_, _, _, hr⟩ | ⟨_, _, _, hr⟩ <;> simp [hr, hgt]
  · have hans : ((sizeCfg path am N roll).trig.fire s.tst L s.now).1 = .no := by
      simp [sizeCfg, sizeTrigger, hgt]
    simp [(hno hans).2.1, hgt]

/-- The same at every append of EVERY history (failing encoders, restarts with changed mode/limit,
roller faults, ticks before it): after any history `pre`, an append shows the policy exactly
`|file on disk after pre| + |record|`, which is the true size at that moment, and invokes the
roller iff that exceeds the limit then in force. -/
theorem C06_shown_is_disk_plus_record (path : Path) (roll : RollFn) (am : Bool) (N : Nat) (d : Disk) (now : Nat)
    (pre : List Spec06.Op6) (r : Rec) (f : Option Nat) :
    let s := Spec06.final6 path roll (Spec06.init6 path roll am N d now) pre
    let L := ((s.st.disk.get? path).getD []).length + (encBytes r).length
    ∃ out, (Spec06.apply6 path roll s (.x (.op (.append r f)))).1 = some out ∧
      out.consult = some (L, L) ∧ (out.rolled.isSome ↔ L > s.limit) := by
  intro s L
  have hwf := Spec06.WF_final6 path roll pre _ (Spec06.WF_init6 path roll am N d now)
  exact ⟨_, rfl, C06_rolls_iff_exceeds path s.am s.limit roll s.st r (faultFn f) hwf⟩

/-- THE LINK BETWEEN PROOF AND EXECUTABLE SPEC. For every roller that honours the two contracts
(`RollGone`: after `Ok` the file is gone; `RollErrKeeps`: after `Err` the file is untouched or
gone), any initial disk, both modes, any limit, and every history of `Op6` — appends with any
roller fault, failing encoders, restarts with the same or a changed mode/limit, ticks — the
observations of the model (Ok/Err, every consultation's shown and true size, number of roller
invocations, size of the file afterwards) pass `Spec06.go`, the check the driver runs on the real
code: exactly one consultation per successful encode, `shown = actual = size before + |record|`,
roller invoked iff `shown > limit` (also when it then fails), afterwards rotated away / exactly
`shown` bytes, restarts keep (append) or empty (truncate) the file, failed encodes and ticks change
nothing and consult nothing. -/
theorem C06_model_meets_spec (path : Path) (roll : RollFn) (hgone : RollGone roll path) (herr : RollErrKeeps roll path)
    (am : Bool) (N : Nat) (d : Disk) (now : Nat) (ops : List Spec06.Op6) :
    let s0 := Spec06.init6 path roll am N d now
    Spec06.go 0 (Spec06.sOf path s0) (Spec06.evsOf path roll s0 ops)
      ((Spec06.trace6 path roll s0 ops).map (Spec06.entryOf path)) = none := by
  intro s0
  exact Spec06.trace6_meets_spec path roll hgone herr ops s0 (Spec06.WF_init6 path roll am N d now) 0

/-- … and the observer's initial state is what the open left: the pre-existing size in append mode,
an emptied file in truncate mode -/
theorem C06_spec_initial_size (path : Path) (roll : RollFn) (am : Bool) (N : Nat) (d : Disk) (now : Nat) :
    (Spec06.sOf path (Spec06.init6 path roll am N d now)).size =
      some (if am then ((d.get? path).getD []).length else 0) := by
  obtain ⟨_, _, _, hg, _⟩ := C06_open_seeds_len (sizeCfg path am N roll) d () now
  show ((init (sizeCfg path am N roll) d () now).disk.get? path).map List.length = _
  have hg' : (init (sizeCfg path am N roll) d () now).disk.get? path =
      some (if am then ((d.get? path).getD []) else []) := hg
  rw [hg']
  cases am <;> rfl

/-! ### S4 the bound, and what a failing roller leaves -/

/-- After every successful append of every history the active file has just been rotated away or
holds at most `N` bytes (`N` = the limit in force) — including `N = 0`, a pre-existing file larger
than `N`, changed-configuration restarts and failed encodes in between — for every roller that
honours `Roll::roll`'s contract (`RollGone`). -/
theorem C06_bounded_after_append (path : Path) (roll : RollFn) (hroll : RollGone roll path) (am : Bool) (N : Nat)
    (d : Disk) (now : Nat) (pre : List Spec06.Op6) (r : Rec) (f : Option Nat) :
    let s := Spec06.final6 path roll (Spec06.init6 path roll am N d now) pre
    let e := Spec06.apply6 path roll s (.x (.op (.append r f)))
    ∀ out, e.1 = some out → out.res = .ok →
      e.2.st.disk.get? path = none ∨ ∃ a, e.2.st.disk.get? path = some a ∧ a.length ≤ s.limit := by
  intro s e out hout hok
  have hwf := Spec06.WF_final6 path roll pre _ (Spec06.WF_init6 path roll am N d now)
  let cfg := sizeCfg path s.am s.limit roll
  obtain ⟨_, _, _, _, hno, _, hyes⟩ :=
    append_post_spec cfg s.st r (faultFn f) hwf rfl _ _ (append cfg s.st r (faultFn f)).1 (append cfg s.st r (faultFn f)).2 rfl rfl rfl
  have ho : out = (append cfg s.st r (faultFn f)).1 := (Option.some.inj hout).symm
  by_cases hgt : (openView cfg s.st ++ encBytes r).length > s.limit
  · have hans : (cfg.trig.fire s.st.tst (openView cfg s.st ++ encBytes r).length s.st.now).1 = .yes := by
      rw [sizeCfg_fire, if_pos hgt]
    obtain ⟨d1, _, _, _, hd, hres⟩ := hyes hans
    rcases hres with ⟨x, hx, _, _⟩ | ⟨e', _, hr, _⟩
    · left
      show (append cfg s.st r (faultFn f)).2.disk.get? path = none
      rw [hd]
      exact hroll (faultFn f) d1 x _ (by have : (roll path (faultFn f) d1).1 = .ok x := hx; rw [← this]; rfl)
    · rw [ho, hr] at hok
      cases hok
  · have hans : (cfg.trig.fire s.st.tst (openView cfg s.st ++ encBytes r).length s.st.now).1 = .no := by
      rw [sizeCfg_fire, if_neg hgt]
    obtain ⟨_, _, ⟨w, _, _, hg, _⟩, _⟩ := hno hans
    right
    exact ⟨_, hg, Nat.le_of_not_gt hgt⟩

/-- "Never deferred" survives a FAILING roller: when an append ends in `Err` because the roller
failed (so the file exceeded the limit), and the roller left the file in place, then the very next
append shows `|that file| + |record|`, which again exceeds the limit, and invokes the roller again.
(With a roller that removed the file while reporting `Err` the next append starts from an empty
file.) -/
theorem C06_after_failed_roll (path : Path) (am : Bool) (N : Nat) (roll : RollFn) (herr : RollErrKeeps roll path)
    (s : St Unit) (hwf : WF (sizeCfg path am N roll) s) (r r' : Rec) (fault fault' : Nat → Bool)
    (hfail : (append (sizeCfg path am N roll) s r fault).1.res = .errRoll) :
    let cfg := sizeCfg path am N roll
    let s1 := (append cfg s r fault).2
    let L := (fileOf cfg s.disk).length + (encBytes r).length
    L > N ∧
    ((s1.disk.get? path).map List.length = some L ∨ s1.disk.get? path = none) ∧
    (append cfg s1 r' fault').1.consult =
      some ((fileOf cfg s1.disk).length + (encBytes r').length, (fileOf cfg s1.disk).length + (encBytes r').length) ∧
    ((s1.disk.get? path).map List.length = some L → (append cfg s1 r' fault').1.rolled.isSome) := by
  intro cfg s1 L
  obtain ⟨hc, hiff⟩ := C06_rolls_iff_exceeds path am N roll s r fault hwf
  obtain ⟨_, _, _, _, hno, _, hyes⟩ :=
    append_post_spec cfg s r fault hwf rfl _ _ (append cfg s r fault).1 (append cfg s r fault).2 rfl rfl rfl
  have hL : (openView cfg s ++ encBytes r).length = L := by
    rw [openView_of_opened cfg s hwf.1]; simp [L]
  rw [hL] at hno hyes
  have hgt : L > N := by
    by_cases h : L > N
    · exact h
    · exfalso
      have hans : (cfg.trig.fire s.tst L s.now).1 = .no := by simp [cfg, sizeCfg, sizeTrigger, h]
      rw [(hno hans).1] at hfail
      cases hfail
  have hans : (cfg.trig.fire s.tst L s.now).1 = .yes := by simp [cfg, sizeCfg, sizeTrigger, hgt]
  obtain ⟨d1, hg1, _, _, hd, hres⟩ := hyes hans
  have hwf1 : WF cfg s1 := (append_wf cfg s r fault hwf).1
  obtain ⟨hc1, hiff1⟩ := C06_rolls_iff_exceeds path am N roll s1 r' fault' hwf1
  have hkeep : (s1.disk.get? path).map List.length = some L ∨ s1.disk.get? path = none := by
    rcases hres with ⟨x, _, hr, _⟩ | ⟨e, he, _, _⟩
    · rw [hr] at hfail; cases hfail
    · have hd' : s1.disk = (roll path fault d1).2 := hd
      rw [hd']
      rcases herr fault d1 e _ (by have : (roll path fault d1).1 = .error e := he; rw [← this]) with hk | hk
      · left
        have : d1.get? path = some (openView cfg s ++ encBytes r) := hg1
        rw [hk, this, Option.map_some, hL]
      · right; exact hk
  refine ⟨hgt, hkeep, hc1, ?_⟩
  intro hsame
  apply hiff1.mpr
  have : (fileOf (sizeCfg path am N roll) s1.disk).length = L := by
    show ((s1.disk.get? path).getD []).length = L
    cases hg : s1.disk.get? path with
    | none => rw [hg] at hsame; cases hsame
    | some a =>
      rw [hg] at hsame
      simp only [Option.map_some, Option.some.injEq] at hsame
      simpa using hsame
  omega

/-! ### the byte counter is not definitional -/

/-- `LogWriter::write` counts what `BufWriter::write` ACCEPTED; `write_all` is the default loop.
For every oracle of short writes (`File::write` accepting any `1 ≤ n ≤ offered` bytes, per call),
every writer state and every slice: the loop terminates, the counter has advanced by EXACTLY the
length of the slice, and the bytes held by the writer (on disk ++ buffered) are the old ones
followed by the slice — each byte handed on exactly once. -/
theorem C06_write_all_accounting (acc : Write06.Accept) (hacc : Write06.GoodAccept acc) (w : Write06.LW) (data : Bytes) :
    ∃ w', Write06.writeAll acc data.length w data = some w' ∧ w'.len = w.len + data.length ∧
      w'.bf.logical = w.bf.logical ++ data :=
  Write06.writeAll_spec acc hacc data.length w data (Nat.le_refl _)

/-- The appender built on the counting writer and the `write_all` loop does exactly what the
model's `append` does, for every short-write oracle, every trigger, roller, state and record: same
result, same size shown to the policy, same state. Hence every theorem of this file about `append`
is a theorem about the counting appender — the model's `len := len + |record|` is a consequence of
`len += accepted`, not an assumption. -/
theorem C06_counting_appender_is_model (acc : Write06.Accept) (hacc : Write06.GoodAccept acc) (cfg : Cfg σ) (s : St σ)
    (r : Rec) (fault : Nat → Bool) :
    Write06.appendX acc cfg s r fault = some (append cfg s r fault) :=
  Write06.appendX_eq acc hacc cfg s r fault

/-- What the loop theorem excludes (witness): a counter that forgets the bytes `BufWriter` writes
through (records ≥ 1 KiB — the seeded change "count at flush") is short by the whole record. -/
theorem C06_forgetful_counter_breaks :
    let w : Write06.LW := { bf := { disk := [], buf := [] }, len := 0, calls := 0 }
    let data : Bytes := List.replicate 1024 7
    (Write06.write (fun _ n => n) w data).2.len = 1024 ∧ (Write06.writeForgetful (fun _ n => n) w data).2.len = 0 := by
  decide +kernel

/-! ### the rollers -/

/-- both contracts hold for the delete roller and for the fixed-window roller (any base, count,
compression) whose slot names are injective inside the window and different from the log path, and
are preserved by the harness's "Err after the work" wrapper -/
theorem C06_rollers_honour_contract (path : Path) (r : RollerCfg) (decode : Bytes → Bytes)
    (hdec : ∀ x, decode (r.codec x) = x)
    (hinj : ∀ i j, i < r.count → j < r.count → r.nameOf (r.base + i) = r.nameOf (r.base + j) → i = j)
    (hfile : ∀ j, j < r.count → r.nameOf (r.base + j) ≠ path) (hbase : r.nameOf r.base ≠ path) :
    (RollGone (fun p f d => deleteRoll p f d) path ∧ RollErrKeeps (fun p f d => deleteRoll p f d) path) ∧
    (RollGone (fixedWindowRoll r) path ∧ RollErrKeeps (fixedWindowRoll r) path) ∧
    (RollGone (Spec17.lateWrap (fixedWindowRoll r)) path ∧ RollErrKeeps (Spec17.lateWrap (fixedWindowRoll r)) path) ∧
    (RollGone (Spec17.lateWrap (fun p f d => deleteRoll p f d)) path ∧
      RollErrKeeps (Spec17.lateWrap (fun p f d => deleteRoll p f d)) path) := by
  have hd1 := rollGone_delete path
  have hd2 := rollErrKeeps_of_contract _ path _ (rollContract_delete path)
  have hf1 := rollGone_fixedWindow r path hbase
  have hf2 := rollErrKeeps_of_contract _ path _ (rollContract_fixedWindow r path decode hdec hinj hfile)
  exact ⟨⟨hd1, hd2⟩, ⟨hf1, hf2⟩, ⟨rollGone_lateWrap _ path hf1, rollErrKeeps_lateWrap _ path hf1 hf2⟩,
    ⟨rollGone_lateWrap _ path hd1, rollErrKeeps_lateWrap _ path hd1 hd2⟩⟩

/-- NEGATIVE WITNESS (outside the property's quantifier, which ranges over limits, records,
pre-existing sizes and restarts, not over roller patterns — recorded because the code accepts the
configuration silently): a fixed-window roller with ONE slot whose name IS the log path (log
`app.0.log`, pattern `app.{}.log`, base 0, count 1) "rotates" by renaming the file onto itself:
`roll` returns `Ok` with the file still in place (`Roll::roll`'s contract broken), so with limit 0 the
file is over the limit after a successful append and is never rotated away. -/
theorem C06_self_archiving_roller_unbounded :
    let p : Path := ['a']
    let rc : RollerCfg := { nameOf := fun _ => p, base := 0, count := 1 }
    let cfg := sizeCfg p true 0 (fixedWindowRoll rc)
    let a := append cfg (init cfg Disk.empty () 0) [[1, 2, 3]] (fun _ => false)
    ¬ RollGone (fixedWindowRoll rc) p ∧
    a.1 = { res := .ok, consult := some (3, 3), rolled := some true } ∧ a.2.disk.get? p = some [1, 2, 3] := by
  intro p rc cfg a
  refine ⟨?_, by decide +kernel, by decide +kernel⟩
  intro h
  have := h (fun _ => false) (Disk.empty.set p [1]) (Disk.empty.set p [1]) (Disk.empty.set p [1]) rfl
  revert this
  decide +kernel

/-! ### non-vacuity (tests on samples) -/

private def demoPath : Path := ['a']

/-- limit 0, pre-existing 3 bytes kept in append mode: the first 1-byte record makes 4 > 0 and rolls -/
example :
    let cfg := sizeCfg demoPath true 0 (fun p f d => deleteRoll p f d)
    let s0 := init cfg (Disk.empty.set demoPath [1, 2, 3]) () 0
    (append cfg s0 [[9]] (fun _ => false)).1 = { res := .ok, consult := some (4, 4), rolled := some true } := by
  decide +kernel

/-- truncate mode over pre-existing content: the open empties the file, the counter starts at 0 -/
example :
    let cfg := sizeCfg demoPath false 7 (fun p f d => deleteRoll p f d)
    let s0 := init cfg (Disk.empty.set demoPath [1, 2, 3, 4, 5, 6, 7, 8, 9]) () 0
    s0.disk.get? demoPath = some [] ∧ (append cfg s0 [[9]] (fun _ => false)).1.consult = some (1, 1) := by
  decide +kernel

/-- a restart with a LOWERED limit (7 → 2) in append mode: the 5 bytes stay, the next 1-byte record
shows 6 > 2 and rolls -/
example :
    let s0 := Spec06.init6 demoPath (fun p f d => deleteRoll p f d) true 7 Disk.empty 0
    let tr := Spec06.trace6 demoPath (fun p f d => deleteRoll p f d) s0
      [.x (.op (.append [[1, 2, 3, 4, 5]] none)), .reconf true 2, .x (.op (.append [[6]] none))]
    tr.map (fun e => e.1.map (fun o => (o.consult, o.rolled))) =
      [some (some (5, 5), none), none, some (some (6, 6), some true)] := by
  decide +kernel

/-- a failed roll, then the reopen: the file stays over the limit and the next append rolls again -/
example :
    let rc : RollerCfg := { nameOf := fun i => ['a', '.', Char.ofNat (48 + i)], base := 0, count := 2 }
    let cfg := sizeCfg demoPath true 3 (fixedWindowRoll rc)
    let s0 := init cfg Disk.empty () 0
    let a1 := append cfg s0 [[1, 2, 3, 4]] (faultFn (some 0))
    let a2 := append cfg a1.2 [[5]] (fun _ => false)
    a1.1 = { res := .errRoll, consult := some (4, 4), rolled := some false } ∧
      a2.1 = { res := .ok, consult := some (5, 5), rolled := some true } := by
  decide +kernel

/-- limits in the upper half of the u64 range never roll -/
example :
    let cfg := sizeCfg demoPath true 18446744073709551615 (fun p f d => deleteRoll p f d)
    (append cfg (init cfg (Disk.empty.set demoPath [1, 2, 3]) () 0) [[9]] (fun _ => false)).1.rolled = none := by
  decide +kernel

/-- limit 7: a record that makes exactly 7 bytes does not roll, one more byte does -/
example :
    let cfg := sizeCfg demoPath false 7 (fun p f d => deleteRoll p f d)
    let s0 := init cfg Disk.empty () 0
    let s1 := (append cfg s0 [[1, 2, 3], [4, 5, 6, 7]] (fun _ => false))
    s1.1.rolled = none ∧ s1.1.consult = some (7, 7) ∧ (append cfg s1.2 [[8]] (fun _ => false)).1.rolled = some true := by
  decide +kernel

/-- the counting writer under a miserly oracle (one byte per `File::write`): a 1030-byte slice
still counts 1030 -/
example :
    (Write06.writeAll (fun _ _ => 1) 1030 { bf := { disk := [], buf := [] }, len := 5, calls := 0 }
      (List.replicate 1030 1)).map (·.len) = some 1035 := by
  decide +kernel

end Log4rs.Rolling
