import Log4rsModel.Roller.LemmasHist
import Log4rsModel.Roller.LemmasName
import Log4rsModel.Roller.LemmasBg
import Log4rsModel.Roller.LemmasFinal
/-
C08 — A failed or interrupted rotation loses no acknowledged data and is recoverable.
Only property theorems and non-vacuity examples; helpers are in Roller/LemmasCrash.lean.

Reading order: `readBack dec r file d` = archives from the highest index of the window down to
`base` (decoded), then the active file — oldest to newest. `retain` = the reading of the
*completed* rotation. `l₁ <:+ l₂` = "l₁ is a suffix of l₂". All roller-level theorems hold for an
arbitrary disk (gaps, left-overs of earlier failures), every window size, every compression.

The continuation clause (`C08_continuation_statement`) is a theorem for the code as it is since
the fix b8295bc (`C08_continuation`, both open modes) and is extended to arbitrary continuation
histories (`C08_continuation_any_history`, `C08_history_gap_free_partial`). Before the fix it was false
for `append(false)` (defect F10): `C08_truncate_reopen_loses_data_unfixed` keeps the negation for
the old open-option logic (`truncateEveryReopen = true`) on its 3-operation witness.
Which theorem covers which point of a rotation:
  * step boundaries (before each shift, before the final step, after it): `C08_crash_safe` (death)
    and `C08_fault_safe` (a step that fails without having done anything);
  * INSIDE the final step, a fault with a partial effect (`move_file`: rename refused, copy done,
    source not removable; compression: copy done, source not removable): safe exactly when the
    failing step removes its destination again — `C08_fault_safe_partial_effect`,
    `C08_partial_final_safe` (the code since the repair of `C08/move-fallback-duplicates`; the
    compressing arms since ec0831e); leaving the destination is unsafe:
    `C08_move_fallback_duplicates_unfixed` (negation on a witness);
  * INSIDE the final step, process death after the destination is written: the statement is FALSE
    of the code — `C08_crash_inside_compress_duplicates` (negation on a witness; known finding
    `C08/crash-inside-compress-duplicates`);
  * a RESTARTED `append(false)` appender after an interrupted rotation truncates the chunk the
    completed rotation would retain: `C08_restart_after_interrupted_partial` holds for append mode,
    `C08_truncate_restart_loses_interrupted_chunk` is the negation of the unrestricted statement
    (known finding `C08/truncate-restart-after-interrupted-roll`); `C08_history_gap_free_partial`
    carries the same restriction as its visible hypothesis `hr`.
Torn writes inside the copy, failures of `open`/`write` themselves and a partial effect of a SHIFT
(copy fallback of a shift whose source cannot be removed) are outside the model.
-/
namespace Log4rs.Roller
open Log4rs.Str

/-- Crash safety: the process dies after `k` completed steps (any `k`, including 0 and "all").
The reading of the disk is then a suffix of the reading before the rotation (gap-free, order
kept), and everything the completed rotation would retain is still there: `retain` is a suffix
of it, and each of its chunks sits under a name the roller manages or at the active path. -/
theorem C08_crash_safe (r : RollerCfg) (file : Path) (dec : Bytes → Bytes) (d : Disk) (k : Nat)
    (hinj : NamesInj r) (hfa : FileApart r file) (hdec : ∀ x, dec (r.enc x) = x)
    (hc : r.count ≠ 0) :
    readBack dec r file (crashAfter r file k d) <:+ readBack dec r file d ∧
    retain dec r file d <:+ readBack dec r file (crashAfter r file k d) ∧
    ∀ y ∈ retain dec r file d,
      (∃ j z, j < r.count ∧ slot r (crashAfter r file k d) (r.base + j) = some z ∧ dec z = y) ∨
        (crashAfter r file k d).get? file = some y := by
  obtain ⟨h1, h2⟩ := crash_sandwich hinj hfa dec hdec hc k d
  exact ⟨h1, h2, fun y hy => (mem_readBack dec r file _ y).1 (h2.subset hy)⟩

/-- Fault safety: whatever step fails (any fault oracle), the roll returns `ok` or `err` — never a
panic inside the `u32` guard — and the disk it leaves is the disk after some number of completed
steps, so the guarantee of `C08_crash_safe` holds for it. -/
theorem C08_fault_safe (r : RollerCfg) (file : Path) (dec : Bytes → Bytes) (d : Disk)
    (fault : Nat → Bool)
    (hg : r.base + r.count ≤ U32_MOD)
    (hinj : NamesInj r) (hfa : FileApart r file) (hdec : ∀ x, dec (r.enc x) = x)
    (hc : r.count ≠ 0) :
    (rollU32 r file fault d).1.isPanic = false ∧
    (∃ k, (rollU32 r file fault d).2 = crashAfter r file k d) ∧
    readBack dec r file (rollU32 r file fault d).2 <:+ readBack dec r file d ∧
    retain dec r file d <:+ readBack dec r file (rollU32 r file fault d).2 := by
  have hp : (rollU32 r file fault d).1.isPanic = false := by
    rw [rollU32_guarded _ _ _ _ hg]
    rcases fixedWindowRoll r file fault d with ⟨res, d''⟩
    cases res <;> rfl
  obtain ⟨k, hk⟩ := fault_is_crash r file fault d
  rw [rollU32_disk _ _ _ _ hg, hk]
  obtain ⟨h1, h2⟩ := crash_sandwich hinj hfa dec hdec hc k d
  exact ⟨hp, ⟨k, rfl⟩, h1, h2⟩

/-- Recovery, one rotation: from ANY disk a failed or interrupted rotation may have left (no
assumption on the window at all), once nothing obstructs, rolling a file succeeds, puts it into
slot `base`, removes it from its path, and loses nothing but what a rotation evicts. -/
theorem C08_recovery_next_rotation (r : RollerCfg) (file : Path) (dec : Bytes → Bytes) (d : Disk)
    (y : Bytes)
    (hg : r.base + r.count ≤ U32_MOD)
    (hinj : NamesInj r) (hfa : FileApart r file) (hdec : ∀ x, dec (r.enc x) = x)
    (hc : r.count ≠ 0) (hy : d.get? file = some y) :
    ∃ d', rollU32 r file (fun _ => false) d = (.ok d', d') ∧
      slot r d' r.base = some (r.enc y) ∧ d'.get? file = none ∧
      readBack dec r file d' <:+ readBack dec r file d := by
  obtain ⟨d', h0, h1, h2, _, _⟩ := rollU32_general r file d y hg hc hinj hfa hy
  refine ⟨d', h0, h1, h2, ?_⟩
  have := (C08_fault_safe r file dec d (fun _ => false) hg hinj hfa hdec hc).2.2.1
  rw [h0] at this
  exact this

/-- Recovery, the window invariant for data written afterwards: from ANY disk, after rolling
`y₁ … yₙ` without obstruction, slot `base+j` holds `y_{n-j}` for every `j < min n count` — exactly
the conclusion of C07 for the new data, whatever the failed rotation left behind. -/
theorem C08_recovery (r : RollerCfg) (file : Path) (d : Disk) (ys : List Bytes)
    (hg : r.base + r.count ≤ U32_MOD)
    (hinj : NamesInj r) (hfa : FileApart r file) (hc : r.count ≠ 0) :
    ∀ j, j < ys.length → j < r.count →
      slot r (rollMany r file ys d) (r.base + j) = (ys.reverse[j]?).map r.enc := by
  intro j hj hjc
  have hw : WindowPrefix r d [] := fun j hj => absurd hj (by simp)
  have := rollMany_prefix r file hg hc hinj hfa ys d [] hw j (by simpa using hj) hjc
  rw [this, List.append_nil, List.getElem?_map]

/-- The failing append reports an error instead of panicking (every fault oracle, both trigger
kinds, both open modes). -/
theorem C08_append_never_panics (c : AppCfg) (fault : Nat → Bool) (answer : Bool) (rec : Bytes)
    (st : AppState) (hg : c.roller.base + c.roller.count ≤ U32_MOD)
    (hinv : st.writerOpen = true → st.openedOnce = true) :
    (appendOp c fault answer rec st).1 ≠ .panic := by
  cases answer with
  | true => exact (appendOp_roll_outcome c fault rec st hg hinv).1
  | false =>
    unfold appendOp
    cases c.pre <;> simp

/-- The append whose rotation fails, in both open modes and for both trigger kinds: the disk it
leaves keeps every chunk the completed rotation would retain, in order (bytes of `retain` are a
suffix of the bytes on disk, which are a suffix of the bytes at the start of the rotation); the
writer is closed, so the next append reopens the file. -/
theorem C08_failed_append_safe (c : AppCfg) (fault : Nat → Bool) (rec : Bytes) (st : AppState)
    (dec : Bytes → Bytes)
    (hg : c.roller.base + c.roller.count ≤ U32_MOD)
    (hinj : NamesInj c.roller) (hfa : FileApart c.roller c.file)
    (hdec : ∀ x, dec (c.roller.enc x) = x) (hc : c.roller.count ≠ 0)
    (hinv : st.writerOpen = true → st.openedOnce = true)
    (herr : (appendOp c fault true rec st).1 = .err) :
    flat (retain dec c.roller c.file (rotationStart c rec st).disk) <:+
        flat (readBack dec c.roller c.file (appendOp c fault true rec st).2.disk) ∧
    flat (readBack dec c.roller c.file (appendOp c fault true rec st).2.disk) <:+
        flat (readBack dec c.roller c.file (rotationStart c rec st).disk) ∧
    (appendOp c fault true rec st).2.writerOpen = false := by
  obtain ⟨⟨k, hk⟩, hw, _⟩ := (appendOp_roll_outcome c fault rec st hg hinv).2 herr
  obtain ⟨h1, h2⟩ := crash_sandwich hinj hfa dec hdec hc k (rotationStart c rec st).disk
  rw [hk]
  exact ⟨flat_suffix h2, flat_suffix h1, hw⟩

/-- The continuation clause, as the statement words it: after an append whose rotation failed,
the next plain append of the same appender still has on disk everything the completed rotation
would retain, followed by the new record. `every` selects the open-option logic: `false` = the
code (truncate at the first open only), `true` = the code before the fix b8295bc. -/
def C08_continuation_statement (every : Bool) : Prop :=
  ∀ (c : AppCfg) (fault : Nat → Bool) (rec1 rec2 : Bytes) (st : AppState),
    c.truncateEveryReopen = every →
    c.roller.base + c.roller.count ≤ U32_MOD → c.roller.count ≠ 0 →
    NamesInj c.roller → FileApart c.roller c.file → c.roller.comp = .none →
    st.writerOpen = true → st.openedOnce = true →
    (appendOp c fault true rec1 st).1 = .err →
    flat (retain id c.roller c.file (rotationStart c rec1 st).disk) ++ rec2 <:+
      flat (readBack id c.roller c.file
        (appendOp c (fun _ => false) false rec2 (appendOp c fault true rec1 st).2).2.disk)

/-- The clause for every compression and decoder: append mode under either open-option logic, and
truncate mode when truncation is confined to the first open of the appender's life (the code). -/
theorem C08_continuation_partial (c : AppCfg) (fault : Nat → Bool) (rec1 rec2 : Bytes)
    (st : AppState) (dec : Bytes → Bytes)
    (hnt : c.mode = .append ∨ c.truncateEveryReopen = false)
    (hg : c.roller.base + c.roller.count ≤ U32_MOD) (hc : c.roller.count ≠ 0)
    (hinj : NamesInj c.roller) (hfa : FileApart c.roller c.file)
    (hdec : ∀ x, dec (c.roller.enc x) = x)
    (hinv : st.writerOpen = true → st.openedOnce = true)
    (herr : (appendOp c fault true rec1 st).1 = .err) :
    (appendOp c (fun _ => false) false rec2 (appendOp c fault true rec1 st).2).1 = .ok ∧
    flat (retain dec c.roller c.file (rotationStart c rec1 st).disk) ++ rec2 <:+
      flat (readBack dec c.roller c.file
        (appendOp c (fun _ => false) false rec2 (appendOp c fault true rec1 st).2).2.disk) := by
  obtain ⟨hs1, _, _⟩ := C08_failed_append_safe c fault rec1 st dec hg hinj hfa hdec hc hinv herr
  obtain ⟨_, hw, ho⟩ := (appendOp_roll_outcome c fault rec1 st hg hinv).2 herr
  generalize (appendOp c fault true rec1 st).2 = st1 at *
  have hnotr : c.truncates st1 = false := by
    unfold AppCfg.truncates
    rcases hnt with h | h
    · rw [h]
    · cases c.mode <;> simp [h, ho]
  have hplain : appendOp c (fun _ => false) false rec2 st1 = (.ok, writeRec c rec2 (getWriter c st1)) := by
    unfold appendOp
    cases c.pre <;> simp
  rw [hplain]
  refine ⟨rfl, ?_⟩
  rw [stream_writeRec c hfa dec, getWriter_keep c hfa dec st1 (Or.inr hnotr)]
  obtain ⟨t, ht⟩ := hs1
  exact ⟨t, by rw [← ht, List.append_assoc]⟩

/-- **The continuation clause holds of the code** (both open modes, pre- and post-process
triggers, every window size, every fault oracle). -/
theorem C08_continuation : C08_continuation_statement false := by
  intro c fault rec1 rec2 st htr hg hc hinj hfa hcomp hw ho herr
  have hdec : ∀ x, id (c.roller.enc x) = x := by intro x; simp [RollerCfg.enc, hcomp]
  exact (C08_continuation_partial c fault rec1 rec2 st id (Or.inr htr) hg hc hinj hfa hdec
    (fun _ => ho) herr).2

/-- Any continuation of the history: start from any state of a built appender (`Good`), let one
append run with an arbitrary fault oracle (the failed or interrupted rotation), then ANY history
of appends — plain or rotating, each with its own arbitrary fault oracle — and restarts. In the
state reached: (1) a plain append succeeds and appends its record to the stream; (2) a rotating
append never panics and, whatever fails, keeps on disk what its completed rotation would retain,
in order; (3) an unobstructed rotating append succeeds and leaves exactly what the completed
rotation retains — "resumes writing and rotating without manual intervention". -/
theorem C08_continuation_any_history (c : AppCfg) (dec : Bytes → Bytes) (st : AppState)
    (fault0 : Nat → Bool) (answer0 : Bool) (rec0 : Bytes) (hist : List HOp)
    (htr : c.truncateEveryReopen = false)
    (hg : c.roller.base + c.roller.count ≤ U32_MOD) (hc : c.roller.count ≠ 0)
    (hinj : NamesInj c.roller) (hfa : FileApart c.roller c.file)
    (hdec : ∀ x, dec (c.roller.enc x) = x) (hgood : Good c st) :
    let stN := runHist c hist (appendOp c fault0 answer0 rec0 st).2
    Good c stN ∧
    (∀ rec f, (appendOp c f false rec stN).1 = .ok ∧
      stm dec c (appendOp c f false rec stN).2.disk = stm dec c stN.disk ++ rec) ∧
    (∀ rec f, (appendOp c f true rec stN).1 ≠ .panic ∧
      flat (retain dec c.roller c.file (rotationStart c rec stN).disk) ++
          (if c.pre && (appendOp c f true rec stN).1 == .ok then rec else []) <:+
        stm dec c (appendOp c f true rec stN).2.disk ∧
      stm dec c (appendOp c f true rec stN).2.disk <:+
        stm dec c (rotationStart c rec stN).disk ++
          (if c.pre && (appendOp c f true rec stN).1 == .ok then rec else [])) ∧
    (∀ rec, (appendOp c (fun _ => false) true rec stN).1 = .ok ∧
      stm dec c (appendOp c (fun _ => false) true rec stN).2.disk =
        flat (retain dec c.roller c.file (rotationStart c rec stN).disk) ++
          (if c.pre then rec else [])) := by
  intro stN
  have hN : Good c stN := good_runHist hist (good_appendOp fault0 answer0 rec0 hgood)
  exact ⟨hN,
    fun rec f => stm_plain c dec f rec stN htr hfa hN,
    fun rec f => stm_rotating c dec f rec stN htr hg hc hinj hfa hdec hN,
    fun rec => stm_rotating_nofault c dec rec stN htr hg hc hfa hN⟩

/-- Gap-free suffix over whole histories — PARTIAL: restarts are covered in append mode only
(hypothesis `hr`); for `append(false)` the unrestricted statement is false
(`C08_truncate_restart_loses_interrupted_chunk`). For every history of appends (plain or rotating,
with arbitrary faults) — and restarts, when the appender is in append mode — the stream read back from
disk is a suffix of "the stream at the beginning followed by every record written": nothing is
lost from the middle, reordered or duplicated, however many rotations failed on the way. -/
theorem C08_history_gap_free_partial (c : AppCfg) (dec : Bytes → Bytes) (st : AppState) (hist : List HOp)
    (htr : c.truncateEveryReopen = false)
    (hg : c.roller.base + c.roller.count ≤ U32_MOD) (hc : c.roller.count ≠ 0)
    (hinj : NamesInj c.roller) (hfa : FileApart c.roller c.file)
    (hdec : ∀ x, dec (c.roller.enc x) = x)
    (hr : c.mode = .append ∨ ∀ op ∈ hist, op.isRestart = false) (hgood : Good c st) :
    stm dec c (runHist c hist st).disk <:+ stm dec c st.disk ++ writtenBy c hist st :=
  hist_gap_free c dec htr hg hc hinj hfa hdec hist hr st hgood

/-- A restarted appender: in append mode the stream is unchanged; with `append(false)` exactly the
active file is discarded, as configured, and every archive stays. -/
theorem C08_restart (c : AppCfg) (dec : Bytes → Bytes) (d : Disk) (hfa : FileApart c.roller c.file) :
    Good c (restartOp c d) ∧
    stm dec c (restartOp c d).disk =
      match c.mode with
      | .append => stm dec c d
      | .truncate => flat ((windowChunks c.roller d c.roller.count).map dec) :=
  ⟨good_restart c d, stm_restart c dec d hfa⟩

/-! ### F10: the negation of the full statement, on a concrete 3-operation witness -/

section Witness
def wPat : List Char := ['a', '.', '{', '}']
def wFile : Path := ['a']
/-- `append(false)`, post-process trigger, window of one -/
def wCfg (everyReopen : Bool) : AppCfg :=
  { mode := .truncate, pre := false, file := wFile, roller := mkRoller id id wPat 0 1,
    truncateEveryReopen := everyReopen }
/-- the appender has acknowledged `aaa|` (bytes [1]) -/
def wState : AppState := { disk := ⟨[(wFile, [1])]⟩, writerOpen := true, openedOnce := true }
/-- the only step of the rotation (the final move) fails -/
def wFault : Nat → Bool := fun k => k == 0

theorem wNamesInj (e : Bool) : NamesInj (wCfg e).roller := fun i j h =>
  substIdx_decimal_inj wPat (by decide) i j h

theorem wFileApart (e : Bool) : FileApart (wCfg e).roller (wCfg e).file := by
  intro i h
  have : (name id wPat i).length = 1 := by rw [show name id wPat i = wFile from h]; rfl
  simp [name, wPat, substIdx] at this

/-- append `bbb|` ([2]) with a failing roll, then append `ccc|` ([3]): the code as it is leaves
only `ccc|` on disk — `aaa|bbb|` is gone -/
theorem C08_truncate_reopen_witness_unfixed :
    (appendOp (wCfg true) (fun _ => false) false [3] (appendOp (wCfg true) wFault true [2] wState).2).2.disk.get? wFile
      = some [3] ∧
    (appendOp (wCfg true) wFault true [2] wState).1 = .err := by decide

/-- Before the fix b8295bc the continuation statement was false (defect F10). -/
theorem C08_truncate_reopen_loses_data_unfixed : ¬ C08_continuation_statement true := by
  intro h
  have := h (wCfg true) wFault [2] [3] wState rfl (by decide) (by decide) (wNamesInj true)
    (wFileApart true) rfl rfl rfl (by decide)
  revert this
  decide

/-- with truncation confined to the first open (the code since the fix) the same history keeps
`aaa|bbb|ccc|` -/
example :
    (appendOp (wCfg false) (fun _ => false) false [3] (appendOp (wCfg false) wFault true [2] wState).2).2.disk.get? wFile
      = some [1, 2, 3] := by decide
end Witness

/-! ### inside the final step: faults with a partial effect, and process death -/

/-- Fault safety extended to a fault WITH AN EFFECT: the final step has written slot `base` (copy
fallback of `move_file`, or the compressing copy), cannot remove the rolled file, and removes what
it wrote again. For every disk, window, compression: the disk it leaves reads as a suffix of the
reading at the start and keeps everything the completed rotation retains (with each retained chunk
under a managed name or the active path). -/
theorem C08_fault_safe_partial_effect (r : RollerCfg) (file : Path) (dec : Bytes → Bytes) (d : Disk)
    (hinj : NamesInj r) (hfa : FileApart r file) (hdec : ∀ x, dec (r.enc x) = x)
    (hc : r.count ≠ 0) :
    readBack dec r file (failedFinal true r file d) <:+ readBack dec r file d ∧
    retain dec r file d <:+ readBack dec r file (failedFinal true r file d) ∧
    ∀ y ∈ retain dec r file d,
      (∃ j z, j < r.count ∧ slot r (failedFinal true r file d) (r.base + j) = some z ∧ dec z = y) ∨
        (failedFinal true r file d).get? file = some y := by
  obtain ⟨h1, h2⟩ := failedFinal_discard_safe hinj hfa dec hdec hc d
  exact ⟨h1, h2, fun y hy => (mem_readBack dec r file _ y).1 (h2.subset hy)⟩

/-- The guarantee for a plain final move that fails half-way, with the behaviour of the failing
step as a parameter: `discard = true` — the copy is removed again; `false` — it stays. -/
def C08_partial_final_statement (discard : Bool) : Prop :=
  ∀ (r : RollerCfg) (file : Path) (d : Disk),
    NamesInj r → FileApart r file → r.count ≠ 0 → r.comp = .none →
    readBack id r file (failedFinal discard r file d) <:+ readBack id r file d ∧
      retain id r file d <:+ readBack id r file (failedFinal discard r file d)

/-- the code since the repair (`FinalCfg.moveDiscardsCopy = true`) -/
theorem C08_partial_final_safe : C08_partial_final_statement true := by
  intro r file d hinj hfa hc hcomp
  have hdec : ∀ x, id (r.enc x) = x := by intro x; simp [RollerCfg.enc, hcomp]
  exact failedFinal_discard_safe hinj hfa id hdec hc d

/-- the same appender continues after such a failure as after any failed rotation: the state is
`Good`, so `C08_continuation_any_history` applies to it -/
theorem C08_partial_final_continues (f : FinalCfg) (c : AppCfg) (rec : Bytes) (st : AppState) :
    (appendOpPartial f c rec st).1 = .err ∧ (appendOpPartial f c rec st).2.writerOpen = false := by
  unfold appendOpPartial processRollPartial
  cases c.pre <;> exact ⟨rfl, rfl⟩

/-- Before the repair the statement was false: a window of two, no archive yet, active file `[1]`:
the failed move leaves `[1]` in slot 0 AND at the active path — the reading `[1],[1]` is not a
suffix of `[1]` (finding `C08/move-fallback-duplicates`). -/
theorem C08_move_fallback_duplicates_unfixed : ¬ C08_partial_final_statement false := by
  intro h
  have := (h (mkRoller id id wPat 0 2) wFile ⟨[(wFile, [1])]⟩
    (fun i j e => substIdx_decimal_inj wPat (by decide) i j e) (wFileApart true)
    (by decide) rfl).1
  revert this
  decide

/-- the roller of the witness below: the names of `wPat`, gzip (the codec is the identity here,
as in the driver, whose observer decodes the archives) -/
def wGz : RollerCfg := { nameOf := name id wPat, base := 0, count := 2, comp := .gzip, codec := id }

/-- C08's crash clause read for EVERY point of the rotation, including the point inside the final
step where slot `base` is written and the rolled file not yet removed. -/
def C08_crash_inside_final_statement : Prop :=
  ∀ (r : RollerCfg) (file : Path) (dec : Bytes → Bytes) (d : Disk),
    NamesInj r → FileApart r file → (∀ x, dec (r.enc x) = x) → r.count ≠ 0 →
    readBack dec r file (midFinal r file d) <:+ readBack dec r file d

/-- …which is false of the code (known finding `C08/crash-inside-compress-duplicates`): gzip,
window of two, active file `[1]`: the image holds `[1]` in slot 0 and at the active path.
`C08_crash_safe` covers the step boundaries only. -/
theorem C08_crash_inside_compress_duplicates : ¬ C08_crash_inside_final_statement := by
  intro h
  have := h wGz wFile id ⟨[(wFile, [1])]⟩
    (fun i j e => substIdx_decimal_inj wPat (by decide) i j e) (wFileApart true)
    (fun x => rfl) (by decide)
  revert this
  decide

/-- and nothing repairs it: the restarted appender (append mode) continues the active file, and its
next unobstructed rotation archives the same chunk again — the reading is `[1],[1,2]` -/
theorem C08_crash_inside_compress_archived_twice :
    let c : AppCfg := { mode := .append, pre := false, file := wFile, roller := wGz }
    let st := restartOp c (midFinal wGz wFile ⟨[(wFile, [1])]⟩)
    readBack id wGz wFile (appendOp c (fun _ => false) true [2] st).2.disk = [[1], [1, 2]] := by
  decide

/-! ### a restarted appender after an interrupted rotation -/

/-- the statement's "or a restarted one": after a process death at any step boundary, the restarted
appender still has on disk what the completed rotation would retain -/
def C08_restart_after_interrupted_statement : Prop :=
  ∀ (c : AppCfg) (d : Disk) (k : Nat),
    c.truncateEveryReopen = false → NamesInj c.roller → FileApart c.roller c.file →
    c.roller.count ≠ 0 → c.roller.comp = .none →
    flat (retain id c.roller c.file d) <:+
      stm id c (restartOp c (crashAfter c.roller c.file k d)).disk

/-- PARTIAL: it holds for appenders in append mode (every decoder and compression) -/
theorem C08_restart_after_interrupted_partial (c : AppCfg) (dec : Bytes → Bytes) (d : Disk) (k : Nat)
    (hm : c.mode = .append)
    (hinj : NamesInj c.roller) (hfa : FileApart c.roller c.file)
    (hdec : ∀ x, dec (c.roller.enc x) = x) (hc : c.roller.count ≠ 0) :
    flat (retain dec c.roller c.file d) <:+
      stm dec c (restartOp c (crashAfter c.roller c.file k d)).disk := by
  have h := (C08_restart c dec (crashAfter c.roller c.file k d) hfa).2
  rw [hm] at h
  rw [h]
  exact flat_suffix (crash_sandwich hinj hfa dec hdec hc k d).2

/-- and is false for `append(false)`: the restarted appender truncates the active file, which after
a death before the final move still holds the chunk the completed rotation would archive (known
finding `C08/truncate-restart-after-interrupted-roll`; witness: window of one, active file `[1]`,
death before the only step) -/
theorem C08_truncate_restart_loses_interrupted_chunk : ¬ C08_restart_after_interrupted_statement := by
  intro h
  have := h (wCfg false) ⟨[(wFile, [1])]⟩ 0 rfl (wNamesInj false) (wFileApart false) (by decide) rfl
  revert this
  decide

/-! ### the `background_rotation` feature: a crash between the two phases -/

/-- Inside phase 2 the rotation is as crash-safe as the foreground one — if the temp name is
counted as the place of the rolled file: after any number of completed steps everything the
completed rotation retains is readable from the archive names and the temp file. -/
theorem C08_background_phase2_safe (r : RollerCfg) (tmp : Path) (dec : Bytes → Bytes) (d : Disk)
    (k : Nat) (hinj : NamesInj r) (hta : FileApart r tmp) (hdec : ∀ x, dec (r.enc x) = x)
    (hc : r.count ≠ 0) :
    readBack dec r tmp (crashAfter r tmp k d) <:+ readBack dec r tmp d ∧
      retain dec r tmp d <:+ readBack dec r tmp (crashAfter r tmp k d) :=
  crash_sandwich hinj hta dec hdec hc k d

/-- C08's crash clause read for background rotation: after a process death between phase 1 (the
log file renamed to the temp name, `roll` returned Ok) and the end of phase 2, everything the
completed rotation would retain is on disk under a name the roller manages or the active path. -/
def C08_background_crash_statement : Prop :=
  ∀ (r : RollerCfg) (file tmp : Path) (d : Disk),
    NamesInj r → FileApart r file → FileApart r tmp → tmp ≠ file → r.count ≠ 0 →
    r.comp = .none → d.get? tmp = none →
    retain id r file d <:+ readBack id r file (crashAfterPhase1 file tmp d)

/-- …which is false: the rolled content sits under the temp name, which is neither (finding
`C08/background-temp-file-stranded`; witness: one archive `[1]`, active file `[2]`). -/
theorem C08_background_temp_stranded : ¬ C08_background_crash_statement := by
  intro h
  have := h (mkRoller id id wPat 0 2) wFile ['t'] ⟨[(name id wPat 0, [1]), (wFile, [2])]⟩
    (fun i j e => substIdx_decimal_inj wPat (by decide) i j e) (wFileApart true)
    (by intro i e
        have : (name id wPat i).length = 1 := by rw [show name id wPat i = ['t'] from e]; rfl
        simp [name, wPat, substIdx] at this)
    (by decide) (by decide) rfl (by decide)
  revert this
  decide

/-- and it stays there: no later rotation of the same or of a restarted appender — foreground, or
background at quiescence — ever touches the temp name again; the data is never archived. -/
theorem C08_background_stranded_forever (r : RollerCfg) (file tmp : Path) (d : Disk) (x : Bytes)
    (ys : List Bytes) (hg : r.base + r.count ≤ U32_MOD)
    (hne : tmp ≠ file) (hta : FileApart r tmp) (hx : d.get? file = some x) :
    (rollMany r file ys (crashAfterPhase1 file tmp d)).get? tmp = some x := by
  rw [rollMany_frame r file ys hg tmp hne (fun i e => hta i e.symm)]
  unfold crashAfterPhase1
  rw [get?_moveFile, hx]
  simp

/-! ### non-vacuity (tests on samples) -/

section Examples
def exR : RollerCfg := mkRoller id id wPat 0 3

/-- a window [A,B,C] and an active file x: after the first shift (crash after 1 step) C is gone —
it was due for eviction — and the reading is B, A, x; the completed rotation retains exactly that -/
example :
    let d : Disk := ⟨[(name id wPat 0, [65]), (name id wPat 1, [66]), (name id wPat 2, [67]), (wFile, [120])]⟩
    (readBack id exR wFile d, readBack id exR wFile (crashAfter exR wFile 1 d), retain id exR wFile d) =
      ([[67], [66], [65], [120]], [[66], [65], [120]], [[66], [65], [120]]) := by decide
end Examples

end Log4rs.Roller
