import Log4rsModel.Properties.C01
import Log4rsModel.Properties.C02
import Log4rsModel.Properties.C13
import Log4rsModel.Properties.C03
import Log4rsModel.Routing.LogRecord
import Log4rsModel.Routing.FiltersCompose
/-
Composition theorems across areas (not properties of the list themselves; they show that the
per-property theorems chain: the hypothesis `Valid` of the routing theorems is exactly what the
builder theorems establish, for every builder input whatsoever).
-/
namespace Log4rs.Routing
open Log4rs.Routing.Tree

/-- End to end, lossy path: whatever is handed to `ConfigBuilder::build_lossy` — duplicates,
malformed names, dangling references — the configuration it returns routes every record exactly
as the specification prescribes for that returned configuration (C13 ∘ C01). -/
theorem Compose_lossy_build_then_route (inp : BuilderInput) (t : Name) (lvl : Nat) :
    deliver (buildLossy inp).config t lvl = some (specDeliver (buildLossy inp).config t lvl) :=
  C01_deliver_eq_spec _ (C13_lossy_valid inp) t lvl

/-- End to end, strict path: every configuration `build` accepts routes per specification. -/
theorem Compose_strict_build_then_route (inp : BuilderInput) (cfg : Config)
    (h : build inp = .ok cfg) (t : Name) (lvl : Nat) :
    deliver cfg t lvl = some (specDeliver cfg t lvl) :=
  C01_deliver_eq_spec cfg (C13_build_valid inp cfg h) t lvl

/-- … and installing it never hits the `appender_map[name]` panic (C13), and the tree build is
total (C01). -/
theorem Compose_lossy_build_installs (inp : BuilderInput) :
    (∃ r, install (buildLossy inp).config = .ok r) ∧ (Tree.build (buildLossy inp).config).isSome = true := by
  obtain ⟨r, hr, _⟩ := C13_install_no_panic _ (C13_lossy_valid inp)
  exact ⟨⟨r, hr⟩, C01_build_total _ (C13_lossy_valid inp)⟩

/-- The two models of `appender_map[name]` agree: C13's `lookupLast`/`resolveRefs` (Routing/Builder.lean)
and the tree's `lastIdx`/`resolve` (Routing/Tree.lean) compute the same index lists, so C13's
"installs without a missing key" is the tree's `build` being defined. -/
theorem Compose_resolution_models_agree (cfg : Config) :
    (∀ refs, resolveRefs cfg.appenders refs = Tree.resolve cfg.appenders refs) ∧
    ((resolveAll cfg).isSome = (Tree.build cfg).isSome) := by
  have hl : ∀ (a : Name) (tbl : List Name) (base : Nat),
      lookupLast a tbl base = (Tree.lastIdx tbl a).map (· + base) := by
    intro a tbl
    induction tbl with
    | nil => intro base; rfl
    | cons x xs ih =>
      intro base
      simp only [lookupLast, Tree.lastIdx, ih (base + 1)]
      cases Tree.lastIdx xs a with
      | some j => simp; omega
      | none => by_cases hx : x = a <;> simp [hx]
  have hr : ∀ (tbl refs : List Name), resolveRefs tbl refs = Tree.resolve tbl refs := by
    intro tbl refs
    induction refs with
    | nil => rfl
    | cons a as ih =>
      simp only [resolveRefs, Tree.resolve, hl a tbl 0, ih]
      cases Tree.lastIdx tbl a <;> cases Tree.resolve tbl as <;> simp
  have hls : ∀ (tbl : List Name) (ls : List LoggerCfg),
      (resolveLoggers tbl ls).isSome = (Tree.resolveLoggers tbl ls).isSome := by
    intro tbl ls
    induction ls with
    | nil => rfl
    | cons l ls ih =>
      simp only [resolveLoggers, Tree.resolveLoggers, hr]
      cases Tree.resolve tbl l.appenders with
      | none => simp
      | some is =>
        cases h1 : resolveLoggers tbl ls <;> cases h2 : Tree.resolveLoggers tbl ls <;> simp_all
  refine ⟨hr cfg.appenders, ?_⟩
  have := hls cfg.appenders cfg.loggers
  simp only [resolveAll, Tree.build, hr]
  cases Tree.resolve cfg.appenders cfg.rootAppenders with
  | none => simp
  | some ra =>
    cases h1 : resolveLoggers cfg.appenders cfg.loggers <;>
      cases h2 : Tree.resolveLoggers cfg.appenders cfg.loggers <;> simp_all

/-- `appenders[idx]` in `ConfiguredLogger::log` (lib.rs 280) is in bounds for every node `find` can
return in the tree of a valid configuration, inherited attachments included, and the name the tree
model reads there (`nameOf`, a `getD`) is a genuine table entry: the default of the totalised read is
never used. -/
theorem Compose_found_indices_in_table (cfg : Config) (hv : Valid cfg) :
    ∃ tree, Tree.build cfg = some tree ∧
      ∀ p, ∀ i ∈ (find tree p).apps,
        i < cfg.appenders.length ∧ cfg.appenders[i]? = some (nameOf cfg.appenders i) := by
  obtain ⟨tree, hb, hrange⟩ := build_found_in_range cfg hv
  refine ⟨tree, hb, fun p i hi => ?_⟩
  have hlt := hrange p i hi
  exact ⟨hlt, by simp [nameOf, List.getD, List.getElem?_eq_getElem hlt]⟩

/-- C13 ∘ C01 ∘ C03, the whole `Log::log`: for a valid configuration (what the builder returns),
ANY target and any record, with runtime appenders whose filters are arbitrary functions of the
record: the node `find` returns carries attachment indices `att` that (1) name exactly the
attachments of the effective logger's chain (own ++ inherited, one entry per attachment, so an
appender attached at two levels of an additive chain occurs twice), (2) are all in range of the
appender table — the hypothesis of the C03 fan-out theorems is discharged, `appenders[idx]` cannot
panic — and (3) the complete call sequence is the specified one for that node: each attachment
decided by its own appender's chain alone, each returned error handed to the handler once. -/
theorem Compose_log_record_eq_spec {ρ : Type} (cfg : Config) (hv : Valid cfg)
    (table : List (AppenderG ρ)) (hlen : table.length = cfg.appenders.length) (hnp : NoPanic table)
    (target : Name) (lvlOf : ρ → Nat) (r : ρ) :
    ∃ att : List Nat,
      att.map (nameOf cfg.appenders) = chain cfg (comps target).length (effective cfg target) ∧
      (∀ j ∈ att, j < table.length) ∧
      logRecord cfg table .configured target lvlOf r =
        some (.returned (specTraceG table (specLevel cfg target) att lvlOf r)) := by
  obtain ⟨tree, hb, hrange⟩ := build_found_in_range cfg hv
  obtain ⟨tree', hb', _, hdata, _⟩ := build_spec cfg hv
  have ht : tree' = tree := by rw [hb] at hb'; exact (Option.some.inj hb').symm
  subst ht
  have h := hdata (comps target)
  rw [res_eq_spec cfg (comps target) (comps target).length (Nat.le_refl _)] at h
  simp only [Prod.mk.injEq, fdata] at h
  refine ⟨(find tree' (comps target)).apps, h.2, ?_, ?_⟩
  · intro j hj; rw [hlen]; exact hrange _ j hj
  · have hlv : (find tree' (comps target)).level = specLevel cfg target := by
      rw [specLevel_eq]; exact h.1
    have hr : ∀ j ∈ (find tree' (comps target)).apps, j < table.length := by
      intro j hj; rw [hlen]; exact hrange _ j hj
    have hid : viaHandler HandlerId.configured = id := by funext e; cases e <;> rfl
    simp only [logRecord, snapshotOf, hb, Option.map_some, Shared.log, Shared.create, hid, hlv,
      fanoutG_eq_spec table _ _ lvlOf r hnp hr, LogResult.map, List.map_id]

/-- the same for whatever `build_lossy` returns, from any builder input (duplicates, malformed
names, dangling references): nothing the builder hands out can make `Log::log` index out of range,
and its fan-out is the specified one. -/
theorem Compose_lossy_build_log_record {ρ : Type} (inp : BuilderInput)
    (table : List (AppenderG ρ)) (hlen : table.length = (buildLossy inp).config.appenders.length)
    (hnp : NoPanic table) (target : Name) (lvlOf : ρ → Nat) (r : ρ) :
    ∃ att : List Nat,
      (∀ j ∈ att, j < table.length) ∧
      logRecord (buildLossy inp).config table .configured target lvlOf r =
        some (.returned (specTraceG table (specLevel (buildLossy inp).config target) att lvlOf r)) := by
  obtain ⟨att, _, h2, h3⟩ := Compose_log_record_eq_spec _ (C13_lossy_valid inp) table hlen hnp target lvlOf r
  exact ⟨att, h2, h3⟩

end Log4rs.Routing
