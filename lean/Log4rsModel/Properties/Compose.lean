import Log4rsModel.Properties.C01
import Log4rsModel.Properties.C02
import Log4rsModel.Properties.C13
/-
Composition theorems across areas (not properties of the list themselves; they show that the
per-property theorems chain: the hypothesis `Valid` of the routing theorems is exactly what the
builder theorems establish, for every builder input whatsoever).
-/
namespace Log4rs.Routing
open Log4rs.Routing.Tree

/-- End to end, lossy path: whatever is handed to `ConfigBuilder::build_lossy` — duplicates,
malformed names, dangling references — the configuration it returns routes every record exactly
as the specification prescribes for that returned configuration (C13 ∘ C01). -/
theorem Compose_lossy_build_then_route (inp : BuilderInput) (t : Name) (lvl : Nat) :
    deliver (buildLossy inp).config t lvl = some (specDeliver (buildLossy inp).config t lvl) :=
  C01_deliver_eq_spec _ (C13_lossy_valid inp) t lvl

/-- End to end, strict path: every configuration `build` accepts routes per specification. -/
theorem Compose_strict_build_then_route (inp : BuilderInput) (cfg : Config)
    (h : build inp = .ok cfg) (t : Name) (lvl : Nat) :
    deliver cfg t lvl = some (specDeliver cfg t lvl) :=
  C01_deliver_eq_spec cfg (C13_build_valid inp cfg h) t lvl

/-- … and installing it never hits the `appender_map[name]` panic (C13), and the tree build is
total (C01). -/
theorem Compose_lossy_build_installs (inp : BuilderInput) :
    (∃ r, install (buildLossy inp).config = .ok r) ∧ (Tree.build (buildLossy inp).config).isSome = true := by
  obtain ⟨r, hr, _⟩ := C13_install_no_panic _ (C13_lossy_valid inp)
  exact ⟨⟨r, hr⟩, C01_build_total _ (C13_lossy_valid inp)⟩

end Log4rs.Routing
