import Log4rsModel.Pattern.ParserLemmas
import Log4rsModel.Pattern.EncodeLemmas
/-
C11 — Any pattern string is safe: no panic, errors surface as `{ERROR: …}` markers.

Only property theorems and examples live here; helpers are in `Pattern/ParserLemmas.lean` and
`Pattern/EncodeLemmas.lean`. All statements quantify over every string over the full Unicode
alphabet (`List Char`), every character classification `cc`, every record and environment.

The model follows the repaired code (defaults of `Profile` and `Build`): F3 — an overflowing width
is `{ERROR: width too large}` (commit 67091ff, `Profile.widthCheck`); F4 — a date format whose
trial rendering fails is `{ERROR: invalid date format …}` at construction
(commits 73e36b9 + ea62e36, `Build.dateCheck`). The no-panic statements are FULL theorems for that model.
The behaviour before the repairs stays selectable (`Profile.unfixed64`, `dateCheck := false`) and
the negative witnesses survive as `…_unfixed`.

The construction-time check is the trial rendering of commit ea62e36 (`Build.current`: the build
asks chrono the same question as the encode), so the encode theorem is unconditional. The
intermediate items-scan repair (73e36b9) and its `%#z` residue are kept as `…_items_scan` /
`…_unfixed` theorems. Modelling assumption behind `Env.strftimeOk : format → Bool`: chrono's
render verdict depends on the format only (not on zone or instant); the driver checks it on the
harness' facts in every case.
-/
namespace Log4rs.Pattern.Parse

/-! ## termination -/

/-- The parser terminates: the fixed fuel `input.length + 1` is never exhausted (`err ()` is the
model's out-of-fuel answer), for every string, character classification and profile. -/
theorem C11_parse_total (cc : CharClass) (P : Profile) (s : List Char) : parse cc P s ≠ .err () :=
  parseLoop_ne_err cc P (s.length + 1) s (by omega)

/-- The reason: every piece `next` produces consumes at least one character, and `next` answers
`None` only at the end of the input. -/
theorem C11_next_consumes (cc : CharClass) (P : Profile) (s : List Char) :
    match next cc P s with
    | .ok (some _) r => r <:+ s ∧ r.length < s.length
    | .ok none r => s = [] ∧ r = []
    | .fail _ _ => False
    | .panic _ => True
    | .fuel => False := by
  have h := next_shrinks cc P s
  have hf := next_ne_fuel cc P s
  revert h hf
  cases next cc P s with
  | ok o r => cases o <;> simp [PR.NextShrinks]
  | fail e r => simp [PR.NextShrinks]
  | panic w => simp
  | fuel => simp

/-- Appendix A fuel convention for the fuelled functions: any fuel ≥ `input.length + 1` gives the
result of the entry point's fuel. -/
theorem C11_fuel_mono (cc : CharClass) (P : Profile) (fuel d : Nat) (s : List Char)
    (h : fuel ≥ s.length + 1) :
    (∀ acc, argsLoop cc P fuel d s acc = argsLoop cc P (s.length + 1) d s acc) ∧
    (∀ acc, argBody cc P fuel d s acc = argBody cc P (s.length + 1) d s acc) :=
  ⟨fun acc => argsLoop_fuel_mono cc P fuel d s acc h, fun acc => argBody_fuel_mono cc P fuel d s acc h⟩

/-! ## construction never panics -/

/-- FULL: `PatternEncoder::new` cannot panic on any string whatsoever, in any build profile and
word size — for the current code (`widthCheck`, the repair of F3). -/
theorem C11_parse_no_panic (cc : CharClass) (P : Profile) (hfix : P.widthCheck = true)
    (s : List Char) (w : String) : parse cc P s ≠ .panic w :=
  parseLoop_ne_panic cc P (s.length + 1) s (intSafe_of_widthCheck P hfix s) w

/-- … and neither can the chunk construction on top of it. -/
theorem C11_new_no_panic (cc : CharClass) (P : Profile) (B : Build) (hfix : P.widthCheck = true)
    (s : List Char) : ∃ cs, newEncoder cc P B s = .ok cs := by
  unfold newEncoder
  cases hp : parse cc P s with
  | ok a => exact ⟨_, rfl⟩
  | err e => cases e; exact absurd hp (C11_parse_total cc P s)
  | panic w => exact absurd hp (C11_parse_no_panic cc P hfix s w)

/-- the default profile is the repaired code -/
example : Profile.debug64.widthCheck = true ∧ Profile.release64.widthCheck = true := ⟨rfl, rfl⟩

/-- An absurd width is surfaced as an error marker; the text around it still renders. -/
theorem C11_width_too_large_witness :
    parse asciiClass Profile.debug64 cs!"a{m:99999999999999999999}b" =
      .ok [.text ['a'], .error cs!"width too large", .text ['b']] := by rfl

/-- Before the repair (also without it): no panic when every digit run fits the word size … -/
theorem C11_parse_no_panic_partial_unfixed (cc : CharClass) (P : Profile) (s : List Char)
    (h : digitRunsFit P s = true) (w : String) : parse cc P s ≠ .panic w :=
  parseLoop_ne_panic cc P (s.length + 1) s (intSafe_of_digitRunsFit P s h) w

/-- … or when overflow checks are off (the width then wrapped: `C11_F3_release_wraps_unfixed`). -/
theorem C11_parse_no_panic_wrapping_unfixed (cc : CharClass) (P : Profile) (s : List Char)
    (h : P.overflowChecks = false) (w : String) : parse cc P s ≠ .panic w :=
  parseLoop_ne_panic cc P (s.length + 1) s (intSafe_of_wrapping P h s) w

/-- the unconditional statement over ALL profiles, including the unrepaired one (false: F3) -/
def C11_parse_no_panic_all_profiles : Prop :=
  ∀ (cc : CharClass) (P : Profile) (s : List Char) (w : String), parse cc P s ≠ .panic w

/-- F3 (historical): before commit 67091ff `{m:99999999999999999999}` panicked in
`Parser::integer` under overflow checks. -/
theorem C11_F3_witness_panics_unfixed :
    (parse asciiClass Profile.unfixed64 cs!"{m:99999999999999999999}").isPanic = true := by decide

theorem C11_parse_no_panic_all_profiles_false_unfixed : ¬ C11_parse_no_panic_all_profiles := by
  intro h
  have hw := C11_F3_witness_panics_unfixed
  cases hp : parse asciiClass Profile.unfixed64 cs!"{m:99999999999999999999}" with
  | ok a => rw [hp] at hw; cases hw
  | err e => rw [hp] at hw; cases hw
  | panic w => exact h _ _ _ w hp

/-- F3 (historical), release profile: no panic, but `2^64 + 1` silently became the width 1. -/
theorem C11_F3_release_wraps_unfixed :
    parse asciiClass Profile.unfixedRelease64 cs!"{m:18446744073709551617}" =
      .ok [.arg ['m'] [] { minW := some 1 }] := by rfl

/-! ## encoding never panics -/

/-- Encoding a chunk list cannot panic when chrono accepts every date format the encode renders;
it then yields exactly the operation stream `opsList`. -/
theorem C11_encode_no_panic_of_rendered_ok (env : Env) (r : Record) (cs : List Chunk)
    (h : ∀ x ∈ renderedTimesL env cs, env.strftimeOk x.1 = true) :
    encList env r cs = .ok (opsList env r cs) ∧ ∀ w, encList env r cs ≠ .panic w := by
  have := encList_eq_ops env r cs h
  exact ⟨this, fun w hw => by rw [this] at hw; cases hw⟩

/-- Any build whose construction-time check implies renderability (general form). -/
theorem C11_encode_no_panic_of_check (B : Build) (hfix : B.dateCheck = true) (env : Env)
    (hr : ∀ fmt, B.dateOk fmt = true → env.strftimeOk fmt = true) (r : Record) (pieces : List Piece) :
    encList env r (compileL B pieces) = .ok (opsList env r (compileL B pieces)) ∧
      ∀ w, encList env r (compileL B pieces) ≠ .panic w := by
  apply C11_encode_no_panic_of_rendered_ok
  intro x hx
  exact hr x.1 (times_compileL B hfix pieces x (rendered_sub_timesL env _ x hx))

/-- FULL, unconditional: encoding ANY record with the chunks the current code (`Build.current`:
trial rendering at construction, commit ea62e36) compiles from ANY pieces cannot panic. -/
theorem C11_encode_no_panic (env : Env) (r : Record) (pieces : List Piece) :
    encList env r (compileL (Build.current env) pieces) =
        .ok (opsList env r (compileL (Build.current env) pieces)) ∧
      ∀ w, encList env r (compileL (Build.current env) pieces) ≠ .panic w :=
  C11_encode_no_panic_of_check (Build.current env) rfl env (fun _ h => h) r pieces

/-- with an infallible sink the encoder never returns an error either -/
theorem C11_encode_never_err (env : Env) (r : Record) (cs : List Chunk) (e : Unit) :
    encList env r cs ≠ .err e := encList_ne_err env r cs e

/-- FULL, end to end, unconditional: constructing an encoder from any string whatsoever and encoding
any record with it is `ok` — no panic, no abort, no error (current code: `widthCheck` of the
profile, `Build.current`). -/
theorem C11_run_no_panic (cc : CharClass) (P : Profile) (hw : P.widthCheck = true) (env : Env)
    (r : Record) (s : List Char) : ∃ o, run cc P (Build.current env) env r s = .ok o := by
  obtain ⟨cs, hcs⟩ := C11_new_no_panic cc P (Build.current env) hw s
  unfold run
  rw [hcs]
  unfold newEncoder at hcs
  cases hp : parse cc P s with
  | ok pieces =>
    rw [hp] at hcs
    simp only [omap, Outcome.ok.injEq] at hcs
    subst hcs
    exact ⟨_, (C11_encode_no_panic env r pieces).1⟩
  | err e => rw [hp] at hcs; simp [omap] at hcs
  | panic w => rw [hp] at hcs; simp [omap] at hcs

/-- the statement over ALL builds, including the one before the repair of F4 (false) -/
def C11_encode_no_panic_all_builds : Prop :=
  ∀ (cc : CharClass) (P : Profile) (B : Build) (env : Env) (r : Record) (s : List Char) (w : String),
    B.renderOk = env.strftimeOk → run cc P B env r s ≠ .panic w

/-- F4 (historical): before commit 73e36b9 `{d(%Q)}` constructed fine and panicked at encode as
soon as chrono rejects `%Q`. -/
theorem C11_F4_witness_panics_unfixed (B : Build) (hB : B.dateCheck = false) (env : Env) (r : Record)
    (h : env.strftimeOk cs!"%Q" = false) :
    (run asciiClass Profile.debug64 B env r cs!"{d(%Q)}").isPanic = true := by
  have hp : parse asciiClass Profile.debug64 cs!"{d(%Q)}" = .ok [.arg ['d'] [[.text cs!"%Q"]] {}] := by rfl
  have hn : newEncoder asciiClass Profile.debug64 B cs!"{d(%Q)}" = .ok [.leaf (.time cs!"%Q" false) {}] := by
    simp only [newEncoder, hp, omap, compileL_cons, compileL_nil]
    rw [compile_arg]
    simp [dateChunk, dateFormatArg, dateFormatOf, hB]
  simp [run, hn, encList, encChunk, leafText, h, omap, Outcome.isPanic]

theorem C11_encode_no_panic_all_builds_false_unfixed : ¬ C11_encode_no_panic_all_builds := by
  intro hfull
  let B : Build := { renderOk := fun _ => false, dateCheck := false }
  let env : Env :=
    { strftimeOk := fun _ => false, dateText := fun _ _ => [], threadName := none,
      threadId := 0, pid := 0, mdc := [], debugBuild := true }
  let r : Record := { level := 3, message := [], target := [] }
  have hw := C11_F4_witness_panics_unfixed B rfl env r rfl
  cases hp : run asciiClass Profile.debug64 B env r cs!"{d(%Q)}" with
  | ok a => rw [hp] at hw; cases hw
  | err e => rw [hp] at hw; cases hw
  | panic w => exact hfull _ _ _ _ _ _ w rfl hp

/-- The intermediate repair 73e36b9 (historical, `itemsScan`): the `StrftimeItems` scan — no panic
given that chrono's item parser and renderer agree … -/
theorem C11_encode_no_panic_items_scan (B : Build) (hfix : B.dateCheck = true) (hs : B.itemsScan = true)
    (env : Env) (hr : ∀ fmt, B.itemsOk fmt = true → env.strftimeOk fmt = true)
    (r : Record) (pieces : List Piece) : ∀ w, encList env r (compileL B pieces) ≠ .panic w :=
  (C11_encode_no_panic_of_check B hfix env (fun f h => hr f (by simpa [Build.dateOk, hs] using h)) r pieces).2

/-- … which they do not on the parse-only `%#z`: it passes the scan and cannot be rendered, so
`{d(%#z)}` still panicked at encode (the residue closed by ea62e36). -/
theorem C11_items_scan_residue_panics_unfixed (B : Build) (hfix : B.dateCheck = true) (hs : B.itemsScan = true)
    (hi : B.itemsOk cs!"%#z" = true) (env : Env) (r : Record) (h : env.strftimeOk cs!"%#z" = false) :
    (run asciiClass Profile.debug64 B env r cs!"{d(%#z)}").isPanic = true := by
  have hp : parse asciiClass Profile.debug64 cs!"{d(%#z)}" = .ok [.arg ['d'] [[.text cs!"%#z"]] {}] := by rfl
  have hn : newEncoder asciiClass Profile.debug64 B cs!"{d(%#z)}" = .ok [.leaf (.time cs!"%#z" false) {}] := by
    simp only [newEncoder, hp, omap, compileL_cons, compileL_nil]
    rw [compile_arg]
    simp [dateChunk, dateFormatArg, dateFormatOf, hfix, Build.dateOk, hs, hi]
  simp [run, hn, encList, encChunk, leafText, h, omap, Outcome.isPanic]

/-- With the trial rendering the same pattern is an error marker at construction. -/
theorem C11_invalid_date_format_witness (env : Env) (h : env.strftimeOk cs!"%#z" = false) :
    newEncoder asciiClass Profile.debug64 (Build.current env) cs!"x{d(%#z)}y" =
      .ok [.text ['x'], .error cs!"invalid date format `%#z`", .text ['y']] := by
  have hp : parse asciiClass Profile.debug64 cs!"x{d(%#z)}y" =
      .ok [.text ['x'], .arg ['d'] [[.text cs!"%#z"]] {}, .text ['y']] := by rfl
  simp only [newEncoder, hp, omap, compileL_cons, compileL_nil, compile_text]
  rw [compile_arg]
  simp [dateChunk, dateFormatArg, dateFormatOf, Build.current, Build.dateOk, h, eInvalidDateFormat]

/-! ## errors surface as `{ERROR: e}`, and what precedes them still renders -/

/-- A top-level `Error` chunk between `pre` and `post`: the encode result is the rendering of
`pre`, then the marker `{ERROR: e}`, then the rendering of `post` — and it is `ok` exactly when
`pre` and `post` render (`seqOut` propagates a panic of either side). -/
theorem C11_error_surfaces (env : Env) (r : Record) (pre post : List Chunk) (e : List Char) :
    encList env r (pre ++ .error e :: post) =
      seqOut (encList env r pre) (seqOut (.ok (ofText (errorMarker e))) (encList env r post)) := by
  rw [encList_append, encList_cons]
  simp [encChunk]

/-- In particular, when it is `ok`, the text starts with the text of `pre` followed by
`{ERROR: ` e `}`. -/
theorem C11_error_surfaces_text (env : Env) (r : Record) (pre post : List Chunk) (e : List Char)
    (res : Out) (h : encList env r (pre ++ .error e :: post) = .ok res) :
    ∃ o o', encList env r pre = .ok o ∧ encList env r post = .ok o' ∧
      res.text = o.text ++ (cs!"{ERROR: " ++ e ++ ['}']) ++ o'.text := by
  rw [C11_error_surfaces] at h
  cases hpre : encList env r pre with
  | ok o =>
    cases hpost : encList env r post with
    | ok o' =>
      rw [hpre, hpost] at h
      simp only [seqOut, Outcome.ok.injEq] at h
      subst h
      refine ⟨o, o', rfl, rfl, ?_⟩
      simp [text_append, ofText_text, errorMarker, errOpen]
    | err x => rw [hpre, hpost] at h; simp [seqOut] at h
    | panic w => rw [hpre, hpost] at h; simp [seqOut] at h
  | err x => rw [hpre] at h; simp [seqOut] at h
  | panic w => rw [hpre] at h; simp [seqOut] at h

/-- Nested errors too: an `Error` chunk inside a group renders its marker through the group's
format spec like any other text. -/
theorem C11_error_surfaces_nested (env : Env) (r : Record) (e : List Char) (p : Params) :
    encChunk env r (.group .align [.error e] p) = .ok (codeFmtOps p (ofText (errorMarker e))) := by
  simp [encChunk, encList, omap]

/-! ## every class of malformation yields an `Error` piece / chunk -/

/-- a lone `}` -/
theorem C11_error_kinds_unmatched_close (cc : CharClass) (P : Profile) (r : List Char)
    (h : doubled '}' r = none) :
    next cc P ('}' :: r) = .ok (some (.error cs!"unmatched '}'")) r := by
  simp [next, nextAt, nextWith, h, eUnmatchedClose]

/-- a lone `(` outside a formatter -/
theorem C11_error_kinds_unexpected_open_paren (cc : CharClass) (P : Profile) (r : List Char)
    (h : doubled '(' r = none) :
    next cc P ('(' :: r) = .ok (some (.error cs!"unexpected '('")) r := by
  simp [next, nextAt, nextWith, h, eUnexpectedOpenParen]

/-- a lone `)` -/
theorem C11_error_kinds_unexpected_close_paren (cc : CharClass) (P : Profile) (r : List Char)
    (h : doubled ')' r = none) :
    next cc P (')' :: r) = .ok (some (.error cs!"unexpected ')'")) r := by
  simp [next, nextAt, nextWith, h, eUnexpectedCloseParen]

/-- a backslash not followed by one of the five special characters -/
theorem C11_error_kinds_unexpected_backslash (cc : CharClass) (P : Profile) (r : List Char)
    (h : ∀ d t, r = d :: t → isSpecial d = false) :
    next cc P ('\\' :: r) = .ok (some (.error cs!"unexpected '\\'")) r := by
  cases r with
  | nil => simp [next, nextAt, nextWith, eUnexpectedBackslash]
  | cons d t => simp [next, nextAt, nextWith, h d t rfl, eUnexpectedBackslash]

/-- a formatter that is not followed by `}`: the piece is replaced by the error and the rest of
the input is swallowed -/
theorem C11_error_kinds_expected_close (piece : Piece) (s : List Char) (h : ∀ t, s ≠ '}' :: t) :
    closeBrace piece s = .ok (some (.error cs!"expected '}'")) [] := by
  unfold closeBrace
  split
  · rename_i c r
    split
    · rename_i hc; subst hc; exact absurd rfl (h r)
    · rfl
  · rfl

/-- an unclosed `(` or an argument nested deeper than `MAX_DEPTH`: `arg()` fails only with nothing
left of the input — at its end with the text `unclosed '('`, or, at any nesting depth `d`, after
swallowing the rest with the text `nesting too deep` … -/
theorem C11_error_kinds_unclosed_paren (cc : CharClass) (P : Profile) (f d : Nat) (s : List Char)
    (acc : List Piece) (e r : List Char) (h : argBody cc P f d s acc = .fail e r) :
    (e = cs!"unclosed '('" ∨ e = cs!"nesting too deep") ∧ r = [] := (args_body_fail cc P f).2 d s acc e r h

/-- the limit itself (commit c25fac2): with `MAX_DEPTH` arguments open, one more `(` swallows the
rest of the input and `args()` fails with `nesting too deep`, whatever follows -/
theorem C11_error_kinds_nesting_too_deep (cc : CharClass) (P : Profile) (f : Nat) (r : List Char)
    (acc : List (List Piece)) :
    argsLoop cc P (f + 1) P.maxDepth ('(' :: r) acc = .fail cs!"nesting too deep" [] := by
  rw [argsLoop]; simp [eNestingTooDeep]

/-- … and since nothing is left, the `}` is missing too: what the user sees for an unclosed
parenthesis and for a pattern nested too deep is `{ERROR: expected '}'}` (neither the
`unclosed '('` nor the `nesting too deep` text ever reaches the output). -/
theorem C11_error_kinds_unclosed_paren_surfaces (cc : CharClass) (P : Profile)
    (F : List Char → PR (List (List Piece))) (r e : List Char)
    (h : F (name cc P r).2 = .fail e []) :
    argumentWith cc P F r = .ok (some (.error cs!"expected '}'")) [] := by
  simp [argumentWith, h, closeBrace, eExpectedClose]

/-- an explicit width that does not fit `usize` (repair of F3): the piece is the error, the rest
of the number is swallowed and parsing continues after it -/
theorem C11_error_kinds_width_too_large (P : Profile) (hfix : P.widthCheck = true) (c : Char)
    (r : List Char) (cur : Nat) (found : Bool) (hc : Str.isAsciiDigit c = true)
    (hbig : ¬ cur * 10 + Str.digitVal c < 2 ^ P.wordBits) :
    integerLoop P (c :: r) cur found = .fail cs!"width too large" (r.dropWhile Str.isAsciiDigit) := by
  simp [integerLoop, hc, hbig, hfix, eWidthTooLarge]

/-- … and `argument()` turns a failed `parameters()` into the error piece -/
theorem C11_error_kinds_width_too_large_surfaces (cc : CharClass) (P : Profile)
    (F : List Char → PR (List (List Piece))) (r r2 r3 e : List Char) (args : List (List Piece))
    (h : F (name cc P r).2 = .ok args r2) (hp : parameters P r2 = .fail e ('}' :: r3)) :
    argumentWith cc P F r = .ok (some (.error e)) r3 := by
  simp [argumentWith, h, hp, closeBrace]

/-- a date format chrono's item parser rejects (repair of F4): an error chunk at construction,
whatever the time zone argument says -/
theorem C11_error_kinds_invalid_date_format (B : Build) (hfix : B.dateCheck = true)
    (args : List (List Piece)) (p : Params) (hlen : args.length ≤ 2)
    (hbad : B.dateOk (dateFormatArg args) = false) :
    compile B (.arg ['d'] args p) = .error (cs!"invalid date format `" ++ dateFormatArg args ++ ['`']) ∧
    compile B (.arg cs!"date" args p) = .error (cs!"invalid date format `" ++ dateFormatArg args ++ ['`']) := by
  have hl : ¬ args.length > 2 := by omega
  constructor <;> (rw [compile_arg]; simp [dateChunk, hl, hfix, hbad, eInvalidDateFormat])

/-- unknown formatter name -/
theorem C11_error_kinds_unknown_formatter (B : Build) (n : List Char) (args : List (List Piece)) (p : Params)
    (h1 : n ≠ cs!"d") (h2 : n ≠ cs!"date") (h3 : groupOfName n = none) (h4 : leafOfName n = none)
    (h5 : n ≠ cs!"X") (h6 : n ≠ cs!"mdc") :
    compile B (.arg n args p) = .error (cs!"unknown formatter `" ++ n ++ ['`']) := by
  rw [compile_arg]; simp [h1, h2, h3, h4, h5, h6, eUnknownFormatter]

/-- arguments given to a formatter that takes none -/
theorem C11_error_kinds_unexpected_arguments (B : Build) (n : List Char) (k : Leaf) (a : List Piece)
    (args : List (List Piece)) (p : Params) (hk : leafOfName n = some k) :
    compile B (.arg n (a :: args) p) = .error cs!"unexpected arguments" := by
  obtain ⟨h3, h1, h2⟩ := leafTable_notGroup _ (leafLookup_mem n leafTable k hk)
  simp only at h1 h2 h3
  rw [compile_arg]; simp [h1, h2, h3, hk, noArgs, eUnexpectedArgs]

/-- `h`, `D`, `R` and the unnamed formatter with a number of arguments other than one -/
theorem C11_error_kinds_exactly_one (B : Build) (n : List Char) (g : GroupKind) (args : List (List Piece))
    (p : Params) (hg : groupOfName n = some g) (hlen : args.length ≠ 1) :
    compile B (.arg n args p) = .error cs!"expected exactly one argument" := by
  have h1 : n ≠ cs!"d" := by intro h; subst h; simp [groupOfName] at hg
  have h2 : n ≠ cs!"date" := by intro h; subst h; simp [groupOfName] at hg
  match args, hlen with
  | [], _ => rw [compile_arg]; simp [h1, h2, hg, eExactlyOne]
  | [a], h => simp at h
  | a :: b :: t, _ => rw [compile_arg]; simp [h1, h2, hg, eExactlyOne]

/-- more than two arguments to `d` / `X` -/
theorem C11_error_kinds_at_most_two (B : Build) (a b c : List Piece) (args : List (List Piece)) (p : Params) :
    compile B (.arg ['d'] (a :: b :: c :: args) p) = .error cs!"expected at most two arguments" ∧
    compile B (.arg cs!"date" (a :: b :: c :: args) p) = .error cs!"expected at most two arguments" ∧
    compile B (.arg ['X'] (a :: b :: c :: args) p) = .error cs!"expected at most two arguments" ∧
    compile B (.arg cs!"mdc" (a :: b :: c :: args) p) = .error cs!"expected at most two arguments" := by
  refine ⟨?_, ?_, ?_, ?_⟩ <;>
    (rw [compile_arg]; simp [dateChunk, mdcChunk, groupOfName, leafOfName, leafTable, leafLookup, eAtMostTwo])

/-- a time zone whose FIRST piece is text other than `utc` / `local` (the date format itself being
acceptable) — the code as it is (`tzWholeArg = false`) -/
theorem C11_error_kinds_bad_timezone (B : Build) (hB : B.tzWholeArg = false) (n : List Char)
    (hn : n = cs!"d" ∨ n = cs!"date") (fmt : List Piece) (z : List Char) (rest : List Piece)
    (p : Params) (hf : B.dateCheck = false ∨ B.dateOk (dateFormatOf fmt) = true)
    (h1 : z ≠ cs!"utc") (h2 : z ≠ cs!"local") :
    compile B (.arg n [fmt, .text z :: rest] p) = .error (cs!"invalid timezone `" ++ z ++ ['`']) := by
  rw [compile_dateName B n hn, dateChunk_zone B fmt _ p hf]
  simp [tzOf, hB, timezoneOf, h1, h2, eInvalidTimezoneNamed]

/-- an empty time zone argument, or one that does not START with text -/
theorem C11_error_kinds_invalid_timezone (B : Build) (hB : B.tzWholeArg = false) (n : List Char)
    (hn : n = cs!"d" ∨ n = cs!"date") (fmt : List Piece) (p : Params)
    (hf : B.dateCheck = false ∨ B.dateOk (dateFormatOf fmt) = true) :
    compile B (.arg n [fmt, []] p) = .error cs!"invalid timezone" ∧
    (∀ m a q rest, compile B (.arg n [fmt, .arg m a q :: rest] p) = .error cs!"invalid timezone") ∧
    (∀ e rest, compile B (.arg n [fmt, .error e :: rest] p) = .error cs!"invalid timezone") := by
  refine ⟨?_, ?_, ?_⟩ <;> intros <;>
    (rw [compile_dateName B n hn, dateChunk_zone B fmt _ p hf]
     simp [tzOf, hB, timezoneOf, eInvalidTimezone])

/-! ### FINDING `C11/timezone-junk-accepted`: the zone argument is judged by its first piece only -/

/-- the statement's clause "invalid time zones … are surfaced", at the level of `From<Piece>`: a
zone argument that is not — read whole — the text `utc` or `local` yields an error chunk -/
def C11_invalid_timezone_surfaces (B : Build) : Prop :=
  ∀ (n : List Char) (fmt z : List Piece) (p : Params), (n = cs!"d" ∨ n = cs!"date") →
    (B.dateCheck = false ∨ B.dateOk (dateFormatOf fmt) = true) → zoneArgValid z = false →
    ∃ e, compile B (.arg n [fmt, z] p) = .error e

/-- FALSE of the current code: `(utc}x)` — pieces `utc`, the syntax error `unmatched '}'`, `x` — is
accepted as `utc`, the error piece is dropped. -/
theorem C11_invalid_timezone_surfaces_false (B : Build) (hB : B.tzWholeArg = false)
    (hf : B.dateCheck = false ∨ B.dateOk cs!"%Y" = true) : ¬ C11_invalid_timezone_surfaces B := by
  intro h
  obtain ⟨e, he⟩ := h ['d'] [.text cs!"%Y"] [.text cs!"utc", .error cs!"unmatched '}'", .text ['x']] {}
    (Or.inl rfl) (by simpa [dateFormatOf] using hf) (by decide)
  rw [compile_dateName B _ (Or.inl rfl), dateChunk_zone B _ _ _ (by simpa [dateFormatOf] using hf)] at he
  simp [tzOf, hB, timezoneOf] at he

/-- … end to end: `{d(%Y)(utc}x)}` constructs a plain UTC date chunk, no marker anywhere. -/
theorem C11_timezone_junk_witness (B : Build) (hB : B.tzWholeArg = false) (hs : B.itemsScan = false)
    (h : B.renderOk cs!"%Y" = true) :
    newEncoder asciiClass Profile.debug64 B cs!"{d(%Y)(utc}x)}" = .ok [.leaf (.time cs!"%Y" true) {}] := by
  have hp : parse asciiClass Profile.debug64 cs!"{d(%Y)(utc}x)}" =
      .ok [.arg ['d'] [[.text cs!"%Y"], [.text cs!"utc", .error cs!"unmatched '}'", .text ['x']]] {}] := by rfl
  simp only [newEncoder, hp, omap, compileL_cons, compileL_nil]
  rw [compile_dateName B _ (Or.inl rfl),
    dateChunk_zone B _ _ _ (Or.inr (by simp [dateFormatOf, Build.dateOk, hs, h]))]
  simp [tzOf, hB, timezoneOf, dateFormatOf]

/-- PARTIAL (current code): the clause holds when the FIRST piece of the argument already is not
the text `utc` / `local`. -/
theorem C11_invalid_timezone_surfaces_partial (B : Build) (hB : B.tzWholeArg = false) (n : List Char)
    (hn : n = cs!"d" ∨ n = cs!"date") (fmt z : List Piece) (p : Params)
    (hf : B.dateCheck = false ∨ B.dateOk (dateFormatOf fmt) = true)
    (h1 : ∀ rest, z ≠ .text cs!"utc" :: rest) (h2 : ∀ rest, z ≠ .text cs!"local" :: rest) :
    ∃ e, compile B (.arg n [fmt, z] p) = .error e := by
  rw [compile_dateName B n hn, dateChunk_zone B fmt z p hf]
  cases z with
  | nil => exact ⟨eInvalidTimezone, by simp [tzOf, hB, timezoneOf]⟩
  | cons q rest =>
    cases q with
    | text t =>
      have ht1 : t ≠ cs!"utc" := fun h => h1 rest (by rw [h])
      have ht2 : t ≠ cs!"local" := fun h => h2 rest (by rw [h])
      exact ⟨eInvalidTimezoneNamed t, by simp [tzOf, hB, timezoneOf, ht1, ht2]⟩
    | arg m a q' => exact ⟨eInvalidTimezone, by simp [tzOf, hB, timezoneOf]⟩
    | error e => exact ⟨eInvalidTimezone, by simp [tzOf, hB, timezoneOf]⟩

/-- With the proposed repair (`tzWholeArg`: the argument read whole through `plain_text`) the clause
holds in full; a syntax error inside the argument surfaces as itself. -/
theorem C11_invalid_timezone_surfaces_repaired (B : Build) (hB : B.tzWholeArg = true) :
    C11_invalid_timezone_surfaces B := by
  intro n fmt z p hn hf hz
  rw [compile_dateName B n hn, dateChunk_zone B fmt z p hf]
  unfold zoneArgValid at hz
  simp only [tzOf, hB, if_true, timezoneOfWhole]
  cases hpt : plainTextOf eInvalidTimezone z with
  | error e => exact ⟨e, rfl⟩
  | ok t =>
    rw [hpt] at hz
    simp only [Bool.or_eq_false_iff, decide_eq_false_iff_not] at hz
    exact ⟨eInvalidTimezoneNamed t, by simp [hz.1, hz.2]⟩

/-- MDC without a key, with a formatter inside the key, or with a syntax error inside the key
(repaired `plain_text`: anywhere in the argument); an EMPTY key was `invalid MDC key` before the
repair of `C09/mdc-empty-argument` (`mdcEmptyOk = false`) and is the empty string since -/
theorem C11_error_kinds_mdc_key (B : Build) (hfix : B.mdcWhole = true) (p : Params) :
    compile B (.arg ['X'] [] p) = .error cs!"missing MDC key" ∧
    (B.mdcEmptyOk = false → compile B (.arg ['X'] [[]] p) = .error cs!"invalid MDC key") ∧
    (B.mdcEmptyOk = true → compile B (.arg ['X'] [[]] p) = .leaf (.mdc [] []) p) ∧
    (∀ t n a q more, compile B (.arg ['X'] [.text t :: .arg n a q :: more] p) = .error cs!"invalid MDC key") ∧
    (∀ t e more, compile B (.arg ['X'] [.text t :: .error e :: more] p) = .error e) := by
  refine ⟨?_, ?_, ?_, ?_, ?_⟩ <;> intros <;>
    (rw [compile_arg]
     simp [mdcChunk, groupOfName, leafOfName, leafTable, leafLookup, mdcArg, mdcArgText, hfix, plainTextOf,
       plainTextLoop, eMissingMdcKey, eInvalidMdcKey, *])

/-- MDC with a formatter inside the default; an EMPTY default was `invalid MDC default` before the
repair of `C09/mdc-empty-argument` and is the empty string since -/
theorem C11_error_kinds_mdc_default (B : Build) (hfix : B.mdcWhole = true) (k : List Char) (p : Params) :
    (B.mdcEmptyOk = false → compile B (.arg ['X'] [[.text k], []] p) = .error cs!"invalid MDC default") ∧
    (B.mdcEmptyOk = true → compile B (.arg ['X'] [[.text k], []] p) = .leaf (.mdc k []) p) ∧
    (∀ n a q rest, compile B (.arg ['X'] [[.text k], .arg n a q :: rest] p) =
      .error cs!"invalid MDC default") := by
  refine ⟨?_, ?_, ?_⟩ <;> intros <;>
    (rw [compile_arg]
     simp [mdcChunk, groupOfName, leafOfName, leafTable, leafLookup, mdcArg, mdcArgText, hfix, plainTextOf,
       plainTextLoop, eInvalidMdcDefault, *])

/-! ## examples (tests on samples, and non-vacuity of the hypotheses) -/

/-- the hypothesis of the historical partial theorem -/
example : digitRunsFit Profile.unfixed64 cs!"{d(%Y-%m-%d)} {l:>5.10} {m}{n}" = true := by decide
example : digitRunsFit Profile.unfixed64 cs!"{m:18446744073709551615}" = true := by decide
example : digitRunsFit Profile.unfixed64 cs!"{m:18446744073709551616}" = false := by decide

def exampleBuild : Build := { renderOk := fun f => f != cs!"%Q" }

/-- end-to-end samples of the error classes (tests): text before the error is kept -/
example : parse asciiClass Profile.debug64 cs!"a}b" =
    .ok [.text ['a'], .error cs!"unmatched '}'", .text ['b']] := by rfl
example : parse asciiClass Profile.debug64 cs!"a{m" = .ok [.text ['a'], .error cs!"expected '}'"] := by rfl
example : parse asciiClass Profile.debug64 cs!"{l}{m(x}tail" =
    .ok [.arg ['l'] [] {}, .error cs!"expected '}'"] := by rfl
example : newEncoder asciiClass Profile.debug64 exampleBuild cs!"{x}" =
    .ok [.error cs!"unknown formatter `x`"] := by rfl
example : newEncoder asciiClass Profile.debug64 exampleBuild cs!"{d(%Y)(cet)}" =
    .ok [.error cs!"invalid timezone `cet`"] := by rfl
example : newEncoder asciiClass Profile.debug64 exampleBuild cs!"{d(%Q)(cet)}" =
    .ok [.error cs!"invalid date format `%Q`"] := by rfl
example : newEncoder asciiClass Profile.debug64 exampleBuild cs!"{h(a)(b)}" =
    .ok [.error cs!"expected exactly one argument"] := by rfl
example : newEncoder asciiClass Profile.debug64 exampleBuild cs!"{m:.99999999999999999999}" =
    .ok [.error cs!"width too large"] := by rfl

end Log4rs.Pattern.Parse
