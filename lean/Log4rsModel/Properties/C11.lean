import Log4rsModel.Pattern.ParserLemmas
import Log4rsModel.Pattern.EncodeLemmas
/-
C11 — Any pattern string is safe: no panic, errors surface as `{ERROR: …}` markers.

Only property theorems and examples live here; helpers are in `Pattern/ParserLemmas.lean` and
`Pattern/EncodeLemmas.lean`. All statements quantify over every string over the full Unicode
alphabet (`List Char`), every character classification `cc`, every record and environment.

The unconditional no-panic statements are FALSE of the current code (findings F3, F4): they are
kept as `def … : Prop`, refuted on concrete witnesses, and proved under the hypotheses that name
the defect (`digitRunsFit`, `strftimeOk` of the rendered date formats).
-/
namespace Log4rs.Pattern.Parse

/-! ## termination -/

/-- The parser terminates: the fixed fuel `input.length + 1` is never exhausted (`err ()` is the
model's out-of-fuel answer), for every string, character classification and profile. -/
theorem C11_parse_total (cc : CharClass) (P : Profile) (s : List Char) : parse cc P s ≠ .err () :=
  parseLoop_ne_err cc P (s.length + 1) s (by omega)

/-- The reason: every piece `next` produces consumes at least one character, and `next` answers
`None` only at the end of the input. -/
theorem C11_next_consumes (cc : CharClass) (P : Profile) (s : List Char) :
    match next cc P s with
    | .ok (some _) r => r <:+ s ∧ r.length < s.length
    | .ok none r => s = [] ∧ r = []
    | .fail _ _ => False
    | .panic _ => True
    | .fuel => False := by
  have h := next_shrinks cc P s
  have hf := next_ne_fuel cc P s
  revert h hf
  cases next cc P s with
  | ok o r => cases o <;> simp [PR.NextShrinks]
  | fail e r => simp [PR.NextShrinks]
  | panic w => simp
  | fuel => simp

/-- Appendix A fuel convention for the fuelled functions: any fuel ≥ `input.length + 1` gives the
result of the entry point's fuel. -/
theorem C11_fuel_mono (cc : CharClass) (P : Profile) (fuel : Nat) (s : List Char)
    (h : fuel ≥ s.length + 1) :
    (∀ acc, argsLoop cc P fuel s acc = argsLoop cc P (s.length + 1) s acc) ∧
    (∀ acc, argBody cc P fuel s acc = argBody cc P (s.length + 1) s acc) :=
  ⟨fun acc => argsLoop_fuel_mono cc P fuel s acc h, fun acc => argBody_fuel_mono cc P fuel s acc h⟩

/-! ## construction never panics — when every explicit width fits `usize` -/

/-- the full statement (false: F3) -/
def C11_parse_no_panic_full : Prop :=
  ∀ (cc : CharClass) (P : Profile) (s : List Char) (w : String), parse cc P s ≠ .panic w

/-- `PatternEncoder::new` cannot panic on a string all of whose digit runs fit the word size —
whatever else the string contains. -/
theorem C11_parse_no_panic_partial (cc : CharClass) (P : Profile) (s : List Char)
    (h : digitRunsFit P s = true) (w : String) : parse cc P s ≠ .panic w :=
  parseLoop_ne_panic cc P (s.length + 1) s (intSafe_of_digitRunsFit P s h) w

/-- Without overflow checks (release profile) construction never panics at all: the width wraps
instead (see `C11_F3_release_wraps`). -/
theorem C11_parse_no_panic_wrapping (cc : CharClass) (P : Profile) (s : List Char)
    (h : P.overflowChecks = false) (w : String) : parse cc P s ≠ .panic w :=
  parseLoop_ne_panic cc P (s.length + 1) s (intSafe_of_wrapping P h s) w

/-- With the proposed repair of F3 (`Profile.widthCheck`: checked accumulation, an overflowing
width becomes an `Err`) construction never panics, in any profile and on any string. -/
theorem C11_parse_no_panic_after_repair (cc : CharClass) (P : Profile) (s : List Char)
    (h : P.widthCheck = true) (w : String) : parse cc P s ≠ .panic w :=
  parseLoop_ne_panic cc P (s.length + 1) s (intSafe_of_widthCheck P h s) w

/-- … and the absurd width is surfaced as an error marker, as the statement asks. -/
theorem C11_F3_repaired_witness :
    parse asciiClass { widthCheck := true } cs!"a{m:99999999999999999999}b" =
      .ok [.text ['a'], .error cs!"width too large", .text ['b']] := by rfl

/-- F3 witness: `{m:99999999999999999999}` panics in `Parser::integer` under overflow checks
(the profile of the test-suite and of the harness). -/
theorem C11_F3_witness_panics :
    (parse asciiClass Profile.debug64 cs!"{m:99999999999999999999}").isPanic = true := by decide

theorem C11_parse_no_panic_full_false : ¬ C11_parse_no_panic_full := by
  intro h
  have hw := C11_F3_witness_panics
  cases hp : parse asciiClass Profile.debug64 cs!"{m:99999999999999999999}" with
  | ok a => rw [hp] at hw; cases hw
  | err e => rw [hp] at hw; cases hw
  | panic w => exact h _ _ _ w hp

/-- F3 in the release profile: no panic, but `2^64 + 1` silently becomes the width 1. -/
theorem C11_F3_release_wraps :
    parse asciiClass Profile.release64 cs!"{m:18446744073709551617}" =
      .ok [.arg ['m'] [] { minW := some 1 }] := by rfl

/-! ## encoding never panics — when chrono accepts every date format that is rendered -/

/-- the full statement (false: F4) -/
def C11_encode_no_panic_full : Prop :=
  ∀ (cc : CharClass) (P : Profile) (env : Env) (r : Record) (s : List Char) (w : String),
    digitRunsFit P s = true → run cc P env r s ≠ .panic w

/-- Encoding any chunk list on any record succeeds (and yields the operation stream `opsList`)
when chrono accepts every date format the encode renders. -/
theorem C11_encode_no_panic_partial (env : Env) (r : Record) (cs : List Chunk)
    (h : ∀ x ∈ renderedTimesL env cs, env.strftimeOk x.1 x.2 = true) :
    encList env r cs = .ok (opsList env r cs) ∧ ∀ w, encList env r cs ≠ .panic w := by
  have := encList_eq_ops env r cs h
  exact ⟨this, fun w hw => by rw [this] at hw; cases hw⟩

/-- with an infallible sink the encoder never returns an error either -/
theorem C11_encode_never_err (env : Env) (r : Record) (cs : List Chunk) (e : Unit) :
    encList env r cs ≠ .err e := encList_ne_err env r cs e

/-- Both hypotheses together: construct + encode of any string is `ok`. -/
theorem C11_run_no_panic_partial (cc : CharClass) (P : Profile) (env : Env) (r : Record)
    (s : List Char) (hw : digitRunsFit P s = true)
    (hd : ∀ cs, newEncoder cc P s = .ok cs → ∀ x ∈ renderedTimesL env cs, env.strftimeOk x.1 x.2 = true) :
    ∃ o, run cc P env r s = .ok o := by
  unfold run
  cases hn : newEncoder cc P s with
  | ok cs => exact ⟨_, (C11_encode_no_panic_partial env r cs (hd cs hn)).1⟩
  | err e =>
    unfold newEncoder at hn
    cases hp : parse cc P s with
    | ok a => rw [hp] at hn; simp [omap] at hn
    | err e' => cases e'; exact absurd hp (C11_parse_total cc P s)
    | panic w => exact absurd hp (C11_parse_no_panic_partial cc P s hw w)
  | panic w =>
    unfold newEncoder at hn
    cases hp : parse cc P s with
    | ok a => rw [hp] at hn; simp [omap] at hn
    | err e' => cases e'; exact absurd hp (C11_parse_total cc P s)
    | panic w' => exact absurd hp (C11_parse_no_panic_partial cc P s hw w')

/-- F4 witness: `{d(%Q)}` constructs fine and panics at encode as soon as chrono rejects `%Q`
(the harness checks on every run that it does). -/
theorem C11_F4_witness_panics (env : Env) (r : Record) (h : env.strftimeOk cs!"%Q" false = false) :
    (run asciiClass Profile.debug64 env r cs!"{d(%Q)}").isPanic = true := by
  have hn : newEncoder asciiClass Profile.debug64 cs!"{d(%Q)}" =
      .ok [.leaf (.time cs!"%Q" false) {}] := by rfl
  simp [run, hn, encList, encChunk, leafText, h, omap, Outcome.isPanic]

theorem C11_encode_no_panic_full_false : ¬ C11_encode_no_panic_full := by
  intro hfull
  let env : Env :=
    { strftimeOk := fun _ _ => false, dateText := fun _ _ => [], threadName := none,
      threadId := 0, pid := 0, mdc := [], debugBuild := true }
  let r : Record := { level := 3, message := [], target := [] }
  have hw := C11_F4_witness_panics env r rfl
  cases hp : run asciiClass Profile.debug64 env r cs!"{d(%Q)}" with
  | ok a => rw [hp] at hw; cases hw
  | err e => rw [hp] at hw; cases hw
  | panic w => exact hfull _ _ _ _ _ w (by decide) hp

/-! ## errors surface as `{ERROR: e}`, and what precedes them still renders -/

/-- A top-level `Error` chunk between `pre` and `post`: the encode result is the rendering of
`pre`, then the marker `{ERROR: e}`, then the rendering of `post` — and it is `ok` exactly when
`pre` and `post` render (`seqOut` propagates a panic of either side). -/
theorem C11_error_surfaces (env : Env) (r : Record) (pre post : List Chunk) (e : List Char) :
    encList env r (pre ++ .error e :: post) =
      seqOut (encList env r pre) (seqOut (.ok (ofText (errorMarker e))) (encList env r post)) := by
  rw [encList_append, encList_cons]
  simp [encChunk]

/-- In particular, when it is `ok`, the text starts with the text of `pre` followed by
`{ERROR: ` e `}`. -/
theorem C11_error_surfaces_text (env : Env) (r : Record) (pre post : List Chunk) (e : List Char)
    (res : Out) (h : encList env r (pre ++ .error e :: post) = .ok res) :
    ∃ o o', encList env r pre = .ok o ∧ encList env r post = .ok o' ∧
      res.text = o.text ++ (cs!"{ERROR: " ++ e ++ ['}']) ++ o'.text := by
  rw [C11_error_surfaces] at h
  cases hpre : encList env r pre with
  | ok o =>
    cases hpost : encList env r post with
    | ok o' =>
      rw [hpre, hpost] at h
      simp only [seqOut, Outcome.ok.injEq] at h
      subst h
      refine ⟨o, o', rfl, rfl, ?_⟩
      simp [text_append, ofText_text, errorMarker, errOpen]
    | err x => rw [hpre, hpost] at h; simp [seqOut] at h
    | panic w => rw [hpre, hpost] at h; simp [seqOut] at h
  | err x => rw [hpre] at h; simp [seqOut] at h
  | panic w => rw [hpre] at h; simp [seqOut] at h

/-- Nested errors too: an `Error` chunk inside a group renders its marker through the group's
format spec like any other text. -/
theorem C11_error_surfaces_nested (env : Env) (r : Record) (e : List Char) (p : Params) :
    encChunk env r (.group .align [.error e] p) = .ok (codeFmtOps p (ofText (errorMarker e))) := by
  simp [encChunk, encList, omap]

/-! ## every class of malformation yields an `Error` piece / chunk -/

/-- a lone `}` -/
theorem C11_error_kinds_unmatched_close (cc : CharClass) (P : Profile) (r : List Char)
    (h : doubled '}' r = none) :
    next cc P ('}' :: r) = .ok (some (.error cs!"unmatched '}'")) r := by
  simp [next, nextWith, h, eUnmatchedClose]

/-- a lone `(` outside a formatter -/
theorem C11_error_kinds_unexpected_open_paren (cc : CharClass) (P : Profile) (r : List Char)
    (h : doubled '(' r = none) :
    next cc P ('(' :: r) = .ok (some (.error cs!"unexpected '('")) r := by
  simp [next, nextWith, h, eUnexpectedOpenParen]

/-- a lone `)` -/
theorem C11_error_kinds_unexpected_close_paren (cc : CharClass) (P : Profile) (r : List Char)
    (h : doubled ')' r = none) :
    next cc P (')' :: r) = .ok (some (.error cs!"unexpected ')'")) r := by
  simp [next, nextWith, h, eUnexpectedCloseParen]

/-- a backslash not followed by one of the five special characters -/
theorem C11_error_kinds_unexpected_backslash (cc : CharClass) (P : Profile) (r : List Char)
    (h : ∀ d t, r = d :: t → isSpecial d = false) :
    next cc P ('\\' :: r) = .ok (some (.error cs!"unexpected '\\'")) r := by
  cases r with
  | nil => simp [next, nextWith, eUnexpectedBackslash]
  | cons d t => simp [next, nextWith, h d t rfl, eUnexpectedBackslash]

/-- a formatter that is not followed by `}`: the piece is replaced by the error and the rest of
the input is swallowed -/
theorem C11_error_kinds_expected_close (piece : Piece) (s : List Char) (h : ∀ t, s ≠ '}' :: t) :
    closeBrace piece s = .ok (some (.error cs!"expected '}'")) [] := by
  unfold closeBrace
  split
  · rename_i c r
    split
    · rename_i hc; subst hc; exact absurd rfl (h r)
    · rfl
  · rfl

/-- an unclosed `(`: `arg()` fails only at the end of the input, with the text `unclosed '('` … -/
theorem C11_error_kinds_unclosed_paren (cc : CharClass) (P : Profile) (f : Nat) (s : List Char)
    (acc : List Piece) (e r : List Char) (h : argBody cc P f s acc = .fail e r) :
    e = cs!"unclosed '('" ∧ r = [] := (args_body_fail cc P f).2 s acc e r h

/-- … and since nothing is left, the `}` is missing too: what the user sees for an unclosed
parenthesis is `{ERROR: expected '}'}` (the `unclosed '('` text never reaches the output). -/
theorem C11_error_kinds_unclosed_paren_surfaces (cc : CharClass) (P : Profile)
    (F : List Char → PR (List (List Piece))) (r e : List Char)
    (h : F (name cc r).2 = .fail e []) :
    argumentWith cc P F r = .ok (some (.error cs!"expected '}'")) [] := by
  simp [argumentWith, h, closeBrace, eExpectedClose]

/-- unknown formatter name -/
theorem C11_error_kinds_unknown_formatter (n : List Char) (args : List (List Piece)) (p : Params)
    (h1 : n ≠ cs!"d") (h2 : n ≠ cs!"date") (h3 : groupOfName n = none) (h4 : leafOfName n = none)
    (h5 : n ≠ cs!"X") (h6 : n ≠ cs!"mdc") :
    compile (.arg n args p) = .error (cs!"unknown formatter `" ++ n ++ ['`']) := by
  rw [compile_arg]; simp [h1, h2, h3, h4, h5, h6, eUnknownFormatter]

/-- arguments given to a formatter that takes none -/
theorem C11_error_kinds_unexpected_arguments (n : List Char) (k : Leaf) (a : List Piece)
    (args : List (List Piece)) (p : Params) (hk : leafOfName n = some k) :
    compile (.arg n (a :: args) p) = .error cs!"unexpected arguments" := by
  have h1 : n ≠ cs!"d" := by intro h; subst h; simp [leafOfName] at hk
  have h2 : n ≠ cs!"date" := by intro h; subst h; simp [leafOfName] at hk
  have h3 : groupOfName n = none := by
    unfold leafOfName at hk
    unfold groupOfName
    repeat (split; (rename_i hn; simp at hn; rcases hn with hn | hn <;> subst hn <;> simp at hk))
    split
    · rename_i hn; subst hn; simp at hk
    · rfl
  rw [compile_arg]; simp [h1, h2, h3, hk, noArgs, eUnexpectedArgs]

/-- `h`, `D`, `R` and the unnamed formatter with a number of arguments other than one -/
theorem C11_error_kinds_exactly_one (n : List Char) (g : GroupKind) (args : List (List Piece))
    (p : Params) (hg : groupOfName n = some g) (hlen : args.length ≠ 1) :
    compile (.arg n args p) = .error cs!"expected exactly one argument" := by
  have h1 : n ≠ cs!"d" := by intro h; subst h; simp [groupOfName] at hg
  have h2 : n ≠ cs!"date" := by intro h; subst h; simp [groupOfName] at hg
  match args, hlen with
  | [], _ => rw [compile_arg]; simp [h1, h2, hg, eExactlyOne]
  | [a], h => simp at h
  | a :: b :: t, _ => rw [compile_arg]; simp [h1, h2, hg, eExactlyOne]

/-- more than two arguments to `d` / `X` -/
theorem C11_error_kinds_at_most_two (a b c : List Piece) (args : List (List Piece)) (p : Params) :
    compile (.arg ['d'] (a :: b :: c :: args) p) = .error cs!"expected at most two arguments" ∧
    compile (.arg cs!"date" (a :: b :: c :: args) p) = .error cs!"expected at most two arguments" ∧
    compile (.arg ['X'] (a :: b :: c :: args) p) = .error cs!"expected at most two arguments" ∧
    compile (.arg cs!"mdc" (a :: b :: c :: args) p) = .error cs!"expected at most two arguments" := by
  refine ⟨?_, ?_, ?_, ?_⟩ <;>
    (rw [compile_arg]; simp [dateChunk, mdcChunk, groupOfName, leafOfName, eAtMostTwo])

/-- a time zone other than `utc` / `local` -/
theorem C11_error_kinds_bad_timezone (fmt : List Piece) (z : List Char) (rest : List Piece) (p : Params)
    (h1 : z ≠ cs!"utc") (h2 : z ≠ cs!"local") :
    compile (.arg ['d'] [fmt, .text z :: rest] p) = .error (cs!"invalid timezone `" ++ z ++ ['`']) := by
  rw [compile_arg]; simp [dateChunk, timezoneOf, h1, h2, eInvalidTimezoneNamed]

/-- an empty time zone argument, or one that does not start with text -/
theorem C11_error_kinds_invalid_timezone (fmt : List Piece) (p : Params) :
    compile (.arg ['d'] [fmt, []] p) = .error cs!"invalid timezone" ∧
    (∀ n a q rest, compile (.arg ['d'] [fmt, .arg n a q :: rest] p) = .error cs!"invalid timezone") ∧
    (∀ e rest, compile (.arg ['d'] [fmt, .error e :: rest] p) = .error cs!"invalid timezone") := by
  refine ⟨?_, ?_, ?_⟩ <;> intros <;> (rw [compile_arg]; simp [dateChunk, timezoneOf, eInvalidTimezone])

/-- MDC without a key, with an empty key, or with a formatter as key -/
theorem C11_error_kinds_mdc_key (p : Params) :
    compile (.arg ['X'] [] p) = .error cs!"missing MDC key" ∧
    (∀ rest, compile (.arg ['X'] ([] :: rest) p) = .error cs!"invalid MDC key" ∨ rest.length > 1) ∧
    (∀ n a q more, compile (.arg ['X'] [.arg n a q :: more] p) = .error cs!"invalid MDC key") ∧
    (∀ e more, compile (.arg ['X'] [.error e :: more] p) = .error e) := by
  refine ⟨?_, ?_, ?_, ?_⟩
  · rw [compile_arg]; simp [mdcChunk, groupOfName, leafOfName, eMissingMdcKey]
  · intro rest
    by_cases h : rest.length > 1
    · exact Or.inr h
    · left
      have : ¬ (rest.length + 1 > 2) := by omega
      rw [compile_arg]; simp [mdcChunk, groupOfName, leafOfName, mdcTextOf, eInvalidMdcKey, this]
  · intros; rw [compile_arg]; simp [mdcChunk, groupOfName, leafOfName, mdcTextOf, eInvalidMdcKey]
  · intros; rw [compile_arg]; simp [mdcChunk, groupOfName, leafOfName, mdcTextOf]

/-- MDC with an empty default or a formatter as default -/
theorem C11_error_kinds_mdc_default (k : List Char) (more : List Piece) (p : Params) :
    compile (.arg ['X'] [.text k :: more, []] p) = .error cs!"invalid MDC default" ∧
    (∀ n a q rest, compile (.arg ['X'] [.text k :: more, .arg n a q :: rest] p) =
      .error cs!"invalid MDC default") := by
  refine ⟨?_, ?_⟩ <;> intros <;>
    (rw [compile_arg]; simp [mdcChunk, groupOfName, leafOfName, mdcTextOf, eInvalidMdcDefault])

/-! ## examples (tests on samples, and non-vacuity of the hypotheses) -/

/-- the hypothesis of `C11_parse_no_panic_partial` holds for ordinary patterns … -/
example : digitRunsFit Profile.debug64 cs!"{d(%Y-%m-%d)} {l:>5.10} {m}{n}" = true := by decide
/-- … including the largest width that fits, and fails exactly from `2^64` on -/
example : digitRunsFit Profile.debug64 cs!"{m:18446744073709551615}" = true := by decide
example : digitRunsFit Profile.debug64 cs!"{m:18446744073709551616}" = false := by decide

/-- end-to-end samples of the error classes (tests): text before the error is kept -/
example : parse asciiClass Profile.debug64 cs!"a}b" =
    .ok [.text ['a'], .error cs!"unmatched '}'", .text ['b']] := by rfl
example : parse asciiClass Profile.debug64 cs!"a{m" = .ok [.text ['a'], .error cs!"expected '}'"] := by rfl
example : parse asciiClass Profile.debug64 cs!"{l}{m(x}tail" =
    .ok [.arg ['l'] [] {}, .error cs!"expected '}'"] := by rfl
example : newEncoder asciiClass Profile.debug64 cs!"{x}" = .ok [.error cs!"unknown formatter `x`"] := by rfl
example : newEncoder asciiClass Profile.debug64 cs!"{d(%Y)(cet)}" =
    .ok [.error cs!"invalid timezone `cet`"] := by rfl
example : newEncoder asciiClass Profile.debug64 cs!"{h(a)(b)}" =
    .ok [.error cs!"expected exactly one argument"] := by rfl

end Log4rs.Pattern.Parse
