import Log4rsModel.Roller.Spec
/-
Basic facts about the disk, `moveFile`, and the rotation of the fixed-window roller, all stated
through `Disk.get?` (the order of the association list is irrelevant).

Hypotheses used throughout, stated explicitly where needed:
  `NamesInj r`     : the slot naming is injective            (C07_name_injective discharges it)
  `FileApart r f`  : the rolled file is not one of the slot names
-/
namespace Log4rs.Roller

/-! ### Disk -/
namespace Disk

theorem find_filter_ne (l : List (Path × Bytes)) (p q : Path) (h : q ≠ p) :
    (l.filter (fun e => e.1 ≠ p)).find? (fun e => e.1 = q) = l.find? (fun e => e.1 = q) := by
  rw [List.find?_filter]
  congr 1
  funext a
  by_cases hq : a.1 = q
  · simp [hq, h]
  · simp [hq]

theorem find_filter_same (l : List (Path × Bytes)) (p : Path) :
    (l.filter (fun e => e.1 ≠ p)).find? (fun e => e.1 = p) = none := by
  rw [List.find?_filter]
  simp

@[simp] theorem get?_erase_same (d : Disk) (p : Path) : (d.erase p).get? p = none := by
  show ((d.files.filter (fun e => e.1 ≠ p)).find? (fun e => e.1 = p)).map (·.2) = none
  rw [find_filter_same]; rfl

theorem get?_erase_ne (d : Disk) {p q : Path} (h : q ≠ p) : (d.erase p).get? q = d.get? q := by
  show ((d.files.filter (fun e => e.1 ≠ p)).find? (fun e => e.1 = q)).map (·.2) = _
  rw [find_filter_ne _ _ _ h]; rfl

@[simp] theorem get?_set_same (d : Disk) (p : Path) (c : Bytes) : (d.set p c).get? p = some c := by
  show (((d.files.filter (fun e => e.1 ≠ p)) ++ [(p, c)]).find? (fun e => e.1 = p)).map (·.2) = _
  rw [List.find?_append, find_filter_same]; simp

theorem get?_set_ne (d : Disk) {p q : Path} (c : Bytes) (h : q ≠ p) :
    (d.set p c).get? q = d.get? q := by
  have hpq : ¬ p = q := fun e => h e.symm
  show (((d.files.filter (fun e => e.1 ≠ p)) ++ [(p, c)]).find? (fun e => e.1 = q)).map (·.2) =
    (d.files.find? (fun e => e.1 = q)).map (·.2)
  rw [List.find?_append, find_filter_ne _ _ _ h]
  cases d.files.find? (fun e => e.1 = q) <;> simp [hpq]

theorem get?_erase (d : Disk) (p q : Path) :
    (d.erase p).get? q = if q = p then none else d.get? q := by
  by_cases h : q = p
  · subst h; simp
  · simp [h, get?_erase_ne d h]

theorem get?_set (d : Disk) (p q : Path) (c : Bytes) :
    (d.set p c).get? q = if q = p then some c else d.get? q := by
  by_cases h : q = p
  · subst h; simp
  · simp [h, get?_set_ne d c h]

end Disk

/-! ### moveFile -/

theorem get?_moveFile (src dst : Path) (d : Disk) (q : Path) :
    (moveFile src dst d).get? q =
      match d.get? src with
      | none => d.get? q
      | some c => if q = dst then some c else if q = src then none else d.get? q := by
  unfold moveFile
  cases h : d.get? src with
  | none => rfl
  | some c => simp [Disk.get?_set, Disk.get?_erase]

theorem get?_moveFile_other (src dst : Path) (d : Disk) (q : Path) (h1 : q ≠ src) (h2 : q ≠ dst) :
    (moveFile src dst d).get? q = d.get? q := by
  rw [get?_moveFile]; cases d.get? src <;> simp [h1, h2]

end Log4rs.Roller

namespace Log4rs.Roller

/-- the slot naming is injective (discharged for real patterns by `C07_name_injective`) -/
def NamesInj (r : RollerCfg) : Prop := ∀ i j, r.nameOf i = r.nameOf j → i = j

/-- the rolled file is not itself an archive name -/
def FileApart (r : RollerCfg) (file : Path) : Prop := ∀ i, r.nameOf i ≠ file

theorem slot_moveFile {r : RollerCfg} (hinj : NamesInj r) (a : Nat) (d : Disk) (i : Nat) :
    slot r (moveFile (r.nameOf a) (r.nameOf (a + 1)) d) i =
      match slot r d a with
      | none => slot r d i
      | some c => if i = a + 1 then some c else if i = a then none else slot r d i := by
  unfold slot
  rw [get?_moveFile]
  cases h : d.get? (r.nameOf a) with
  | none => rfl
  | some c =>
    by_cases h1 : i = a + 1
    · subst h1; simp
    · have h1' : r.nameOf i ≠ r.nameOf (a + 1) := fun e => h1 (hinj _ _ e)
      by_cases h2 : i = a
      · subst h2; simp [h1']
      · have h2' : r.nameOf i ≠ r.nameOf a := fun e => h2 (hinj _ _ e)
        simp [h1, h2, h1', h2']

/-! ### the shift phase as a pure function -/

/-- the shifts `base+m-1 → base+m, …, base → base+1`, in this (oldest-first) order -/
def applyShifts (r : RollerCfg) : Nat → Disk → Disk
  | 0, d => d
  | m + 1, d => applyShifts r m (moveFile (r.nameOf (r.base + m)) (r.nameOf (r.base + m + 1)) d)

def shiftSteps (base m : Nat) : List Step :=
  (List.range m).reverse.map (fun j => Step.shift (base + j))

theorem shiftSteps_succ (base m : Nat) :
    shiftSteps base (m + 1) = Step.shift (base + m) :: shiftSteps base m := by
  simp [shiftSteps, List.range_succ]

theorem steps_eq (base count : Nat) : steps base count = shiftSteps base (count - 1) ++ [Step.final] := rfl

/-- paths other than the names `base … base+m` are not touched by the shift phase -/
theorem get?_applyShifts_other (r : RollerCfg) (m : Nat) (d : Disk) (q : Path)
    (h : ∀ j, j ≤ m → q ≠ r.nameOf (r.base + j)) : (applyShifts r m d).get? q = d.get? q := by
  induction m generalizing d with
  | zero => rfl
  | succ m ih =>
    unfold applyShifts
    rw [ih _ (fun j hj => h j (by omega))]
    exact get?_moveFile_other _ _ _ _ (h m (by omega)) (by have := h (m + 1) (by omega); simpa [Nat.add_assoc] using this)

theorem slot_applyShifts_other {r : RollerCfg} (hinj : NamesInj r) (m : Nat) (d : Disk) (i : Nat)
    (h : i < r.base ∨ r.base + m < i) : slot r (applyShifts r m d) i = slot r d i := by
  apply get?_applyShifts_other
  intro j hj e
  have := hinj _ _ e
  omega

/-- the window after the shift phase, slot by slot: every archive moves up by one; the top slot
of the phase (`base+m`) keeps its old content only when the slot below it was empty -/
theorem slot_applyShifts {r : RollerCfg} (hinj : NamesInj r) (m : Nat) (d : Disk) :
    (1 ≤ m → slot r (applyShifts r m d) r.base = none) ∧
    (∀ j, 1 ≤ j → j ≤ m → slot r (applyShifts r m d) (r.base + j) =
      match slot r d (r.base + j - 1) with
      | some y => some y
      | none => if j = m then slot r d (r.base + m) else none) := by
  induction m generalizing d with
  | zero => exact ⟨fun h => absurd h (by omega), fun j h1 h2 => absurd h2 (by omega)⟩
  | succ m ih =>
    let d1 := moveFile (r.nameOf (r.base + m)) (r.nameOf (r.base + m + 1)) d
    have hd1 : applyShifts r (m + 1) d = applyShifts r m d1 := rfl
    have hs := fun i => slot_moveFile hinj (r.base + m) d i
    obtain ⟨ih0, ihj⟩ := ih d1
    refine ⟨fun _ => ?_, fun j h1 h2 => ?_⟩
    · rw [hd1]
      by_cases hm : 1 ≤ m
      · exact ih0 hm
      · have hm0 : m = 0 := by omega
        subst hm0
        show slot r d1 r.base = none
        have := hs r.base
        simp only [Nat.add_zero] at this
        show slot r (moveFile (r.nameOf (r.base + 0)) (r.nameOf (r.base + 0 + 1)) d) r.base = none
        simp only [Nat.add_zero]
        rw [this]
        cases slot r d r.base <;> simp
    · rw [hd1]
      by_cases hj : j = m + 1
      · subst hj
        rw [slot_applyShifts_other hinj m d1 _ (Or.inr (by omega))]
        show slot r (moveFile _ _ d) (r.base + (m + 1)) = _
        have := hs (r.base + (m + 1))
        rw [show r.base + (m + 1) = r.base + m + 1 from by omega] at *
        rw [this]
        simp only [Nat.add_sub_cancel]
        cases slot r d (r.base + m) <;> simp
      · have hjm : j ≤ m := by omega
        rw [ihj j h1 hjm]
        have e1 : slot r d1 (r.base + j - 1) = slot r d (r.base + j - 1) := by
          show slot r (moveFile _ _ d) _ = _
          rw [hs]
          have n1 : ¬ r.base + j - 1 = r.base + m + 1 := by omega
          have n2 : ¬ r.base + j - 1 = r.base + m := by omega
          cases slot r d (r.base + m) <;> simp [n1, n2]
        rw [e1]
        cases hprev : slot r d (r.base + j - 1) with
        | some y => rfl
        | none =>
          by_cases hjm' : j = m
          · subst hjm'
            simp only [if_true, hj, if_false]
            show slot r (moveFile _ _ d) _ = _
            rw [hs]
            cases slot r d (r.base + j) <;> simp
          · simp [hjm', hj]

end Log4rs.Roller

namespace Log4rs.Roller

/-! ### `runSteps` and the pure shift phase -/

theorem runSteps_shifts (r : RollerCfg) (file : Path) (fault : Nat → Bool) (m : Nat) :
    ∀ (k : Nat) (rest : List Step) (d : Disk), (∀ i, k ≤ i → i < k + m → fault i = false) →
      runSteps r file fault k (shiftSteps r.base m ++ rest) d =
        runSteps r file fault (k + m) rest (applyShifts r m d) := by
  induction m with
  | zero => intro k rest d _; simp [shiftSteps, applyShifts]
  | succ m ih =>
    intro k rest d hf
    rw [shiftSteps_succ, List.cons_append]
    have hk : fault k = false := hf k (Nat.le_refl _) (by omega)
    show (if fault k then _ else _) = _
    rw [hk]
    simp only [Bool.false_eq_true, if_false, applyStep]
    rw [ih (k + 1) rest _ (fun i h1 h2 => hf i (by omega) (by omega))]
    rw [show k + 1 + m = k + (m + 1) from by omega]
    rfl

/-- what the last step does to a disk on which the rolled file exists -/
theorem get?_finalStep_ok (comp : Compression) (codec : Bytes → Bytes) (file dst : Path) (d : Disk)
    (x : Bytes) (hx : d.get? file = some x) (hne : dst ≠ file) :
    ∃ d', finalStep comp codec file dst d = .ok d' ∧
      ∀ q, d'.get? q =
        if q = dst then some (match comp with | .none => x | _ => codec x)
        else if q = file then none else d.get? q := by
  cases comp with
  | none =>
    refine ⟨moveFile file dst d, rfl, fun q => ?_⟩
    rw [get?_moveFile, hx]
  | gzip =>
    refine ⟨(d.set dst (codec x)).erase file, by simp [finalStep, hx], fun q => ?_⟩
    rw [Disk.get?_erase, Disk.get?_set]
    by_cases h1 : q = dst
    · subst h1; simp [hne]
    · simp [h1]
  | zstd =>
    refine ⟨(d.set dst (codec x)).erase file, by simp [finalStep, hx], fun q => ?_⟩
    rw [Disk.get?_erase, Disk.get?_set]
    by_cases h1 : q = dst
    · subst h1; simp [hne]
    · simp [h1]

/-- a fault-free roll of an existing file succeeds; the resulting disk, path by path -/
theorem fixedWindowRoll_ok (r : RollerCfg) (file : Path) (d : Disk) (x : Bytes)
    (hc : r.count ≠ 0) (hfa : FileApart r file) (hx : d.get? file = some x) :
    ∃ d', fixedWindowRoll r file (fun _ => false) d = (.ok d', d') ∧
      ∀ q, d'.get? q =
        if q = r.nameOf r.base then some (r.enc x)
        else if q = file then none else (applyShifts r (r.count - 1) d).get? q := by
  have hx2 : (applyShifts r (r.count - 1) d).get? file = some x := by
    rw [get?_applyShifts_other _ _ _ _ (fun j _ => (hfa _).symm)]; exact hx
  obtain ⟨d', hd', hq⟩ := get?_finalStep_ok r.comp r.codec file (r.nameOf r.base) _ x hx2 (hfa _)
  refine ⟨d', ?_, hq⟩
  unfold fixedWindowRoll
  rw [if_neg hc, steps_eq, runSteps_shifts r file _ _ 0 _ d (fun _ _ _ => rfl)]
  show (if false = true then _ else _) = _
  simp only [Bool.false_eq_true, if_false, applyStep, hd']
  rfl

end Log4rs.Roller

namespace Log4rs.Roller

/-! ### frame: what no step can touch, whatever the fault oracle says -/

theorem get?_finalStep_other (comp : Compression) (codec : Bytes → Bytes) (file dst : Path)
    (d d' : Disk) (q : Path) (h : finalStep comp codec file dst d = .ok d')
    (h1 : q ≠ file) (h2 : q ≠ dst) : d'.get? q = d.get? q := by
  cases comp with
  | none =>
    simp only [finalStep, Except.ok.injEq] at h
    subst h
    exact get?_moveFile_other _ _ _ _ h1 h2
  | gzip =>
    simp only [finalStep] at h
    cases hx : d.get? file with
    | none => simp [hx] at h
    | some x =>
      simp only [hx, Except.ok.injEq] at h
      subst h
      rw [Disk.get?_erase_ne _ h1, Disk.get?_set_ne _ _ h2]
  | zstd =>
    simp only [finalStep] at h
    cases hx : d.get? file with
    | none => simp [hx] at h
    | some x =>
      simp only [hx, Except.ok.injEq] at h
      subst h
      rw [Disk.get?_erase_ne _ h1, Disk.get?_set_ne _ _ h2]

/-- a step list only touches the rolled file, `name base`, and the two names of each shift -/
theorem runSteps_frame (r : RollerCfg) (file : Path) (fault : Nat → Bool) (q : Path)
    (h1 : q ≠ file) (h2 : q ≠ r.nameOf r.base) :
    ∀ (ss : List Step) (k : Nat) (d : Disk),
      (∀ i, Step.shift i ∈ ss → q ≠ r.nameOf i ∧ q ≠ r.nameOf (i + 1)) →
      (runSteps r file fault k ss d).2.get? q = d.get? q := by
  intro ss
  induction ss with
  | nil => intro k d _; rfl
  | cons s rest ih =>
    intro k d hs
    unfold runSteps
    by_cases hf : fault k = true
    · simp [hf]
    · simp only [hf, Bool.false_eq_true, if_false]
      cases hst : applyStep r file s d with
      | error e => rfl
      | ok d' =>
        simp only
        rw [ih (k + 1) d' (fun i hi => hs i (List.mem_cons_of_mem _ hi))]
        cases s with
        | shift i =>
          simp only [applyStep, Except.ok.injEq] at hst
          subst hst
          have := hs i (List.mem_cons_self ..)
          exact get?_moveFile_other _ _ _ _ this.1 this.2
        | final => exact get?_finalStep_other _ _ _ _ _ _ _ hst h1 h2

theorem mem_shiftSteps (base m i : Nat) (h : Step.shift i ∈ shiftSteps base m) :
    base ≤ i ∧ i < base + m := by
  simp only [shiftSteps, List.mem_map, List.mem_reverse, List.mem_range] at h
  obtain ⟨j, hj, e⟩ := h
  injection e with e
  omega

/-- every path that is neither the rolled file nor one of `name base … name (base+count-1)` is
left alone by a roll — for every fault oracle, successful or not, no injectivity needed -/
theorem fixedWindowRoll_frame (r : RollerCfg) (file : Path) (fault : Nat → Bool) (d : Disk)
    (q : Path) (h1 : q ≠ file)
    (h2 : ∀ i, r.base ≤ i → i < r.base + r.count → q ≠ r.nameOf i) :
    (fixedWindowRoll r file fault d).2.get? q = d.get? q := by
  unfold fixedWindowRoll
  by_cases hc : r.count = 0
  · simp only [hc, if_true]
    by_cases hf : fault 0 = true
    · simp [hf]
    · simp only [hf, Bool.false_eq_true, if_false]
      cases d.get? file with
      | none => rfl
      | some x => exact Disk.get?_erase_ne _ h1
  · simp only [hc, if_false]
    apply runSteps_frame r file fault q h1 (h2 _ (Nat.le_refl _) (by omega))
    intro i hi
    rw [steps_eq] at hi
    simp only [List.mem_append, List.mem_singleton, reduceCtorEq, or_false] at hi
    have := mem_shiftSteps _ _ _ hi
    exact ⟨h2 i this.1 (by omega), h2 (i + 1) (by omega) (by omega)⟩

/-! ### the u32 guard -/

theorem rollU32_guarded (r : RollerCfg) (file : Path) (fault : Nat → Bool) (d : Disk)
    (hg : r.base + r.count ≤ U32_MOD) :
    rollU32 r file fault d = liftRoll (fixedWindowRoll r file fault d) := by
  unfold rollU32
  rw [if_neg (by omega)]

theorem rollU32_disk (r : RollerCfg) (file : Path) (fault : Nat → Bool) (d : Disk)
    (hg : r.base + r.count ≤ U32_MOD) :
    (rollU32 r file fault d).2 = (fixedWindowRoll r file fault d).2 := by
  rw [rollU32_guarded _ _ _ _ hg]
  rcases fixedWindowRoll r file fault d with ⟨res, d''⟩
  cases res <;> rfl

theorem rollU32_count_zero (r : RollerCfg) (file : Path) (fault : Nat → Bool) (d : Disk)
    (hc : r.count = 0) : rollU32 r file fault d = liftRoll (fixedWindowRoll r file fault d) := by
  unfold rollU32
  rw [if_neg (by omega)]

/-! ### windows as lists (newest first) and successive rolls -/

/-- the window holds exactly the list `ws`, newest first, and nothing behind it -/
def WindowIs (r : RollerCfg) (d : Disk) (ws : List Bytes) : Prop :=
  ∀ j, j < r.count → slot r d (r.base + j) = ws[j]?

/-- write `x` to the log path and roll, for every `x` in turn -/
def rollMany (r : RollerCfg) (file : Path) : List Bytes → Disk → Disk
  | [], d => d
  | x :: xs, d => rollMany r file xs (rollU32 r file (fun _ => false) (d.set file x)).2

theorem take_append_take {α} (a b : List α) (c : Nat) : (a ++ b.take c).take c = (a ++ b).take c := by
  rw [List.take_append, List.take_append, List.take_take]
  congr 2
  omega

end Log4rs.Roller

namespace Log4rs.Roller

/-- one fault-free roll on an arbitrary window, slot by slot (see `C07_rotate_general`) -/
theorem rollU32_general (r : RollerCfg) (file : Path) (d : Disk) (x : Bytes)
    (hg : r.base + r.count ≤ U32_MOD) (hc : r.count ≠ 0)
    (hinj : NamesInj r) (hfa : FileApart r file) (hx : d.get? file = some x) :
    ∃ d', rollU32 r file (fun _ => false) d = (.ok d', d') ∧
      slot r d' r.base = some (r.enc x) ∧
      d'.get? file = none ∧
      (∀ j, 1 ≤ j → j < r.count → slot r d' (r.base + j) =
        match slot r d (r.base + j - 1) with
        | some y => some y
        | none => if j = r.count - 1 then slot r d (r.base + j) else none) ∧
      (∀ i, i < r.base ∨ r.base + r.count ≤ i → slot r d' i = slot r d i) := by
  obtain ⟨d', hroll, hq⟩ := fixedWindowRoll_ok r file d x hc hfa hx
  refine ⟨d', ?_, ?_, ?_, ?_, ?_⟩
  · rw [rollU32_guarded _ _ _ _ hg, hroll]; rfl
  · simp [slot, hq]
  · rw [hq]; simp [(hfa r.base).symm]
  · intro j h1 h2
    have hne : r.nameOf (r.base + j) ≠ r.nameOf r.base := fun e => by have := hinj _ _ e; omega
    show d'.get? (r.nameOf (r.base + j)) = _
    rw [hq, if_neg hne, if_neg (hfa _)]
    have := (slot_applyShifts hinj (r.count - 1) d).2 j h1 (by omega)
    simp only [slot] at this ⊢
    rw [this]
    cases d.get? (r.nameOf (r.base + j - 1)) with
    | some y => rfl
    | none =>
      by_cases hj : j = r.count - 1
      · subst hj; simp
      · simp [hj]
  · intro i hi
    have hne : r.nameOf i ≠ r.nameOf r.base := fun e => by have := hinj _ _ e; omega
    show d'.get? (r.nameOf i) = _
    rw [hq, if_neg hne, if_neg (hfa _)]
    exact slot_applyShifts_other hinj _ d i (by omega)

/-- one roll on a window described as a list, newest first (see `C07_roll_window`) -/
theorem rollU32_window (r : RollerCfg) (file : Path) (d : Disk) (x : Bytes) (ws : List Bytes)
    (hg : r.base + r.count ≤ U32_MOD) (hc : r.count ≠ 0)
    (hinj : NamesInj r) (hfa : FileApart r file) (hw : WindowIs r d ws) :
    WindowIs r (rollU32 r file (fun _ => false) (d.set file x)).2 ((r.enc x :: ws).take r.count) ∧
      (rollU32 r file (fun _ => false) (d.set file x)).2.get? file = none := by
  have hx : (d.set file x).get? file = some x := Disk.get?_set_same _ _ _
  have hsl : ∀ i, slot r (d.set file x) i = slot r d i := fun i =>
    Disk.get?_set_ne _ _ (hfa i)
  obtain ⟨d', h0, h1, h2, h3, _⟩ := rollU32_general r file _ x hg hc hinj hfa hx
  rw [h0]
  refine ⟨fun j hj => ?_, h2⟩
  rw [List.getElem?_take, if_pos hj]
  cases j with
  | zero => simpa using h1
  | succ j =>
    rw [h3 (j + 1) (by omega) hj, hsl, hsl]
    rw [show r.base + (j + 1) - 1 = r.base + j from by omega, hw j (by omega), List.getElem?_cons_succ]
    cases hj' : ws[j]? with
    | some y => rfl
    | none =>
      have hlen : ws.length ≤ j := by simpa using hj'
      have : ws[j + 1]? = none := by simp; omega
      by_cases hlast : j + 1 = r.count - 1
      · simp only [hlast, if_true]; rw [← hlast, hw (j + 1) hj, this]
      · simp [hlast]

end Log4rs.Roller
