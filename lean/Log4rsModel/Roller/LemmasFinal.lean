import Log4rsModel.Roller.LemmasCrash
import Log4rsModel.Roller.FinalSplit
/-
The states inside the final step (Roller/FinalSplit.lean): a final step that wrote slot `base`,
failed, and removed what it wrote again leaves a disk with the guarantee of a step boundary.
-/
namespace Log4rs.Roller

theorem readBack_congr (dec : Bytes → Bytes) (r : RollerCfg) (file : Path) (d d' : Disk)
    (hs : ∀ j, j < r.count → slot r d' (r.base + j) = slot r d (r.base + j))
    (hf : d'.get? file = d.get? file) : readBack dec r file d' = readBack dec r file d := by
  unfold readBack
  rw [windowChunks_congr r d d' r.count hs, hf]

/-- the state before the final step: the reading is a suffix of the start, `retain` a suffix of it,
the rolled file is where it was, and slot `base` is free unless the window has one slot -/
theorem beforeFinal_facts {r : RollerCfg} (hinj : NamesInj r) {file : Path} (hfa : FileApart r file)
    (hc : r.count ≠ 0) (d : Disk) :
    (beforeFinal r file d).get? file = d.get? file ∧
      (slot r (beforeFinal r file d) r.base = none ∨ r.count = 1) ∧
      (r.count = 1 → beforeFinal r file d = d) := by
  have hk : r.count - 1 ≤ r.count - 1 := Nat.le_refl _
  have he : beforeFinal r file d = applyShiftsFrom r (r.count - 1) (r.count - 1) d := by
    unfold beforeFinal
    rw [crashAfter_eq r file _ d hc, if_pos hk]
  have hfree : DstFree r r.count (r.count - 1) d := Or.inr (by omega)
  obtain ⟨_, h2⟩ := shifts_prefix_suffix hinj r.count (r.count - 1) (r.count - 1) d hk (by omega) hfree
  refine ⟨?_, ?_, ?_⟩
  · rw [he]
    exact get?_applyShiftsFrom_other _ _ _ _ _ (fun j _ => (hfa _).symm)
  · rw [he]
    rw [Nat.sub_self] at h2
    rcases h2 with h | h
    · left; simpa using h
    · right; omega
  · intro h1
    rw [he, h1]
    rfl

/-- erasing slot `base` when it is free changes nothing in the reading -/
theorem readBack_erase_free {r : RollerCfg} (hinj : NamesInj r) {file : Path} (hfa : FileApart r file)
    (dec : Bytes → Bytes) (d : Disk) (h : slot r d r.base = none) :
    readBack dec r file (d.erase (r.nameOf r.base)) = readBack dec r file d := by
  apply readBack_congr
  · intro j _
    show (d.erase _).get? _ = d.get? _
    rw [Disk.get?_erase]
    by_cases hj : j = 0
    · subst hj
      simp only [Nat.add_zero, if_true]
      exact h.symm
    · have : r.nameOf (r.base + j) ≠ r.nameOf r.base := fun e => by have := hinj _ _ e; omega
      rw [if_neg this]
  · rw [Disk.get?_erase, if_neg (hfa _).symm]

/-- **a final step that fails half-way and removes its destination again is safe** (any window,
any compression): the reading is a suffix of the reading at the start of the rotation and keeps
everything the completed rotation retains -/
theorem failedFinal_discard_safe {r : RollerCfg} (hinj : NamesInj r) {file : Path}
    (hfa : FileApart r file) (dec : Bytes → Bytes) (hdec : ∀ x, dec (r.enc x) = x)
    (hc : r.count ≠ 0) (d : Disk) :
    readBack dec r file (failedFinal true r file d) <:+ readBack dec r file d ∧
      retain dec r file d <:+ readBack dec r file (failedFinal true r file d) := by
  obtain ⟨hfile, hslot, hone⟩ := beforeFinal_facts hinj hfa hc d
  have hsand := crash_sandwich hinj hfa dec hdec hc (r.count - 1) d
  unfold failedFinal
  cases hx : (beforeFinal r file d).get? file with
  | none => exact hsand
  | some c =>
    simp only [if_true]
    rcases hslot with hs | h1
    · rw [readBack_erase_free hinj hfa dec _ hs]
      exact hsand
    · -- a window of one slot: the old archive is the oldest chunk and is due for eviction
      have hd : beforeFinal r file d = d := hone h1
      rw [hd] at hx ⊢
      have hrb : readBack dec r file (d.erase (r.nameOf r.base)) = [c] := by
        unfold readBack
        rw [h1]
        simp only [windowChunks, Nat.add_zero]
        have e0 : slot r (d.erase (r.nameOf r.base)) r.base = none := by
          show (d.erase _).get? _ = none
          rw [Disk.get?_erase, if_pos rfl]
        rw [e0, Disk.get?_erase, if_neg (hfa _).symm, hx]
        rfl
      rw [hrb]
      refine ⟨?_, ?_⟩
      · unfold readBack
        rw [hx]
        exact List.suffix_append _ _
      · -- the completed rotation holds exactly the rolled chunk
        unfold retain
        rw [fixedWindowRoll_disk r file d hc, h1]
        show readBack dec r file (finalDisk r file (applyShifts r 0 d)) <:+ [c]
        simp only [applyShifts, finalDisk]
        obtain ⟨d', hd', hq⟩ := get?_finalStep_ok r.comp r.codec file (r.nameOf r.base) d c hx (hfa _)
        rw [hd']
        simp only
        have hb : slot r d' r.base = some (r.enc c) := by
          show d'.get? _ = _
          rw [hq, if_pos rfl]; rfl
        have hf : d'.get? file = none := by rw [hq]; simp [(hfa r.base).symm]
        unfold readBack
        rw [h1]
        simp only [windowChunks, Nat.add_zero, hb, hf, Option.toList_some, Option.toList_none,
          List.append_nil, List.map_cons, List.map_nil, hdec]
        exact List.suffix_refl _

end Log4rs.Roller
