import Log4rsModel.Roller.Crash
/-
The final step of a rotation is not atomic. `Roller/Model.lean` runs it as one step
(`finalStep`); this file adds the states INSIDE it, as definitions on top of the existing ones:

  plain move   `move_file(file, name(base))`: `rename`; when that fails with anything but NotFound,
               `fs::copy(file, dst)` and then `fs::remove_file(file)`
  compression  `File::open(file)`, `File::create(dst)`, copy + finish, `remove_file(file)`

  beforeFinal  all shifts done, the final step not started            (a step boundary)
  midFinal     the destination is written, the source still there     (NOT a step boundary)
  failedFinal  what a final step that got as far as `midFinal` and then failed leaves once its error
               handling has run: `discard = true` — the destination is removed again (the compressing
               arms since ec0831e, `discard_on_error`; the plain move since the repair of
               `C08/move-fallback-duplicates`); `discard = false` — the destination stays (the plain
               move before that repair)

A process death at `midFinal` is the crash point `rotate_point(u32::MAX - 1)` of the harness; a
FAULT there (the removal of the source fails) is produced for real by running the appender under a
uid that may not modify the directory of the log file.
-/
namespace Log4rs.Roller

/-- all shifts of the rotation done, the final step not started -/
def beforeFinal (r : RollerCfg) (file : Path) (d : Disk) : Disk := crashAfter r file (r.count - 1) d

/-- inside the final step: slot `base` written, the rolled file not yet removed (a missing file
never gets this far: `rename` answers NotFound, the codecs fail in `File::open`) -/
def midFinal (r : RollerCfg) (file : Path) (d : Disk) : Disk :=
  match (beforeFinal r file d).get? file with
  | none => beforeFinal r file d
  | some c => (beforeFinal r file d).set (r.nameOf r.base) (r.enc c)

/-- the disk a final step leaves that reached `midFinal` and then failed -/
def failedFinal (discard : Bool) (r : RollerCfg) (file : Path) (d : Disk) : Disk :=
  match (beforeFinal r file d).get? file with
  | none => beforeFinal r file d
  | some _ =>
    if discard then (beforeFinal r file d).erase (r.nameOf r.base) else midFinal r file d

structure FinalCfg where
  /-- `move_file`: when the copy fallback succeeded but the source cannot be removed, the copy is
  removed again (`true`, the code since the repair) or left in slot `base` (`false`, before) -/
  moveDiscardsCopy : Bool := true

/-- does the failing final step remove what it wrote -/
def FinalCfg.discards (f : FinalCfg) (r : RollerCfg) : Bool :=
  match r.comp with
  | .none => f.moveDiscardsCopy
  | _ => true

/-- `CompoundPolicy::process` when the rotation runs into a final step that cannot retire the log
file: every shift succeeds, the final step writes slot `base`, fails, and `roll` returns Err -/
def processRollPartial (f : FinalCfg) (c : AppCfg) (st : AppState) : AppRes × AppState :=
  (.err, { st with disk := failedFinal (f.discards c.roller) c.roller c.file st.disk,
                   writerOpen := false })

/-- `RollingFileAppender::append` whose trigger fires while the directory of the log file cannot be
modified (cf. `appendOp`) -/
def appendOpPartial (f : FinalCfg) (c : AppCfg) (rec : Bytes) (st : AppState) : AppRes × AppState :=
  let st := getWriter c st
  if c.pre then processRollPartial f c st
  else processRollPartial f c (writeRec c rec st)

end Log4rs.Roller
