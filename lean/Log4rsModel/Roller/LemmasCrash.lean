import Log4rsModel.Roller.Lemmas
import Log4rsModel.Roller.Crash
/-
Rotation facts for C08: every step of a rotation, executed in the state the previous steps left,
turns the oldest-to-newest reading into a suffix of itself (the only thing that can disappear is
the oldest chunk, and only when it is due for eviction). Hence every prefix of the steps (crash),
every failing step (fault) and the completed rotation are linked by the suffix order.
-/
namespace Log4rs.Roller

theorem windowChunks_congr (r : RollerCfg) (d d' : Disk) (n : Nat)
    (h : ∀ j, j < n → slot r d' (r.base + j) = slot r d (r.base + j)) :
    windowChunks r d' n = windowChunks r d n := by
  induction n with
  | zero => rfl
  | succ n ih =>
    simp only [windowChunks]
    rw [h n (by omega), ih (fun j hj => h j (by omega))]

/-- one shift `j → j+1` seen on the two slots it touches and everything below -/
theorem windowChunks_shift_top {r : RollerCfg} (hinj : NamesInj r) (j : Nat) (d : Disk) :
    windowChunks r (moveFile (r.nameOf (r.base + j)) (r.nameOf (r.base + j + 1)) d) (j + 2) <:+
        windowChunks r d (j + 2) ∧
    (slot r d (r.base + j + 1) = none →
      windowChunks r (moveFile (r.nameOf (r.base + j)) (r.nameOf (r.base + j + 1)) d) (j + 2) =
        windowChunks r d (j + 2)) := by
  have hs := fun i => slot_moveFile hinj (r.base + j) d i
  have hlow : windowChunks r (moveFile (r.nameOf (r.base + j)) (r.nameOf (r.base + j + 1)) d) j =
      windowChunks r d j := by
    apply windowChunks_congr
    intro i hi
    rw [hs]
    have n1 : ¬ i = j + 1 := by omega
    have n2 : ¬ i = j := by omega
    cases slot r d (r.base + j) <;> simp [n1, n2, Nat.add_assoc]
  have e1 := hs (r.base + j + 1)
  have e0 := hs (r.base + j)
  simp only [windowChunks, hlow]
  rw [show r.base + (j + 1) = r.base + j + 1 from by omega, e1, e0]
  cases hj : slot r d (r.base + j) with
  | none => simp
  | some y =>
    have n2 : ¬ r.base + j = r.base + j + 1 := by omega
    simp only [if_true, n2, if_false, Option.toList_some, Option.toList_none, List.nil_append]
    constructor
    · cases slot r d (r.base + j + 1) with
      | none => simp
      | some t => exact List.suffix_cons _ _
    · intro h; rw [h]; simp

theorem slot_shift_above {r : RollerCfg} (hinj : NamesInj r) (j i : Nat) (d : Disk)
    (h : r.base + j + 1 < i ∨ i < r.base + j) :
    slot r (moveFile (r.nameOf (r.base + j)) (r.nameOf (r.base + j + 1)) d) i = slot r d i := by
  rw [slot_moveFile hinj]
  have n1 : ¬ i = r.base + j + 1 := by omega
  have n2 : ¬ i = r.base + j := by omega
  cases slot r d (r.base + j) <;> simp [n1, n2]

/-- a shift into an empty slot changes nothing in the reading, whatever lies above -/
theorem windowChunks_shift_eq {r : RollerCfg} (hinj : NamesInj r) (j : Nat) (d : Disk)
    (hempty : slot r d (r.base + j + 1) = none) (n : Nat) (hn : j + 2 ≤ n) :
    windowChunks r (moveFile (r.nameOf (r.base + j)) (r.nameOf (r.base + j + 1)) d) n =
      windowChunks r d n := by
  induction n with
  | zero => omega
  | succ n ih =>
    by_cases h : n = j + 1
    · subst h; exact (windowChunks_shift_top hinj j d).2 hempty
    · simp only [windowChunks]
      rw [ih (by omega), slot_shift_above hinj j _ d (Or.inl (by omega))]

/-- the step lemma: a shift whose destination is empty, or is the last slot of the window, turns the
reading of the window into a suffix of itself -/
theorem windowChunks_shift_suffix {r : RollerCfg} (hinj : NamesInj r) (j n : Nat) (d : Disk)
    (hn : j + 2 ≤ n) (hdst : slot r d (r.base + j + 1) = none ∨ j + 2 = n) :
    windowChunks r (moveFile (r.nameOf (r.base + j)) (r.nameOf (r.base + j + 1)) d) n <:+
      windowChunks r d n := by
  rcases hdst with h | h
  · rw [windowChunks_shift_eq hinj j d h n hn]; exact List.suffix_refl _
  · subst h; exact (windowChunks_shift_top hinj j d).1

theorem slot_shift_src {r : RollerCfg} (hinj : NamesInj r) (j : Nat) (d : Disk) :
    slot r (moveFile (r.nameOf (r.base + j)) (r.nameOf (r.base + j + 1)) d) (r.base + j) = none := by
  rw [slot_moveFile hinj]
  have n2 : ¬ r.base + j = r.base + j + 1 := by omega
  cases h : slot r d (r.base + j) <;> simp [n2, h]

/-! ### a prefix of the shift phase -/

/-- the first `k` shifts of a phase of `m` shifts (`base+m-1 → base+m` first) -/
def applyShiftsFrom (r : RollerCfg) : Nat → Nat → Disk → Disk
  | _, 0, d => d
  | 0, _ + 1, d => d
  | m + 1, k + 1, d =>
    applyShiftsFrom r m k (moveFile (r.nameOf (r.base + m)) (r.nameOf (r.base + m + 1)) d)

theorem applyShiftsFrom_all (r : RollerCfg) (m : Nat) (d : Disk) :
    applyShiftsFrom r m m d = applyShifts r m d := by
  induction m generalizing d with
  | zero => rfl
  | succ m ih => simp only [applyShiftsFrom, applyShifts, ih]

theorem applyShifts_split (r : RollerCfg) (m k : Nat) (d : Disk) (hk : k ≤ m) :
    applyShifts r m d = applyShifts r (m - k) (applyShiftsFrom r m k d) := by
  induction m generalizing k d with
  | zero =>
    have : k = 0 := by omega
    subst this; rfl
  | succ m ih =>
    cases k with
    | zero => rfl
    | succ k =>
      simp only [applyShifts, applyShiftsFrom]
      rw [ih k _ (by omega)]
      congr 1
      omega

theorem runSteps_take_shifts (r : RollerCfg) (file : Path) (m : Nat) :
    ∀ (k : Nat) (k0 : Nat) (d : Disk), k ≤ m →
      runSteps r file (fun _ => false) k0 ((shiftSteps r.base m).take k) d =
        (.ok (applyShiftsFrom r m k d), applyShiftsFrom r m k d) := by
  induction m with
  | zero => intro k k0 d hk; have : k = 0 := by omega
            subst this; rfl
  | succ m ih =>
    intro k k0 d hk
    cases k with
    | zero => rfl
    | succ k =>
      rw [shiftSteps_succ, List.take_succ_cons]
      show (if false = true then _ else _) = _
      simp only [Bool.false_eq_true, if_false, applyStep]
      exact ih k (k0 + 1) _ (by omega)

theorem get?_applyShiftsFrom_other (r : RollerCfg) (m k : Nat) (d : Disk) (q : Path)
    (h : ∀ j, j ≤ m → q ≠ r.nameOf (r.base + j)) : (applyShiftsFrom r m k d).get? q = d.get? q := by
  induction m generalizing k d with
  | zero => cases k <;> rfl
  | succ m ih =>
    cases k with
    | zero => rfl
    | succ k =>
      simp only [applyShiftsFrom]
      rw [ih _ _ (fun j hj => h j (by omega))]
      exact get?_moveFile_other _ _ _ _ (h m (by omega))
        (by have := h (m + 1) (by omega); simpa [Nat.add_assoc] using this)

/-- the invariant of the shift phase: the destination of the next shift is empty, or it is the
last slot of the window -/
def DstFree (r : RollerCfg) (n m : Nat) (d : Disk) : Prop :=
  slot r d (r.base + m) = none ∨ m + 1 = n

theorem shifts_prefix_suffix {r : RollerCfg} (hinj : NamesInj r) (n : Nat) (m : Nat) :
    ∀ (k : Nat) (d : Disk), k ≤ m → m + 1 ≤ n → DstFree r n m d →
      windowChunks r (applyShiftsFrom r m k d) n <:+ windowChunks r d n ∧
        DstFree r n (m - k) (applyShiftsFrom r m k d) := by
  induction m with
  | zero =>
    intro k d hk _ hfree
    have : k = 0 := by omega
    subst this
    exact ⟨List.suffix_refl _, hfree⟩
  | succ m ih =>
    intro k d hk hn hfree
    cases k with
    | zero => exact ⟨List.suffix_refl _, hfree⟩
    | succ k =>
      simp only [applyShiftsFrom]
      have hstep := windowChunks_shift_suffix hinj m n d (by omega) (by
        rcases hfree with h | h
        · left; rw [show r.base + m + 1 = r.base + (m + 1) from by omega]; exact h
        · right; omega)
      have hfree1 : DstFree r n m
          (moveFile (r.nameOf (r.base + m)) (r.nameOf (r.base + m + 1)) d) :=
        Or.inl (slot_shift_src hinj m d)
      obtain ⟨h1, h2⟩ := ih k _ (by omega) (by omega) hfree1
      refine ⟨List.IsSuffix.trans h1 hstep, ?_⟩
      rw [show m + 1 - (k + 1) = m - k from by omega]
      exact h2

end Log4rs.Roller

namespace Log4rs.Roller

/-! ### the last step -/

/-- archives at indices `base+n, …, base+1` (oldest first): the window without slot `base` -/
def upperChunks (r : RollerCfg) (d : Disk) : Nat → List Bytes
  | 0 => []
  | n + 1 => (slot r d (r.base + n + 1)).toList ++ upperChunks r d n

theorem windowChunks_succ_eq (r : RollerCfg) (d : Disk) (n : Nat) :
    windowChunks r d (n + 1) = upperChunks r d n ++ (slot r d r.base).toList := by
  induction n with
  | zero => simp [windowChunks, upperChunks]
  | succ n ih =>
    rw [windowChunks, ih, upperChunks, List.append_assoc]
    rfl

theorem upperChunks_congr (r : RollerCfg) (d d' : Disk) (n : Nat)
    (h : ∀ j, j < n → slot r d' (r.base + j + 1) = slot r d (r.base + j + 1)) :
    upperChunks r d' n = upperChunks r d n := by
  induction n with
  | zero => rfl
  | succ n ih =>
    simp only [upperChunks]
    rw [h n (by omega), ih (fun j hj => h j (by omega))]

/-- the disk after the last step (unchanged when the step fails) -/
def finalDisk (r : RollerCfg) (file : Path) (d : Disk) : Disk :=
  match finalStep r.comp r.codec file (r.nameOf r.base) d with
  | .ok d' => d'
  | .error _ => d

theorem runSteps_final (r : RollerCfg) (file : Path) (k : Nat) (d : Disk) :
    (runSteps r file (fun _ => false) k [Step.final] d).2 = finalDisk r file d := by
  unfold runSteps
  simp only [Bool.false_eq_true, if_false, applyStep, finalDisk]
  cases finalStep r.comp r.codec file (r.nameOf r.base) d <;> rfl

theorem suffix_readBack {dec : Bytes → Bytes} {a b : List Bytes} (c : List Bytes) (h : a <:+ b) :
    a.map dec ++ c <:+ b.map dec ++ c := by
  obtain ⟨t, ht⟩ := h
  exact ⟨t.map dec, by rw [← ht, List.map_append, List.append_assoc]⟩

/-- the last step keeps the reading, except that with a window of one slot the old archive (the
oldest chunk) is replaced -/
theorem readBack_finalDisk {r : RollerCfg} (hinj : NamesInj r) {file : Path} (hfa : FileApart r file)
    (dec : Bytes → Bytes) (hdec : ∀ x, dec (r.enc x) = x) (d : Disk) (hc : r.count ≠ 0)
    (hfree : DstFree r r.count 0 d) :
    readBack dec r file (finalDisk r file d) <:+ readBack dec r file d := by
  unfold finalDisk
  cases hx : d.get? file with
  | none =>
    cases hcomp : r.comp with
    | none => simp only [finalStep, moveFile, hx]; exact List.suffix_refl _
    | gzip => simp only [finalStep, hx]; exact List.suffix_refl _
    | zstd => simp only [finalStep, hx]; exact List.suffix_refl _
  | some x =>
    obtain ⟨d', hd', hq⟩ := get?_finalStep_ok r.comp r.codec file (r.nameOf r.base) d x hx (hfa _)
    rw [hd']
    simp only
    obtain ⟨n, hn⟩ : ∃ n, r.count = n + 1 := ⟨r.count - 1, by omega⟩
    have hb : slot r d' r.base = some (r.enc x) := by
      show d'.get? _ = _
      rw [hq, if_pos rfl]; rfl
    have hf : d'.get? file = none := by rw [hq]; simp [(hfa r.base).symm]
    have hup : upperChunks r d' n = upperChunks r d n := by
      apply upperChunks_congr
      intro j _
      have hne : r.nameOf (r.base + j + 1) ≠ r.nameOf r.base := fun e => by have := hinj _ _ e; omega
      show d'.get? _ = d.get? _
      rw [hq, if_neg hne, if_neg (hfa _)]
    simp only [readBack, hn, windowChunks_succ_eq, hb, hf, hup, hx, List.map_append,
      Option.toList_some, Option.toList_none, List.map_cons, List.map_nil, hdec, List.append_nil]
    rcases hfree with h | h
    · simp only [Nat.add_zero] at h
      rw [h]; simp
    · have : n = 0 := by omega
      subst this
      simp only [upperChunks, List.map_nil, List.nil_append]
      cases slot r d r.base with
      | none => simp
      | some t => simp

/-! ### finishing a rotation from any intermediate state -/

/-- run the remaining `m` shifts and the last step -/
def finish (r : RollerCfg) (file : Path) (m : Nat) (d : Disk) : Disk :=
  finalDisk r file (applyShifts r m d)

theorem readBack_finish {r : RollerCfg} (hinj : NamesInj r) {file : Path} (hfa : FileApart r file)
    (dec : Bytes → Bytes) (hdec : ∀ x, dec (r.enc x) = x) (m : Nat) (d : Disk)
    (hm : m + 1 ≤ r.count) (hfree : DstFree r r.count m d) :
    readBack dec r file (finish r file m d) <:+ readBack dec r file d := by
  obtain ⟨h1, h2⟩ := shifts_prefix_suffix hinj r.count m m d (Nat.le_refl _) hm hfree
  rw [applyShiftsFrom_all, Nat.sub_self] at *
  have hfile : (applyShifts r m d).get? file = d.get? file :=
    get?_applyShifts_other _ _ _ _ (fun j _ => (hfa _).symm)
  have step1 : readBack dec r file (applyShifts r m d) <:+ readBack dec r file d := by
    simp only [readBack, hfile]
    exact suffix_readBack _ h1
  exact List.IsSuffix.trans (readBack_finalDisk hinj hfa dec hdec _ (by omega) h2) step1

theorem fixedWindowRoll_disk (r : RollerCfg) (file : Path) (d : Disk) (hc : r.count ≠ 0) :
    (fixedWindowRoll r file (fun _ => false) d).2 = finish r file (r.count - 1) d := by
  unfold fixedWindowRoll
  rw [if_neg hc, steps_eq, runSteps_shifts r file _ _ 0 _ d (fun _ _ _ => rfl), runSteps_final]
  rfl

theorem length_shiftSteps (b m : Nat) : (shiftSteps b m).length = m := by simp [shiftSteps]

/-- the disk after `k` completed steps, as a pure function -/
theorem crashAfter_eq (r : RollerCfg) (file : Path) (k : Nat) (d : Disk) (hc : r.count ≠ 0) :
    crashAfter r file k d =
      if k ≤ r.count - 1 then applyShiftsFrom r (r.count - 1) k d else finish r file (r.count - 1) d := by
  unfold crashAfter
  rw [if_neg hc, steps_eq]
  by_cases hk : k ≤ r.count - 1
  · rw [if_pos hk, List.take_append_of_le_length (by rw [length_shiftSteps]; exact hk),
      runSteps_take_shifts r file _ k 0 d hk]
  · rw [if_neg hk, List.take_of_length_le (by simp [length_shiftSteps]; omega),
      runSteps_shifts r file _ _ 0 _ d (fun _ _ _ => rfl), runSteps_final]
    rfl

/-- **crash safety of the roller**: after any number `k` of completed steps the reading is a
suffix of the reading before the rotation, and the reading of the completed rotation (`retain`) is
a suffix of it. -/
theorem crash_sandwich {r : RollerCfg} (hinj : NamesInj r) {file : Path} (hfa : FileApart r file)
    (dec : Bytes → Bytes) (hdec : ∀ x, dec (r.enc x) = x) (hc : r.count ≠ 0) (k : Nat) (d : Disk) :
    readBack dec r file (crashAfter r file k d) <:+ readBack dec r file d ∧
      retain dec r file d <:+ readBack dec r file (crashAfter r file k d) := by
  have hfree : DstFree r r.count (r.count - 1) d := Or.inr (by omega)
  unfold retain
  rw [crashAfter_eq r file k d hc, fixedWindowRoll_disk r file d hc]
  by_cases hk : k ≤ r.count - 1
  · rw [if_pos hk]
    obtain ⟨h1, h2⟩ := shifts_prefix_suffix hinj r.count (r.count - 1) k d hk (by omega) hfree
    have hfile : (applyShiftsFrom r (r.count - 1) k d).get? file = d.get? file :=
      get?_applyShiftsFrom_other _ _ _ _ _ (fun j _ => (hfa _).symm)
    refine ⟨?_, ?_⟩
    · simp only [readBack, hfile]; exact suffix_readBack _ h1
    · have : finish r file (r.count - 1) d =
          finish r file (r.count - 1 - k) (applyShiftsFrom r (r.count - 1) k d) := by
        unfold finish; rw [applyShifts_split r (r.count - 1) k d hk]
      rw [this]
      exact readBack_finish hinj hfa dec hdec _ _ (by omega) h2
  · rw [if_neg hk]
    exact ⟨readBack_finish hinj hfa dec hdec _ d (by omega) hfree, List.suffix_refl _⟩

end Log4rs.Roller

namespace Log4rs.Roller

/-! ### a failing step leaves a crash state -/

theorem runSteps_nofault_k (r : RollerCfg) (file : Path) :
    ∀ (ss : List Step) (k : Nat) (d : Disk),
      runSteps r file (fun _ => false) k ss d = runSteps r file (fun _ => false) 0 ss d := by
  intro ss
  induction ss with
  | nil => intro k d; rfl
  | cons s rest ih =>
    intro k d
    unfold runSteps
    simp only [Bool.false_eq_true, if_false]
    cases applyStep r file s d with
    | error e => rfl
    | ok d' => simp only; rw [ih (k + 1), ih (0 + 1)]

theorem runSteps_cons_ok (r : RollerCfg) (file : Path) (fault : Nat → Bool) (k : Nat) (s : Step)
    (rest : List Step) (d d' : Disk) (hf : fault k = false) (hst : applyStep r file s d = .ok d') :
    runSteps r file fault k (s :: rest) d = runSteps r file fault (k + 1) rest d' := by
  rw [runSteps]
  simp only [hf, Bool.false_eq_true, if_false, hst]

theorem runSteps_fault_disk (r : RollerCfg) (file : Path) (fault : Nat → Bool) :
    ∀ (ss : List Step) (k0 : Nat) (d : Disk),
      ∃ j, (runSteps r file fault k0 ss d).2 = (runSteps r file (fun _ => false) 0 (ss.take j) d).2 := by
  intro ss
  induction ss with
  | nil => intro k0 d; exact ⟨0, rfl⟩
  | cons s rest ih =>
    intro k0 d
    unfold runSteps
    by_cases hf : fault k0 = true
    · exact ⟨0, by simp [hf, runSteps]⟩
    · simp only [hf, Bool.false_eq_true, if_false]
      cases hst : applyStep r file s d with
      | error e => exact ⟨0, by simp [runSteps]⟩
      | ok d' =>
        obtain ⟨j, hj⟩ := ih (k0 + 1) d'
        refine ⟨j + 1, ?_⟩
        simp only [List.take_succ_cons, hj]
        rw [hst]
        simp only
        rw [runSteps_nofault_k r file _ (0 + 1)]

/-- whatever step fails, the disk the roller leaves is the disk after some number of completed
steps — a crash state -/
theorem fault_is_crash (r : RollerCfg) (file : Path) (fault : Nat → Bool) (d : Disk) :
    ∃ k, (fixedWindowRoll r file fault d).2 = crashAfter r file k d := by
  unfold fixedWindowRoll crashAfter
  by_cases hc : r.count = 0
  · simp only [hc, if_true]
    by_cases hf : fault 0 = true
    · exact ⟨0, by simp [hf]⟩
    · simp only [hf, Bool.false_eq_true, if_false]
      cases d.get? file with
      | none => exact ⟨0, by simp⟩
      | some x => exact ⟨1, by simp⟩
  · simp only [hc, if_false]
    exact runSteps_fault_disk r file fault _ 0 d

/-! ### recovery: rolls from an arbitrary window -/

/-- the newest slots hold the list `ws` (newest first); nothing is said about the rest -/
def WindowPrefix (r : RollerCfg) (d : Disk) (ws : List Bytes) : Prop :=
  ∀ j, j < ws.length → j < r.count → slot r d (r.base + j) = ws[j]?

theorem rollU32_prefix (r : RollerCfg) (file : Path) (d : Disk) (x : Bytes) (ws : List Bytes)
    (hg : r.base + r.count ≤ U32_MOD) (hc : r.count ≠ 0)
    (hinj : NamesInj r) (hfa : FileApart r file) (hw : WindowPrefix r d ws) :
    (rollU32 r file (fun _ => false) (d.set file x)).1.isOk = true ∧
    WindowPrefix r (rollU32 r file (fun _ => false) (d.set file x)).2 (r.enc x :: ws) ∧
      (rollU32 r file (fun _ => false) (d.set file x)).2.get? file = none := by
  have hx : (d.set file x).get? file = some x := Disk.get?_set_same _ _ _
  have hsl : ∀ i, slot r (d.set file x) i = slot r d i := fun i => Disk.get?_set_ne _ _ (hfa i)
  obtain ⟨d', h0, h1, h2, h3, _⟩ := rollU32_general r file _ x hg hc hinj hfa hx
  rw [h0]
  refine ⟨rfl, fun j hj hjc => ?_, h2⟩
  cases j with
  | zero => simpa using h1
  | succ j =>
    simp only [List.length_cons] at hj
    rw [h3 (j + 1) (by omega) hjc, hsl, show r.base + (j + 1) - 1 = r.base + j from by omega,
      hw j (by omega) (by omega), List.getElem?_cons_succ]
    rw [List.getElem?_eq_getElem (by omega)]

theorem rollMany_prefix (r : RollerCfg) (file : Path)
    (hg : r.base + r.count ≤ U32_MOD) (hc : r.count ≠ 0)
    (hinj : NamesInj r) (hfa : FileApart r file) (xs : List Bytes) :
    ∀ (d : Disk) (ws : List Bytes), WindowPrefix r d ws →
      WindowPrefix r (rollMany r file xs d) (xs.reverse.map r.enc ++ ws) := by
  induction xs with
  | nil => intro d ws hw; simpa [rollMany] using hw
  | cons x xs ih =>
    intro d ws hw
    have := ih _ _ (rollU32_prefix r file d x ws hg hc hinj hfa hw).2.1
    simpa [rollMany, List.reverse_cons, List.map_append] using this

end Log4rs.Roller

namespace Log4rs.Roller

/-! ### the appender continuation -/

theorem flat_suffix {a b : List Bytes} (h : a <:+ b) : flat a <:+ flat b := by
  obtain ⟨t, ht⟩ := h
  exact ⟨flat t, by rw [← ht]; simp [flat]⟩

theorem windowChunks_set_file {r : RollerCfg} {file : Path} (hfa : FileApart r file) (d : Disk)
    (v : Bytes) (n : Nat) : windowChunks r (d.set file v) n = windowChunks r d n :=
  windowChunks_congr r d _ n (fun j _ => Disk.get?_set_ne _ _ (hfa _))

theorem readBack_set_file {r : RollerCfg} {file : Path} (hfa : FileApart r file) (dec : Bytes → Bytes)
    (d : Disk) (v : Bytes) :
    readBack dec r file (d.set file v) = (windowChunks r d r.count).map dec ++ [v] := by
  simp [readBack, windowChunks_set_file hfa]

/-- reopening without truncation keeps the stream (it may add an empty active file) -/
theorem stream_reopen_keep {r : RollerCfg} {file : Path} (hfa : FileApart r file) (dec : Bytes → Bytes)
    (d : Disk) : flat (readBack dec r file (reopen false file d)) = flat (readBack dec r file d) := by
  unfold reopen
  simp only [Bool.false_eq_true, if_false]
  cases h : d.get? file with
  | some v => rfl
  | none =>
    simp only
    rw [readBack_set_file hfa]
    simp [readBack, h, flat]

/-- writing a record appends it to the stream -/
theorem stream_writeRec (c : AppCfg) (hfa : FileApart c.roller c.file) (dec : Bytes → Bytes)
    (rec : Bytes) (st : AppState) :
    flat (readBack dec c.roller c.file (writeRec c rec st).disk) =
      flat (readBack dec c.roller c.file st.disk) ++ rec := by
  simp only [writeRec]
  rw [readBack_set_file hfa]
  cases h : st.disk.get? c.file with
  | none => simp [readBack, h, flat]
  | some v => simp [readBack, h, flat]

theorem getWriter_keep (c : AppCfg) (hfa : FileApart c.roller c.file) (dec : Bytes → Bytes)
    (st : AppState) (h : st.writerOpen = true ∨ c.truncates st = false) :
    flat (readBack dec c.roller c.file (getWriter c st).disk) =
      flat (readBack dec c.roller c.file st.disk) := by
  unfold getWriter
  by_cases hw : st.writerOpen = true
  · simp [hw]
  · have ht : c.truncates st = false := by
      rcases h with h | h
      · exact absurd h hw
      · exact h
    simp only [hw, Bool.false_eq_true, if_false, ht]
    exact stream_reopen_keep hfa dec _

/-- `processRoll` inside the `u32` guard, in terms of the shared roller model -/
theorem processRoll_guarded (c : AppCfg) (fault : Nat → Bool) (st : AppState)
    (hg : c.roller.base + c.roller.count ≤ U32_MOD) :
    processRoll c fault st =
      (match (fixedWindowRoll c.roller c.file fault st.disk).1 with
        | .ok _ => AppRes.ok
        | .error _ => AppRes.err,
       { st with disk := (fixedWindowRoll c.roller c.file fault st.disk).2, writerOpen := false }) := by
  unfold processRoll
  rw [rollU32_guarded _ _ _ _ hg]
  rcases fixedWindowRoll c.roller c.file fault st.disk with ⟨res, d''⟩
  cases res <;> rfl

/-- the append whose roll fails: its result is `err`, never a panic; the disk it leaves is a crash
state of the rotation that started on `rotationStart`; the writer is closed -/
theorem appendOp_roll_outcome (c : AppCfg) (fault : Nat → Bool) (rec : Bytes) (st : AppState)
    (hg : c.roller.base + c.roller.count ≤ U32_MOD)
    (hinv : st.writerOpen = true → st.openedOnce = true) :
    (appendOp c fault true rec st).1 ≠ .panic ∧
    ((appendOp c fault true rec st).1 = .err →
      (∃ k, (appendOp c fault true rec st).2.disk =
          crashAfter c.roller c.file k (rotationStart c rec st).disk) ∧
        (appendOp c fault true rec st).2.writerOpen = false ∧
        (appendOp c fault true rec st).2.openedOnce = true) := by
  obtain ⟨k, hk⟩ := fault_is_crash c.roller c.file fault (rotationStart c rec st).disk
  unfold appendOp rotationStart at *
  cases hp : c.pre with
  | true =>
    simp only [hp, if_true] at hk ⊢
    rw [processRoll_guarded _ _ _ hg]
    cases hres : (fixedWindowRoll c.roller c.file fault (getWriter c st).disk).1 with
    | ok v => simp
    | error e =>
      simp only [ne_eq, reduceCtorEq, not_false_eq_true, true_and, forall_const]
      refine ⟨⟨k, hk⟩, ?_⟩
      unfold getWriter
      by_cases hw : st.writerOpen = true <;> simp [hw, hinv]
  | false =>
    simp only [hp, Bool.false_eq_true, if_false, if_true] at hk ⊢
    rw [processRoll_guarded _ _ _ hg]
    cases hres : (fixedWindowRoll c.roller c.file fault (writeRec c rec (getWriter c st)).disk).1 with
    | ok v => simp
    | error e =>
      simp only [ne_eq, reduceCtorEq, not_false_eq_true, true_and, forall_const]
      refine ⟨⟨k, hk⟩, ?_⟩
      simp only [writeRec]
      unfold getWriter
      by_cases hw : st.writerOpen = true <;> simp [hw, hinv]

end Log4rs.Roller

namespace Log4rs.Roller

theorem mem_windowChunks (r : RollerCfg) (d : Disk) (n : Nat) (y : Bytes) :
    y ∈ windowChunks r d n ↔ ∃ j, j < n ∧ slot r d (r.base + j) = some y := by
  induction n with
  | zero => simp [windowChunks]
  | succ n ih =>
    simp only [windowChunks, List.mem_append, ih, Option.mem_toList]
    constructor
    · rintro (h | ⟨j, hj, h⟩)
      · exact ⟨n, by omega, h⟩
      · exact ⟨j, by omega, h⟩
    · rintro ⟨j, hj, h⟩
      by_cases hjn : j = n
      · subst hjn; exact Or.inl h
      · exact Or.inr ⟨j, by omega, h⟩

/-- a chunk of the reading is stored under a window name or at the active path -/
theorem mem_readBack (dec : Bytes → Bytes) (r : RollerCfg) (file : Path) (d : Disk) (y : Bytes) :
    y ∈ readBack dec r file d ↔
      (∃ j z, j < r.count ∧ slot r d (r.base + j) = some z ∧ dec z = y) ∨ d.get? file = some y := by
  simp only [readBack, List.mem_append, List.mem_map, mem_windowChunks, Option.mem_toList]
  constructor
  · rintro (⟨z, ⟨j, hj, hz⟩, hy⟩ | h)
    · exact Or.inl ⟨j, z, hj, hz, hy⟩
    · exact Or.inr h
  · rintro (⟨j, z, hj, hz, hy⟩ | h)
    · exact Or.inl ⟨z, ⟨j, hj, hz⟩, hy⟩
    · exact Or.inr h

end Log4rs.Roller
