import Log4rsModel.Roller.Spec
/-
C08 at the level of the roller, plus the smallest appender continuation that the property needs.

  retain            what the *completed* rotation would still hold, read oldest-to-newest
  crashAfter        (Roller/Model.lean) the disk after k completed steps
  App*              `RollingFileAppender::append` / `get_writer` / `CompoundPolicy::process` reduced
                    to what matters here: the writer is `None` after `LogFile::roll` whether or not
                    the roller succeeded, and is reopened with the appender's open options
                    (`append(a).truncate(!a)`) on the next use — on EVERY reopen (defect F10), which
                    the flag `truncateEveryReopen` makes switchable: `true` = the code as it is,
                    `false` = truncate only at the first open of the appender's life.
  checkHistory      executable reading of the C08 statement on observed snapshots.

The trigger is a scripted answer per append (pre- or post-process). Records are raw bytes; the
BufWriter is flushed at the end of every append, so the file content after an append is exact.
-/
namespace Log4rs.Roller

/-- what the completed (fault-free) rotation started on `d` retains, oldest first -/
def retain (dec : Bytes → Bytes) (r : RollerCfg) (file : Path) (d : Disk) : List Bytes :=
  readBack dec r file (fixedWindowRoll r file (fun _ => false) d).2

inductive OpenMode where
  | append | truncate
  deriving Repr, DecidableEq

structure AppCfg where
  mode : OpenMode
  pre : Bool
  file : Path
  roller : RollerCfg
  /-- `true`: `get_writer` truncates on every reopen when `append(false)` (the code today, F10) -/
  truncateEveryReopen : Bool := false

structure AppState where
  disk : Disk
  writerOpen : Bool
  /-- this appender object has opened its file before -/
  openedOnce : Bool

inductive AppRes where
  | ok | err | panic
  deriving Repr, DecidableEq

/-- `OpenOptions::new().write(true).append(a).truncate(!a).create(true).open(path)` -/
def reopen (truncate : Bool) (file : Path) (d : Disk) : Disk :=
  if truncate then d.set file []
  else match d.get? file with
    | some _ => d
    | none => d.set file []

def AppCfg.truncates (c : AppCfg) (st : AppState) : Bool :=
  match c.mode with
  | .append => false
  | .truncate => c.truncateEveryReopen || !st.openedOnce

/-- `get_writer` -/
def getWriter (c : AppCfg) (st : AppState) : AppState :=
  if st.writerOpen then st
  else { disk := reopen (c.truncates st) c.file st.disk, writerOpen := true, openedOnce := true }

/-- encode + flush through the open writer -/
def writeRec (c : AppCfg) (rec : Bytes) (st : AppState) : AppState :=
  { st with disk := st.disk.set c.file ((st.disk.get? c.file).getD [] ++ rec) }

/-- `CompoundPolicy::process` when the trigger answers `true`: `log.roll()` drops the writer, then
the roller runs (with this rotation's fault oracle) -/
def processRoll (c : AppCfg) (fault : Nat → Bool) (st : AppState) : AppRes × AppState :=
  match rollU32 c.roller c.file fault st.disk with
  | (.ok _, d) => (.ok, { st with disk := d, writerOpen := false })
  | (.err _, d) => (.err, { st with disk := d, writerOpen := false })
  | (.panic _, d) => (.panic, { st with disk := d, writerOpen := false })

/-- `RollingFileAppender::append` with the trigger's answer for this record given -/
def appendOp (c : AppCfg) (fault : Nat → Bool) (answer : Bool) (rec : Bytes) (st : AppState) :
    AppRes × AppState :=
  let st := getWriter c st
  if c.pre then
    if answer then
      match processRoll c fault st with
      | (.ok, st') => (.ok, writeRec c rec (getWriter c st'))
      | (e, st') => (e, st')
    else (.ok, writeRec c rec st)
  else
    let st := writeRec c rec st
    if answer then processRoll c fault st else (.ok, st)

/-- a new appender object on the same disk: the builder opens the file immediately -/
def restartOp (c : AppCfg) (d : Disk) : AppState :=
  getWriter c { disk := d, writerOpen := false, openedOnce := false }

/-- the disk at the moment the rotation of an append starts (after the reopen, and after the write
for a post-process trigger) -/
def rotationStart (c : AppCfg) (rec : Bytes) (st : AppState) : AppState :=
  let st := getWriter c st
  if c.pre then st else writeRec c rec st

/-! ### executable specification on observed snapshots -/

def flat (xs : List Bytes) : Bytes := xs.flatten

/-- oldest-to-newest bytes of a snapshot (archives already decoded by the observer) -/
def streamOf (r : RollerCfg) (file : Path) (d : Disk) : Bytes := flat (readBack id r file d)

def isSuffix (a b : Bytes) : Bool := a.isSuffixOf b

structure OpObs where
  res : String                  -- ok | err | PANIC | crash | rs:ok | rs:err | o:placed | o:skip | u
  boundaries : List Disk        -- snapshots at the step boundaries of the rotation (hook points)
  final : Disk

inductive Op where
  | append (rec : Bytes) (answer : Bool)
  | restart
  | obstacle
  | unobstacle
  /-- background rotation: wait until no rotation thread is left, then look at the disk -/
  | quiesce
  /-- from here on the process may not modify the directory of the log file (it runs under a uid
  that owns the log file and the archive directory only) … -/
  | protect
  /-- … until here -/
  | unprotect
  /-- from here on the archive directory is on another filesystem: `rename` of the log file into it
  is refused (EXDEV) and `move_file` takes its copy + remove fallback; the meaning of a move is the
  same -/
  | crossMount
  deriving Repr, DecidableEq

structure SpecCtx where
  cfg : AppCfg
  /-- is a fault injected into the n-th rotation attempt -/
  injected : Nat → Bool
  obstaclePath : Path
  /-- the crash image of the n-th attempt is taken INSIDE the compressing final step (between the
  copy into slot `base` and the removal of the source), not at a step boundary -/
  crashMid : Nat → Bool := fun _ => false

structure SpecState where
  prev : Disk
  attempts : Nat
  /-- the writer was closed by a roll that failed, and not reopened since (same appender) -/
  afterFailedRoll : Bool
  /-- the directory of the log file may not be modified (between the ops `p` and `v`) -/
  prot : Bool := false
  /-- a rotation failed or was interrupted and none has completed since: the active file still holds
  the chunk the completed rotation would have archived -/
  pending : Bool := false

/-- a different failure later in the history is reported in preference to a recorded finding -/
def orElse (rest : Option (String × String)) (k : String × String) : Option (String × String) :=
  match rest with
  | some f => some f
  | none => some k

/-- the disk with the active file removed (what a `append(false)` appender deliberately discards
when it is *built*) -/
def withoutActive (file : Path) (d : Disk) : Disk := d.erase file

/-- sandwich: the completed rotation's retained bytes ⊑ now ⊑ the stream at rotation start -/
def sandwich (r : RollerCfg) (file : Path) (start now : Disk) : Bool :=
  isSuffix (flat (retain id r file start)) (streamOf r file now) &&
    isSuffix (streamOf r file now) (streamOf r file start)

/-- the first half of the sandwich: nothing the completed rotation retains is missing -/
def keepsRetained (r : RollerCfg) (file : Path) (start now : Disk) : Bool :=
  isSuffix (flat (retain id r file start)) (streamOf r file now)

/-- expected disk at rotation start, from the previous snapshot, when no data may be lost -/
def expectedStart (c : AppCfg) (rec : Bytes) (prev : Disk) : Disk :=
  let d := match prev.get? c.file with
    | some _ => prev
    | none => prev.set c.file []
  if c.pre then d else d.set c.file ((d.get? c.file).getD [] ++ rec)

def lossSig (c : AppCfg) (s : SpecState) : String :=
  if c.mode = .truncate && s.afterFailedRoll then "C08/truncate-reopen-after-failed-roll"
  else "C08/acknowledged-data-lost"

/-- `none` = the statement holds on this history; `some (clause, sig)` otherwise -/
def checkHistory (x : SpecCtx) : SpecState → List (Op × OpObs) → Option (String × String)
  | _, [] => none
  | s, (op, o) :: rest =>
    let c := x.cfg
    let r := c.roller
    match op with
    | .quiesce => checkHistory x { s with prev := o.final } rest
    | .obstacle | .unobstacle =>
      if (withoutActive x.obstaclePath o.final).files.all (fun e => s.prev.get? e.1 = some e.2) &&
          (withoutActive x.obstaclePath s.prev).files.all (fun e => o.final.get? e.1 = some e.2)
      then checkHistory x { s with prev := o.final } rest
      else some ("placing the obstacle changed other files", "C08/harness")
    | .protect | .unprotect | .crossMount =>
      if streamOf r c.file o.final ≠ streamOf r c.file s.prev then
        some ("setting the scene changed the stream", "C08/harness")
      else checkHistory x { s with prev := o.final, prot := (op == .protect || (s.prot && op == .crossMount)) } rest
    | .restart =>
      if o.res ≠ "rs:ok" then some ("a restarted appender cannot open its file", "C08/restart-failed")
      else
        -- `append(false)` discards the active file when the appender is built: that is what the
        -- user configured — unless the active file still holds the chunk of a rotation that failed
        -- or was interrupted (`pending`): the statement promises that chunk to a restarted appender
        let exempt := c.mode = .truncate && !s.pending
        let keep := if exempt then withoutActive c.file s.prev else s.prev
        let next := checkHistory x { prev := o.final, attempts := s.attempts, afterFailedRoll := false, prot := s.prot, pending := (s.pending && c.mode = .append) } rest
        if streamOf r c.file o.final ≠ streamOf r c.file keep then
          if c.mode = .truncate && s.pending &&
              streamOf r c.file o.final = streamOf r c.file (withoutActive c.file s.prev) then
            orElse next ("a restarted append(false) appender truncated the chunk of a failed or interrupted rotation",
              "C08/truncate-restart-after-interrupted-roll")
          else some ("restart lost acknowledged data", "C08/restart-loses-data")
        else next
    | .append rec answer =>
      if o.res = "PANIC" then some ("append panicked", "C08/panic")
      else if !answer then
        -- no rotation: the record is appended, nothing else changes
        if o.res ≠ "ok" then some ("append failed although nothing obstructs", "C08/append-failed")
        else if streamOf r c.file o.final ≠ streamOf r c.file s.prev ++ rec then
          some ("acknowledged data lost or altered by a plain append", lossSig c s)
        else checkHistory x { s with prev := o.final, afterFailedRoll := false } rest
      else
        let n := s.attempts
        let start := expectedStart c rec s.prev
        let isCrash := o.res = "crash"
        -- (1) the rotation starts from a disk that still holds everything
        match o.boundaries.head? with
        | some b0 =>
          -- what obstructs this rotation: an injected fault, the obstacle (a non-empty directory at
          -- the top archive name, which stops the first step when that step has something to move),
          -- or a directory the process may not modify (the final step cannot retire the log file)
          let obstructs := b0.has x.obstaclePath &&
            (r.count = 1 || (slot r b0 (r.base + r.count - 2)).isSome)
          let mustFail := x.injected n || obstructs || s.prot
          if streamOf r c.file b0 ≠ streamOf r c.file start then
            some ("acknowledged data lost before the rotation started", lossSig c s)
          -- (2) every step boundary, and the final disk, keep what the completed rotation retains
          else if !(o.boundaries.all (fun b => sandwich r c.file b0 b)) then
            some ("a step boundary lost data the completed rotation retains", "C08/crash-image-loses-data")
          else if isCrash then
            let next := checkHistory x { prev := o.final, attempts := n + 1, afterFailedRoll := false, prot := s.prot, pending := true } rest
            if !sandwich r c.file b0 o.final then
              if x.crashMid n then
                orElse next ("a crash image taken inside the compressing final step holds the rolled chunk both in slot base and at the active path",
                  "C08/crash-inside-compress-duplicates")
              else
                some ("the crash image lost data the completed rotation retains", "C08/crash-image-loses-data")
            else next
          else if o.res = "err" then
            if !mustFail then
              some ("append failed although nothing obstructs", "C08/append-failed")
            else if !sandwich r c.file b0 o.final && s.prot && !x.injected n then
              some ("the final step failed half-way and left the rolled chunk both in slot base and at the active path: the reading is not a suffix of the stream",
                "C08/move-fallback-duplicates")
            else if !keepsRetained r c.file b0 o.final then
              some ("the failed rotation lost data the completed rotation retains", "C08/failed-rotation-loses-data")
            else if !sandwich r c.file b0 o.final then
              some ("the failed rotation left acknowledged data twice: the reading is not a suffix of the stream",
                "C08/failed-rotation-duplicates")
            else checkHistory x { prev := o.final, attempts := n + 1, afterFailedRoll := true, prot := s.prot, pending := true } rest
          else
            -- success: exactly the completed rotation, plus the record for a pre-process trigger
            if x.injected n then some ("an injected fault was not reported", "C08/fault-not-reported")
            else if mustFail then some ("a step that cannot succeed was not reported", "C08/fault-not-reported")
            else
              let want := flat (retain id r c.file b0) ++ (if c.pre then rec else [])
              if streamOf r c.file o.final ≠ want then
                some ("the completed rotation does not hold what it should retain", "C08/rotation-result")
              else if slot r o.final r.base ≠ b0.get? c.file then
                some ("slot base does not hold the rolled file", "C08/rotation-result")
              else checkHistory x { prev := o.final, attempts := n + 1, afterFailedRoll := false, prot := s.prot, pending := false } rest
        | none =>
          -- the rotation never reached its first step (count = 0 is outside C08's cases)
          some ("no rotation although the trigger fired", "C08/no-rotation")

/-- phase 2 of a background rotation as the driver uses it (= `Background.phase2`) -/
def phase2Disk (r : RollerCfg) (tmp : Path) (fault : Nat → Bool) (d : Disk) : Disk :=
  (fixedWindowRoll r tmp fault d).2

/-! ### background rotation: the statement read at quiescence -/

structure BgSpecState where
  /-- everything that may legitimately be on disk, oldest first: the stream when the appender was
  (re)started followed by every record written since -/
  written : Bytes
  /-- segments closed by a rotation since the (re)start, newest first; the current segment -/
  closed : List Bytes
  active : Bytes

def hasPrefix (p s : Path) : Bool := p.isPrefixOf s

/-- At every quiescent point of a history under `background_rotation`: nothing is left under a
temp name (a name that is neither managed by the roller nor the active path), the stream read
back is a gap-free suffix of what was written, and the newest `count` closed segments and the
current one are all there — no acknowledged record lost or duplicated. -/
def checkBgHistory (c : AppCfg) (tempPrefix : Path) (sizeLimit : Option Nat := none) :
    BgSpecState → List (Op × OpObs) → Option (String × String)
  | _, [] => none
  | s, (op, o) :: rest =>
    let r := c.roller
    if o.res = "PANIC" then some ("append panicked", "C08/panic")
    else if o.res = "HANG" then some ("append never returned (the roll waits for a rotation thread that died)", "C08/background-hang")
    else if o.res = "TIMEOUT" then some ("background rotation never finished", "C08/background-hang")
    else match op with
    | .restart =>
      if o.res ≠ "rs:ok" then some ("a restarted appender cannot open its file", "C08/restart-failed")
      else checkBgHistory c tempPrefix sizeLimit
        { written := streamOf r c.file o.final, closed := [], active := (o.final.get? c.file).getD [] } rest
    | .append rec answer =>
      if o.res = "crash" then checkBgHistory c tempPrefix sizeLimit s rest
      else if o.res ≠ "ok" then some ("append failed although nothing obstructs the active file", "C08/append-failed")
      else
        -- the real `SizeTrigger` (post-process) fires when the file has grown beyond the limit
        let answer := match sizeLimit with
          | some l => decide (s.active.length + rec.length > l)
          | none => answer
        let s' : BgSpecState :=
          if c.pre then
            if answer then { written := s.written ++ rec, closed := s.active :: s.closed, active := rec }
            else { s with written := s.written ++ rec, active := s.active ++ rec }
          else
            if answer then { written := s.written ++ rec, closed := (s.active ++ rec) :: s.closed, active := [] }
            else { s with written := s.written ++ rec, active := s.active ++ rec }
        checkBgHistory c tempPrefix sizeLimit s' rest
    | .quiesce =>
      if o.final.files.any (fun e => hasPrefix tempPrefix e.1) then
        some ("acknowledged data is stranded under a temp name of background rotation",
          "C08/background-temp-file-stranded")
      else if !isSuffix (streamOf r c.file o.final) s.written then
        some ("the stream at quiescence is not a gap-free suffix of what was written", "C08/background-stream")
      else if !isSuffix (flat ((s.closed.take r.count).reverse) ++ s.active) (streamOf r c.file o.final) then
        some ("an acknowledged record is missing at quiescence", "C08/background-record-lost")
      else checkBgHistory c tempPrefix sizeLimit s rest
    | .obstacle | .unobstacle | .protect | .unprotect | .crossMount => checkBgHistory c tempPrefix sizeLimit s rest

end Log4rs.Roller
