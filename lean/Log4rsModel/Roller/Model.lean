/-
Shared model of the filesystem and of the rollers (C05 C07 C08 C17).

Disk   : finite map path ↦ content (association list; `set` replaces, so keys stay unique).
         Directories are implicit (`create_dir_all` always succeeds); what the real filesystem can
         refuse is injected through a fault oracle on the step index.
moveFile = `fixed_window::move_file`: `rename`, replacing the destination; a missing source is
         tolerated (`NotFound ⇒ Ok`). The copy+delete fallback across mounts is not modelled.
rotate = `fixed_window::rotate`: for i in (base .. base+count-1).rev(): move name(i) → name(i+1);
         then move / compress the log file to name(base).
Slot names are abstract (`nameOf : Nat → Path`); C07 proves that the pattern substitution is
injective, which is what the theorems assume of `nameOf`.
-/
namespace Log4rs.Roller

abbrev Path := List Char
abbrev Bytes := List Nat

structure Disk where
  files : List (Path × Bytes)
  deriving Repr, DecidableEq

namespace Disk
def empty : Disk := ⟨[]⟩
def get? (d : Disk) (p : Path) : Option Bytes := (d.files.find? (fun e => e.1 = p)).map (·.2)
def erase (d : Disk) (p : Path) : Disk := ⟨d.files.filter (fun e => e.1 ≠ p)⟩
def set (d : Disk) (p : Path) (c : Bytes) : Disk := ⟨(d.erase p).files ++ [(p, c)]⟩
def has (d : Disk) (p : Path) : Bool := (d.get? p).isSome
end Disk

inductive FsErr where
  | notFound
  | injected (step : Nat)
  deriving Repr, DecidableEq

/-- `fixed_window::move_file` (rename; NotFound tolerated) -/
def moveFile (src dst : Path) (d : Disk) : Disk :=
  match d.get? src with
  | none => d
  | some c => (d.erase src).set dst c

/-- how the rolled file reaches slot `base` -/
inductive Compression where
  | none | gzip | zstd
  deriving Repr, DecidableEq

/-- final step: `Compression::compress(file, name(base))`.
`compress` is abstract (`codec`); plain move tolerates a missing source, the codecs open the
source first and fail with NotFound. -/
def finalStep (comp : Compression) (codec : Bytes → Bytes) (file dst : Path) (d : Disk) :
    Except FsErr Disk :=
  match comp with
  | .none => .ok (moveFile file dst d)
  | _ =>
    match d.get? file with
    | none => .error .notFound
    | some c => .ok ((d.set dst (codec c)).erase file)

inductive Step where
  | shift (i : Nat)      -- move name(i) → name(i+1)
  | final
  deriving Repr, DecidableEq

/-- the steps of one rotation, in execution order (oldest archive first) -/
def steps (base count : Nat) : List Step :=
  ((List.range (count - 1)).reverse.map (fun j => Step.shift (base + j))) ++ [Step.final]

structure RollerCfg where
  nameOf : Nat → Path
  base : Nat
  count : Nat
  comp : Compression := .none
  codec : Bytes → Bytes := id
  /-- `rotate` used to `println!("err compressing: …")` before returning the error of its final
  move/compress; `println!` panics when stdout cannot be written. `false` = the code since the fix
  (the error is returned without printing); consulted by `Roller.rollProc` (Name.lean). -/
  printsOnError : Bool := false
  /-- `true`: `rotate` returns at once when the file to roll does not exist (the repaired variant;
  NOT the code: the repair is blocked by the crate's own test `rotation_no_trivial_base`, which rolls
  a missing file and expects the shift — known finding `C07/missing-file-shifts-window`).
  `false` (the code as it is): the shift loop runs first, the oldest archive is evicted and slot `base`
  left empty although nothing was rolled (that is `fixedWindowRoll` below applied to a disk without
  the file). Consulted by `Roller.rollProc` (Name.lean); the appender models (Rolling,
  Crash) call `fixedWindowRoll` only with the log file present — the appender has just written it. -/
  checksFileFirst : Bool := false

def applyStep (r : RollerCfg) (file : Path) (s : Step) (d : Disk) : Except FsErr Disk :=
  match s with
  | .shift i => .ok (moveFile (r.nameOf i) (r.nameOf (i + 1)) d)
  | .final => finalStep r.comp r.codec file (r.nameOf r.base) d

/-- run a list of steps; `fault k = true` makes the k-th step (0-based, counted over the whole
rotation) fail with the disk unchanged -/
def runSteps (r : RollerCfg) (file : Path) (fault : Nat → Bool) :
    Nat → List Step → Disk → Except FsErr Disk × Disk
  | _, [], d => (.ok d, d)
  | k, s :: rest, d =>
    if fault k then (.error (.injected k), d)
    else match applyStep r file s d with
      | .error e => (.error e, d)
      | .ok d' => runSteps r file fault (k + 1) rest d'

/-- `FixedWindowRoller::roll` (foreground): returns the result and the disk afterwards (the disk
is meaningful also when the result is an error) -/
def fixedWindowRoll (r : RollerCfg) (file : Path) (fault : Nat → Bool) (d : Disk) :
    Except FsErr Disk × Disk :=
  if r.count = 0 then
    if fault 0 then (.error (.injected 0), d)
    else match d.get? file with
      | none => (.error .notFound, d)
      | some _ => (.ok (d.erase file), d.erase file)
  else runSteps r file fault 0 (steps r.base r.count) d

/-- `DeleteRoller::roll` = `fs::remove_file` -/
def deleteRoll (file : Path) (fault : Nat → Bool) (d : Disk) : Except FsErr Disk × Disk :=
  if fault 0 then (.error (.injected 0), d)
  else match d.get? file with
    | none => (.error .notFound, d)
    | some _ => (.ok (d.erase file), d.erase file)

/-- a process death after `k` completed steps of a rotation: the disk as it then is -/
def crashAfter (r : RollerCfg) (file : Path) (k : Nat) (d : Disk) : Disk :=
  if r.count = 0 then (if k = 0 then d else d.erase file)
  else (runSteps r file (fun _ => false) 0 ((steps r.base r.count).take k) d).2

end Log4rs.Roller
