import Log4rsModel.Roller.Background
import Log4rsModel.Roller.LemmasCrash
/-
Background rotation: at most one rotation thread in flight; at quiescence the disk equals the
foreground disk (for fresh temp names and fault-free rotation threads).
-/
namespace Log4rs.Roller

/-! ### one rotation in flight -/

/-- `ready` is true exactly when no rotation thread is unfinished, and there is at most one -/
def BgInv (s : BgSt) : Prop := s.threads.length ≤ 1 ∧ (s.ready = true ↔ s.threads = [])

theorem bgInv_init (d : Disk) : BgInv (BgSt.init d) := ⟨by simp [BgSt.init], by simp [BgSt.init]⟩

theorem bgInv_step (r : RollerCfg) (file : Path) (s s' : BgSt) (e : BgEv) (h : BgInv s)
    (hs : bgStep true r file s e = some s') : BgInv s' := by
  cases e with
  | phase1 x tmp =>
    simp only [bgStep] at hs
    split at hs
    · cases hs
    · cases hs; exact h
  | spawn =>
    simp only [bgStep] at hs
    cases hw : s.waiting with
    | none => simp [hw] at hs
    | some t =>
      simp only [hw, Bool.true_and] at hs
      cases hr : s.ready with
      | false => simp [hr] at hs
      | true =>
        simp only [hr, Bool.not_true, Bool.false_eq_true, if_false, Option.some.injEq] at hs
        subst hs
        have : s.threads = [] := h.2.1 hr
        simp [BgInv, this]
  | finish i f =>
    simp only [bgStep] at hs
    cases ht : s.threads[i]? with
    | none => simp [ht] at hs
    | some t =>
      simp only [ht, Option.some.injEq] at hs
      subst hs
      have hlen := h.1
      have hi : i < s.threads.length := by
        rcases List.getElem?_eq_some_iff.1 ht with ⟨hi, _⟩; exact hi
      have : s.threads.eraseIdx i = [] := by
        apply List.eq_nil_of_length_eq_zero
        rw [List.length_eraseIdx]; simp [hi]; omega
      simp [BgInv, this]

theorem bgInv_run (r : RollerCfg) (file : Path) (evs : List BgEv) :
    ∀ (s s' : BgSt), BgInv s → bgRun true r file evs s = some s' → BgInv s' := by
  induction evs with
  | nil => intro s s' h hr; simp only [bgRun, Option.some.injEq] at hr; subst hr; exact h
  | cons e rest ih =>
    intro s s' h hr
    simp only [bgRun] at hr
    cases hs : bgStep true r file s e with
    | none => simp [hs] at hr
    | some s1 =>
      simp only [hs] at hr
      exact ih s1 s' (bgInv_step r file s s1 e h hs) hr


/-! ### quiescence = foreground -/


theorem rollMany_append (r : RollerCfg) (file : Path) (xs ys : List Bytes) :
    ∀ d, rollMany r file (xs ++ ys) d = rollMany r file ys (rollMany r file xs d) := by
  induction xs with
  | nil => intro d; rfl
  | cons x xs ih => intro d; simp only [List.cons_append, rollMany]; exact ih _

/-- phase 2 from the temp file does to every other path what the foreground roll does -/
theorem phase2_vs_foreground {r : RollerCfg} (hinj : NamesInj r)
    (hg : r.base + r.count ≤ U32_MOD) (hc : r.count ≠ 0)
    {file t : Path} (hfa : FileApart r file) (hta : FileApart r t)
    (D F : Disk) (x : Bytes) (hx : D.get? t = some x)
    (hnames : ∀ i, D.get? (r.nameOf i) = F.get? (r.nameOf i))
    (q : Path) (hq1 : q ≠ t) (hq2 : q ≠ file) (hq : D.get? q = F.get? q) :
    (phase2 r t (fun _ => false) D).get? q =
      (rollU32 r file (fun _ => false) (F.set file x)).2.get? q := by
  obtain ⟨d1, h1, hd1⟩ := fixedWindowRoll_ok r t D x hc hta hx
  have hx2 : (F.set file x).get? file = some x := Disk.get?_set_same _ _ _
  obtain ⟨d2, h2, hd2⟩ := fixedWindowRoll_ok r file (F.set file x) x hc hfa hx2
  unfold phase2
  rw [h1, rollU32_disk _ _ _ _ hg, h2]
  simp only
  rw [hd1 q, hd2 q]
  by_cases hb : q = r.nameOf r.base
  · simp [hb]
  · simp only [hb, hq1, hq2, if_false]
    have hs : ∀ i, slot r D i = slot r (F.set file x) i := fun i => by
      show D.get? _ = (F.set file x).get? _
      rw [Disk.get?_set_ne _ _ (hfa i)]; exact hnames i
    by_cases hn : ∃ j, j ≤ r.count - 1 ∧ q = r.nameOf (r.base + j)
    · obtain ⟨j, hj, rfl⟩ := hn
      have hj1 : 1 ≤ j := by
        rcases Nat.eq_zero_or_pos j with h0 | h0
        · subst h0; exact absurd rfl hb
        · exact h0
      have e1 := (slot_applyShifts hinj (r.count - 1) D).2 j hj1 hj
      have e2 := (slot_applyShifts hinj (r.count - 1) (F.set file x)).2 j hj1 hj
      simp only [slot] at e1 e2 hs
      rw [e1, e2, hs, hs]
    · have hno : ∀ j, j ≤ r.count - 1 → q ≠ r.nameOf (r.base + j) := fun j hj e => hn ⟨j, hj, e⟩
      rw [get?_applyShifts_other _ _ _ _ hno, get?_applyShifts_other _ _ _ _ hno,
        Disk.get?_set_ne _ _ hq2]
      exact hq

/-- the background state against the foreground disk `F` after the rolls whose rotation has
finished: the pending temp files hold the contents not yet rotated; everything else agrees -/
structure BgRel (r : RollerCfg) (file : Path) (d0 : Disk) (s : BgSt) (done : List Bytes)
    (px : List (Path × Bytes)) : Prop where
  inv : BgInv s
  temps : px.map Prod.fst = s.threads ++ s.waiting.toList
  nodup : (px.map Prod.fst).Nodup
  held : ∀ e ∈ px, s.disk.get? e.1 = some e.2 ∧ (rollMany r file done d0).get? e.1 = none ∧
    e.1 ≠ file ∧ FileApart r e.1
  rest : ∀ q, q ∉ px.map Prod.fst →
    s.disk.get? q = if q = file ∧ px.isEmpty = false then none else (rollMany r file done d0).get? q

theorem bgRel_init (r : RollerCfg) (file : Path) (d0 : Disk) : BgRel r file d0 (BgSt.init d0) [] [] :=
  { inv := bgInv_init d0, temps := rfl, nodup := List.nodup_nil, held := fun e he => (by cases he),
    rest := fun q _ => by simp [BgSt.init, rollMany] }

theorem bgRel_phase1 {r : RollerCfg} {file : Path} {d0 : Disk} {s s' : BgSt} {done : List Bytes}
    {px : List (Path × Bytes)} (x : Bytes) (tmp : Path)
    (h : BgRel r file d0 s done px) (hs : bgStep true r file s (.phase1 x tmp) = some s')
    (hne : tmp ≠ file) (hap : ∀ i, r.nameOf i ≠ tmp) :
    BgRel r file d0 s' done (px ++ [(tmp, x)]) := by
  simp only [bgStep] at hs
  split at hs
  · cases hs
  · rename_i hcond
    simp only [Bool.or_eq_true, Option.isSome_iff_ne_none, ne_eq, decide_eq_true_eq, not_or,
      Decidable.not_not] at hcond
    obtain ⟨⟨hw, _⟩, hfree⟩ := hcond
    cases hs
    have hD : ∀ q, (moveFile file tmp (s.disk.set file x)).get? q =
        if q = tmp then some x else if q = file then none else s.disk.get? q := by
      intro q
      rw [get?_moveFile, Disk.get?_set_same]
      simp only
      by_cases h1 : q = tmp
      · simp [h1]
      · by_cases h2 : q = file
        · simp [h1, h2]
        · simp [h1, h2, Disk.get?_set_ne _ _ h2]
    have hnotin : tmp ∉ px.map Prod.fst := by
      intro hin
      obtain ⟨e, he, rfl⟩ := List.mem_map.1 hin
      have := (h.held e he).1
      rw [hfree] at this; cases this
    have hFtmp : (rollMany r file done d0).get? tmp = none := by
      have := h.rest tmp hnotin
      rw [hfree] at this
      simp only [hne, false_and, if_false] at this
      exact this.symm
    refine { inv := h.inv, temps := ?_, nodup := ?_, held := ?_, rest := ?_ }
    · simp [h.temps, hw]
    · rw [List.map_append, List.nodup_append]
      refine ⟨h.nodup, by simp, ?_⟩
      intro a ha b hb
      simp only [List.map_cons, List.map_nil, List.mem_singleton] at hb
      subst hb
      intro e; subst e; exact hnotin ha
    · intro e he
      rcases List.mem_append.1 he with he | he
      · obtain ⟨h1, h2, h3, h4⟩ := h.held e he
        refine ⟨?_, h2, h3, h4⟩
        have hne1 : e.1 ≠ tmp := fun e' => hnotin (e' ▸ List.mem_map_of_mem he)
        show (moveFile file tmp (s.disk.set file x)).get? e.1 = _
        rw [hD, if_neg hne1, if_neg h3]; exact h1
      · simp only [List.mem_singleton] at he
        subst he
        refine ⟨?_, hFtmp, hne, fun i => hap i⟩
        show (moveFile file tmp (s.disk.set file x)).get? tmp = _
        rw [hD, if_pos rfl]
    · intro q hq
      simp only [List.map_append, List.map_cons, List.map_nil, List.mem_append, List.mem_singleton,
        not_or] at hq
      show (moveFile file tmp (s.disk.set file x)).get? q = _
      rw [hD, if_neg hq.2]
      by_cases hqf : q = file
      · simp [hqf]
      · rw [if_neg hqf, h.rest q hq.1]
        simp [hqf]

theorem bgRel_spawn {r : RollerCfg} {file : Path} {d0 : Disk} {s s' : BgSt} {done : List Bytes}
    {px : List (Path × Bytes)}
    (h : BgRel r file d0 s done px) (hs : bgStep true r file s .spawn = some s') :
    BgRel r file d0 s' done px := by
  have hinv := bgInv_step r file s s' .spawn h.inv hs
  simp only [bgStep] at hs
  cases hw : s.waiting with
  | none => simp [hw] at hs
  | some t =>
    simp only [hw, Bool.true_and] at hs
    split at hs
    · cases hs
    · cases hs
      exact { inv := hinv, temps := by simp [h.temps, hw], nodup := h.nodup, held := h.held, rest := h.rest }

theorem bgRel_finish {r : RollerCfg} {file : Path} {d0 : Disk} {s s' : BgSt} {done : List Bytes}
    {px : List (Path × Bytes)} (i : Nat) (f : Nat → Bool)
    (hinj : NamesInj r) (hg : r.base + r.count ≤ U32_MOD) (hc : r.count ≠ 0)
    (hfa : FileApart r file)
    (h : BgRel r file d0 s done px) (hs : bgStep true r file s (.finish i f) = some s')
    (hf : ∀ k, f k = false) :
    ∃ t x px2, px = (t, x) :: px2 ∧ BgRel r file d0 s' (done ++ [x]) px2 := by
  have hinv := bgInv_step r file s s' (.finish i f) h.inv hs
  have hf' : f = fun _ => false := funext hf
  subst hf'
  simp only [bgStep] at hs
  cases ht : s.threads[i]? with
  | none => simp [ht] at hs
  | some t =>
    simp only [ht, Option.some.injEq] at hs
    -- one thread in flight: it is the head of the pending list
    have hi : i < s.threads.length := (List.getElem?_eq_some_iff.1 ht).1
    have hlen := h.inv.1
    have hthreads : s.threads = [t] := by
      have hi0 : i = 0 := by omega
      subst hi0
      match hth : s.threads, ht with
      | [a], ht => simp at ht; rw [ht]
      | [], ht => simp at ht
      | _ :: _ :: _, _ => rw [hth] at hlen; simp at hlen
    have hi0 : i = 0 := by rw [hthreads] at hi; simpa using hi
    subst hi0
    have htemps := h.temps
    rw [hthreads] at htemps
    match hpx : px, htemps with
    | [], htemps => simp at htemps
    | (t', x) :: px2, htemps =>
      simp only [List.map_cons, List.singleton_append, List.cons.injEq] at htemps
      obtain ⟨rfl, htemps2⟩ := htemps
      subst hpx
      refine ⟨t', x, px2, rfl, ?_⟩
      subst hs
      obtain ⟨hx, hFt, htf, hta⟩ := h.held (t', x) (List.mem_cons_self ..)
      have hnd := h.nodup
      simp only [List.map_cons, List.nodup_cons] at hnd
      -- the foreground disk after one more roll
      have hF' : rollMany r file (done ++ [x]) d0 =
          (rollU32 r file (fun _ => false) ((rollMany r file done d0).set file x)).2 := by
        rw [rollMany_append]; rfl
      -- agreement on archive names
      have hnames : ∀ j, s.disk.get? (r.nameOf j) = (rollMany r file done d0).get? (r.nameOf j) := by
        intro j
        have hnot : r.nameOf j ∉ ((t', x) :: px2).map Prod.fst := by
          intro hin
          obtain ⟨e, he, hee⟩ := List.mem_map.1 hin
          exact (h.held e he).2.2.2 j hee.symm
        rw [h.rest _ hnot]
        simp [hfa j]
      have hframeD : ∀ q, q ≠ t' → (∀ j, q ≠ r.nameOf j) →
          (phase2 r t' (fun _ => false) s.disk).get? q = s.disk.get? q := fun q h1 h2 =>
        fixedWindowRoll_frame r t' _ s.disk q h1 (fun j _ _ => h2 j)
      have hframeF : ∀ q, q ≠ file → (∀ j, q ≠ r.nameOf j) →
          (rollMany r file (done ++ [x]) d0).get? q = (rollMany r file done d0).get? q := by
        intro q h1 h2
        rw [hF', rollU32_disk _ _ _ _ hg, fixedWindowRoll_frame r file _ _ q h1 (fun j _ _ => h2 j),
          Disk.get?_set_ne _ _ h1]
      refine { inv := hinv, temps := ?_, nodup := hnd.2, held := ?_, rest := ?_ }
      · simp [hthreads, htemps2]
      · intro e he
        obtain ⟨h1, h2, h3, h4⟩ := h.held e (List.mem_cons_of_mem _ he)
        have hne : e.1 ≠ t' := fun e' => hnd.1 (e' ▸ List.mem_map_of_mem he)
        refine ⟨?_, ?_, h3, h4⟩
        · show (phase2 r t' (fun _ => false) s.disk).get? e.1 = _
          rw [hframeD e.1 hne (fun j e' => h4 j e'.symm)]; exact h1
        · rw [hframeF e.1 h3 (fun j e' => h4 j e'.symm)]; exact h2
      · intro q hq
        show (phase2 r t' (fun _ => false) s.disk).get? q = _
        by_cases hqt : q = t'
        · subst hqt
          obtain ⟨d1, h1, hd1⟩ := fixedWindowRoll_ok r q s.disk x hc hta hx
          have : (phase2 r q (fun _ => false) s.disk).get? q = none := by
            unfold phase2; rw [h1]; simp only; rw [hd1]; simp [(hta r.base).symm]
          rw [this, hframeF q htf (fun j e' => hta j e'.symm), hFt]
          simp [htf]
        · by_cases hqf : q = file
          · subst hqf
            have hD : (phase2 r t' (fun _ => false) s.disk).get? q = none := by
              rw [hframeD q hqt (fun j e' => hfa j e'.symm)]
              have hnot : q ∉ ((t', x) :: px2).map Prod.fst := by
                simp only [List.map_cons, List.mem_cons, not_or]
                exact ⟨hqt, hq⟩
              rw [h.rest q hnot]; simp
            have hFq : (rollMany r q (done ++ [x]) d0).get? q = none := by
              have hx2 : ((rollMany r q done d0).set q x).get? q = some x := Disk.get?_set_same _ _ _
              obtain ⟨d2, h2, hd2⟩ := fixedWindowRoll_ok r q _ x hc hfa hx2
              rw [hF', rollU32_disk _ _ _ _ hg, h2]; simp only; rw [hd2]; simp [(hfa r.base).symm]
            rw [hD, hFq]; simp
          · have hnot : q ∉ ((t', x) :: px2).map Prod.fst := by
              simp only [List.map_cons, List.mem_cons, not_or]
              exact ⟨hqt, hq⟩
            have hq0 : s.disk.get? q = (rollMany r file done d0).get? q := by
              rw [h.rest q hnot]; simp [hqf]
            rw [phase2_vs_foreground hinj hg hc hfa hta s.disk _ x hx hnames q hqt hqf hq0, hF']
            simp [hqf]


theorem bgRel_run {r : RollerCfg} {file : Path} {d0 : Disk}
    (hinj : NamesInj r) (hg : r.base + r.count ≤ U32_MOD) (hc : r.count ≠ 0)
    (hfa : FileApart r file) (evs : List BgEv) :
    ∀ (s s' : BgSt) (done : List Bytes) (px : List (Path × Bytes)),
      BgRel r file d0 s done px → bgRun true r file evs s = some s' →
      tempsApart r file evs → faultFree evs →
      ∃ done' px', BgRel r file d0 s' done' px' ∧
        done' ++ px'.map Prod.snd = done ++ px.map Prod.snd ++ rolledContents evs := by
  induction evs with
  | nil =>
    intro s s' done px h hr _ _
    simp only [bgRun, Option.some.injEq] at hr
    subst hr
    exact ⟨done, px, h, by simp [rolledContents]⟩
  | cons e rest ih =>
    intro s s' done px h hr hta hff
    simp only [bgRun] at hr
    cases hs : bgStep true r file s e with
    | none => simp [hs] at hr
    | some s1 =>
      simp only [hs] at hr
      cases e with
      | phase1 x tmp =>
        obtain ⟨h1, h2, h3⟩ := hta
        have hrel := bgRel_phase1 x tmp h hs h1 h2
        obtain ⟨done', px', hr', heq⟩ := ih s1 s' done _ hrel hr h3 hff
        exact ⟨done', px', hr', by rw [heq]; simp [rolledContents]⟩
      | spawn =>
        have hrel := bgRel_spawn h hs
        obtain ⟨done', px', hr', heq⟩ := ih s1 s' done px hrel hr hta hff
        exact ⟨done', px', hr', by rw [heq]; simp [rolledContents]⟩
      | finish i f =>
        obtain ⟨t, x, px2, hpx, hrel⟩ := bgRel_finish i f hinj hg hc hfa h hs hff.1
        obtain ⟨done', px', hr', heq⟩ := ih s1 s' _ px2 hrel hr hta hff.2
        exact ⟨done', px', hr', by rw [heq, hpx]; simp [rolledContents]⟩

/-- **quiescence = foreground**: run any schedule of `roll` calls (phase 1), spawns and thread
completions that the code admits, with fresh temp names and fault-free rotation threads, from a
quiescent start. Whenever the result is quiescent again, the disk is — path by path — the disk the
foreground roller produces for the same contents. -/
theorem bg_quiescent_eq_foreground {r : RollerCfg} {file : Path} (d0 : Disk)
    (hinj : NamesInj r) (hg : r.base + r.count ≤ U32_MOD) (hc : r.count ≠ 0)
    (hfa : FileApart r file) (evs : List BgEv) (s' : BgSt)
    (hr : bgRun true r file evs (BgSt.init d0) = some s')
    (hta : tempsApart r file evs) (hff : faultFree evs) (hq : s'.quiescent) :
    ∀ q, s'.disk.get? q = (rollMany r file (rolledContents evs) d0).get? q := by
  obtain ⟨done', px', hrel, heq⟩ :=
    bgRel_run hinj hg hc hfa evs _ s' [] [] (bgRel_init r file d0) hr hta hff
  have hpx : px' = [] := by
    have := hrel.temps
    rw [hq.1, hq.2] at this
    simpa using this
  subst hpx
  simp only [List.map_nil, List.append_nil, List.nil_append] at heq
  subst heq
  intro q
  have := hrel.rest q (by simp)
  simpa using this


/-- successive foreground rolls never touch a path outside the window names and the log path -/
theorem rollMany_frame (r : RollerCfg) (file : Path) (xs : List Bytes)
    (hg : r.base + r.count ≤ U32_MOD) (q : Path) (h1 : q ≠ file) (h2 : ∀ i, q ≠ r.nameOf i) :
    ∀ d, (rollMany r file xs d).get? q = d.get? q := by
  induction xs with
  | nil => intro d; rfl
  | cons x xs ih =>
    intro d
    simp only [rollMany]
    rw [ih, rollU32_disk _ _ _ _ hg, fixedWindowRoll_frame r file _ _ q h1 (fun i _ _ => h2 i),
      Disk.get?_set_ne _ _ h1]

end Log4rs.Roller
