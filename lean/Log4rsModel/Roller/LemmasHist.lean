import Log4rsModel.Roller.LemmasCrash
/-
Histories of the appender for C08 ("followed by any continuation of the history"): the invariant
`Good` of an appender object that has been built, its preservation by every operation, and the
per-operation stream guarantees (plain append, rotating append with an arbitrary fault oracle,
fault-free rotation, restart), all for the open-option logic of the fixed code
(`truncateEveryReopen = false`: truncation only at the first open of the appender's life).
-/
namespace Log4rs.Roller

/-! ### histories of the appender (C08: "followed by any continuation of the history") -/

/-- invariant of the state of an appender object that has been built: it has opened its file
before, and while its writer is open the file exists -/
structure Good (c : AppCfg) (st : AppState) : Prop where
  opened : st.openedOnce = true
  file : st.writerOpen = true → ∃ v, st.disk.get? c.file = some v

/-- oldest-to-newest bytes on disk -/
def stm (dec : Bytes → Bytes) (c : AppCfg) (d : Disk) : Bytes := flat (readBack dec c.roller c.file d)

theorem reopen_file (t : Bool) (file : Path) (d : Disk) : ∃ v, (reopen t file d).get? file = some v := by
  unfold reopen
  cases t with
  | true => exact ⟨[], by simp⟩
  | false =>
    simp only [Bool.false_eq_true, if_false]
    cases h : d.get? file with
    | some v => exact ⟨v, by simp [h]⟩
    | none => exact ⟨[], by simp⟩

theorem good_getWriter {c : AppCfg} {st : AppState} (h : Good c st) :
    Good c (getWriter c st) ∧ (getWriter c st).writerOpen = true := by
  unfold getWriter
  by_cases hw : st.writerOpen = true
  · rw [if_pos hw]; exact ⟨h, hw⟩
  · rw [if_neg hw]
    exact ⟨⟨rfl, fun _ => reopen_file _ _ _⟩, rfl⟩

theorem good_restart (c : AppCfg) (d : Disk) : Good c (restartOp c d) :=
  ⟨rfl, fun _ => reopen_file _ _ _⟩

theorem good_writeRec {c : AppCfg} {st : AppState} (rec : Bytes) (h : Good c st) :
    Good c (writeRec c rec st) :=
  ⟨h.opened, fun _ => ⟨_, Disk.get?_set_same _ _ _⟩⟩

theorem processRoll_state (c : AppCfg) (fault : Nat → Bool) (st : AppState) :
    (processRoll c fault st).2.writerOpen = false ∧
      (processRoll c fault st).2.openedOnce = st.openedOnce ∧
      (processRoll c fault st).2.disk = (rollU32 c.roller c.file fault st.disk).2 := by
  unfold processRoll
  rcases rollU32 c.roller c.file fault st.disk with ⟨res, d⟩
  cases res <;> exact ⟨rfl, rfl, rfl⟩

theorem good_processRoll {c : AppCfg} {st : AppState} (fault : Nat → Bool) (h : Good c st) :
    Good c (processRoll c fault st).2 := by
  obtain ⟨h1, h2, _⟩ := processRoll_state c fault st
  exact ⟨by rw [h2]; exact h.opened, fun hw => by rw [h1] at hw; cases hw⟩

theorem truncates_false {c : AppCfg} {st : AppState} (htr : c.truncateEveryReopen = false)
    (h : st.openedOnce = true) : c.truncates st = false := by
  unfold AppCfg.truncates
  cases c.mode <;> simp [htr, h]

theorem appendOp_plain (c : AppCfg) (fault : Nat → Bool) (rec : Bytes) (st : AppState) :
    appendOp c fault false rec st = (.ok, writeRec c rec (getWriter c st)) := by
  unfold appendOp
  cases c.pre <;> simp

theorem good_appendOp {c : AppCfg} {st : AppState} (fault : Nat → Bool) (answer : Bool) (rec : Bytes)
    (h : Good c st) : Good c (appendOp c fault answer rec st).2 := by
  cases answer with
  | false => rw [appendOp_plain]; exact good_writeRec rec (good_getWriter h).1
  | true =>
    unfold appendOp
    cases hp : c.pre with
    | false =>
      simp only [Bool.false_eq_true, if_false, if_true]
      exact good_processRoll fault (good_writeRec rec (good_getWriter h).1)
    | true =>
      simp only [if_true]
      have hg := good_processRoll fault (good_getWriter h).1
      cases hres : processRoll c fault (getWriter c st) with
      | mk res st' =>
        rw [hres] at hg
        cases res with
        | ok => exact good_writeRec rec (good_getWriter hg).1
        | err => exact hg
        | panic => exact hg

/-- an operation of a history: an append (record, trigger answer, fault oracle of the rotation
it may start) or a restart (a fresh appender object on the same disk) -/
inductive HOp where
  | append (rec : Bytes) (answer : Bool) (fault : Nat → Bool)
  | restart

def runOp (c : AppCfg) : HOp → AppState → AppRes × AppState
  | .append rec answer fault, st => appendOp c fault answer rec st
  | .restart, st => (.ok, restartOp c st.disk)

def runHist (c : AppCfg) : List HOp → AppState → AppState
  | [], st => st
  | op :: rest, st => runHist c rest (runOp c op st).2

/-- the bytes an operation puts on disk: the record, unless a pre-process rotation failed -/
def writtenOp (c : AppCfg) : HOp → AppState → Bytes
  | .append rec answer fault, st =>
    if c.pre && answer && (appendOp c fault answer rec st).1 != .ok then [] else rec
  | .restart, _ => []

def writtenBy (c : AppCfg) : List HOp → AppState → Bytes
  | [], _ => []
  | op :: rest, st => writtenOp c op st ++ writtenBy c rest (runOp c op st).2

def HOp.isRestart : HOp → Bool
  | .restart => true
  | _ => false

theorem good_runOp {c : AppCfg} {st : AppState} (op : HOp) (h : Good c st) : Good c (runOp c op st).2 := by
  cases op with
  | append rec answer fault => exact good_appendOp fault answer rec h
  | restart => exact good_restart c _

theorem good_runHist {c : AppCfg} (hist : List HOp) : ∀ {st : AppState}, Good c st → Good c (runHist c hist st) := by
  induction hist with
  | nil => intro st h; exact h
  | cons op rest ih => intro st h; exact ih (good_runOp op h)

/-- the reopen at the start of an append loses nothing; a post-process append has written its
record when the rotation starts -/
theorem stm_rotationStart (c : AppCfg) (dec : Bytes → Bytes) (rec : Bytes) (st : AppState)
    (htr : c.truncateEveryReopen = false) (hfa : FileApart c.roller c.file) (h : Good c st) :
    stm dec c (rotationStart c rec st).disk = stm dec c st.disk ++ (if c.pre then [] else rec) := by
  have hk := getWriter_keep c hfa dec st (Or.inr (truncates_false htr h.opened))
  unfold rotationStart stm
  cases c.pre with
  | true => simp [hk]
  | false => simp only [Bool.false_eq_true, if_false]; rw [stream_writeRec c hfa dec, hk]

/-- a plain append: ok, and the record is appended to the stream -/
theorem stm_plain (c : AppCfg) (dec : Bytes → Bytes) (fault : Nat → Bool) (rec : Bytes) (st : AppState)
    (htr : c.truncateEveryReopen = false) (hfa : FileApart c.roller c.file) (h : Good c st) :
    (appendOp c fault false rec st).1 = .ok ∧
      stm dec c (appendOp c fault false rec st).2.disk = stm dec c st.disk ++ rec := by
  rw [appendOp_plain]
  refine ⟨rfl, ?_⟩
  unfold stm
  rw [stream_writeRec c hfa dec, getWriter_keep c hfa dec st (Or.inr (truncates_false htr h.opened))]

theorem suffix_append_right {a b : Bytes} (t : Bytes) (h : a <:+ b) : a ++ t <:+ b ++ t := by
  obtain ⟨u, hu⟩ := h
  exact ⟨u, by rw [← hu, List.append_assoc]⟩

/-- the rotating append, any fault oracle, both trigger kinds, both open modes: never a panic;
what the completed rotation would retain (plus the record, when a pre-process rotation went
through) is a suffix of the stream on disk, which is a suffix of the stream at rotation start -/
theorem stm_rotating (c : AppCfg) (dec : Bytes → Bytes) (fault : Nat → Bool) (rec : Bytes) (st : AppState)
    (htr : c.truncateEveryReopen = false)
    (hg : c.roller.base + c.roller.count ≤ U32_MOD) (hc : c.roller.count ≠ 0)
    (hinj : NamesInj c.roller) (hfa : FileApart c.roller c.file)
    (hdec : ∀ x, dec (c.roller.enc x) = x) (h : Good c st) :
    (appendOp c fault true rec st).1 ≠ .panic ∧
    flat (retain dec c.roller c.file (rotationStart c rec st).disk) ++
        (if c.pre && (appendOp c fault true rec st).1 == .ok then rec else []) <:+
      stm dec c (appendOp c fault true rec st).2.disk ∧
    stm dec c (appendOp c fault true rec st).2.disk <:+
      stm dec c (rotationStart c rec st).disk ++
        (if c.pre && (appendOp c fault true rec st).1 == .ok then rec else []) := by
  have hnp := (appendOp_roll_outcome c fault rec st hg (fun _ => h.opened)).1
  refine ⟨hnp, ?_⟩
  obtain ⟨k, hk⟩ := fault_is_crash c.roller c.file fault (rotationStart c rec st).disk
  obtain ⟨s1, s2⟩ := crash_sandwich hinj hfa dec hdec hc k (rotationStart c rec st).disk
  rw [← hk, ← rollU32_disk _ _ _ _ hg] at s1 s2
  have hpr := processRoll_state c fault (rotationStart c rec st)
  unfold appendOp rotationStart stm at *
  cases hp : c.pre with
  | false =>
    simp only [hp, Bool.false_eq_true, if_false, if_true, Bool.false_and, List.append_nil] at *
    rw [hpr.2.2]
    exact ⟨flat_suffix s2, flat_suffix s1⟩
  | true =>
    simp only [hp, if_true, Bool.true_and] at *
    cases hres : processRoll c fault (getWriter c st) with
    | mk res st' =>
      rw [hres] at hpr
      simp only at hpr
      have hgood : Good c st' := by
        have := good_processRoll fault (good_getWriter h).1
        rw [hres] at this; exact this
      cases res with
      | ok =>
        simp only [beq_self_eq_true, if_true]
        rw [stream_writeRec c hfa dec,
          getWriter_keep c hfa dec st' (Or.inr (truncates_false htr hgood.opened)), hpr.2.2]
        exact ⟨suffix_append_right rec (flat_suffix s2), suffix_append_right rec (flat_suffix s1)⟩
      | err =>
        simp only [show (AppRes.err == AppRes.ok) = false from rfl, Bool.false_eq_true, if_false,
          List.append_nil]
        rw [hpr.2.2]
        exact ⟨flat_suffix s2, flat_suffix s1⟩
      | panic =>
        simp only [show (AppRes.panic == AppRes.ok) = false from rfl, Bool.false_eq_true, if_false,
          List.append_nil]
        rw [hpr.2.2]
        exact ⟨flat_suffix s2, flat_suffix s1⟩



/-- without any fault the rotating append succeeds and leaves exactly what the completed rotation
retains (plus the record for a pre-process trigger) -/
theorem stm_rotating_nofault (c : AppCfg) (dec : Bytes → Bytes) (rec : Bytes) (st : AppState)
    (htr : c.truncateEveryReopen = false)
    (hg : c.roller.base + c.roller.count ≤ U32_MOD) (hc : c.roller.count ≠ 0)
    (hfa : FileApart c.roller c.file) (h : Good c st) :
    (appendOp c (fun _ => false) true rec st).1 = .ok ∧
    stm dec c (appendOp c (fun _ => false) true rec st).2.disk =
      flat (retain dec c.roller c.file (rotationStart c rec st).disk) ++ (if c.pre then rec else []) := by
  have hstart : ∃ x, (rotationStart c rec st).disk.get? c.file = some x := by
    unfold rotationStart
    cases c.pre with
    | true => exact (good_getWriter h).1.file (good_getWriter h).2
    | false => exact ⟨_, Disk.get?_set_same _ _ _⟩
  obtain ⟨x, hx⟩ := hstart
  obtain ⟨d', hroll, _⟩ := fixedWindowRoll_ok c.roller c.file _ x hc hfa hx
  have hret : retain dec c.roller c.file (rotationStart c rec st).disk = readBack dec c.roller c.file d' := by
    unfold retain; rw [hroll]
  have hproc : processRoll c (fun _ => false) (rotationStart c rec st) =
      (.ok, { (rotationStart c rec st) with disk := d', writerOpen := false }) := by
    rw [processRoll_guarded _ _ _ hg, hroll]
  rw [hret]
  unfold appendOp stm
  unfold rotationStart at hproc
  cases hp : c.pre with
  | false =>
    simp only [hp, Bool.false_eq_true, if_false, if_true, List.append_nil] at hproc ⊢
    rw [hproc]
    exact ⟨rfl, rfl⟩
  | true =>
    simp only [hp, if_true] at hproc ⊢
    rw [hproc]
    refine ⟨rfl, ?_⟩
    simp only
    rw [stream_writeRec c hfa dec]
    have hop : (getWriter c st).openedOnce = true := (good_getWriter h).1.opened
    rw [getWriter_keep c hfa dec { disk := d', writerOpen := false, openedOnce := (getWriter c st).openedOnce }
      (Or.inr (truncates_false htr hop))]

/-- a restart keeps the stream in append mode; in truncate mode it discards the active file, as
`append(false)` asks for, and nothing else -/
theorem stm_restart (c : AppCfg) (dec : Bytes → Bytes) (d : Disk) (hfa : FileApart c.roller c.file) :
    stm dec c (restartOp c d).disk =
      match c.mode with
      | .append => stm dec c d
      | .truncate => flat ((windowChunks c.roller d c.roller.count).map dec) := by
  unfold restartOp getWriter stm
  simp only [Bool.false_eq_true, if_false, AppCfg.truncates, Bool.not_false, Bool.or_true]
  cases c.mode with
  | append => exact stream_reopen_keep hfa dec d
  | truncate =>
    simp only [reopen, if_true]
    rw [readBack_set_file hfa]
    simp [flat]

/-- over a whole history (appends with arbitrary faults; restarts when the appender is in append
mode) the stream on disk is always a suffix of "stream at the beginning ++ everything written":
nothing is reordered, duplicated or lost from the middle -/
theorem hist_gap_free (c : AppCfg) (dec : Bytes → Bytes)
    (htr : c.truncateEveryReopen = false)
    (hg : c.roller.base + c.roller.count ≤ U32_MOD) (hc : c.roller.count ≠ 0)
    (hinj : NamesInj c.roller) (hfa : FileApart c.roller c.file)
    (hdec : ∀ x, dec (c.roller.enc x) = x) (hist : List HOp)
    (hr : c.mode = .append ∨ ∀ op ∈ hist, op.isRestart = false) :
    ∀ (st : AppState), Good c st →
      stm dec c (runHist c hist st).disk <:+ stm dec c st.disk ++ writtenBy c hist st := by
  induction hist with
  | nil => intro st _; simp [runHist, writtenBy]
  | cons op rest ih =>
    intro st h
    have hr' : c.mode = .append ∨ ∀ op ∈ rest, op.isRestart = false := by
      rcases hr with hr | hr
      · exact Or.inl hr
      · exact Or.inr (fun o ho => hr o (List.mem_cons_of_mem _ ho))
    have hnext := ih hr' (runOp c op st).2 (good_runOp op h)
    have hstep : stm dec c (runOp c op st).2.disk <:+ stm dec c st.disk ++ writtenOp c op st := by
      cases op with
      | restart =>
        have hm : c.mode = .append := by
          rcases hr with hr | hr
          · exact hr
          · have := hr HOp.restart (List.mem_cons_self ..); simp [HOp.isRestart] at this
        simp only [runOp, writtenOp, List.append_nil]
        rw [stm_restart c dec _ hfa, hm]
        exact List.suffix_refl _
      | append rec answer fault =>
        cases answer with
        | false =>
          simp only [runOp, writtenOp, Bool.and_false, Bool.false_and, Bool.false_eq_true, if_false]
          rw [(stm_plain c dec fault rec st htr hfa h).2]
          exact List.suffix_refl _
        | true =>
          obtain ⟨_, _, hup⟩ := stm_rotating c dec fault rec st htr hg hc hinj hfa hdec h
          rw [stm_rotationStart c dec rec st htr hfa h] at hup
          simp only [runOp, writtenOp, Bool.and_true]
          cases hp : c.pre with
          | false => simpa [hp] using hup
          | true =>
            simp only [hp, if_true, List.append_nil, Bool.true_and] at hup ⊢
            cases hres : (appendOp c fault true rec st).1 <;> simpa [hres] using hup
    simp only [runHist, writtenBy]
    refine List.IsSuffix.trans hnext ?_
    rw [← List.append_assoc]
    exact suffix_append_right _ hstep

end Log4rs.Roller
