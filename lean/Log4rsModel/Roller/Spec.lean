import Log4rsModel.Roller.Name
/-
Window view of a disk and the executable specification of C07 (and the reading function of C08).

  slot r d i       content stored under the name of index i
  windowChunks     the archives of the window, oldest (highest index) first
  readBack         oldest-to-newest reading: window from the highest index down to base, then the
                   active file (archives are decoded with `dec`, the inverse of the codec)

`checkRolls` is the simplest reading of the English statement of C07, evaluated on a sequence of
directory snapshots (one after each roll): slot b+j holds the (j+1)-th most recently rolled
content (the archives found initially at base, base+1, … up to the first gap count as the most
recent rolled files of an earlier life), the rolled file is gone, nothing outside the window names
is created, modified or removed.
-/
namespace Log4rs.Roller

def slot (r : RollerCfg) (d : Disk) (i : Nat) : Option Bytes := d.get? (r.nameOf i)

/-- archives at indices `base+n-1, …, base` (oldest first) -/
def windowChunks (r : RollerCfg) (d : Disk) : Nat → List Bytes
  | 0 => []
  | n + 1 => (slot r d (r.base + n)).toList ++ windowChunks r d n

def readBack (dec : Bytes → Bytes) (r : RollerCfg) (file : Path) (d : Disk) : List Bytes :=
  (windowChunks r d r.count).map dec ++ (d.get? file).toList

/-- the names the roller manages -/
def windowNames (r : RollerCfg) : List Path := (List.range r.count).map (fun j => r.nameOf (r.base + j))

/-! ### executable specification of C07 on observed snapshots -/

structure RollObs where
  res : String              -- "ok" | "err" | "PANIC"
  snap : Disk
  /-- background rotation: no snapshot was taken after this roll (the rotation thread may still be
  running); the clauses are checked at the next snapshot, which is taken at quiescence -/
  snapless : Bool := false

structure SpecCfg where
  names : List Path         -- window names, index base first; [] for count = 0 / delete roller
  file : Path

/-- all entries of `a` other than `file` and the window names occur unchanged in `b` -/
def keeps (c : SpecCfg) (a b : Disk) : Bool :=
  a.files.all (fun e => e.1 = c.file || c.names.contains e.1 || b.get? e.1 = some e.2)

/-- every entry of `b` is a window name or was in `a` with the same content -/
def noNew (c : SpecCfg) (a b : Disk) : Bool :=
  b.files.all (fun e => c.names.contains e.1 || (e.1 ≠ c.file && a.get? e.1 = some e.2))

def frameOk (c : SpecCfg) (a b : Disk) : Bool := keeps c a b && noNew c a b

/-- the newest `min n c` slots hold the rolled contents, newest first -/
def slotsOk (c : SpecCfg) (rolled : List Bytes) (snap : Disk) : Bool :=
  (c.names.zip rolled).all (fun (nm, x) => snap.get? nm = some x)

/-- older slots only hold what was in the window initially -/
def olderOk (c : SpecCfg) (init : List Bytes) (nRolled : Nat) (snap : Disk) : Bool :=
  (c.names.drop nRolled).all (fun nm => match snap.get? nm with
    | none => true
    | some v => init.contains v)

/-- `none` = the statement holds on this history; `some clause` = first violated clause -/
def checkRolls (c : SpecCfg) (initWin : List Bytes) :
    Disk → List Bytes → List (Option Bytes × RollObs) → Option String
  | _, _, [] => none
  | prev, rolled, (x, o) :: rest =>
    if o.res = "PANIC" then some "roll panicked"
    else match x with
    | none =>
      -- nothing to roll: only the frame clauses are meaningful; the history ends here
      if !frameOk c prev o.snap then some "bystander changed (roll of a missing file)" else none
    | some x =>
      let rolled' := x :: rolled
      if o.res ≠ "ok" then some "roll failed"
      else if o.snapless then checkRolls c initWin prev rolled' rest
      else if o.snap.has c.file then some "rolled file still at its path"
      else if !slotsOk c rolled' o.snap then some "slot b+j does not hold the (j+1)-th most recent file"
      else if !olderOk c initWin rolled'.length o.snap then some "older slot holds foreign content"
      else if !frameOk c prev o.snap then some "file outside the window created, modified or removed"
      else checkRolls c initWin o.snap rolled' rest

end Log4rs.Roller
