import Log4rsModel.Roller.Name
/-
Window view of a disk and the executable specification of C07 (and the reading function of C08).

  slot r d i       content stored under the name of index i
  windowChunks     the archives of the window, oldest (highest index) first
  readBack         oldest-to-newest reading: window from the highest index down to base, then the
                   active file (archives are decoded with `dec`, the inverse of the codec)

`checkRolls` is the simplest reading of the English statement of C07, evaluated on a sequence of
directory snapshots (one after each roll): slot b+j holds the (j+1)-th most recently rolled
content (the archives found initially at base, base+1, … up to the first gap count as the most
recent rolled files of an earlier life), the rolled file is gone, nothing outside the window names
is created, modified or removed.
-/
namespace Log4rs.Roller

def slot (r : RollerCfg) (d : Disk) (i : Nat) : Option Bytes := d.get? (r.nameOf i)

/-- archives at indices `base+n-1, …, base` (oldest first) -/
def windowChunks (r : RollerCfg) (d : Disk) : Nat → List Bytes
  | 0 => []
  | n + 1 => (slot r d (r.base + n)).toList ++ windowChunks r d n

def readBack (dec : Bytes → Bytes) (r : RollerCfg) (file : Path) (d : Disk) : List Bytes :=
  (windowChunks r d r.count).map dec ++ (d.get? file).toList

/-- the names the roller manages -/
def windowNames (r : RollerCfg) : List Path := (List.range r.count).map (fun j => r.nameOf (r.base + j))

/-! ### executable specification of C07 on observed snapshots -/

structure RollObs where
  res : String              -- "ok" | "err" | "PANIC" | "HANG" (background rotation: the call never returned)
  snap : Disk
  /-- background rotation: no snapshot was taken after this roll (the rotation thread may still be
  running); the clauses are checked at the next snapshot, which is taken at quiescence -/
  snapless : Bool := false

structure SpecCfg where
  names : List Path         -- window names, index base first; [] for count = 0 / delete roller
  file : Path

/-- all entries of `a` other than `file` and the window names occur unchanged in `b` -/
def keeps (c : SpecCfg) (a b : Disk) : Bool :=
  a.files.all (fun e => e.1 = c.file || c.names.contains e.1 || b.get? e.1 = some e.2)

/-- every entry of `b` is a window name or was in `a` with the same content -/
def noNew (c : SpecCfg) (a b : Disk) : Bool :=
  b.files.all (fun e => c.names.contains e.1 || (e.1 ≠ c.file && a.get? e.1 = some e.2))

def frameOk (c : SpecCfg) (a b : Disk) : Bool := keeps c a b && noNew c a b

/-- the newest `min n c` slots hold the rolled contents, newest first -/
def slotsOk (c : SpecCfg) (rolled : List Bytes) (snap : Disk) : Bool :=
  (c.names.zip rolled).all (fun (nm, x) => snap.get? nm = some x)

/-- `xs` is a subsequence of `ys` (greedy matching) -/
def isSubseq : List Bytes → List Bytes → Bool
  | [], _ => true
  | _ :: _, [] => false
  | x :: xs, y :: ys => if x = y then isSubseq xs ys else isSubseq (x :: xs) ys

/-- older slots only hold what was in the window initially, and in the initial relative age order:
read in index order, the contents of the older slots are a subsequence of the initial window (also
read in index order) — "index b+j holds the (j+1)-th most recent" leaves no room for an older
archive overtaking a younger one -/
def olderOk (c : SpecCfg) (init : List Bytes) (nRolled : Nat) (snap : Disk) : Bool :=
  isSubseq ((c.names.drop nRolled).filterMap (fun nm => snap.get? nm)) init

/-- every window name holds in `b` exactly what it held in `a` -/
def windowSame (c : SpecCfg) (a b : Disk) : Bool :=
  c.names.all (fun nm => b.get? nm = a.get? nm)

/-- `none` = the statement holds on this history; `some clause` = first violated clause.
`stale`: rolls without a snapshot (background rotation) have happened since `prev` was taken, so the
window of `prev` is no longer the expected one (the frame clauses still compare with `prev`: they
exempt the window names and the log path). -/
def checkRollsAux (c : SpecCfg) (initWin : List Bytes) :
    Bool → Disk → List Bytes → List (Option Bytes × RollObs) → Option String
  | _, _, _, [] => none
  | stale, prev, rolled, (x, o) :: rest =>
    if o.res = "PANIC" then some "roll panicked"
    else if o.res = "HANG" then some "roll never returned"
    else match x with
    | none =>
      -- nothing to roll: no file was rolled, so the window still holds the newest `count` rolled
      -- files exactly as before (whatever result the roller reports), nothing else changes, and
      -- the history goes on
      if o.snapless then checkRollsAux c initWin stale prev rolled rest
      else if !slotsOk c rolled o.snap || !olderOk c initWin rolled.length o.snap ||
          (!stale && !windowSame c prev o.snap) then some "roll of a missing file changed the window"
      else if !frameOk c prev o.snap then some "bystander changed (roll of a missing file)"
      else checkRollsAux c initWin false o.snap rolled rest
    | some x =>
      let rolled' := x :: rolled
      if o.res ≠ "ok" then some "roll failed"
      else if o.snapless then checkRollsAux c initWin true prev rolled' rest
      else if o.snap.has c.file then some "rolled file still at its path"
      else if !slotsOk c rolled' o.snap then some "slot b+j does not hold the (j+1)-th most recent file"
      else if !olderOk c initWin rolled'.length o.snap then some "older slots hold foreign content or are out of age order"
      else if !frameOk c prev o.snap then some "file outside the window created, modified or removed"
      else checkRollsAux c initWin false o.snap rolled' rest

def checkRolls (c : SpecCfg) (initWin : List Bytes) (prev : Disk) (rolled : List Bytes)
    (h : List (Option Bytes × RollObs)) : Option String :=
  checkRollsAux c initWin false prev rolled h

end Log4rs.Roller
