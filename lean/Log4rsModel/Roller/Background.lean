import Log4rsModel.Roller.Crash
/-
`FixedWindowRoller::roll` under the cargo feature `background_rotation` (count ≠ 0; count = 0 is
the same synchronous `remove_file` as without the feature):

  phase 1 (synchronous, inside `roll`):  temp = make_temp_file_name(file)   -- `file` with its
            extension replaced by the unix seconds, bumped while the name exists: a path that is
            neither the active path nor an archive name and does not exist
          move_file(file, temp)
  wait    lock the pair (Mutex<bool>, Condvar); `if !*ready { cvar.wait }`; `*ready = false`
  spawn   a thread that locks the pair, runs `rotate(pattern, compression, base, count, temp)`
          — phase 2, the foreground rotation with `temp` in the place of the log file —, prints an
          error to stderr if it fails (nobody else learns of it), sets `*ready = true`, notifies.
  `roll` returns Ok as soon as the thread is spawned.

State machine: `ready` is the flag, `threads` the temp files of the spawned and unfinished rotation
threads, `waiting` the temp file of a `roll` call that sits between phase 1 and the spawn (roll
calls are serialised by the appender's mutex, so there is at most one). Phase 2 is one atomic event
here: it touches only the temp file and the archive names, the appender only the active path, so
every interleaving of its steps with appends commutes (`LemmasBg.lean`); its intermediate states
are those of the foreground rotation (C08_crash_safe with `temp` as the file).
A `finish` may carry a fault oracle: the rotation thread's failure is swallowed.
-/
namespace Log4rs.Roller

structure BgSt where
  disk : Disk
  ready : Bool
  threads : List Path
  waiting : Option Path

def BgSt.init (d : Disk) : BgSt := { disk := d, ready := true, threads := [], waiting := none }

def BgSt.quiescent (s : BgSt) : Prop := s.threads = [] ∧ s.waiting = none

inductive BgEv where
  /-- the appender has written `x` to the log path and calls `roll`: phase 1 with temp name `tmp` -/
  | phase1 (x : Bytes) (tmp : Path)
  /-- the waiting `roll` passes the `ready` test, spawns its thread and returns -/
  | spawn
  /-- the `i`-th unfinished rotation thread runs its rotation to the end (fault oracle `fault`) -/
  | finish (i : Nat) (fault : Nat → Bool)

/-- phase 2: `rotate` from the temp file; on failure the disk stays as the failing step left it -/
def phase2 (r : RollerCfg) (tmp : Path) (fault : Nat → Bool) (d : Disk) : Disk :=
  (fixedWindowRoll r tmp fault d).2

/-- one event; `none` = not enabled in this state. `waitForReady = false` is the mutant that
spawns without looking at the flag. -/
def bgStep (waitForReady : Bool) (r : RollerCfg) (file : Path) (s : BgSt) : BgEv → Option BgSt
  | .phase1 x tmp =>
    if s.waiting.isSome || tmp = file || (s.disk.get? tmp).isSome then none
    else some { s with disk := moveFile file tmp (s.disk.set file x), waiting := some tmp }
  | .spawn =>
    match s.waiting with
    | none => none
    | some t =>
      if waitForReady && !s.ready then none
      else some { s with ready := false, threads := s.threads ++ [t], waiting := none }
  | .finish i fault =>
    match s.threads[i]? with
    | none => none
    | some t => some { s with disk := phase2 r t fault s.disk, threads := s.threads.eraseIdx i, ready := true }

def bgRun (waitForReady : Bool) (r : RollerCfg) (file : Path) : List BgEv → BgSt → Option BgSt
  | [], s => some s
  | e :: rest, s =>
    match bgStep waitForReady r file s e with
    | none => none
    | some s' => bgRun waitForReady r file rest s'

/-- the contents handed to `roll`, in order -/
def rolledContents : List BgEv → List Bytes
  | [] => []
  | .phase1 x _ :: rest => x :: rolledContents rest
  | _ :: rest => rolledContents rest

/-- every rotation thread of the history runs without a fault -/
def faultFree : List BgEv → Prop
  | [] => True
  | .finish _ f :: rest => (∀ k, f k = false) ∧ faultFree rest
  | _ :: rest => faultFree rest

/-- the temp names of the history are neither the active path nor archive names -/
def tempsApart (r : RollerCfg) (file : Path) : List BgEv → Prop
  | [] => True
  | .phase1 _ tmp :: rest => tmp ≠ file ∧ (∀ i, r.nameOf i ≠ tmp) ∧ tempsApart r file rest
  | _ :: rest => tempsApart r file rest

/-- a process death between phase 1 and the end of phase 2 leaves the rolled content under the
temp name: the disk of the crash image right after phase 1 -/
def crashAfterPhase1 (file tmp : Path) (d : Disk) : Disk := moveFile file tmp d

end Log4rs.Roller
