import Log4rsModel.Roller.Model
import Log4rsModel.Base.Str
import Log4rsModel.Base.Outcome
/-
Concrete slot naming of the fixed-window roller, and the parts of `FixedWindowRoller` that the
shared `Roller/Model.lean` leaves abstract:

  name p i      = expand_env_vars(pattern.replace("{}", &i.to_string()))      (`rotate`)
  hasHole p     = pattern.contains("{}")                                       (`build` rejects otherwise)
  compressionOf = `Path::new(pattern).extension()` ∈ {"gz","zst"}              (`build`)
  representable = the window's last index `base + count - 1` is a `u32`; since the fix e76ee7b the
                  builder returns Err for the other windows (`buildOk`)
  rollU32       = `roll` with the `u32` arithmetic made explicit: `base + (count - 1)` — it cannot
                  overflow for a representable window (the panic branch is what the arithmetic
                  would do for a roller the builder never yields)
  rollU32_unfixed = the code before the fix (defect F11): `base + count - 1` forms `base + count`
                  first, so it overflowed as soon as base + count ≥ 2^32 — also for the
                  representable window base = 2^32-1, count = 1.

`expandEnv` is a single left-to-right pass over `$ENV{NAME}` references. It coincides with the
code's replace-all loop whenever no substituted value (together with its context) forms a new
reference — which is all the roller theorems need, because they take the expansion as a parameter
`expand` and only assume that it does not identify two slot names.
-/
namespace Log4rs.Roller
open Log4rs.Str

/-- `str::replace("{}", d)`: leftmost, non-overlapping; the output is not rescanned. -/
def substIdx (d : List Char) : List Char → List Char
  | [] => []
  | '{' :: '}' :: rest => d ++ substIdx d rest
  | c :: rest => c :: substIdx d rest

/-- `str::contains("{}")` -/
def hasHole : List Char → Bool
  | [] => false
  | '{' :: '}' :: _ => true
  | _ :: rest => hasHole rest

/-- ASCII part of `char::is_alphanumeric` (the generators use ASCII names only) -/
def isAsciiAlnum (c : Char) : Bool :=
  isAsciiDigit c || ('a'.toNat ≤ c.toNat && c.toNat ≤ 'z'.toNat) ||
    ('A'.toNat ≤ c.toNat && c.toNat ≤ 'Z'.toNat)

def isEnvStart (c : Char) : Bool := isAsciiAlnum c || c = '_'
def isEnvPart (c : Char) : Bool := isAsciiAlnum c || c = '_' || c = '.'

/-- after `$ENV{`: the variable name and the text after the closing brace, if well formed -/
def envRef (s : List Char) : Option (List Char × List Char) :=
  match s with
  | [] => none
  | c :: rest =>
    if isEnvStart c then
      let nm := c :: rest.takeWhile isEnvPart
      match rest.dropWhile isEnvPart with
      | '}' :: after => some (nm, after)
      | _ => none
    else none

def lookupEnv (env : List (List Char × List Char)) (n : List Char) : Option (List Char) :=
  (env.find? (fun e => e.1 = n)).map (·.2)

def expandEnvAux (env : List (List Char × List Char)) : Nat → List Char → List Char
  | 0, s => s
  | _ + 1, [] => []
  | fuel + 1, c :: rest =>
    if isPrefix ['$', 'E', 'N', 'V', '{'] (c :: rest) then
      match envRef ((c :: rest).drop 5) with
      | some (nm, after) =>
        match lookupEnv env nm with
        | some v => v ++ expandEnvAux env fuel after
        | none => c :: expandEnvAux env fuel rest
      | none => c :: expandEnvAux env fuel rest
    else c :: expandEnvAux env fuel rest

/-- `env_util::expand_env_vars` for references that do not interact (see the header) -/
def expandEnv (env : List (List Char × List Char)) (s : List Char) : List Char :=
  expandEnvAux env (s.length + 1) s

/-- the archive name of index `i` -/
def name (expand : List Char → List Char) (p : List Char) (i : Nat) : Path :=
  expand (substIdx (decimal i) p)

/-- last path component (text after the last `/`) -/
def lastComponent (p : List Char) : List Char :=
  (p.reverse.takeWhile (· ≠ '/')).reverse

/-- `Path::extension`: text after the last `.` of the file name, unless the only `.` is leading -/
def extensionOf (p : List Char) : Option (List Char) :=
  let f := lastComponent p
  let ext := (f.reverse.takeWhile (· ≠ '.')).reverse
  if ext.length = f.length then none            -- no dot at all
  else if ext.length + 1 = f.length then none   -- the only dot is the first character
  else some ext

/-- the compression `build` selects (features gzip and zstd on) -/
def compressionOf (p : List Char) : Compression :=
  match extensionOf p with
  | some ['g', 'z'] => .gzip
  | some ['z', 's', 't'] => .zstd
  | _ => .none

/-- the roller `FixedWindowRoller::builder().base(b).build(p, c)` yields (when `hasHole p`) -/
def mkRoller (expand : List Char → List Char) (codec : Bytes → Bytes) (p : List Char)
    (base count : Nat) : RollerCfg :=
  { nameOf := name expand p, base, count, comp := compressionOf p, codec }

def U32_MOD : Nat := 4294967296

/-- what is stored at slot `base` for a rolled content `x` -/
def RollerCfg.enc (r : RollerCfg) (x : Bytes) : Bytes :=
  match r.comp with
  | .none => x
  | _ => r.codec x

/-- the last index `base + count - 1` of the window fits in a `u32` (no window for count = 0) -/
def representable (base count : Nat) : Bool := count = 0 || base + count ≤ U32_MOD

/-- `FixedWindowRollerBuilder::build` succeeds: the pattern contains `{}` and (since e76ee7b,
`base.checked_add(count - 1)`) the window is representable -/
def buildOk (p : List Char) (base count : Nat) : Bool := hasHole p && representable base count

def liftRoll (x : Except FsErr Disk × Disk) : Outcome FsErr Disk × Disk :=
  match x with
  | (.ok d', d'') => (.ok d', d'')
  | (.error e, d'') => (.err e, d'')

/-- `FixedWindowRoller::roll` with the `u32` arithmetic explicit (overflow checks on, as in the
harness build and in every debug build): the loop bound is `base + (count - 1)`, which overflows
only for an unrepresentable window — and those the builder rejects. -/
def rollU32 (r : RollerCfg) (file : Path) (fault : Nat → Bool) (d : Disk) :
    Outcome FsErr Disk × Disk :=
  if r.count ≠ 0 ∧ U32_MOD < r.base + r.count then
    (.panic "attempt to add with overflow", d)
  else liftRoll (fixedWindowRoll r file fault d)

/-- the roll before the fix e76ee7b (F11): `base + count - 1` panicked when `base + count ≥ 2^32` -/
def rollU32_unfixed (r : RollerCfg) (file : Path) (fault : Nat → Bool) (d : Disk) :
    Outcome FsErr Disk × Disk :=
  if r.count ≠ 0 ∧ U32_MOD ≤ r.base + r.count then
    (.panic "attempt to add with overflow", d)
  else liftRoll (fixedWindowRoll r file fault d)

/-- is `e` an error of the final move/compress (`compression.compress(&file, &dst_0)`, the only call
whose error `rotate` printed)? `notFound` comes from nowhere else (the shifts tolerate it); an
injected fault counts when it sits on the final step (index `count - 1`). -/
def RollerCfg.finalStepErr (r : RollerCfg) : FsErr → Bool
  | .notFound => r.count != 0
  | .injected k => r.count != 0 && k + 1 == r.count

/-- what `rotate` answers when there is no file to roll and it looks first: a plain pattern
reports Ok (as `move_file` always did for a missing source), a compressing one the `NotFound` of
`File::open` — in both cases without having touched anything -/
def RollerCfg.missingResult (r : RollerCfg) (d : Disk) : Outcome FsErr Disk × Disk :=
  match r.comp with
  | .none => (.ok d, d)
  | _ => (.err .notFound, d)

/-- `FixedWindowRoller::roll` as a process sees it.

`checksFileFirst` (count ≠ 0): no file to roll ⇒ `missingResult`, nothing shifted. Without it
(the code before the fix) the rotation runs on the disk as it is: the shift loop moves every archive
up, evicts the oldest and leaves slot `base` empty.

`stdoutWritable` is a condition of the process (false: fd 1 is a closed pipe with SIGPIPE ignored —
Rust's default —, or a full device). Before the fix a roller with `printsOnError` printed the error
of its final step with `println!`, which panics on an unwritable stdout: the failed roll then
PANICKED instead of returning its error (and under `background_rotation` the rotation thread died
before setting `ready`, so every later roll waited for ever).

With `checksFileFirst = true`, `printsOnError = false` (the fully repaired variant; the code now has `checksFileFirst = false`, the default) and the file
present this is `rollU32` (`C07_rollProc_present`). -/
def rollProc (stdoutWritable : Bool) (r : RollerCfg) (file : Path) (fault : Nat → Bool) (d : Disk) :
    Outcome FsErr Disk × Disk :=
  if r.checksFileFirst && r.count != 0 && !d.has file then r.missingResult d
  else
    match rollU32 r file fault d with
    | (.err e, d') =>
      if r.printsOnError && !stdoutWritable && r.finalStepErr e then
        (.panic "failed printing to stdout", d')
      else (.err e, d')
    | x => x

end Log4rs.Roller
