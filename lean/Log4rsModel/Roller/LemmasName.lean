import Log4rsModel.Roller.Name
/-
Injectivity of the slot naming: two different replacement texts never produce the same string
from a pattern that contains `{}`; decimal rendering is injective; hence `name p` is injective
whenever the environment expansion does not identify two substituted patterns.
-/
namespace Log4rs.Roller
open Log4rs.Str

theorem length_substIdx_mono (d1 d2 : List Char) (h : d1.length ≤ d2.length) (p : List Char) :
    (substIdx d1 p).length ≤ (substIdx d2 p).length := by
  fun_induction substIdx d1 p with
  | case1 => simp [substIdx]
  | case2 rest ih => simp only [substIdx, List.length_append]; omega
  | case3 c rest hne ih =>
    rw [substIdx.eq_3 _ _ _ hne]
    simp only [List.length_cons]; omega

/-- two replacement texts that give the same result on a pattern with a hole are equal -/
theorem substIdx_inj (p : List Char) (hp : hasHole p = true) (d1 d2 : List Char)
    (h : substIdx d1 p = substIdx d2 p) : d1 = d2 := by
  induction p using hasHole.induct with
  | case1 => simp [hasHole] at hp
  | case2 rest =>
    simp only [substIdx] at h
    have hlen := congrArg List.length h
    simp only [List.length_append] at hlen
    rcases Nat.le_total d1.length d2.length with hle | hle
    · have := length_substIdx_mono d1 d2 hle rest
      have hl : d1.length = d2.length := by omega
      exact (List.append_inj h hl).1
    · have := length_substIdx_mono d2 d1 hle rest
      have hl : d1.length = d2.length := by omega
      exact (List.append_inj h hl).1
  | case3 c rest hne ih =>
    rw [substIdx.eq_3 _ _ _ hne, substIdx.eq_3 _ _ _ hne] at h
    rw [hasHole.eq_3 _ _ hne] at hp
    exact ih hp (List.cons.inj h).2

theorem decimal_inj (i j : Nat) (h : decimal i = decimal j) : i = j := by
  have hi := @Nat.ofDigitChars_ten_toDigits i
  have hj := @Nat.ofDigitChars_ten_toDigits j
  unfold decimal at h
  rw [h] at hi
  omega

/-- `pattern.replace("{}", i)` is injective in `i` for every pattern the builder accepts -/
theorem substIdx_decimal_inj (p : List Char) (hp : hasHole p = true) (i j : Nat)
    (h : substIdx (decimal i) p = substIdx (decimal j) p) : i = j :=
  decimal_inj i j (substIdx_inj p hp _ _ h)

end Log4rs.Roller
