import Log4rsModel.TimeTrigger.Spec
/-
Helper lemmas for C16: the machine-arithmetic checks succeed inside the representable range, the
modulate increment, and the fixed-offset view of chrono (`FixedOffsetView`).
-/
namespace Log4rs.TimeTrigger

@[simp] theorem bind_ok {α β : Type} (a : α) (f : α → Out β) : bind (.ok a) f = f a := rfl
@[simp] theorem bind_panic {α β : Type} (w : String) (f : α → Out β) :
    bind (Outcome.panic w : Out α) f = .panic w := rfl

/-- the increment the code adds: `n`, or with modulation `n - field % n` -/
def incVal (f n : Int) (m : Bool) : Int := if m then n - f % n else n

theorem incVal_bounds {f n : Int} (m : Bool) (hn : 1 ≤ n) : 1 ≤ incVal f n m ∧ incVal f n m ≤ n := by
  have h1 := Int.emod_nonneg f (b := n) (by omega)
  have h2 := Int.emod_lt_of_pos f (b := n) (by omega)
  cases m <;> simp [incVal] <;> omega

/-- with modulation the code lands on the next multiple of `n` -/
theorem incVal_mod (f n : Int) : f + incVal f n true = (f / n + 1) * n := by
  have h := Int.mul_ediv_add_emod f n
  simp only [incVal, if_true]
  rw [Int.add_mul, Int.one_mul, Int.mul_comm (f / n) n]
  omega

theorem incI64_eq {f n : Int} (m : Bool) (hf : 0 ≤ f) (hn : 1 ≤ n) (hnb : n ≤ I64_MAX) :
    incI64 f n m = .ok (incVal f n m) := by
  cases m
  · simp [incI64, incVal]
  · have h1 := Int.emod_nonneg f (b := n) (by omega)
    have h2 := Int.emod_lt_of_pos f (b := n) (by omega)
    have hne : n ≠ 0 := by omega
    have hm1 : n ≠ -1 := by omega
    simp only [I64_MAX] at hnb
    have hr : I64_MIN ≤ n - f % n ∧ n - f % n ≤ I64_MAX := by
      simp only [I64_MIN, I64_MAX]; omega
    simp [incI64, incVal, remS, hne, hm1, Int.tmod_eq_emod_of_nonneg hf, chkI64, hr]

theorem dur_ok {mult k : Int} (h : -DUR_MAX ≤ k * mult ∧ k * mult ≤ DUR_MAX) :
    dur mult k = .ok (k * mult) := by
  simp only [DUR_MAX] at h
  have : I64_MIN ≤ k * mult ∧ k * mult ≤ I64_MAX ∧ -DUR_MAX ≤ k * mult ∧ k * mult ≤ DUR_MAX := by
    simp only [I64_MIN, I64_MAX, DUR_MAX]; omega
  simp [dur, this]

theorem dtAdd_ok {t s : Int} (h : DT_MIN ≤ t + s ∧ t + s ≤ DT_MAX) : dtAdd t s = .ok (t + s) := by
  simp [dtAdd, h]

/-- monotonicity used for the bounds: `0 ≤ a ≤ b`, `0 ≤ m` gives `a * m ≤ b * m` -/
theorem mul_le_of_le {a b m : Int} (hab : a ≤ b) (hm : 0 ≤ m) : a * m ≤ b * m :=
  Int.mul_le_mul_of_nonneg_right hab hm

/-- the chain `increment → Duration → DateTime + Duration` of the second/minute/hour/day branches -/
theorem addUnits_eq {time f n mult : Int} (m : Bool) (hf : 0 ≤ f) (hn : 1 ≤ n) (hmult : 1 ≤ mult)
    (hdur : n * mult ≤ DUR_MAX) (hlo : DT_MIN ≤ time) (hhi : time + n * mult ≤ DT_MAX) :
    bind (incI64 f n m) (fun inc => bind (dur mult inc) (fun d => dtAdd time d))
      = .ok (time + incVal f n m * mult) := by
  obtain ⟨hi1, hi2⟩ := incVal_bounds (f := f) m hn
  have hmono : incVal f n m * mult ≤ n * mult := mul_le_of_le hi2 (by omega)
  have hpos : 1 * mult ≤ incVal f n m * mult := mul_le_of_le hi1 (by omega)
  have hnb : n ≤ I64_MAX := by
    have : n * 1 ≤ n * mult := Int.mul_le_mul_of_nonneg_left hmult (by omega)
    simp only [DUR_MAX] at hdur; simp only [I64_MAX]; omega
  rw [incI64_eq m hf hn hnb, bind_ok, dur_ok (by simp only [DUR_MAX] at hdur ⊢; omega), bind_ok,
    dtAdd_ok (by omega)]


/-- the chain of the week branch: `time + Duration::weeks(inc) - Duration::days(weekday)` -/
theorem addWeeks_eq {time f n wd : Int} (m : Bool) (hf : 0 ≤ f) (hn : 1 ≤ n)
    (hdur : n * 604800 ≤ DUR_MAX) (hwd : 0 ≤ wd ∧ wd ≤ 6) (hlo : DT_MIN + 518400 ≤ time)
    (hhi : time + n * 604800 ≤ DT_MAX) :
    bind (incI64 f n m) (fun inc => bind (dur 604800 inc) fun dw => bind (dtAdd time dw) fun t1 =>
      bind (dur 86400 wd) fun dd => dtAdd t1 (-dd))
      = .ok (time + incVal f n m * 604800 - wd * 86400) := by
  obtain ⟨hi1, hi2⟩ := incVal_bounds (f := f) m hn
  have hnb : n ≤ I64_MAX := by simp only [DUR_MAX] at hdur; simp only [I64_MAX]; omega
  simp only [DUR_MAX, DT_MIN, DT_MAX] at *
  rw [incI64_eq m hf hn hnb, bind_ok, dur_ok (by simp only [DUR_MAX]; omega), bind_ok,
    dtAdd_ok (by simp only [DT_MIN, DT_MAX]; omega), bind_ok, dur_ok (by simp only [DUR_MAX]; omega), bind_ok,
    dtAdd_ok (by simp only [DT_MIN, DT_MAX]; omega)]
  congr 1

/-! ### chrono in a zone of constant offset -/

/-- local seconds of the civil time the code truncates `current` to -/
def truncLocal (L : Int) : IUnit → Int
  | .second => L
  | .minute => L - L % 60
  | .hour => L - L % 3600
  | _ => L - L % 86400

/-- What chrono tells the code about the instant whose local seconds are `L`, in a zone whose UTC
offset is the constant `off`: the time-of-day fields and the weekday are those of `L` (1970-01-01
was a Thursday), ordinal and ISO week number are non-negative, and the truncated civil time
resolves to the single instant `truncLocal L u - off`. -/
structure FixedOffsetView (c : Civil) (L off : Int) (mk : CivilTime → LocalResult) : Prop where
  second : c.second = L % 60
  minute : c.minute = L / 60 % 60
  hour : c.hour = L / 3600 % 24
  weekday : c.weekday = (L / 86400 + 3) % 7
  ordinal0 : 0 ≤ c.ordinal0
  week0 : 0 ≤ c.week0
  mk_trunc : ∀ u, isCalendarUnit u = false → mk (truncated c u) = .single (truncLocal L u - off)

theorem startOfUnit_le (c : Civil) (L : Int) (u : IUnit) (hwd : 0 ≤ c.weekday ∧ c.weekday ≤ 6)
    (hu : isCalendarUnit u = false) :
    startOfUnit c L u ≤ L ∧ L < startOfUnit c L u + unitSecs u := by
  cases u <;> simp [isCalendarUnit] at hu <;> simp only [startOfUnit, unitSecs] <;> omega

theorem field_nonneg {c : Civil} {L off : Int} {mk : CivilTime → LocalResult}
    (h : FixedOffsetView c L off mk) (u : IUnit) (hu : isCalendarUnit u = false) : 0 ≤ fieldOf c u := by
  have := h.second; have := h.minute; have := h.hour; have := h.ordinal0; have := h.week0
  cases u <;> simp [isCalendarUnit] at hu <;> simp only [fieldOf] <;> omega

/-! ### the repaired algorithm -/

theorem incFixed_pos {n f v : Int} {m : Bool} (h : incFixed n f m = some v) : 1 ≤ v := by
  have hn : 1 ≤ max n 1 := by omega
  have hlt := Int.tmod_lt_of_pos f (b := max n 1) (by omega)
  cases m
  · simp [incFixed] at h; omega
  · simp only [incFixed, if_true] at h
    split at h
    · cases h; omega
    · cases h

theorem incFixed_eq {n f : Int} (m : Bool) (hn : 1 ≤ n) (hf : 0 ≤ f) (hnb : n ≤ I64_MAX) :
    incFixed n f m = some (incVal f n m) := by
  have hmax : max n 1 = n := by omega
  have h1 := Int.emod_nonneg f (b := n) (by omega)
  have h2 := Int.emod_lt_of_pos f (b := n) (by omega)
  simp only [I64_MAX] at hnb
  cases m
  · simp [incFixed, incVal, hmax]
  · have : inI64 (n - f % n) = true := by
      unfold inI64; exact decide_eq_true (by simp only [I64_MIN, I64_MAX]; omega)
    simp [incFixed, incVal, hmax, Int.tmod_eq_emod_of_nonneg hf, this]

theorem spanFixed_no_panic {count unit : Int} (h : count * unit ≠ I64_MIN) :
    ∃ r, spanFixed count unit = .ok r := by
  unfold spanFixed
  simp only []
  repeat' split
  all_goals first | exact ⟨_, rfl⟩ | contradiction

theorem spanFixed_ok {count unit : Int} (h0 : 0 ≤ count * unit) (h1 : count * unit ≤ DUR_MAX) :
    spanFixed count unit = .ok (some (count * unit)) := by
  simp only [DUR_MAX] at h1
  have hi : inI64 (count * unit) = true := by
    unfold inI64; exact decide_eq_true (by simp only [I64_MIN, I64_MAX]; omega)
  have hne : count * unit ≠ I64_MIN := by simp only [I64_MIN]; omega
  have hr : ¬ (count * unit > DUR_MAX ∨ count * unit < -DUR_MAX) := by simp only [DUR_MAX]; omega
  simp [spanFixed, hi, hne, hr]

theorem midnightPlus_no_panic (e : Env) (days : Int) : ∃ r, midnightPlus e days = .ok r := by
  have hne : days * 86400 ≠ I64_MIN := by simp only [I64_MIN]; omega
  obtain ⟨r, hr⟩ := spanFixed_no_panic hne
  unfold midnightPlus
  rw [hr, bind_ok]
  cases r
  · exact ⟨_, rfl⟩
  · simp only []; split <;> exact ⟨_, rfl⟩

theorem unitStartPlus_no_panic (e : Env) (count unit elapsed : Int) (h : count * unit ≠ I64_MIN) :
    ∃ r, unitStartPlus e count unit elapsed = .ok r := by
  obtain ⟨r, hr⟩ := spanFixed_no_panic h
  unfold unitStartPlus
  rw [hr, bind_ok]
  cases r
  · exact ⟨_, rfl⟩
  · simp only []; split <;> exact ⟨_, rfl⟩

theorem checkedNextFixed_no_panic (c : Civil) (e : Env) (u : IUnit) (n : Int) (m : Bool) :
    ∃ r, checkedNextFixed c e u n m = .ok r := by
  cases u <;> simp only [checkedNextFixed]
  case second =>
    cases h : incFixed n c.second m with
    | none => exact ⟨_, rfl⟩
    | some inc =>
      have := incFixed_pos h
      exact unitStartPlus_no_panic e inc 1 0 (by simp only [I64_MIN]; omega)
  case minute =>
    cases h : incFixed n c.minute m with
    | none => exact ⟨_, rfl⟩
    | some inc => exact unitStartPlus_no_panic e inc 60 _ (by simp only [I64_MIN]; omega)
  case hour =>
    cases h : incFixed n c.hour m with
    | none => exact ⟨_, rfl⟩
    | some inc => exact unitStartPlus_no_panic e inc 3600 _ (by simp only [I64_MIN]; omega)
  case day =>
    cases h : incFixed n c.ordinal0 m with
    | none => exact ⟨_, rfl⟩
    | some inc => exact midnightPlus_no_panic e inc
  case week =>
    cases h : incFixed n c.week0 m with
    | none => exact ⟨_, rfl⟩
    | some inc =>
      simp only []
      split
      · exact midnightPlus_no_panic e _
      · exact ⟨_, rfl⟩
  case month =>
    cases h : incFixed n c.month0 m with
    | none => exact ⟨_, rfl⟩
    | some inc => simp only []; split <;> exact ⟨_, rfl⟩
  case year =>
    cases h : incFixed n c.year m with
    | none => exact ⟨_, rfl⟩
    | some inc => simp only []; split <;> exact ⟨_, rfl⟩

/-- `t` is an instant chrono offers for the local time `l` -/
def Occurrence (mkL : Int → LocalResult) (l t : Int) : Prop :=
  mkL l = .single t ∨ ∃ a b, mkL l = .ambiguous a b ∧ (t = a ∨ t = b)

theorem resolveAfter_occurrence {mkL : Int → LocalResult} {now l : Int} (fuel : Nat) (h : mkL l ≠ .none) :
    ∃ t, resolveAfter mkL now (fuel + 1) l = some t ∧ Occurrence mkL l t := by
  unfold resolveAfter
  cases hm : mkL l with
  | single t => exact ⟨t, rfl, Or.inl hm⟩
  | ambiguous a b =>
    refine ⟨if a > now then a else b, rfl, Or.inr ⟨a, b, hm, ?_⟩⟩
    split <;> simp
  | none => exact absurd hm h

/-- the local time the day and week branches resolve is the specification's boundary -/
theorem target_day_week (c : Civil) (L : Int) (u : IUnit) (hu : u = .day ∨ u = .week) (n : Int) (m : Bool) :
    (L - L % 86400) + (if u = .week then incVal c.week0 n m * 7 - c.weekday else incVal c.ordinal0 n m) * 86400
      = expectedLocal c L u n m := by
  have hmod := incVal_mod (fieldOf c u) n
  generalize hq : (fieldOf c u / n + 1) * n = q at hmod
  rcases hu with rfl | rfl <;> simp only [fieldOf] at hmod hq <;>
    simp [expectedLocal, startOfPeriod, startOfUnit, fieldOf, unitSecs, hq] <;>
    cases m <;> simp [incVal] at hmod ⊢ <;> omega

theorem scheduleFixed_ok (t maxDelay d : Int) (hd : 0 ≤ d) :
    ∃ t', scheduleFixed (.ok t) maxDelay d = .ok t' ∧ t ≤ t' := by
  unfold scheduleFixed
  rw [bind_ok]
  split
  · split
    · obtain ⟨r, hr⟩ := spanFixed_no_panic (count := d) (unit := 1) (by simp only [I64_MIN]; omega)
      rw [hr, bind_ok]
      cases r with
      | none => exact ⟨t, rfl, Int.le_refl t⟩
      | some v =>
        have hv : v = d * 1 := by
          unfold spanFixed at hr
          simp only [] at hr
          repeat' split at hr
          all_goals first | (cases hr; done) | (injection hr with h; injection h with h; exact h.symm)
        simp only []
        split
        · exact ⟨t + v, rfl, by omega⟩
        · exact ⟨t, rfl, Int.le_refl t⟩
    · exact ⟨t, rfl, Int.le_refl t⟩
  · exact ⟨t, rfl, Int.le_refl t⟩

theorem runFixed_eq_run (steps : List (Int × Out Int)) (h : ∀ p ∈ steps, ∃ t, p.2 = .ok t) (st : TState) :
    runFixed st steps = run st steps := by
  induction steps generalizing st with
  | nil => rfl
  | cons p rest ih =>
    obtain ⟨a, r⟩ := p
    obtain ⟨t, ht⟩ := h (a, r) (by simp)
    simp only at ht
    subst ht
    have hs : stepFixed st a (.ok t) = step st a (.ok t) := by
      cases st <;> simp only [stepFixed, step] <;> split <;> rfl
    simp only [runFixed, run, hs]
    rw [ih (fun p hp => h p (by simp [hp]))]

end Log4rs.TimeTrigger
