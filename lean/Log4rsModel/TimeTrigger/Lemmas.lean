import Log4rsModel.TimeTrigger.Spec
/-
Helper lemmas for C16: the machine-arithmetic checks succeed inside the representable range, the
modulate increment, and the fixed-offset view of chrono (`FixedOffsetView`).
-/
namespace Log4rs.TimeTrigger

@[simp] theorem bind_ok {α β : Type} (a : α) (f : α → Out β) : bind (.ok a) f = f a := rfl
@[simp] theorem bind_panic {α β : Type} (w : String) (f : α → Out β) :
    bind (Outcome.panic w : Out α) f = .panic w := rfl

/-- the increment the code adds: `n`, or with modulation `n - field % n` -/
def incVal (f n : Int) (m : Bool) : Int := if m then n - f % n else n

theorem incVal_bounds {f n : Int} (m : Bool) (hn : 1 ≤ n) : 1 ≤ incVal f n m ∧ incVal f n m ≤ n := by
  have h1 := Int.emod_nonneg f (b := n) (by omega)
  have h2 := Int.emod_lt_of_pos f (b := n) (by omega)
  cases m <;> simp [incVal] <;> omega

/-- with modulation the code lands on the next multiple of `n` -/
theorem incVal_mod (f n : Int) : f + incVal f n true = (f / n + 1) * n := by
  have h := Int.mul_ediv_add_emod f n
  simp only [incVal, if_true]
  rw [Int.add_mul, Int.one_mul, Int.mul_comm (f / n) n]
  omega

/-- monotonicity used for the bounds: `0 ≤ a ≤ b`, `0 ≤ m` gives `a * m ≤ b * m` -/
theorem mul_le_of_le {a b m : Int} (hab : a ≤ b) (hm : 0 ≤ m) : a * m ≤ b * m :=
  Int.mul_le_mul_of_nonneg_right hab hm

/-- local seconds of the civil time the code truncates `current` to -/
def truncLocal (L : Int) : IUnit → Int
  | .second => L
  | .minute => L - L % 60
  | .hour => L - L % 3600
  | _ => L - L % 86400

theorem startOfUnit_le (c : Civil) (L : Int) (u : IUnit) (hwd : 0 ≤ c.weekday ∧ c.weekday ≤ 6)
    (hu : isCalendarUnit u = false) :
    startOfUnit c L u ≤ L ∧ L < startOfUnit c L u + unitSecs u := by
  cases u <;> simp [isCalendarUnit] at hu <;> simp only [startOfUnit, unitSecs] <;> omega

/-! ### the repaired algorithm -/

theorem incFixed_pos {n f v : Int} {m : Bool} (h : incFixed n f m = some v) : 1 ≤ v := by
  have hn : 1 ≤ max n 1 := by omega
  have hlt := Int.tmod_lt_of_pos f (b := max n 1) (by omega)
  cases m
  · simp [incFixed] at h; omega
  · simp only [incFixed, if_true] at h
    split at h
    · cases h; omega
    · cases h

theorem incFixed_eq {n f : Int} (m : Bool) (hn : 1 ≤ n) (hf : 0 ≤ f) (hnb : n ≤ I64_MAX) :
    incFixed n f m = some (incVal f n m) := by
  have hmax : max n 1 = n := by omega
  have h1 := Int.emod_nonneg f (b := n) (by omega)
  have h2 := Int.emod_lt_of_pos f (b := n) (by omega)
  simp only [I64_MAX] at hnb
  cases m
  · simp [incFixed, incVal, hmax]
  · have : inI64 (n - f % n) = true := by
      unfold inI64; exact decide_eq_true (by simp only [I64_MIN, I64_MAX]; omega)
    simp [incFixed, incVal, hmax, Int.tmod_eq_emod_of_nonneg hf, this]

theorem spanFixed_no_panic {count unit : Int} (h : count * unit ≠ I64_MIN) :
    ∃ r, spanFixed count unit = .ok r := by
  unfold spanFixed
  simp only []
  repeat' split
  all_goals first | exact ⟨_, rfl⟩ | contradiction

theorem spanFixed_ok {count unit : Int} (h0 : 0 ≤ count * unit) (h1 : count * unit ≤ DUR_MAX) :
    spanFixed count unit = .ok (some (count * unit)) := by
  simp only [DUR_MAX] at h1
  have hi : inI64 (count * unit) = true := by
    unfold inI64; exact decide_eq_true (by simp only [I64_MIN, I64_MAX]; omega)
  have hne : count * unit ≠ I64_MIN := by simp only [I64_MIN]; omega
  have hr : ¬ (count * unit > DUR_MAX ∨ count * unit < -DUR_MAX) := by simp only [DUR_MAX]; omega
  simp [spanFixed, hi, hne, hr]

theorem midnightPlus_no_panic (e : Env) (days : Int) : ∃ r, midnightPlus e days = .ok r := by
  have hne : days * 86400 ≠ I64_MIN := by simp only [I64_MIN]; omega
  obtain ⟨r, hr⟩ := spanFixed_no_panic hne
  unfold midnightPlus
  rw [hr, bind_ok]
  cases r
  · exact ⟨_, rfl⟩
  · simp only []; split <;> exact ⟨_, rfl⟩

theorem unitStartPlus_no_panic (e : Env) (count unit elapsed : Int) (h : count * unit ≠ I64_MIN) :
    ∃ r, unitStartPlus e count unit elapsed = .ok r := by
  obtain ⟨r, hr⟩ := spanFixed_no_panic h
  unfold unitStartPlus
  rw [hr, bind_ok]
  cases r
  · exact ⟨_, rfl⟩
  · simp only []; split <;> exact ⟨_, rfl⟩

theorem checkedNextFixed_no_panic (c : Civil) (e : Env) (u : IUnit) (n : Int) (m : Bool) :
    ∃ r, checkedNextFixed c e u n m = .ok r := by
  cases u <;> simp only [checkedNextFixed]
  case second =>
    cases h : incFixed n c.second m with
    | none => exact ⟨_, rfl⟩
    | some inc =>
      have := incFixed_pos h
      exact unitStartPlus_no_panic e inc 1 0 (by simp only [I64_MIN]; omega)
  case minute =>
    cases h : incFixed n c.minute m with
    | none => exact ⟨_, rfl⟩
    | some inc => exact unitStartPlus_no_panic e inc 60 _ (by simp only [I64_MIN]; omega)
  case hour =>
    cases h : incFixed n c.hour m with
    | none => exact ⟨_, rfl⟩
    | some inc => exact unitStartPlus_no_panic e inc 3600 _ (by simp only [I64_MIN]; omega)
  case day =>
    cases h : incFixed n c.ordinal0 m with
    | none => exact ⟨_, rfl⟩
    | some inc => exact midnightPlus_no_panic e inc
  case week =>
    cases h : incFixed n c.week0 m with
    | none => exact ⟨_, rfl⟩
    | some inc =>
      simp only []
      split
      · exact midnightPlus_no_panic e _
      · exact ⟨_, rfl⟩
  case month =>
    cases h : incFixed n c.month0 m with
    | none => exact ⟨_, rfl⟩
    | some inc => simp only []; split <;> exact ⟨_, rfl⟩
  case year =>
    cases h : incFixed n c.year m with
    | none => exact ⟨_, rfl⟩
    | some inc => simp only []; split <;> exact ⟨_, rfl⟩

/-- `t` is an instant chrono offers for the local time `l` -/
def Occurrence (mkL : Int → LocalResult) (l t : Int) : Prop :=
  mkL l = .single t ∨ ∃ a b, mkL l = .ambiguous a b ∧ (t = a ∨ t = b)

theorem resolveAfter_occurrence {mkL : Int → LocalResult} {now l : Int} (fuel : Nat) (h : mkL l ≠ .none) :
    ∃ t, resolveAfter mkL now (fuel + 1) l = some t ∧ Occurrence mkL l t := by
  unfold resolveAfter
  cases hm : mkL l with
  | single t => exact ⟨t, rfl, Or.inl hm⟩
  | ambiguous a b =>
    refine ⟨if a > now then a else b, rfl, Or.inr ⟨a, b, hm, ?_⟩⟩
    split <;> simp
  | none => exact absurd hm h

/-- the local time the day and week branches resolve is the specification's boundary -/
theorem target_day_week (c : Civil) (L : Int) (u : IUnit) (hu : u = .day ∨ u = .week) (n : Int) (m : Bool) :
    (L - L % 86400) + (if u = .week then incVal c.week0 n m * 7 - c.weekday else incVal c.ordinal0 n m) * 86400
      = expectedLocal c L u n m := by
  have hmod := incVal_mod (fieldOf c u) n
  generalize hq : (fieldOf c u / n + 1) * n = q at hmod
  rcases hu with rfl | rfl <;> simp only [fieldOf] at hmod hq <;>
    simp [expectedLocal, startOfPeriod, startOfUnit, fieldOf, unitSecs, hq] <;>
    cases m <;> simp [incVal] at hmod ⊢ <;> omega

theorem scheduleFixed_ok (t maxDelay d : Int) (hd : 0 ≤ d) :
    ∃ t', scheduleFixed (.ok t) maxDelay d = .ok t' ∧ t ≤ t' := by
  unfold scheduleFixed
  rw [bind_ok]
  split
  · split
    · obtain ⟨r, hr⟩ := spanFixed_no_panic (count := d) (unit := 1) (by simp only [I64_MIN]; omega)
      rw [hr, bind_ok]
      cases r with
      | none => exact ⟨t, rfl, Int.le_refl t⟩
      | some v =>
        have hv : v = d * 1 := by
          unfold spanFixed at hr
          simp only [] at hr
          repeat' split at hr
          all_goals first | (cases hr; done) | (injection hr with h; injection h with h; exact h.symm)
        simp only []
        split
        · exact ⟨t + v, rfl, by omega⟩
        · exact ⟨t, rfl, Int.le_refl t⟩
    · exact ⟨t, rfl, Int.le_refl t⟩
  · exact ⟨t, rfl, Int.le_refl t⟩


/-- `resolve_after` on a local time that exists: one look at chrono -/
theorem resolveAfter_resolve1 {mkL : Int → LocalResult} {now l : Int} (fuel : Nat) (h : mkL l ≠ .none) :
    resolveAfter mkL now (fuel + 1) l = resolve1 now (mkL l) := by
  unfold resolveAfter
  cases hm : mkL l with
  | single t => rfl
  | ambiguous a b => rfl
  | none => exact absurd hm h

/-- `resolve_after` on a local time in a DST gap: if the local times `l, l + 15 min, …` do not
exist for `k` steps and the next one does (`k` below the 200 iterations of the loop, inside chrono's
range), the answer is chrono's for `l + k · 15 min` — the first step that exists. -/
theorem resolveAfter_gap {mkL : Int → LocalResult} {now : Int} (k : Nat) :
    ∀ (fuel : Nat) (l : Int), k < fuel →
      (∀ j : Nat, j < k → mkL (l + 900 * j) = .none) →
      (∀ j : Nat, j < k → DT_MIN ≤ l + 900 * (j + 1) ∧ l + 900 * (j + 1) ≤ DT_MAX) →
      mkL (l + 900 * k) ≠ .none →
      resolveAfter mkL now fuel l = resolve1 now (mkL (l + 900 * k)) := by
  induction k with
  | zero =>
    intro fuel l hk _ _ hex
    obtain ⟨f, rfl⟩ : ∃ f, fuel = f + 1 := ⟨fuel - 1, by omega⟩
    simpa using resolveAfter_resolve1 (now := now) f (by simpa using hex)
  | succ k ih =>
    intro fuel l hk hnone hrange hex
    obtain ⟨f, rfl⟩ : ∃ f, fuel = f + 1 := ⟨fuel - 1, by omega⟩
    have h0 : mkL l = .none := by simpa using hnone 0 (by omega)
    have hr0 := hrange 0 (by omega)
    unfold resolveAfter
    rw [h0]
    simp only [Int.natCast_zero, Int.zero_add, Int.mul_one] at hr0
    simp only [hr0, and_self, if_true]
    have := ih f (l + 900) (by omega)
      (fun j hj => by have := hnone (j + 1) (by omega); rw [← this]; congr 1; push_cast; omega)
      (fun j hj => by have := hrange (j + 1) (by omega); push_cast at this ⊢; omega)
      (by rw [show l + 900 + 900 * (k : Int) = l + 900 * ((k + 1 : Nat) : Int) by push_cast; omega]; exact hex)
    rw [this]
    congr 2
    push_cast; omega

/-- the specification's boundary of a fixed-length unit is at most `n` units after the start of the
current unit (and that start is not after `L`) -/
theorem expectedLocal_le (c : Civil) (L : Int) (u : IUnit) (hu : isCalendarUnit u = false) (n : Int) (m : Bool)
    (hn : 1 ≤ n) : expectedLocal c L u n m ≤ startOfUnit c L u + n * unitSecs u := by
  have hmod := incVal_mod (fieldOf c u) n
  obtain ⟨_, hi2⟩ := incVal_bounds (f := fieldOf c u) true hn
  have hpos : 0 ≤ unitSecs u := by cases u <;> decide
  have hmul : incVal (fieldOf c u) n true * unitSecs u ≤ n * unitSecs u := mul_le_of_le hi2 hpos
  simp only [expectedLocal, startOfPeriod]
  cases m
  · simp
  · have e : (fieldOf c u / n + 1) * n * unitSecs u
        = fieldOf c u * unitSecs u + incVal (fieldOf c u) n true * unitSecs u := by
      rw [← hmod, Int.add_mul]
    simp only [if_true]; rw [e]; omega


/-- the specification's boundary of a fixed-length unit, written the way the code computes it:
start of the current unit plus the increment -/
theorem expectedLocal_eq (c : Civil) (L : Int) (u : IUnit) (n : Int) (m : Bool) :
    expectedLocal c L u n m = startOfUnit c L u + incVal (fieldOf c u) n m * unitSecs u := by
  have hmod := incVal_mod (fieldOf c u) n
  simp only [expectedLocal, startOfPeriod]
  cases m
  · simp [incVal]
  · have e : (fieldOf c u / n + 1) * n * unitSecs u
        = fieldOf c u * unitSecs u + incVal (fieldOf c u) n true * unitSecs u := by
      rw [← hmod, Int.add_mul]
    simp only [if_true]; rw [e]; omega

end Log4rs.TimeTrigger
