import Log4rsModel.Base.Outcome
/-
Model of `src/append/rolling_file/policy/compound/trigger/time.rs`:
`TimeTrigger::get_next_time`, `TimeTrigger::new` (random delay) and `Trigger::trigger`.

What chrono decides is an input:
* the civil fields of `current` (`Civil`), read off by `year()`, `month0()`, `day()`, `ordinal0()`,
  `iso_week().week0()`, `weekday().num_days_from_monday()`, `hour()`, `minute()`, `second()`;
* `Local.with_ymd_and_hms(y, mo, d, h, mi, s)` is the parameter `mk : CivilTime → LocalResult`
  (single instant / two instants in a DST overlap / none in a DST gap or for an invalid date);
  `.unwrap()` on it is an explicit panic for the latter two.
Instants are UTC seconds (`Int`); every instant the function returns has zero nanoseconds.

The machine arithmetic is explicit, as compiled with overflow checks (debug profile, and the
profile of the verification harness): `n as i32` / `n as u32` truncate silently, `+ - *` on
`i32`/`u32`/`i64` panic when the result does not fit, `%` by zero panics; chrono's
`Duration::<unit>(k)` panics outside ±(i64::MAX / 1000) seconds and `DateTime ± Duration`
panics outside chrono's date range.
-/
namespace Log4rs.TimeTrigger

inductive IUnit where
  | second | minute | hour | day | week | month | year
  deriving DecidableEq, Repr

/-- chrono's decomposition of `current` in the local zone -/
structure Civil where
  year : Int
  month0 : Int
  day : Int
  ordinal0 : Int
  week0 : Int
  weekday : Int
  hour : Int
  minute : Int
  second : Int
  deriving DecidableEq, Repr

/-- arguments of `Local.with_ymd_and_hms` -/
structure CivilTime where
  y : Int
  mo : Int
  d : Int
  h : Int
  mi : Int
  s : Int
  deriving DecidableEq, Repr

inductive LocalResult where
  | single (utc : Int)
  | ambiguous (earliest latest : Int)
  | none
  deriving DecidableEq, Repr

abbrev Out (α : Type) := Outcome Unit α

def bind {α β : Type} (x : Out α) (f : α → Out β) : Out β :=
  match x with
  | .ok a => f a
  | .err e => .err e
  | .panic w => .panic w

/-! ### machine integers -/

def I32_MIN : Int := -2147483648
def I32_MAX : Int := 2147483647
def U32_MAX : Int := 4294967295
def I64_MIN : Int := -9223372036854775808
def I64_MAX : Int := 9223372036854775807

/-- `x as i32` -/
def wrapI32 (x : Int) : Int :=
  let m := x % 4294967296
  if m ≥ 2147483648 then m - 4294967296 else m

/-- `x as u32` -/
def wrapU32 (x : Int) : Int := x % 4294967296

/-- `x as i64` (of a `u64`) -/
def wrapI64 (x : Int) : Int :=
  let m := x % 18446744073709551616
  if m ≥ 9223372036854775808 then m - 18446744073709551616 else m

def chkI32 (x : Int) : Out Int := if I32_MIN ≤ x ∧ x ≤ I32_MAX then .ok x else .panic "arith"
def chkU32 (x : Int) : Out Int := if 0 ≤ x ∧ x ≤ U32_MAX then .ok x else .panic "arith"
def chkI64 (x : Int) : Out Int := if I64_MIN ≤ x ∧ x ≤ I64_MAX then .ok x else .panic "arith"

/-- Rust `a % b` on a signed type of minimum `lo`: truncated remainder; panics for `b = 0` and for
`MIN % -1` -/
def remS (lo : Int) (a b : Int) : Out Int :=
  if b = 0 then .panic "div-zero"
  else if a = lo ∧ b = -1 then .panic "arith"
  else .ok (Int.tmod a b)

/-- Rust `a % b` on `u32` -/
def remU (a b : Int) : Out Int :=
  if b = 0 then .panic "div-zero" else .ok (a % b)

/-! ### chrono -/

/-- `i64::MAX / 1000`: chrono's `TimeDelta` holds at most this many seconds -/
def DUR_MAX : Int := 9223372036854775
/-- UTC seconds of `NaiveDateTime::MIN` (-262143-01-01T00:00:00) and of the last second of
`NaiveDateTime::MAX` (262142-12-31T23:59:59) -/
def DT_MIN : Int := -8334601315200
def DT_MAX : Int := 8210266876799

/-- `Duration::seconds/minutes/hours/days/weeks(k)` = `k.checked_mul(mult)` then the range check -/
def dur (mult k : Int) : Out Int :=
  let s := k * mult
  if I64_MIN ≤ s ∧ s ≤ I64_MAX ∧ -DUR_MAX ≤ s ∧ s ≤ DUR_MAX then .ok s else .panic "duration"

/-- `DateTime<Local> + Duration` (absolute, on the UTC time line) -/
def dtAdd (t s : Int) : Out Int :=
  if DT_MIN ≤ t + s ∧ t + s ≤ DT_MAX then .ok (t + s) else .panic "datetime"

/-- `LocalResult::unwrap` -/
def unwrapLR : LocalResult → Out Int
  | .single t => .ok t
  | .ambiguous _ _ => .panic "mk-ambiguous"
  | .none => .panic "mk-none"

def unitSecs : IUnit → Int
  | .second => 1
  | .minute => 60
  | .hour => 3600
  | .day => 86400
  | .week => 604800
  | .month => 0
  | .year => 0

/-- `if modulate { n - field % n } else { n }` on `i64` -/
def incI64 (field n : Int) (modulate : Bool) : Out Int :=
  if modulate then bind (remS I64_MIN field n) (fun r => chkI64 (n - r)) else .ok n

/-- the civil time handed to `with_ymd_and_hms` in the second…day/week branches -/
def truncated (c : Civil) : IUnit → CivilTime
  | .second => ⟨c.year, c.month0 + 1, c.day, c.hour, c.minute, c.second⟩
  | .minute => ⟨c.year, c.month0 + 1, c.day, c.hour, c.minute, 0⟩
  | .hour => ⟨c.year, c.month0 + 1, c.day, c.hour, 0, 0⟩
  | _ => ⟨c.year, c.month0 + 1, c.day, 0, 0, 0⟩

/-- the field that `modulate` counts in -/
def fieldOf (c : Civil) : IUnit → Int
  | .second => c.second
  | .minute => c.minute
  | .hour => c.hour
  | .day => c.ordinal0
  | .week => c.week0
  | .month => c.month0
  | .year => c.year

/-- `TimeTrigger::get_next_time`, branch by branch -/
def getNextTime (c : Civil) (u : IUnit) (n : Int) (modulate : Bool) (mk : CivilTime → LocalResult) : Out Int :=
  match u with
  | .year =>
    let n32 := wrapI32 n
    bind (if modulate then bind (remS I32_MIN c.year n32) (fun r => chkI32 (n32 - r)) else .ok n32) fun inc =>
    bind (chkI32 (c.year + inc)) fun yearNew =>
    unwrapLR (mk ⟨yearNew, 1, 1, 0, 0, 0⟩)
  | .month =>
    let nu := wrapU32 n
    bind (if modulate then bind (remU c.month0 nu) (fun r => chkU32 (nu - r)) else .ok nu) fun inc =>
    bind (chkU32 (wrapU32 c.year * 12)) fun m12 =>
    bind (chkU32 (m12 + c.month0)) fun numMonths =>
    bind (chkU32 (numMonths + inc)) fun numMonthsNew =>
    unwrapLR (mk ⟨wrapI32 (numMonthsNew / 12), numMonthsNew % 12 + 1, 1, 0, 0, 0⟩)
  | .week =>
    bind (unwrapLR (mk (truncated c .week))) fun time =>
    bind (incI64 c.week0 n modulate) fun inc =>
    bind (dur 604800 inc) fun dw =>
    bind (dtAdd time dw) fun t1 =>
    bind (dur 86400 c.weekday) fun dd =>
    dtAdd t1 (-dd)
  | .day =>
    bind (unwrapLR (mk (truncated c .day))) fun time =>
    bind (incI64 c.ordinal0 n modulate) fun inc =>
    bind (dur 86400 inc) fun d =>
    dtAdd time d
  | .hour =>
    bind (unwrapLR (mk (truncated c .hour))) fun time =>
    bind (incI64 c.hour n modulate) fun inc =>
    bind (dur 3600 inc) fun d =>
    dtAdd time d
  | .minute =>
    bind (unwrapLR (mk (truncated c .minute))) fun time =>
    bind (incI64 c.minute n modulate) fun inc =>
    bind (dur 60 inc) fun d =>
    dtAdd time d
  | .second =>
    bind (unwrapLR (mk (truncated c .second))) fun time =>
    bind (incI64 c.second n modulate) fun inc =>
    bind (dur 1 inc) fun d =>
    dtAdd time d

/-- the civil time `get_next_time` asks chrono about, when the arithmetic before the call succeeds -/
def mkQuery (c : Civil) (u : IUnit) (n : Int) (modulate : Bool) : Option CivilTime :=
  match u with
  | .year =>
    let n32 := wrapI32 n
    match bind (if modulate then bind (remS I32_MIN c.year n32) (fun r => chkI32 (n32 - r)) else .ok n32)
        (fun inc => chkI32 (c.year + inc)) with
    | .ok y => some ⟨y, 1, 1, 0, 0, 0⟩
    | _ => none
  | .month =>
    let nu := wrapU32 n
    match bind (if modulate then bind (remU c.month0 nu) (fun r => chkU32 (nu - r)) else .ok nu) (fun inc =>
        bind (chkU32 (wrapU32 c.year * 12)) fun m12 =>
        bind (chkU32 (m12 + c.month0)) fun numMonths => chkU32 (numMonths + inc)) with
    | .ok nm => some ⟨wrapI32 (nm / 12), nm % 12 + 1, 1, 0, 0, 0⟩
    | _ => none
  | u => some (truncated c u)

/-! ### `TimeTrigger::new` and `Trigger::trigger` -/

/-- `TimeTrigger::new`: the schedule from `now`, plus `gen_range(0..max_random_delay)` seconds when
`max_random_delay > 0` (`delay` is the value the generator returned, `random_delay as i64`) -/
def schedule (next : Out Int) (maxDelay delay : Int) : Out Int :=
  bind next fun t =>
    if maxDelay > 0 then bind (dur 1 (wrapI64 delay)) (fun d => dtAdd t d) else .ok t

/-- state of the trigger: the scheduled instant behind a `RwLock`, which a panic while the write
guard is held poisons for good -/
inductive TState where
  | live (sched : Int)
  | poisoned
  deriving DecidableEq, Repr

/-- `Trigger::trigger` at an arrival whose whole seconds are `now` (the scheduled instant has zero
nanoseconds, so `current >= next_roll_time` is decided by the seconds); `resched` is what
`TimeTrigger::new(self.config)` would compute at this instant -/
def step (st : TState) (now : Int) (resched : Out Int) : Out Bool × TState :=
  match st with
  | .poisoned => (.panic "poisoned", .poisoned)
  | .live s =>
    if now ≥ s then
      match resched with
      | .ok t => (.ok true, .live t)
      | .err e => (.err e, .live s)
      | .panic w => (.panic w, .poisoned)
    else (.ok false, .live s)

/-- a history of arrivals, each with the reschedule outcome at that instant -/
def run (st : TState) : List (Int × Out Int) → List (Out Bool × TState)
  | [] => []
  | (now, r) :: rest =>
    let (o, st') := step st now r
    (o, st') :: run st' rest

/-- same, with the schedule given as a function of the arrival instant -/
def runWith (nextOf : Int → Out Int) (st : TState) (arrivals : List Int) : List (Out Bool × TState) :=
  run st (arrivals.map fun a => (a, nextOf a))

/-! ### the current algorithm (`time.rs` since the `fix:` commit 80d997f)

Everything above this line (`getNextTime`, `schedule`, `step`, `run`) models the code BEFORE that
commit and is kept only for the historical record in `TimeTrigger/Historic.lean`. The
correspondence check and every `C16_*` theorem use the functions below. -/

/-- "never roll": 9999-12-31T23:59:59Z, returned when the schedule is not representable -/
def FAR : Int := 253402300799

/-- what chrono tells the repaired code about `current` and about local times -/
structure Env where
  /-- naive local seconds of `current` (floor) -/
  L : Int
  /-- UTC seconds of `current` (floor) -/
  now : Int
  /-- `NaiveDate::from_ymd_opt(y, mo, d).and_hms_opt(h, mi, s)` as naive local seconds -/
  naiveOf : CivilTime → Option Int
  /-- `Local.from_local_datetime` of naive local seconds -/
  mkL : Int → LocalResult

def inI64 (x : Int) : Bool := decide (I64_MIN ≤ x ∧ x ≤ I64_MAX)

/-- the closure `increment`: `n.max(1)`, with modulation `n.checked_sub(field % n)` -/
def incFixed (n field : Int) (modulate : Bool) : Option Int :=
  let n := max n 1
  if modulate then
    let v := n - Int.tmod field n
    if inI64 v then some v else none
  else some n

/-- `TimeTrigger::span(count, unit_secs)`: `checked_mul`, then `secs.abs()` (which panics for
`i64::MIN` in an overflow-checked build), the chrono range, `Duration::seconds` -/
def spanFixed (count unitSecs : Int) : Out (Option Int) :=
  let s := count * unitSecs
  if ¬ inI64 s then .ok none
  else if s = I64_MIN then .panic "arith"
  else if s > DUR_MAX ∨ s < -DUR_MAX then .ok none
  else .ok (some s)

/-- `TimeTrigger::resolve_after`: the occurrence of a local time after `current`; a local time in
a DST gap is moved forward in 15-minute steps (`fuel` = remaining loop iterations) -/
def resolveAfter (mkL : Int → LocalResult) (now : Int) : Nat → Int → Option Int
  | 0, _ => none
  | fuel + 1, L =>
    match mkL L with
    | .single t => some t
    | .ambiguous a b => some (if a > now then a else b)
    | .none => if DT_MIN ≤ L + 900 ∧ L + 900 ≤ DT_MAX then resolveAfter mkL now fuel (L + 900) else none

/-- the closure `first_of_month` -/
def firstOfMonth (e : Env) (months : Int) : Option Int :=
  let year := months / 12
  if I32_MIN ≤ year ∧ year ≤ I32_MAX then
    match e.naiveOf ⟨year, months % 12 + 1, 1, 0, 0, 0⟩ with
    | some lt => resolveAfter e.mkL e.now 200 lt
    | none => none
  else none

/-- the closure `midnight_plus` -/
def midnightPlus (e : Env) (days : Int) : Out (Option Int) :=
  bind (spanFixed days 86400) fun d =>
    match d with
    | none => .ok none
    | some d =>
      let lt := (e.L - e.L % 86400) + d
      if DT_MIN ≤ lt ∧ lt ≤ DT_MAX then .ok (resolveAfter e.mkL e.now 200 lt) else .ok none

/-- the closure `unit_start_plus`: `current + (span - elapsed - nanos)` on the UTC time line -/
def unitStartPlus (e : Env) (count unitSecs elapsed : Int) : Out (Option Int) :=
  bind (spanFixed count unitSecs) fun d =>
    match d with
    | none => .ok none
    | some d =>
      let t := e.now + (d - elapsed)
      if DT_MIN ≤ t ∧ t ≤ DT_MAX then .ok (some t) else .ok none

/-- `TimeTrigger::checked_next_time` of the repaired code -/
def checkedNextFixed (c : Civil) (e : Env) (u : IUnit) (n : Int) (modulate : Bool) : Out (Option Int) :=
  match u with
  | .year =>
    match incFixed n c.year modulate with
    | none => .ok none
    | some inc =>
      if inI64 (inc + c.year) ∧ inI64 ((inc + c.year) * 12) then .ok (firstOfMonth e ((inc + c.year) * 12))
      else .ok none
  | .month =>
    match incFixed n c.month0 modulate with
    | none => .ok none
    | some inc =>
      if inI64 (inc + (c.year * 12 + c.month0)) then .ok (firstOfMonth e (inc + (c.year * 12 + c.month0)))
      else .ok none
  | .week =>
    match incFixed n c.week0 modulate with
    | none => .ok none
    | some weeks =>
      if inI64 (weeks * 7) ∧ inI64 (weeks * 7 - c.weekday) then midnightPlus e (weeks * 7 - c.weekday)
      else .ok none
  | .day =>
    match incFixed n c.ordinal0 modulate with
    | none => .ok none
    | some inc => midnightPlus e inc
  | .hour =>
    match incFixed n c.hour modulate with
    | none => .ok none
    | some inc => unitStartPlus e inc 3600 (c.minute * 60 + c.second)
  | .minute =>
    match incFixed n c.minute modulate with
    | none => .ok none
    | some inc => unitStartPlus e inc 60 c.second
  | .second =>
    match incFixed n c.second modulate with
    | none => .ok none
    | some inc => unitStartPlus e inc 1 0

/-- the repaired `get_next_time`: `checked_next_time(..).filter(|t| t > current).unwrap_or(never)` -/
def getNextTimeFixed (c : Civil) (e : Env) (u : IUnit) (n : Int) (modulate : Bool) : Out Int :=
  bind (checkedNextFixed c e u n modulate) fun r =>
    match r with
    | some t => if t > e.now then .ok t else .ok FAR
    | none => .ok FAR

/-- the local time the repaired code asks chrono to resolve (day/week: from `L`; month/year: the
civil date whose naive seconds chrono supplies), for the correspondence of the harness' facts -/
def targetCivilFixed (c : Civil) (u : IUnit) (n : Int) (modulate : Bool) : Option CivilTime :=
  let months : Option Int := match u with
    | .year => match incFixed n c.year modulate with
      | some inc => if inI64 (inc + c.year) ∧ inI64 ((inc + c.year) * 12) then some ((inc + c.year) * 12) else none
      | none => none
    | .month => match incFixed n c.month0 modulate with
      | some inc => if inI64 (inc + (c.year * 12 + c.month0)) then some (inc + (c.year * 12 + c.month0)) else none
      | none => none
    | _ => none
  match months with
  | some m => if I32_MIN ≤ m / 12 ∧ m / 12 ≤ I32_MAX then some ⟨m / 12, m % 12 + 1, 1, 0, 0, 0⟩ else none
  | none => none

/-- the repaired `TimeTrigger::new`: the delay is added only when it is representable -/
def scheduleFixed (next : Out Int) (maxDelay delay : Int) : Out Int :=
  bind next fun t =>
    if maxDelay > 0 then
      if delay ≤ I64_MAX then
        bind (spanFixed delay 1) fun d =>
          match d with
          | some d => if DT_MIN ≤ t + d ∧ t + d ≤ DT_MAX then .ok (t + d) else .ok t
          | none => .ok t
      else .ok t
    else .ok t

/-- `Trigger::trigger` of the current code. The state is the scheduled instant (a poisoned lock is
recovered with `into_inner`, so there is no "dead" state). The clock is read TWICE: `now` decides
whether to fire (`current >= next_roll_time`), and `TimeTrigger::new(self.config)` reads it again
for the new schedule — `resched` is what `new` computes at that second reading. -/
def stepFixed (s : Int) (now : Int) (resched : Out Int) : Out Bool × Int :=
  if now ≥ s then
    match resched with
    | .ok t => (.ok true, t)
    | .err e => (.err e, s)
    | .panic w => (.panic w, s)
  else (.ok false, s)

def runFixed (s : Int) : List (Int × Out Int) → List (Out Bool × Int)
  | [] => []
  | (now, r) :: rest =>
    let (o, s') := stepFixed s now r
    (o, s') :: runFixed s' rest

/-- `secondReadFixed = false`: the code as it is — the reschedule is computed from the second clock
reading; `true`: after the proposed patch `trigger` passes its own reading to the schedule
computation (one reading per consultation). Used by the driver to choose which instant's facts feed
the reschedule. -/
def secondReadFixed : Bool := true

/-- put record `i` at the front of the file that is currently being written -/
def consHead (i : Nat) : List (List Nat) → List (List Nat)
  | seg :: more => (i :: seg) :: more
  | [] => [[i]]

/-- `RollingFileAppender::append` with a pre-process trigger (`rolling_file/mod.rs`, `is_pre_process`
branch, and `CompoundPolicy::process`): the policy runs before the record is encoded, so a firing
trigger (followed by a successful roll) closes the current file first and the record becomes the
first one of the new file. Files as lists of record numbers, oldest first; the last one is the
active file. Flag of a record: `some true` fired and written, `some false` not fired and written,
`none` not written (the trigger panicked, or it fired and the roller failed: `process` returns the
error before the record is encoded, the old file stays in place and is reopened by the next
record). `segmentFrom i flags`: the files produced by records `i, i+1, …`, the first list being
the continuation of the file that was open before record `i`. -/
def segmentFrom : Nat → List (Option Bool) → List (List Nat)
  | _, [] => [[]]
  | i, some true :: rest => [] :: consHead i (segmentFrom (i + 1) rest)
  | i, some false :: rest => consHead i (segmentFrom (i + 1) rest)
  | i, none :: rest => segmentFrom (i + 1) rest

def segment (flags : List (Option Bool)) : List (List Nat) := segmentFrom 1 flags

/-- what `new` computes when it resolves one local time: `resolve_after`'s answer for a local time
that exists -/
def resolve1 (now : Int) : LocalResult → Option Int
  | .single t => some t
  | .ambiguous a b => some (if a > now then a else b)
  | .none => none

end Log4rs.TimeTrigger
