import Log4rsModel.TimeTrigger.Model
/-
Executable specification of C16, the simplest reading of the statement, evaluated on what the
implementation did (`Facts` = what chrono told the code about `current` and about the result).

  * the next rotation lies strictly after the current instant;
  * where the UTC offset does not change in between, it falls on a unit boundary in local time:
      plain      start of the current unit + n units
      modulated  start of the enclosing period + (field / n + 1) · n units
    (second in minute, minute in hour, hour in day, day in year, ISO week in ISO year, month in
    year, year in era);
  * the trigger fires exactly on the first arrival at or after the scheduled instant, before the
    record is written; the new schedule is strictly after that arrival; the random delay is in
    `[0, max)`;
  * nothing panics.
A boundary beyond the last instant chrono can represent (absurd multiplier) cannot be answered by
any `DateTime`; there the statement is read as "never roll": an instant at or after `FAR` (`reach`).
Local times are "local seconds" (UTC seconds + offset); the calendar itself (which local second
starts a month) is chrono's and enters through the civil fields of the result.
-/
namespace Log4rs.TimeTrigger

/-- local seconds of the start of the current unit (fixed-length units) -/
def startOfUnit (c : Civil) (L : Int) : IUnit → Int
  | .second => L
  | .minute => L - L % 60
  | .hour => L - L % 3600
  | .day => L - L % 86400
  | .week => (L - L % 86400) - c.weekday * 86400
  | _ => 0

/-- local seconds of the start of the enclosing period, derived from the start of the current unit
and the unit's index in the period -/
def startOfPeriod (c : Civil) (L : Int) (u : IUnit) : Int :=
  startOfUnit c L u - fieldOf c u * unitSecs u

/-- expected local seconds of the next rotation, fixed-length units -/
def expectedLocal (c : Civil) (L : Int) (u : IUnit) (n : Int) (modulate : Bool) : Int :=
  if modulate then startOfPeriod c L u + (fieldOf c u / n + 1) * n * unitSecs u
  else startOfUnit c L u + n * unitSecs u

/-- month index (months since year 0) of the expected rotation, units month and year -/
def expectedMonthIndex (c : Civil) (u : IUnit) (n : Int) (modulate : Bool) : Int :=
  match u with
  | .year => if modulate then 12 * ((c.year / n + 1) * n) else 12 * (c.year + n)
  | _ => if modulate then 12 * c.year + (c.month0 / n + 1) * n else 12 * c.year + c.month0 + n

def civilOfMonthIndex (m : Int) : CivilTime := ⟨m / 12, m % 12 + 1, 1, 0, 0, 0⟩

def isCalendarUnit : IUnit → Bool
  | .month | .year => true
  | _ => false

/-- what the harness observed around one call of `get_next_time` -/
structure Facts where
  civ : Civil
  lnow : Int
  offNow : Int
  mkArgs : Option CivilTime
  mkRes : LocalResult
  offTrunc : Option Int
  offRes : Option Int
  chg : Option Bool
  rciv : Option CivilTime
  /-- month/year: the civil date the repaired code resolves, and chrono's naive seconds of it -/
  tgtCivil : Option CivilTime := none
  tgtLocal : Option Int := none
  /-- `Local.from_local_datetime` at the target local time and the 15-minute steps after it -/
  tbl : List (Int × LocalResult) := []

/-- UTC seconds (floor) of `current` -/
def Facts.now (f : Facts) : Int := f.lnow - f.offNow

inductive Clause where
  | panics | notAfterNow | offBoundary
  deriving DecidableEq, Repr

/-- Can the boundary the statement names be an instant of chrono's time line at all?
`exact`: yes, it must be hit. `never`: it lies beyond the last representable instant (absurd
multiplier); all an implementation can do is never roll, i.e. answer an instant at or after `FAR`.
`either`: within two days of the end of the time line, where local and UTC range checks differ. -/
inductive Reach where
  | exact | never | either
  deriving DecidableEq, Repr

def reach (f : Facts) (u : IUnit) (n : Int) (modulate : Bool) : Reach :=
  if isCalendarUnit u then
    if expectedMonthIndex f.civ u n modulate / 12 > 262142 then .never else .exact
  else
    let expUtc := expectedLocal f.civ f.lnow u n modulate - f.offNow
    if expUtc > DT_MAX + 172800 then .never
    else if expUtc > DT_MAX - 172800 then .either
    else .exact

/-- the first clause of the statement that the observed result violates, if any -/
def checkNext (f : Facts) (u : IUnit) (n : Int) (modulate : Bool) (result : Option Int) : Option Clause :=
  match result with
  | none => some .panics
  | some r =>
    if r ≤ f.now then some .notAfterNow
    else match reach f u n modulate with
    | .either => none
    | .never => if r ≥ FAR then none else some .offBoundary
    | .exact =>
      if f.chg = some false then
        if isCalendarUnit u then
          if f.rciv = some (civilOfMonthIndex (expectedMonthIndex f.civ u n modulate)) then none else some .offBoundary
        else
          match f.offRes with
          | some o => if r + o = expectedLocal f.civ f.lnow u n modulate then none else some .offBoundary
          | none => some .offBoundary
      else none

/-- one consultation of the trigger as observed: fired? and the schedule afterwards, or a panic -/
abbrev TrigObs := Option (Bool × Int)

inductive TClause where
  | panics | firedWrong | reschedNotFuture | schedChanged | delayRange
  deriving DecidableEq, Repr

def delayOk (maxDelay d : Int) : Bool :=
  if maxDelay > 0 then 0 ≤ d ∧ d < maxDelay else d = 0

/-- walk the arrivals: `sched` is the instant scheduled before the arrival; `next` the undelayed
schedule the code computed at that arrival (for the delay check) -/
def checkTrigger (maxDelay : Int) : Int → List (Int × Option Int × TrigObs) → Option (Nat × TClause)
  | _, [] => none
  | sched, (a, next, obs) :: rest =>
    let bump : Option (Nat × TClause) → Option (Nat × TClause) := fun r => r.map fun (i, c) => (i + 1, c)
    match obs with
    | none => some (0, .panics)
    | some (fired, after) =>
      if fired ≠ decide (a ≥ sched) then some (0, .firedWrong)
      else if fired then
        if after ≤ a then some (0, .reschedNotFuture)
        else match next with
          | some nx => if delayOk maxDelay (after - nx) then bump (checkTrigger maxDelay after rest) else some (0, .delayRange)
          | none => some (0, .panics)
      else if after ≠ sched then some (0, .schedChanged)
      else bump (checkTrigger maxDelay after rest)

end Log4rs.TimeTrigger
