import Log4rsModel.TimeTrigger.Model
/-
Executable specification of C16, the simplest reading of the statement, evaluated on what the
implementation did (`Facts` = what chrono told the code about `current` and about the result).

  * the next rotation lies strictly after the current instant;
  * where the UTC offset does not change in between, it falls on a unit boundary in local time:
      plain      start of the current unit + n units
      modulated  start of the enclosing period + (field / n + 1) · n units
    (second in minute, minute in hour, hour in day, day in year, ISO week in ISO year, month in
    year, year in era);
  * the trigger fires exactly on the first arrival at or after the scheduled instant, before the
    record is written; the new schedule is strictly after that arrival; the random delay is in
    `[0, max)`;
  * nothing panics.
A boundary beyond the last instant chrono can represent (absurd multiplier) cannot be answered by
any `DateTime`; there the statement is read as "never roll": an instant at or after `FAR` (`reach`).
Local times are "local seconds" (UTC seconds + offset); the calendar itself (which local second
starts a month) is chrono's and enters through the civil fields of the result.
-/
namespace Log4rs.TimeTrigger

/-- local seconds of the start of the current unit (fixed-length units) -/
def startOfUnit (c : Civil) (L : Int) : IUnit → Int
  | .second => L
  | .minute => L - L % 60
  | .hour => L - L % 3600
  | .day => L - L % 86400
  | .week => (L - L % 86400) - c.weekday * 86400
  | _ => 0

/-- local seconds of the start of the enclosing period, derived from the start of the current unit
and the unit's index in the period -/
def startOfPeriod (c : Civil) (L : Int) (u : IUnit) : Int :=
  startOfUnit c L u - fieldOf c u * unitSecs u

/-- expected local seconds of the next rotation, fixed-length units -/
def expectedLocal (c : Civil) (L : Int) (u : IUnit) (n : Int) (modulate : Bool) : Int :=
  if modulate then startOfPeriod c L u + (fieldOf c u / n + 1) * n * unitSecs u
  else startOfUnit c L u + n * unitSecs u

/-- month index (months since year 0) of the expected rotation, units month and year -/
def expectedMonthIndex (c : Civil) (u : IUnit) (n : Int) (modulate : Bool) : Int :=
  match u with
  | .year => if modulate then 12 * ((c.year / n + 1) * n) else 12 * (c.year + n)
  | _ => if modulate then 12 * c.year + (c.month0 / n + 1) * n else 12 * c.year + c.month0 + n

def civilOfMonthIndex (m : Int) : CivilTime := ⟨m / 12, m % 12 + 1, 1, 0, 0, 0⟩

def isCalendarUnit : IUnit → Bool
  | .month | .year => true
  | _ => false

/-- what the harness observed around one call of `get_next_time` -/
structure Facts where
  civ : Civil
  lnow : Int
  offNow : Int
  mkArgs : Option CivilTime
  mkRes : LocalResult
  offTrunc : Option Int
  offRes : Option Int
  /-- how far after `current` the zone was searched for an offset change (seconds) … -/
  horizon : Int := 0
  /-- … and the first such change found (UTC seconds), if any -/
  tr1 : Option Int := none
  rciv : Option CivilTime
  /-- month/year: the civil date the repaired code resolves, and chrono's naive seconds of it -/
  tgtCivil : Option CivilTime := none
  tgtLocal : Option Int := none
  /-- `Local.from_local_datetime` at the target local time and the 15-minute steps after it -/
  tbl : List (Int × LocalResult) := []

/-- UTC seconds (floor) of `current` -/
def Facts.now (f : Facts) : Int := f.lnow - f.offNow

inductive Clause where
  | panics | notAfterNow | offBoundary
  deriving DecidableEq, Repr

/-- Can the boundary the statement names be an instant of chrono's time line at all?
`exact`: yes, it must be hit. `never`: it lies beyond the last representable instant (absurd
multiplier); all an implementation can do is never roll, i.e. answer an instant at or after `FAR`.
`either`: within 25 hours of the end of the time line, where local and UTC range checks differ:
the exact boundary or "never" are both accepted there. -/
inductive Reach where
  | exact | never | either
  deriving DecidableEq, Repr

def reach (f : Facts) (u : IUnit) (n : Int) (modulate : Bool) : Reach :=
  if isCalendarUnit u then
    if expectedMonthIndex f.civ u n modulate / 12 > 262142 then .never else .exact
  else
    let expUtc := expectedLocal f.civ f.lnow u n modulate - f.offNow
    if expUtc > DT_MAX + 90000 then .never
    else if expUtc > DT_MAX - 90000 then .either
    else .exact

/-- UTC seconds of the boundary the statement names, under the offset in force at `current`
(month/year: chrono's naive seconds of the first of the expected month, when the harness reported
that very date) -/
def expectedUtc (f : Facts) (u : IUnit) (n : Int) (modulate : Bool) : Option Int :=
  if isCalendarUnit u then
    if f.tgtCivil = some (civilOfMonthIndex (expectedMonthIndex f.civ u n modulate)) then
      f.tgtLocal.map (· - f.offNow)
    else none
  else some (expectedLocal f.civ f.lnow u n modulate - f.offNow)

/-- "The zone's UTC offset does not change in between": between `current` and the EXPECTED boundary
— not the implementation's own answer, which could excuse itself by landing elsewhere. `none`:
not decidable from what was observed (boundary beyond the searched horizon). -/
def offsetUnchanged (f : Facts) (u : IUnit) (n : Int) (modulate : Bool) : Option Bool :=
  match expectedUtc f u n modulate with
  | none => none
  | some x =>
    match f.tr1 with
    | some t => some (decide (x < t))
    | none => if x ≤ f.now + f.horizon then some true else none

/-- the boundary equation itself -/
def onBoundary (f : Facts) (u : IUnit) (n : Int) (modulate : Bool) (r : Int) : Bool :=
  if isCalendarUnit u then
    f.rciv = some (civilOfMonthIndex (expectedMonthIndex f.civ u n modulate))
  else
    match f.offRes with
    | some o => r + o = expectedLocal f.civ f.lnow u n modulate
    | none => false

/-- the first clause of the statement that the observed result violates, if any -/
def checkNext (f : Facts) (u : IUnit) (n : Int) (modulate : Bool) (result : Option Int) : Option Clause :=
  match result with
  | none => some .panics
  | some r =>
    if r ≤ f.now then some .notAfterNow
    else match reach f u n modulate with
    | .either => if r ≥ FAR ∨ onBoundary f u n modulate r then none else some .offBoundary
    | .never => if r ≥ FAR then none else some .offBoundary
    | .exact =>
      if offsetUnchanged f u n modulate = some true then
        if onBoundary f u n modulate r then none else some .offBoundary
      else none

/-- outside the statement's domain (`n < 1`) only "no panic" and "strictly after now" are asked -/
def checkNextAnyN (f : Facts) (result : Option Int) : Option Clause :=
  match result with
  | none => some .panics
  | some r => if r ≤ f.now then some .notAfterNow else none

/-- one consultation of the trigger as observed: fired? and the schedule afterwards, or a panic -/
abbrev TrigObs := Option (Bool × Int)

inductive TClause where
  | panics | firedWrong | reschedNotFuture | schedChanged | delayRange
  deriving DecidableEq, Repr

def delayOk (maxDelay d : Int) : Bool :=
  if maxDelay > 0 then 0 ≤ d ∧ d < maxDelay else d = 0

/-- walk the arrivals: `sched` is the instant scheduled before the arrival; `next` the undelayed
schedule the code computed at that arrival (for the delay check) -/
def checkTrigger (maxDelay : Int) : Int → List (Int × Option Int × TrigObs) → Option (Nat × TClause)
  | _, [] => none
  | sched, (a, next, obs) :: rest =>
    let bump : Option (Nat × TClause) → Option (Nat × TClause) := fun r => r.map fun (i, c) => (i + 1, c)
    match obs with
    | none => some (0, .panics)
    | some (fired, after) =>
      if fired ≠ decide (a ≥ sched) then some (0, .firedWrong)
      else if fired then
        if after ≤ a then some (0, .reschedNotFuture)
        else match next with
          | some nx => if delayOk maxDelay (after - nx) then bump (checkTrigger maxDelay after rest) else some (0, .delayRange)
          | none => some (0, .panics)
      else if after ≠ sched then some (0, .schedChanged)
      else bump (checkTrigger maxDelay after rest)


/-! ### the boundary stated from local seconds alone

For the units whose period is visible in the local seconds `L` of `current` — second in minute,
minute in hour, hour in day, and the plain day and week — the specification needs no civil field:
the minute starts at `L - L % 60`, the hour at `L - L % 3600`, the day at `L - L % 86400`, and
1970-01-01 was a Thursday. (`expectedLocal` takes the index of the unit in its period from chrono's
fields; `Properties/C16.lean` proves the two agree when the fields are those of `L`.)
Reading decision for modulation: "the next multiple of n counted from the start of the enclosing
period" may lie beyond the end of that period (22:10 with 5 hours: 25:00 = 01:00 of the next day);
the count is not restarted at the period's end. -/
def expectedFromL (L : Int) (u : IUnit) (n : Int) (modulate : Bool) : Int :=
  match u with
  | .second => if modulate then (L - L % 60) + (L % 60 / n + 1) * n else L + n
  | .minute => if modulate then (L - L % 3600) + (L / 60 % 60 / n + 1) * n * 60 else (L - L % 60) + n * 60
  | .hour => if modulate then (L - L % 86400) + (L / 3600 % 24 / n + 1) * n * 3600 else (L - L % 3600) + n * 3600
  | .day => (L - L % 86400) + n * 86400
  | .week => (L - L % 86400) - (L / 86400 + 3) % 7 * 86400 + n * 604800
  | _ => 0

/-! ### "before that record is written": the files on disk

Stated without reference to how the appender works. `flags[i]` describes record `i+1`: `some true`
the trigger fired on it and it was written, `some false` written without firing, `none` not
written. `files` are the record numbers found on disk, oldest file first, the active file last. -/

/-- record numbers `i, i+1, …` that were written -/
def writtenFrom : Nat → List (Option Bool) → List Nat
  | _, [] => []
  | i, none :: rest => writtenFrom (i + 1) rest
  | i, some _ :: rest => i :: writtenFrom (i + 1) rest

/-- record numbers on which the trigger fired (and which were written) -/
def firedFrom : Nat → List (Option Bool) → List Nat
  | _, [] => []
  | i, some true :: rest => i :: firedFrom (i + 1) rest
  | i, _ :: rest => firedFrom (i + 1) rest

/-- (1) read in order, the files contain exactly the written records, each once, in order;
(2) the files after the oldest one begin with exactly the records on which the trigger fired, in
order — so every firing record is the first of a new file (the roll precedes the write), and a new
file is begun by nothing else. -/
def filesOk (flags : List (Option Bool)) (files : List (List Nat)) : Bool :=
  files ≠ [] ∧ files.flatten = writtenFrom 1 flags
    ∧ files.tail.map List.head? = (firedFrom 1 flags).map some

end Log4rs.TimeTrigger
