import Log4rsModel.TimeTrigger.Lemmas
/-
HISTORICAL RECORD — not about the current code.

Theorems about `getNextTime` / `schedule` / `step` / `run`, the model of `time.rs` BEFORE the `fix:`
commit 80d997f, kept as the record of the three defects that commit repaired (F9: `unwrap` of an
ambiguous/missing local time; F12: absolute days added to local midnight; absurd multipliers).
In a zone of constant UTC offset and inside the representable range the old code met the statement
(`Hist_C16_boundary_fixed_units` = fixed-LENGTH units, `Hist_C16_trigger_in_fixed_offset_zone` =
fixed-OFFSET zone …); unconditionally it did not (`Hist_C16_no_panic_statement_false`,
`Hist_C16_after_now_statement_false`). None of these is counted as an obligation of C16.
-/
namespace Log4rs.TimeTrigger

theorem incI64_eq {f n : Int} (m : Bool) (hf : 0 ≤ f) (hn : 1 ≤ n) (hnb : n ≤ I64_MAX) :
    incI64 f n m = .ok (incVal f n m) := by
  cases m
  · simp [incI64, incVal]
  · have h1 := Int.emod_nonneg f (b := n) (by omega)
    have h2 := Int.emod_lt_of_pos f (b := n) (by omega)
    have hne : n ≠ 0 := by omega
    have hm1 : n ≠ -1 := by omega
    simp only [I64_MAX] at hnb
    have hr : I64_MIN ≤ n - f % n ∧ n - f % n ≤ I64_MAX := by
      simp only [I64_MIN, I64_MAX]; omega
    simp [incI64, incVal, remS, hne, hm1, Int.tmod_eq_emod_of_nonneg hf, chkI64, hr]

theorem dur_ok {mult k : Int} (h : -DUR_MAX ≤ k * mult ∧ k * mult ≤ DUR_MAX) :
    dur mult k = .ok (k * mult) := by
  simp only [DUR_MAX] at h
  have : I64_MIN ≤ k * mult ∧ k * mult ≤ I64_MAX ∧ -DUR_MAX ≤ k * mult ∧ k * mult ≤ DUR_MAX := by
    simp only [I64_MIN, I64_MAX, DUR_MAX]; omega
  simp [dur, this]

theorem dtAdd_ok {t s : Int} (h : DT_MIN ≤ t + s ∧ t + s ≤ DT_MAX) : dtAdd t s = .ok (t + s) := by
  simp [dtAdd, h]

/-- the chain `increment → Duration → DateTime + Duration` of the second/minute/hour/day branches -/
theorem addUnits_eq {time f n mult : Int} (m : Bool) (hf : 0 ≤ f) (hn : 1 ≤ n) (hmult : 1 ≤ mult)
    (hdur : n * mult ≤ DUR_MAX) (hlo : DT_MIN ≤ time) (hhi : time + n * mult ≤ DT_MAX) :
    bind (incI64 f n m) (fun inc => bind (dur mult inc) (fun d => dtAdd time d))
      = .ok (time + incVal f n m * mult) := by
  obtain ⟨hi1, hi2⟩ := incVal_bounds (f := f) m hn
  have hmono : incVal f n m * mult ≤ n * mult := mul_le_of_le hi2 (by omega)
  have hpos : 1 * mult ≤ incVal f n m * mult := mul_le_of_le hi1 (by omega)
  have hnb : n ≤ I64_MAX := by
    have : n * 1 ≤ n * mult := Int.mul_le_mul_of_nonneg_left hmult (by omega)
    simp only [DUR_MAX] at hdur; simp only [I64_MAX]; omega
  rw [incI64_eq m hf hn hnb, bind_ok, dur_ok (by simp only [DUR_MAX] at hdur ⊢; omega), bind_ok,
    dtAdd_ok (by omega)]

/-- the chain of the week branch: `time + Duration::weeks(inc) - Duration::days(weekday)` -/
theorem addWeeks_eq {time f n wd : Int} (m : Bool) (hf : 0 ≤ f) (hn : 1 ≤ n)
    (hdur : n * 604800 ≤ DUR_MAX) (hwd : 0 ≤ wd ∧ wd ≤ 6) (hlo : DT_MIN + 518400 ≤ time)
    (hhi : time + n * 604800 ≤ DT_MAX) :
    bind (incI64 f n m) (fun inc => bind (dur 604800 inc) fun dw => bind (dtAdd time dw) fun t1 =>
      bind (dur 86400 wd) fun dd => dtAdd t1 (-dd))
      = .ok (time + incVal f n m * 604800 - wd * 86400) := by
  obtain ⟨hi1, hi2⟩ := incVal_bounds (f := f) m hn
  have hnb : n ≤ I64_MAX := by simp only [DUR_MAX] at hdur; simp only [I64_MAX]; omega
  simp only [DUR_MAX, DT_MIN, DT_MAX] at *
  rw [incI64_eq m hf hn hnb, bind_ok, dur_ok (by simp only [DUR_MAX]; omega), bind_ok,
    dtAdd_ok (by simp only [DT_MIN, DT_MAX]; omega), bind_ok, dur_ok (by simp only [DUR_MAX]; omega), bind_ok,
    dtAdd_ok (by simp only [DT_MIN, DT_MAX]; omega)]
  congr 1

/-! ### chrono in a zone of constant offset -/

/-- What chrono tells the code about the instant whose local seconds are `L`, in a zone whose UTC
offset is the constant `off`: the time-of-day fields and the weekday are those of `L` (1970-01-01
was a Thursday), ordinal and ISO week number are non-negative, and the truncated civil time
resolves to the single instant `truncLocal L u - off`. -/
structure FixedOffsetView (c : Civil) (L off : Int) (mk : CivilTime → LocalResult) : Prop where
  second : c.second = L % 60
  minute : c.minute = L / 60 % 60
  hour : c.hour = L / 3600 % 24
  weekday : c.weekday = (L / 86400 + 3) % 7
  ordinal0 : 0 ≤ c.ordinal0
  week0 : 0 ≤ c.week0
  mk_trunc : ∀ u, isCalendarUnit u = false → mk (truncated c u) = .single (truncLocal L u - off)

theorem field_nonneg {c : Civil} {L off : Int} {mk : CivilTime → LocalResult}
    (h : FixedOffsetView c L off mk) (u : IUnit) (hu : isCalendarUnit u = false) : 0 ≤ fieldOf c u := by
  have := h.second; have := h.minute; have := h.hour; have := h.ordinal0; have := h.week0
  cases u <;> simp [isCalendarUnit] at hu <;> simp only [fieldOf] <;> omega

/-! ### second … week: pure arithmetic on local seconds -/

/-- Units of fixed length, zone of constant offset, representable result: the schedule is exactly
the specification's boundary — start of the current unit + n units, or with modulation the start
of the enclosing period + (field / n + 1)·n units (week: Monday alignment through the weekday). -/
theorem Hist_C16_boundary_fixed_units {c : Civil} {L off : Int} {mk : CivilTime → LocalResult}
    (h : FixedOffsetView c L off mk) (u : IUnit) (hu : isCalendarUnit u = false) (n : Int) (m : Bool)
    (hn : 1 ≤ n) (hdur : n * unitSecs u ≤ DUR_MAX)
    (hlo : DT_MIN + 518400 ≤ truncLocal L u - off) (hhi : truncLocal L u - off + n * unitSecs u ≤ DT_MAX) :
    getNextTime c u n m mk = .ok (expectedLocal c L u n m - off) := by
  have hf := field_nonneg h u hu
  have hmk := h.mk_trunc u hu
  have hmod := incVal_mod (fieldOf c u) n
  have hwd := h.weekday
  generalize hq : (fieldOf c u / n + 1) * n = q at hmod
  cases u <;> simp [isCalendarUnit] at hu <;>
    simp only [fieldOf, unitSecs, truncLocal] at hf hdur hlo hhi hmod hq
  · -- second
    simp only [getNextTime, hmk, unwrapLR, bind_ok, truncLocal]
    rw [addUnits_eq m hf hn (by decide) hdur (by simp only [DT_MIN] at hlo ⊢; omega) hhi]
    simp only [expectedLocal, startOfPeriod, startOfUnit, fieldOf, unitSecs, hq]
    cases m <;> simp [incVal] at hmod ⊢ <;> omega
  · -- minute
    simp only [getNextTime, hmk, unwrapLR, bind_ok, truncLocal]
    rw [addUnits_eq m hf hn (by decide) hdur (by simp only [DT_MIN] at hlo ⊢; omega) hhi]
    simp only [expectedLocal, startOfPeriod, startOfUnit, fieldOf, unitSecs, hq]
    cases m <;> simp [incVal] at hmod ⊢ <;> omega
  · -- hour
    simp only [getNextTime, hmk, unwrapLR, bind_ok, truncLocal]
    rw [addUnits_eq m hf hn (by decide) hdur (by simp only [DT_MIN] at hlo ⊢; omega) hhi]
    simp only [expectedLocal, startOfPeriod, startOfUnit, fieldOf, unitSecs, hq]
    cases m <;> simp [incVal] at hmod ⊢ <;> omega
  · -- day
    simp only [getNextTime, hmk, unwrapLR, bind_ok, truncLocal]
    rw [addUnits_eq m hf hn (by decide) hdur (by simp only [DT_MIN] at hlo ⊢; omega) hhi]
    simp only [expectedLocal, startOfPeriod, startOfUnit, fieldOf, unitSecs, hq]
    cases m <;> simp [incVal] at hmod ⊢ <;> omega
  · -- week
    simp only [getNextTime, hmk, unwrapLR, bind_ok, truncLocal]
    have hwr : 0 ≤ c.weekday ∧ c.weekday ≤ 6 := by omega
    rw [addWeeks_eq m hf hn hdur hwr hlo hhi]
    simp only [expectedLocal, startOfPeriod, startOfUnit, fieldOf, unitSecs, hq]
    cases m <;> simp [incVal] at hmod ⊢ <;> omega

/-- … and that boundary lies strictly after the current instant (`L - off` is `now` in UTC seconds;
the returned instant has zero nanoseconds, so this is "strictly after" for every sub-second part) -/
theorem Hist_C16_next_after_now_fixed_units {c : Civil} {L off : Int} {mk : CivilTime → LocalResult}
    (h : FixedOffsetView c L off mk) (u : IUnit) (hu : isCalendarUnit u = false) (n : Int) (m : Bool)
    (hn : 1 ≤ n) (hdur : n * unitSecs u ≤ DUR_MAX)
    (hlo : DT_MIN + 518400 ≤ truncLocal L u - off) (hhi : truncLocal L u - off + n * unitSecs u ≤ DT_MAX) :
    ∃ t, getNextTime c u n m mk = .ok t ∧ L - off < t := by
  refine ⟨_, Hist_C16_boundary_fixed_units h u hu n m hn hdur hlo hhi, ?_⟩
  have hf := field_nonneg h u hu
  have hwd := h.weekday
  have hs := startOfUnit_le c L u (by omega) hu
  have hmod := incVal_mod (fieldOf c u) n
  obtain ⟨hi1, _⟩ := incVal_bounds (f := fieldOf c u) true hn
  have hpos : 1 ≤ unitSecs u := by cases u <;> simp [isCalendarUnit] at hu <;> decide
  simp only [expectedLocal, startOfPeriod]
  cases m
  · -- plain: start + n·unit ≥ start + unit > L
    have : 1 * unitSecs u ≤ n * unitSecs u := mul_le_of_le hn (by omega)
    simp; omega
  · -- modulated: (field / n + 1)·n ≥ field + 1
    have hq : (fieldOf c u + 1) * unitSecs u ≤ (fieldOf c u / n + 1) * n * unitSecs u :=
      mul_le_of_le (by omega) (by omega)
    rw [Int.add_mul, Int.one_mul] at hq
    simp; omega

/-- without modulation: exactly n units after the start of the current unit -/
theorem Hist_C16_boundary_plain {c : Civil} {L off : Int} {mk : CivilTime → LocalResult}
    (h : FixedOffsetView c L off mk) (u : IUnit) (hu : isCalendarUnit u = false) (n : Int)
    (hn : 1 ≤ n) (hdur : n * unitSecs u ≤ DUR_MAX)
    (hlo : DT_MIN + 518400 ≤ truncLocal L u - off) (hhi : truncLocal L u - off + n * unitSecs u ≤ DT_MAX) :
    getNextTime c u n false mk = .ok (startOfUnit c L u + n * unitSecs u - off) := by
  simpa [expectedLocal] using Hist_C16_boundary_fixed_units h u hu n false hn hdur hlo hhi

/-- with modulation: the next multiple of n counted from the start of the enclosing period -/
theorem Hist_C16_boundary_modulated {c : Civil} {L off : Int} {mk : CivilTime → LocalResult}
    (h : FixedOffsetView c L off mk) (u : IUnit) (hu : isCalendarUnit u = false) (n : Int)
    (hn : 1 ≤ n) (hdur : n * unitSecs u ≤ DUR_MAX)
    (hlo : DT_MIN + 518400 ≤ truncLocal L u - off) (hhi : truncLocal L u - off + n * unitSecs u ≤ DT_MAX) :
    getNextTime c u n true mk
      = .ok (startOfPeriod c L u + (fieldOf c u / n + 1) * n * unitSecs u - off) := by
  simpa [expectedLocal] using Hist_C16_boundary_fixed_units h u hu n true hn hdur hlo hhi

/-! ### month and year: lexicographic order on (year, month0) -/

/-- Month unit: the code asks chrono for the first of the month whose index (12·year + month0) is
the specification's, and that month is strictly later than the current one. -/
theorem Hist_C16_boundary_month (c : Civil) (n : Int) (m : Bool) (mk : CivilTime → LocalResult)
    (hy : 0 ≤ c.year) (hm0 : 0 ≤ c.month0 ∧ c.month0 ≤ 11) (hn : 1 ≤ n)
    (hb : 12 * c.year + c.month0 + n ≤ U32_MAX) :
    getNextTime c .month n m mk = unwrapLR (mk (civilOfMonthIndex (expectedMonthIndex c .month n m)))
      ∧ 12 * c.year + c.month0 < expectedMonthIndex c .month n m := by
  simp only [U32_MAX] at hb
  obtain ⟨hi1, hi2⟩ := incVal_bounds (f := c.month0) m hn
  have hmod := incVal_mod c.month0 n
  have hwn : wrapU32 n = n := by simp only [wrapU32]; omega
  have hwy : wrapU32 c.year = c.year := by simp only [wrapU32]; omega
  have hinc : (if m then bind (remU c.month0 n) (fun r => chkU32 (n - r)) else (.ok n : Out Int))
      = .ok (incVal c.month0 n m) := by
    cases m
    · simp [incVal]
    · have h1 := Int.emod_nonneg c.month0 (b := n) (by omega)
      have h2 := Int.emod_lt_of_pos c.month0 (b := n) (by omega)
      have hne : n ≠ 0 := by omega
      have : 0 ≤ n - c.month0 % n ∧ n - c.month0 % n ≤ U32_MAX := by simp only [U32_MAX]; omega
      simp [remU, hne, chkU32, this, incVal]
      omega
  have h12 : chkU32 (c.year * 12) = .ok (c.year * 12) := by
    have : 0 ≤ c.year * 12 ∧ c.year * 12 ≤ U32_MAX := by simp only [U32_MAX]; omega
    simp [chkU32, this]
  have hnm : chkU32 (c.year * 12 + c.month0) = .ok (c.year * 12 + c.month0) := by
    have : 0 ≤ c.year * 12 + c.month0 ∧ c.year * 12 + c.month0 ≤ U32_MAX := by simp only [U32_MAX]; omega
    simp [chkU32, this]
  have hnew : chkU32 (c.year * 12 + c.month0 + incVal c.month0 n m)
      = .ok (c.year * 12 + c.month0 + incVal c.month0 n m) := by
    have : 0 ≤ c.year * 12 + c.month0 + incVal c.month0 n m
        ∧ c.year * 12 + c.month0 + incVal c.month0 n m ≤ U32_MAX := by simp only [U32_MAX]; omega
    simp [chkU32, this]
  have hidx : expectedMonthIndex c .month n m = c.year * 12 + c.month0 + incVal c.month0 n m := by
    generalize hq : (c.month0 / n + 1) * n = q at hmod
    cases m <;> simp [expectedMonthIndex, incVal, hq] at hmod ⊢ <;> omega
  constructor
  · simp only [getNextTime, hwn, hwy, hinc, bind_ok, h12, hnm, hnew, hidx, civilOfMonthIndex]
    have hw : wrapI32 ((c.year * 12 + c.month0 + incVal c.month0 n m) / 12)
        = (c.year * 12 + c.month0 + incVal c.month0 n m) / 12 := by
      simp only [wrapI32]; omega
    rw [hw]
  · rw [hidx]; omega

/-- Year unit: the code asks chrono for 1 January of the specification's year, strictly later than
the current year. -/
theorem Hist_C16_boundary_year (c : Civil) (n : Int) (m : Bool) (mk : CivilTime → LocalResult)
    (hy : 0 ≤ c.year) (hm0 : 0 ≤ c.month0 ∧ c.month0 ≤ 11) (hn : 1 ≤ n) (hb : c.year + n ≤ I32_MAX) :
    getNextTime c .year n m mk = unwrapLR (mk (civilOfMonthIndex (expectedMonthIndex c .year n m)))
      ∧ 12 * c.year + c.month0 < expectedMonthIndex c .year n m := by
  simp only [I32_MAX] at hb
  obtain ⟨hi1, hi2⟩ := incVal_bounds (f := c.year) m hn
  have hmod := incVal_mod c.year n
  have hwn : wrapI32 n = n := by simp only [wrapI32]; omega
  have hinc : (if m then bind (remS I32_MIN c.year n) (fun r => chkI32 (n - r)) else (.ok n : Out Int))
      = .ok (incVal c.year n m) := by
    cases m
    · simp [incVal]
    · have h1 := Int.emod_nonneg c.year (b := n) (by omega)
      have h2 := Int.emod_lt_of_pos c.year (b := n) (by omega)
      have hne : n ≠ 0 := by omega
      have hm1 : n ≠ -1 := by omega
      have : I32_MIN ≤ n - c.year % n ∧ n - c.year % n ≤ I32_MAX := by simp only [I32_MIN, I32_MAX]; omega
      simp [remS, hne, hm1, Int.tmod_eq_emod_of_nonneg hy, chkI32, this, incVal]
  have hnew : chkI32 (c.year + incVal c.year n m) = .ok (c.year + incVal c.year n m) := by
    have : I32_MIN ≤ c.year + incVal c.year n m ∧ c.year + incVal c.year n m ≤ I32_MAX := by
      simp only [I32_MIN, I32_MAX]; omega
    simp [chkI32, this]
  have hidx : expectedMonthIndex c .year n m = 12 * (c.year + incVal c.year n m) := by
    generalize hq : (c.year / n + 1) * n = q at hmod
    cases m <;> simp [expectedMonthIndex, incVal, hq] at hmod ⊢ <;> omega
  constructor
  · simp only [getNextTime, hwn, hinc, bind_ok, hnew, hidx, civilOfMonthIndex]
    have h1 : 12 * (c.year + incVal c.year n m) / 12 = c.year + incVal c.year n m := by omega
    have h2 : 12 * (c.year + incVal c.year n m) % 12 + 1 = 1 := by omega
    rw [h1, h2]
  · rw [hidx]; omega

/-- chrono's calendar in a zone of constant offset, as far as month and year units need it: the
first of month number `M` (months since year 0) starts at local second `monthStart M`, later
months start later, and `with_ymd_and_hms(y, mo, 1, 0, 0, 0)` is that single instant. -/
structure FixedOffsetCalendar (off : Int) (monthStart : Int → Int) (mk : CivilTime → LocalResult) : Prop where
  mono : ∀ a b, a < b → monthStart a < monthStart b
  mk_month : ∀ M, mk (civilOfMonthIndex M) = .single (monthStart M - off)

/-- Month and year units: the schedule is the start of the specification's month and lies strictly
after the current instant (`L` = local seconds of now, inside its month). -/
theorem Hist_C16_next_after_now_calendar {off : Int} {monthStart : Int → Int} {mk : CivilTime → LocalResult}
    (h : FixedOffsetCalendar off monthStart mk) (c : Civil) (L : Int) (u : IUnit)
    (hu : isCalendarUnit u = true) (n : Int) (m : Bool)
    (hy : 0 ≤ c.year) (hm0 : 0 ≤ c.month0 ∧ c.month0 ≤ 11) (hn : 1 ≤ n)
    (hb : if u = .year then c.year + n ≤ I32_MAX else 12 * c.year + c.month0 + n ≤ U32_MAX)
    (hin : L < monthStart (12 * c.year + c.month0 + 1)) :
    getNextTime c u n m mk = .ok (monthStart (expectedMonthIndex c u n m) - off)
      ∧ L - off < monthStart (expectedMonthIndex c u n m) - off := by
  have key : getNextTime c u n m mk = unwrapLR (mk (civilOfMonthIndex (expectedMonthIndex c u n m)))
      ∧ 12 * c.year + c.month0 < expectedMonthIndex c u n m := by
    cases u <;> simp [isCalendarUnit] at hu
    · exact Hist_C16_boundary_month c n m mk hy hm0 hn (by simpa using hb)
    · exact Hist_C16_boundary_year c n m mk hy hm0 hn (by simpa using hb)
  obtain ⟨h1, h2⟩ := key
  refine ⟨by rw [h1, h.mk_month]; rfl, ?_⟩
  have : monthStart (12 * c.year + c.month0 + 1) ≤ monthStart (expectedMonthIndex c u n m) := by
    by_cases he : 12 * c.year + c.month0 + 1 = expectedMonthIndex c u n m
    · rw [he]; exact Int.le_refl _
    · exact Int.le_of_lt (h.mono _ _ (by omega))
  omega

/-! ### no panic inside the representable range -/

/-- the multiplier fits the machine types and chrono's duration range for this unit -/
def Representable (c : Civil) (u : IUnit) (n : Int) : Prop :=
  match u with
  | .month => 12 * c.year + c.month0 + n ≤ U32_MAX
  | .year => c.year + n ≤ I32_MAX
  | u => n * unitSecs u ≤ DUR_MAX

/-- civil fields in the ranges chrono produces (years of the common era) -/
structure CivilSane (c : Civil) : Prop where
  year : 0 ≤ c.year
  month0 : 0 ≤ c.month0 ∧ c.month0 ≤ 11
  ordinal0 : 0 ≤ c.ordinal0
  week0 : 0 ≤ c.week0
  weekday : 0 ≤ c.weekday ∧ c.weekday ≤ 6
  hour : 0 ≤ c.hour
  minute : 0 ≤ c.minute
  second : 0 ≤ c.second

/-- If chrono never answers ambiguous/none (no DST transition at the truncated time, date in
range) and the interval is representable, `get_next_time` does not panic — any zone, all seven
units, both modes. -/
theorem Hist_C16_no_panic_partial (c : Civil) (u : IUnit) (n : Int) (m : Bool) (mk : CivilTime → LocalResult)
    (hc : CivilSane c) (hn : 1 ≤ n) (hrep : Representable c u n)
    (hmk : ∀ q, ∃ t, mk q = .single t ∧ DT_MIN + 518400 ≤ t ∧ t + n * unitSecs u ≤ DT_MAX) :
    ∃ t, getNextTime c u n m mk = .ok t := by
  cases u
  case month =>
    obtain ⟨t, ht, _⟩ := hmk (civilOfMonthIndex (expectedMonthIndex c .month n m))
    exact ⟨t, by rw [(Hist_C16_boundary_month c n m mk hc.year hc.month0 hn hrep).1, ht]; rfl⟩
  case year =>
    obtain ⟨t, ht, _⟩ := hmk (civilOfMonthIndex (expectedMonthIndex c .year n m))
    exact ⟨t, by rw [(Hist_C16_boundary_year c n m mk hc.year hc.month0 hn hrep).1, ht]; rfl⟩
  case week =>
    obtain ⟨t, ht, hlo, hhi⟩ := hmk (truncated c .week)
    simp only [unitSecs] at hhi
    exact ⟨_, by
      simp only [getNextTime, ht, unwrapLR, bind_ok]
      exact addWeeks_eq m hc.week0 hn hrep hc.weekday hlo hhi⟩
  case day =>
    obtain ⟨t, ht, hlo, hhi⟩ := hmk (truncated c .day)
    exact ⟨_, by
      simp only [getNextTime, ht, unwrapLR, bind_ok]
      exact addUnits_eq m hc.ordinal0 hn (by decide) hrep (by simp only [DT_MIN] at hlo ⊢; omega) hhi⟩
  case hour =>
    obtain ⟨t, ht, hlo, hhi⟩ := hmk (truncated c .hour)
    exact ⟨_, by
      simp only [getNextTime, ht, unwrapLR, bind_ok]
      exact addUnits_eq m hc.hour hn (by decide) hrep (by simp only [DT_MIN] at hlo ⊢; omega) hhi⟩
  case minute =>
    obtain ⟨t, ht, hlo, hhi⟩ := hmk (truncated c .minute)
    exact ⟨_, by
      simp only [getNextTime, ht, unwrapLR, bind_ok]
      exact addUnits_eq m hc.minute hn (by decide) hrep (by simp only [DT_MIN] at hlo ⊢; omega) hhi⟩
  case second =>
    obtain ⟨t, ht, hlo, hhi⟩ := hmk (truncated c .second)
    exact ⟨_, by
      simp only [getNextTime, ht, unwrapLR, bind_ok]
      exact addUnits_eq m hc.second hn (by decide) hrep (by simp only [DT_MIN] at hlo ⊢; omega) hhi⟩

/-! ### random delay -/

/-- `TimeTrigger::new` with a random delay `d ∈ [0, max)`: the schedule is `next + d`, so it is
not earlier than the undelayed boundary (and with `max = 0` it is the boundary itself). -/
theorem Hist_C16_delay_bounds (next maxDelay d : Int) (hd : 0 ≤ d ∧ d < maxDelay) (hmax : maxDelay ≤ DUR_MAX)
    (hr : DT_MIN ≤ next ∧ next + maxDelay ≤ DT_MAX) :
    schedule (.ok next) maxDelay d = .ok (next + d) ∧ next ≤ next + d ∧ next + d < next + maxDelay := by
  simp only [DUR_MAX, DT_MIN, DT_MAX] at *
  have hw : wrapI64 d = d := by simp only [wrapI64]; omega
  have hpos : maxDelay > 0 := by omega
  refine ⟨?_, by omega, by omega⟩
  simp only [schedule, bind_ok, hpos, if_true, hw]
  rw [dur_ok (by simp only [DUR_MAX]; omega), bind_ok, dtAdd_ok (by simp only [DT_MIN, DT_MAX]; omega)]
  simp

theorem Hist_C16_no_delay (next : Out Int) (d : Int) : schedule next 0 d = next := by
  cases next <;> simp [schedule, bind]

/-! ### firing: exactly on the first arrival at or after the schedule, once per boundary -/

/-- the specification of a run: at every arrival the trigger answers "fire" exactly when the arrival
is at or after the instant scheduled before it; a firing replaces the schedule by an instant
strictly after that arrival, a non-firing leaves it alone; no consultation panics. -/
def GoodRun : Int → List Int → List (Out Bool × TState) → Prop
  | _, [], [] => True
  | s, a :: as, (o, st) :: os =>
      (a < s ∧ o = .ok false ∧ st = .live s ∧ GoodRun s as os)
      ∨ (s ≤ a ∧ o = .ok true ∧ ∃ t, st = .live t ∧ a < t ∧ GoodRun t as os)
  | _, _, _ => False

/-- Induction over the arrival list: whatever the arrival times (any order, any repetition), if
every reschedule succeeds strictly into the future of its arrival, the run is a `GoodRun`. -/
theorem Hist_C16_fires_once (steps : List (Int × Out Int))
    (hfut : ∀ p ∈ steps, ∃ t, p.2 = .ok t ∧ p.1 < t) (s : Int) :
    GoodRun s (steps.map (·.1)) (run (.live s) steps) := by
  induction steps generalizing s with
  | nil => simp [run, GoodRun]
  | cons p rest ih =>
    obtain ⟨a, r⟩ := p
    obtain ⟨t, hr, hat⟩ := hfut (a, r) (by simp)
    have hrest : ∀ p ∈ rest, ∃ t, p.2 = .ok t ∧ p.1 < t := fun p hp => hfut p (by simp [hp])
    simp only at hr hat
    subst hr
    by_cases hge : a ≥ s
    · have hrun : run (.live s) ((a, .ok t) :: rest) = (.ok true, .live t) :: run (.live t) rest := by
        simp [run, step, hge]
      rw [List.map_cons, hrun]
      unfold GoodRun
      exact Or.inr ⟨hge, rfl, t, rfl, hat, ih hrest t⟩
    · have hrun : run (.live s) ((a, .ok t) :: rest) = (.ok false, .live s) :: run (.live s) rest := by
        simp [run, step, hge]
      rw [List.map_cons, hrun]
      unfold GoodRun
      exact Or.inl ⟨by omega, rfl, rfl, ih hrest s⟩

/-- "The first record at or after the scheduled instant": arrivals before the schedule do not fire
and leave it unchanged; the first one at or after it fires and moves the schedule strictly past
itself; the rest of the history continues from the new schedule. -/
theorem Hist_C16_fires_on_first_arrival_at_or_after (pre post : List (Int × Out Int)) (a t s : Int)
    (hpre : ∀ p ∈ pre, p.1 < s) (ha : s ≤ a) :
    run (.live s) (pre ++ (a, .ok t) :: post)
      = pre.map (fun _ => (.ok false, .live s)) ++ (.ok true, .live t) :: run (.live t) post := by
  induction pre with
  | nil => simp [run, step, ha]
  | cons p rest ih =>
    have hp : ¬ p.1 ≥ s := by have := hpre p (by simp); omega
    have hrest : ∀ q ∈ rest, q.1 < s := fun q hq => hpre q (by simp [hq])
    simp [run, step, hp, ih hrest]

/-- "Once per boundary": after a firing, no arrival before the new schedule fires again. -/
theorem Hist_C16_no_refire_before_next (steps : List (Int × Out Int)) (t : Int) (h : ∀ p ∈ steps, p.1 < t) :
    run (.live t) steps = steps.map (fun _ => (.ok false, .live t)) := by
  induction steps with
  | nil => simp [run]
  | cons p rest ih =>
    have hp : ¬ p.1 ≥ t := by have := h p (by simp); omega
    simp [run, step, hp, ih (fun q hq => h q (by simp [hq]))]

/-! ### the pieces together -/

/-- the boundary is at most n units after the truncated time (used for the range of the delay) -/
theorem Hist_C16_next_upper_bound {c : Civil} {L off : Int} {mk : CivilTime → LocalResult}
    (h : FixedOffsetView c L off mk) (u : IUnit) (hu : isCalendarUnit u = false) (n : Int) (m : Bool)
    (hn : 1 ≤ n) : expectedLocal c L u n m ≤ truncLocal L u + n * unitSecs u := by
  have hwd := h.weekday
  have hmod := incVal_mod (fieldOf c u) n
  obtain ⟨_, hi2⟩ := incVal_bounds (f := fieldOf c u) true hn
  have hpos : 0 ≤ unitSecs u := by cases u <;> decide
  have hmul : incVal (fieldOf c u) n true * unitSecs u ≤ n * unitSecs u := mul_le_of_le hi2 hpos
  have hst : startOfUnit c L u ≤ truncLocal L u := by
    cases u <;> simp [isCalendarUnit] at hu <;> simp only [startOfUnit, truncLocal] <;> omega
  simp only [expectedLocal, startOfPeriod]
  cases m
  · simp; omega
  · have e : (fieldOf c u / n + 1) * n * unitSecs u
        = fieldOf c u * unitSecs u + incVal (fieldOf c u) n true * unitSecs u := by
      rw [← hmod, Int.add_mul]
    simp only [if_true]; rw [e]; omega

/-- The whole trigger in a zone of constant offset: whatever the arrival times, with every
consultation answered from chrono's fixed-offset view of that arrival and any random delays in
`[0, max)`, the run is a `GoodRun`: fires exactly at arrivals at or after the schedule, reschedules
strictly later, never panics. -/
theorem Hist_C16_trigger_in_fixed_offset_zone (u : IUnit) (hu : isCalendarUnit u = false) (n : Int) (m : Bool)
    (hn : 1 ≤ n) (hdur : n * unitSecs u ≤ DUR_MAX) (off maxDelay : Int) (mk : CivilTime → LocalResult)
    (hmax : 0 ≤ maxDelay ∧ maxDelay ≤ DUR_MAX) (steps : List (Int × Out Int))
    (hsteps : ∀ p ∈ steps, ∃ (c : Civil) (d : Int), FixedOffsetView c (p.1 + off) off mk
      ∧ DT_MIN + 518400 ≤ truncLocal (p.1 + off) u - off
      ∧ truncLocal (p.1 + off) u - off + n * unitSecs u + maxDelay ≤ DT_MAX
      ∧ (0 < maxDelay → 0 ≤ d ∧ d < maxDelay)
      ∧ p.2 = schedule (getNextTime c u n m mk) maxDelay d) (s : Int) :
    GoodRun s (steps.map (·.1)) (run (.live s) steps) := by
  apply Hist_C16_fires_once
  intro p hp
  obtain ⟨c, d, hv, hlo, hhi, hd, hp2⟩ := hsteps p hp
  have hb := Hist_C16_boundary_fixed_units hv u hu n m hn hdur hlo (by omega)
  obtain ⟨t, ht, hlt⟩ := Hist_C16_next_after_now_fixed_units hv u hu n m hn hdur hlo (by omega)
  have hub := Hist_C16_next_upper_bound hv u hu n m hn
  have htr : truncLocal (p.1 + off) u ≤ p.1 + off := by
    cases u <;> simp only [truncLocal] <;> omega
  rw [hb] at ht
  cases ht
  rw [hp2, hb]
  by_cases hz : 0 < maxDelay
  · obtain ⟨hd0, hd1⟩ := hd hz
    obtain ⟨e, _, _⟩ := Hist_C16_delay_bounds (expectedLocal c (p.1 + off) u n m - off) maxDelay d ⟨hd0, hd1⟩ hmax.2
      ⟨by simp only [DT_MIN] at hlo ⊢; omega, by omega⟩
    exact ⟨_, e, by omega⟩
  · have : maxDelay = 0 := by omega
    subst this
    exact ⟨_, Hist_C16_no_delay _ d, by omega⟩

/-! ### the unconditional statements, and why they are false of the code -/

/-- "None of this panics for any time zone, daylight-saving transition or configured interval." -/
def Hist_C16_no_panic_statement : Prop :=
  ∀ (c : Civil) (u : IUnit) (n : Int) (m : Bool) (mk : CivilTime → LocalResult), CivilSane c → 1 ≤ n →
    ∃ t, getNextTime c u n m mk = .ok t

/-- chrono's decomposition of 2026-10-25 02:30:00 local in Europe/Berlin (either occurrence) -/
def berlinOverlap : Civil := ⟨2026, 9, 25, 297, 42, 6, 2, 30, 0⟩
/-- `Local.with_ymd_and_hms(2026, 10, 25, 2, 0, 0)` under TZ=Europe/Berlin, as observed -/
def berlinOverlapMk : CivilTime → LocalResult := fun q =>
  if q = ⟨2026, 10, 25, 2, 0, 0⟩ then .ambiguous 1792886400 1792890000 else .none

/-- F9 on its witness: 1-hour interval, any record between 02:00 and 03:00 (twice) on the day the
clocks go back: `unwrap` of an ambiguous local time panics. -/
theorem Hist_C16_panics_in_dst_overlap :
    getNextTime berlinOverlap .hour 1 false berlinOverlapMk = .panic "mk-ambiguous" := by decide

/-- an absurd interval: `Duration::seconds(i64::MAX)` is outside chrono's range -/
theorem Hist_C16_panics_on_absurd_interval (c : Civil) (t : Int) :
    getNextTime c .second I64_MAX false (fun _ => .single t) = .panic "duration" := by
  simp [getNextTime, unwrapLR, incI64, dur, I64_MAX, I64_MIN, DUR_MAX]

theorem Hist_C16_no_panic_statement_false : ¬ Hist_C16_no_panic_statement := by
  intro h
  obtain ⟨t, ht⟩ := h berlinOverlap .hour 1 false berlinOverlapMk
    ⟨by decide, by decide, by decide, by decide, by decide, by decide, by decide, by decide⟩ (by decide)
  rw [Hist_C16_panics_in_dst_overlap] at ht
  cases ht

/-- "The next scheduled rotation lies strictly after the current instant", for the day unit in an
arbitrary zone: all that is known of the zone is that today's local midnight resolves to a single
instant `time` not after `now`, and that a local day lasts at most 25 hours. -/
def Hist_C16_after_now_statement : Prop :=
  ∀ (c : Civil) (n : Int) (m : Bool) (mk : CivilTime → LocalResult) (time now : Int), CivilSane c → 1 ≤ n →
    mk (truncated c .day) = .single time → time ≤ now → now < time + 90000 →
    ∀ t, getNextTime c .day n m mk = .ok t → now < t

/-- chrono's decomposition of 2026-10-25 23:30:00 CET in Europe/Berlin (a 25-hour day) -/
def berlinLongDay : Civil := ⟨2026, 9, 25, 297, 42, 6, 23, 30, 0⟩
/-- midnight of that day is 2026-10-24T22:00:00Z (CEST) -/
def berlinLongDayMk : CivilTime → LocalResult := fun q =>
  if q = ⟨2026, 10, 25, 0, 0, 0⟩ then .single 1792879200 else .none

/-- F12 on its witness: now = 2026-10-25T22:30:00Z, the schedule is 22:00:00Z — half an hour ago. -/
theorem Hist_C16_day_schedule_not_after_now :
    getNextTime berlinLongDay .day 1 false berlinLongDayMk = .ok 1792965600 ∧ ¬ (1792967400 < (1792965600 : Int)) := by
  decide

theorem Hist_C16_after_now_statement_false : ¬ Hist_C16_after_now_statement := by
  intro h
  have := h berlinLongDay 1 false berlinLongDayMk 1792879200 1792967400
    ⟨by decide, by decide, by decide, by decide, by decide, by decide, by decide, by decide⟩
    (by decide) (by decide) (by decide) (by decide) 1792965600 Hist_C16_day_schedule_not_after_now.1
  omega

/-- the consequence for the trigger: with a schedule that is not after now, every record fires
(records at 23:30:10, 23:30:20 CET both roll the file; compare `Hist_C16_no_refire_before_next`) -/
theorem Hist_C16_fires_on_every_record_on_long_day :
    (run (.live 1792965600) [(1792967410, .ok 1792965600), (1792967420, .ok 1792965600)]).map (·.1)
      = [.ok true, .ok true] := by decide

/-- 2024-02-29 23:59:58 UTC+5:45 (Asia/Kathmandu): L = 1709251198, a leap day, modulated 7-second
interval crossing the minute, day and month end -/
def kathmanduLeap : Civil := ⟨2024, 1, 29, 59, 8, 3, 23, 59, 58⟩

example : FixedOffsetView kathmanduLeap 1709251198 20700
    (fun q => .single ((truncLocal 1709251198
      (if q.s ≠ 0 then .second else if q.mi ≠ 0 then .minute else if q.h ≠ 0 then .hour else .day)) - 20700)) :=
  ⟨by decide, by decide, by decide, by decide, by decide, by decide, by
    intro u hu; cases u <;> simp [isCalendarUnit] at hu <;> decide⟩

/-- test (sample): modulated 7 s at 23:59:58 → 00:00:03 next day (56 + 7 = 63 s from the minute start) -/
example : expectedLocal kathmanduLeap 1709251198 .second 7 true = 1709251203 := by decide

/-- test (sample): a run with two boundaries: fires at the first arrival ≥ 10, not at 12, 14, fires at 20 -/
example : (run (.live 10) [(3, .ok 15), (11, .ok 15), (12, .ok 15), (14, .ok 15), (20, .ok 25)]).map (·.1)
    = [.ok false, .ok true, .ok false, .ok false, .ok true] := by decide

example : Representable kathmanduLeap .month 61 := by simp [Representable, kathmanduLeap, U32_MAX]

end Log4rs.TimeTrigger
