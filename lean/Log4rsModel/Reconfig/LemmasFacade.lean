import Log4rsModel.Reconfig.Facade
import Log4rsModel.Reconfig.LemmasSwap
/-
Helper lemmas for the two-write `set_config` (Facade.lean).
-/
set_option linter.unusedSimpArgs false
namespace Log4rs.Reconfig

/-- gate and snapshot agree whenever nobody is between the two writes; a lone call between them
has written its own level -/
def FSys.Consistent (cfgs : List MiniCfg) (s : FSys) : Prop :=
  s.atHook.length ≤ 1 ∧
  (s.atHook = [] → s.maxLevel = cfgMax cfgs s.store) ∧
  (∀ k, s.atHook = [k] → s.maxLevel = cfgMax cfgs k)

theorem FSys.init_consistent (cfgs : List MiniCfg) : (FSys.init cfgs).Consistent cfgs := by
  simp [FSys.Consistent, FSys.init]

theorem FSys.apply_consistent (serialised : Bool) (cfgs : List MiniCfg) (s : FSys) (e : FEvent)
    (h : s.Consistent cfgs) (hone : (s.apply serialised cfgs e).atHook.length ≤ 1) :
    (s.apply serialised cfgs e).Consistent cfgs := by
  obtain ⟨h1, h2, h3⟩ := h
  refine ⟨hone, ?_, ?_⟩
  · cases e with
    | enter k =>
      simp only [FSys.apply]
      split
      · exact h2
      · split
        · exact h2
        · intro hc; simp at hc
    | finish k =>
      simp only [FSys.apply]
      split
      · exact h2
      · rename_i hk
        simp only [Bool.not_eq_true, Bool.not_eq_false] at hk
        -- k is at the hook, and it is the only one
        have hk' : k ∈ s.atHook := by simpa using hk
        have hs : s.atHook = [k] := by
          match hl : s.atHook with
          | [] => rw [hl] at hk'; cases hk'
          | [a] => rw [hl] at hk'; simp at hk'; rw [hk']
          | a :: b :: r => rw [hl] at h1; simp at h1
        cases serialised with
        | false =>
          simp only [Bool.false_eq_true, if_false]
          intro _
          exact h3 k hs
        | true =>
          simp only [if_true]
          split
          · intro _; exact h3 k hs
          · intro hc; simp at hc
  · cases e with
    | enter k =>
      simp only [FSys.apply]
      split
      · exact h3
      · split
        · exact h3
        · intro j hj
          simp only at hj ⊢
          -- atHook ++ [k] = [j] forces atHook = [] and j = k
          match hl : s.atHook with
          | [] => rw [hl] at hj; simp at hj; rw [hj]
          | a :: r => rw [hl] at hj; simp at hj
    | finish k =>
      simp only [FSys.apply]
      split
      · exact h3
      · rename_i hk
        simp only [Bool.not_eq_true, Bool.not_eq_false] at hk
        have hk' : k ∈ s.atHook := by simpa using hk
        have hs : s.atHook = [k] := by
          match hl : s.atHook with
          | [] => rw [hl] at hk'; cases hk'
          | [a] => rw [hl] at hk'; simp at hk'; rw [hk']
          | a :: b :: r => rw [hl] at h1; simp at h1
        cases serialised with
        | false =>
          simp only [Bool.false_eq_true, if_false, hs]
          intro j hj; simp at hj
        | true =>
          simp only [if_true]
          split
          · intro j hj; simp [hs] at hj
          · intro j hj; simp at hj; rw [hj]

/-- the serialised variant never has two calls between their writes -/
theorem FSys.apply_serialised_one (cfgs : List MiniCfg) (s : FSys) (e : FEvent)
    (h : s.atHook.length ≤ 1) : (s.apply true cfgs e).atHook.length ≤ 1 := by
  cases e with
  | enter k =>
    simp only [FSys.apply]
    split
    · exact h
    · split
      · exact h
      · rename_i hx
        simp only [Bool.true_and, Bool.not_eq_true', Bool.not_eq_true] at hx
        have : s.atHook = [] := by simpa using hx
        simp [this]
  | finish k =>
    simp only [FSys.apply]
    split
    · exact h
    · simp only [if_true]
      split
      · simp only
        have := List.length_erase_le (a := k) (l := s.atHook)
        omega
      · simp

theorem FSys.run_serialised_consistent (cfgs : List MiniCfg) (evs : List FEvent) :
    ∀ s : FSys, s.Consistent cfgs → (s.run true cfgs evs).Consistent cfgs := by
  induction evs with
  | nil => intro s h; exact h
  | cons e rest ih =>
    intro s h
    simp only [FSys.run, List.foldl_cons]
    exact ih _ (FSys.apply_consistent true cfgs s e h (FSys.apply_serialised_one cfgs s e h.1))

theorem FSys.run_consistent_of_one (serialised : Bool) (cfgs : List MiniCfg) (evs : List FEvent) :
    ∀ s : FSys, s.Consistent cfgs →
      (∀ s' ∈ FSys.states serialised cfgs s evs, s'.atHook.length ≤ 1) →
      (s.run serialised cfgs evs).Consistent cfgs := by
  induction evs with
  | nil => intro s h _; exact h
  | cons e rest ih =>
    intro s h hall
    simp only [FSys.run, List.foldl_cons]
    have hnext : (s.apply serialised cfgs e).atHook.length ≤ 1 := by
      apply hall
      simp only [FSys.states, List.mem_cons]
      right
      cases rest <;> simp [FSys.states]
    apply ih _ (FSys.apply_consistent serialised cfgs s e h hnext)
    intro s' hs'
    exact hall s' (by simp [FSys.states, hs'])

/-! ### the gate never produces a mixture for a single record -/

theorem MiniCfg.effective_le_max (c : MiniCfg) (t : Target) : (c.effective t).1 ≤ c.maxLevel := by
  have hfold : ∀ (ls : List (Target × Nat × List AppenderId)) (m : Nat),
      m ≤ ls.foldl (fun m e => max m e.2.1) m ∧ ∀ e ∈ ls, e.2.1 ≤ ls.foldl (fun m e => max m e.2.1) m := by
    intro ls
    induction ls with
    | nil => intro m; simp
    | cons a r ih =>
      intro m
      simp only [List.foldl_cons]
      have := ih (max m a.2.1)
      refine ⟨by omega, ?_⟩
      intro e he
      simp only [List.mem_cons] at he
      rcases he with rfl | he
      · omega
      · exact this.2 e he
  unfold MiniCfg.effective MiniCfg.maxLevel
  split
  · rename_i e he
    exact (hfold c.loggers c.rootLevel).2 e (List.mem_of_find?_eq_some he)
  · exact (hfold c.loggers c.rootLevel).1

/-- a record above a configuration's max level is routed nowhere by that configuration: being
dropped by the facade gate is "routed entirely under it" -/
theorem prescribed_above_max (c : MiniCfg) (t : Target) (l : Level) (h : c.maxLevel < l) :
    prescribed (mkSnapshot c) t l = [] := by
  have := c.effective_le_max t
  have hn : ¬ (c.effective t).1 ≥ l := by omega
  simp [prescribed, mkSnapshot, Snapshot.route, hn, resolve]

/-! ### witnesses -/

def fc0 : MiniCfg := { tag := 0, table := [10], rootLevel := 3, rootApps := [10], loggers := [] }
def fc1 : MiniCfg := { tag := 1, table := [20], rootLevel := 5, rootApps := [20], loggers := [] }
def fc2 : MiniCfg := { tag := 2, table := [30], rootLevel := 1, rootApps := [30], loggers := [] }
/-- A writes its level, B writes its level, B stores, A stores -/
def fRace : List FEvent := [.enter 1, .enter 2, .finish 2, .finish 1]

end Log4rs.Reconfig
