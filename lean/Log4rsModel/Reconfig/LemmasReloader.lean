import Log4rsModel.Reconfig.Spec
/-
Helper definitions and lemmas for C15 (b): `run_once` decomposed into "which polls read the file"
(the mtime rule), "which texts count as a change" (comparison with the remembered source) and "what
a changed text does" (parse, then `set_config`).
-/
set_option linter.unusedSimpArgs false
namespace Log4rs.Reconfig.Reloader

section
variable {Text : Type} [DecidableEq Text] (parse : Text → Option (ConfigTag × Option Rate))

/-- the effect of having read text `t` (everything in `run_once` after `read_config`) -/
def applyText (st : RState Text) (t : Text) : RState Text :=
  if t = st.source then st
  else match parse t with
    | none => { st with source := t }
    | some (c, r) => { st with source := t, active := c, rate := r.getD st.rate, alive := r.isSome }

/-- the remembered mtime after one `run_once` -/
def nextModified (fixed : Bool) (last : Option Mtime) (fv : FileView Text) : Option Mtime :=
  match last with
  | none => none
  | some l =>
    match fv.mtime? with
    | none => some l
    | some m => if l = m then some l else if fixed && fv.text?.isNone then some l else some m

/-- the text one `run_once` reads, if it gets as far as a successful `read_config` -/
def readsOne (last : Option Mtime) (fv : FileView Text) : Option Text :=
  match last with
  | none => fv.text?
  | some l =>
    match fv.mtime? with
    | none => none
    | some m => if l = m then none else fv.text?

theorem readAndApply_fst (st : RState Text) (fv : FileView Text) :
    (readAndApply parse st fv).1 = match fv.text? with
      | none => st
      | some t => applyText parse st t := by
  unfold readAndApply applyText
  cases fv.text? with
  | none => rfl
  | some t =>
    simp only
    split
    · rfl
    · cases parse t with
      | none => rfl
      | some p => rfl

theorem runOnce_fst (fixed : Bool) (st : RState Text) (fv : FileView Text) :
    (runOnce parse fixed st fv).1 =
      match readsOne st.modified fv with
      | none => { st with modified := nextModified fixed st.modified fv }
      | some t => applyText parse { st with modified := nextModified fixed st.modified fv } t := by
  unfold runOnce readsOne nextModified
  cases hm : st.modified with
  | none =>
    simp only [readAndApply_fst]
    have : ({ st with modified := none } : RState Text) = st := by cases st; simp_all
    rw [this]
  | some l =>
    simp only
    cases hfm : fv.mtime? with
    | none =>
      simp only
      cases st; simp_all
    | some m =>
      simp only
      by_cases hlm : l = m
      · simp only [hlm, if_true]
        cases st; simp_all
      · simp only [hlm, if_false]
        cases fixed with
        | false => simp only [Bool.false_and, Bool.false_eq_true, if_false, readAndApply_fst]
        | true =>
          simp only [if_true, Bool.true_and]
          cases hft : fv.text? with
          | none =>
            simp only [Option.isNone_none, if_true]
            cases st; simp_all
          | some t =>
            simp only [readAndApply_fst, hft, Option.isNone_some, Bool.false_eq_true, if_false]

/-- the texts read by a history of `run_once` calls (the mtime rule, nothing else) -/
def reads (fixed : Bool) : Option Mtime → List (FileView Text) → List Text
  | _, [] => []
  | last, fv :: rest => (readsOne last fv).toList ++ reads fixed (nextModified fixed last fv) rest

/-- the remembered mtime after a history -/
def finalModified (fixed : Bool) : Option Mtime → List (FileView Text) → Option Mtime
  | last, [] => last
  | last, fv :: rest => finalModified fixed (nextModified fixed last fv) rest

/-- change detection: the texts that differ from the one remembered at the time they are read -/
def changes (src : Text) : List Text → List Text
  | [] => []
  | t :: rest => if t = src then changes src rest else t :: changes t rest

/-- what a sequence of *changed* texts leaves behind: a text that parses replaces configuration,
rate and liveness; a text that does not parse replaces nothing -/
def lastGood (init : ConfigTag × Rate × Bool) (ts : List Text) : ConfigTag × Rate × Bool :=
  ts.foldl (fun acc t => match parse t with
    | none => acc
    | some (c, r) => (c, r.getD acc.2.1, r.isSome)) init

theorem applyText_modified (st : RState Text) (t : Text) :
    (applyText parse st t).modified = st.modified := by
  unfold applyText
  split
  · rfl
  · cases parse t with
    | none => rfl
    | some p => rfl

theorem applyText_with_modified (st : RState Text) (t : Text) (m : Option Mtime) :
    applyText parse { st with modified := m } t = { applyText parse st t with modified := m } := by
  unfold applyText
  simp only
  split
  · rfl
  · cases parse t with
    | none => rfl
    | some p => rfl

theorem foldl_applyText_with_modified (ts : List Text) (st : RState Text) (m : Option Mtime) :
    ts.foldl (applyText parse) { st with modified := m } = { ts.foldl (applyText parse) st with modified := m } := by
  induction ts generalizing st with
  | nil => rfl
  | cons t rest ih =>
    simp only [List.foldl_cons, applyText_with_modified, ih]

/-- a history of `run_once` calls = folding `applyText` over the texts the mtime rule lets through -/
theorem stepAll_eq (fixed : Bool) (h : List (FileView Text)) (st : RState Text) :
    stepAll parse fixed st h =
      { (reads fixed st.modified h).foldl (applyText parse) st with
        modified := finalModified fixed st.modified h } := by
  induction h generalizing st with
  | nil => simp [stepAll, reads, finalModified]
  | cons fv rest ih =>
    have hstep : stepAll parse fixed st (fv :: rest) = stepAll parse fixed (runOnce parse fixed st fv).1 rest := rfl
    rw [hstep, ih, runOnce_fst]
    cases hr : readsOne st.modified fv with
    | none =>
      simp only [reads, finalModified, hr, Option.toList_none, List.nil_append]
      rw [foldl_applyText_with_modified]
    | some t =>
      simp only [reads, finalModified, hr, Option.toList_some, List.cons_append, List.nil_append,
        List.foldl_cons, applyText_modified]
      rw [applyText_with_modified, foldl_applyText_with_modified]

theorem foldl_applyText (ts : List Text) (st : RState Text) :
    let r := ts.foldl (applyText parse) st
    (r.active, r.rate, r.alive) = lastGood parse (st.active, st.rate, st.alive) (changes st.source ts) ∧
    r.source = ((changes st.source ts).getLast?).getD st.source := by
  induction ts generalizing st with
  | nil => simp [changes, lastGood]
  | cons t rest ih =>
    simp only [List.foldl_cons, changes]
    by_cases ht : t = st.source
    · have : applyText parse st t = st := by simp [applyText, ht]
      rw [this]
      simp only [ht, if_true]
      exact ih st
    · simp only [ht, if_false]
      have ih' := ih (applyText parse st t)
      have hsrc : (applyText parse st t).source = t := by
        unfold applyText; simp only [ht, if_false]
        cases parse t with
        | none => rfl
        | some p => rfl
      rw [hsrc] at ih'
      refine ⟨?_, ?_⟩
      · rw [ih'.1]
        simp only [lastGood, List.foldl_cons]
        congr 1
        unfold applyText; simp only [ht, if_false]
        cases parse t with
        | none => rfl
        | some p => rfl
      · rw [ih'.2]
        cases hc : changes t rest with
        | nil => simp
        | cons a as =>
          have : (a :: as).getLast? = some ((a :: as).getLast (by simp)) := List.getLast?_eq_some_getLast (by simp)
          simp [this]

/-! ### the model against the executable specification -/

def obsOf (a : Action) (st : RState Text) : PollObs :=
  { action := a, active := st.active, rate := st.rate, alive := st.alive }

def Linked (id : Ideal Text) (st : RState Text) : Prop :=
  id.prev.active = st.active ∧ id.prev.rate = st.rate ∧ id.prev.alive = st.alive ∧
  (st.alive = true → id.remM = st.modified ∧ id.remText = st.source)

def SafeStep (fixed : Bool) (st : RState Text) (fv : FileView Text) : Prop :=
  fixed = true ∨ st.modified = none ∨ ∀ m, fv ≠ .unreadable m

theorem specPoll_prev (id : Ideal Text) (fv : FileView Text) (o : PollObs) :
    (specPoll parse id fv o).2.prev = o := by
  unfold specPoll
  cases fv with
  | ok m t => simp only; split <;> (try split) <;> rfl
  | _ => rfl

theorem specPoll_step (fixed : Bool) (id : Ideal Text) (st : RState Text) (fv : FileView Text)
    (hl : Linked id st) (hs : SafeStep fixed st fv) :
    let r := poll parse fixed st fv
    (specPoll parse id fv (obsOf r.2 r.1)).1 = none ∧ Linked (specPoll parse id fv (obsOf r.2 r.1)).2 r.1 := by
  rcases st with ⟨modified, source, active, rate, alive⟩
  rcases id with ⟨remM, remText, ⟨pact, pactive, prate, palive⟩⟩
  obtain ⟨h1, h2, h3, h4⟩ := hl
  simp only at h1 h2 h3 h4
  subst h1 h2 h3
  cases palive with
  | false =>
    refine ⟨by simp [poll, specPoll, obsOf], ?_⟩
    simp only [Linked, specPoll_prev]
    simp [poll, obsOf]
  | true =>
    obtain ⟨rfl, rfl⟩ := h4 rfl
    cases fv with
    | missing =>
      cases remM <;> simp [poll, runOnce, readAndApply, specPoll, obsOf, Linked, untouched, appliedAs, FileView.mtime?, FileView.text?]
    | unreadable m =>
      cases remM with
      | none => simp [poll, runOnce, readAndApply, specPoll, obsOf, Linked, untouched, appliedAs, FileView.mtime?, FileView.text?]
      | some l =>
        by_cases hlm : l = m
        · simp [poll, runOnce, readAndApply, specPoll, obsOf, Linked, untouched, appliedAs, FileView.mtime?, FileView.text?, hlm]
        · rcases hs with rfl | hs | hs
          · simp [poll, runOnce, readAndApply, specPoll, obsOf, Linked, untouched, appliedAs, FileView.mtime?, FileView.text?, hlm]
          · simp at hs
          · exact absurd rfl (hs m)
    | ok m t =>
      have hparse : parse t = none ∨ ∃ c r, parse t = some (c, r) := by
        cases parse t with
        | none => left; rfl
        | some p => right; exact ⟨p.1, p.2, rfl⟩
      by_cases hts : t = remText
      · subst hts
        cases remM with
        | none =>
          rcases hparse with hp | ⟨c, r, hp⟩ <;> (try cases r) <;>
            simp [poll, runOnce, readAndApply, specPoll, obsOf, Linked, untouched, appliedAs, FileView.mtime?, FileView.text?, hp]
        | some l =>
          by_cases hlm : l = m <;> rcases hparse with hp | ⟨c, r, hp⟩ <;> (try cases r) <;> cases fixed <;>
            simp [poll, runOnce, readAndApply, specPoll, obsOf, Linked, untouched, appliedAs, FileView.mtime?, FileView.text?, hp, hlm]
      · cases remM with
        | none =>
          rcases hparse with hp | ⟨c, r, hp⟩ <;> (try cases r) <;>
            simp [poll, runOnce, readAndApply, specPoll, obsOf, Linked, untouched, appliedAs, FileView.mtime?, FileView.text?, hts, hp]
        | some l =>
          by_cases hlm : l = m <;> rcases hparse with hp | ⟨c, r, hp⟩ <;> (try cases r) <;> cases fixed <;>
            simp [poll, runOnce, readAndApply, specPoll, obsOf, Linked, untouched, appliedAs, FileView.mtime?, FileView.text?, hts, hp, hlm]

/-- the model's observation of a history, paired with the file views (what the driver hands to the Spec) -/
def modelPolls (fixed : Bool) : RState Text → List (FileView Text) → List (FileView Text × PollObs)
  | _, [] => []
  | st, fv :: rest =>
    let r := poll parse fixed st fv
    (fv, obsOf r.2 r.1) :: modelPolls fixed r.1 rest

theorem modelPolls_eq_zip (fixed : Bool) (h : List (FileView Text)) (st : RState Text) :
    modelPolls parse fixed st h = List.zip h ((pollAll parse fixed st h).map (fun p => obsOf p.1 p.2)) := by
  induction h generalizing st with
  | nil => rfl
  | cons fv rest ih => simp [modelPolls, pollAll, ih]

def Safe (fixed : Bool) (st : RState Text) (h : List (FileView Text)) : Prop :=
  fixed = true ∨ st.modified = none ∨ ∀ fv ∈ h, ∀ m, fv ≠ .unreadable m

theorem poll_modified_none (fixed : Bool) (st : RState Text) (fv : FileView Text)
    (h : st.modified = none) : (poll parse fixed st fv).1.modified = none := by
  unfold poll
  split
  · rw [runOnce_fst]
    cases readsOne st.modified fv with
    | none => simp [nextModified, h]
    | some t => simp [applyText_modified, nextModified, h]
  · exact h

theorem specPolls_model (fixed : Bool) (h : List (FileView Text)) :
    ∀ (st : RState Text) (id : Ideal Text) (i : Nat), Linked id st → Safe fixed st h →
      specPolls parse id i (modelPolls parse fixed st h) = none := by
  induction h with
  | nil => intro st id i _ _; rfl
  | cons fv rest ih =>
    intro st id i hl hs
    have hstep : SafeStep fixed st fv := by
      rcases hs with h1 | h1 | h1
      · exact Or.inl h1
      · exact Or.inr (Or.inl h1)
      · exact Or.inr (Or.inr (h1 fv (by simp)))
    obtain ⟨hv, hl'⟩ := specPoll_step parse fixed id st fv hl hstep
    simp only [modelPolls, specPolls]
    cases hsp : specPoll parse id fv (obsOf (poll parse fixed st fv).2 (poll parse fixed st fv).1) with
    | mk v id' =>
      rw [hsp] at hv hl'
      simp only at hv hl'
      subst hv
      simp only
      apply ih _ _ _ hl'
      rcases hs with h1 | h1 | h1
      · exact Or.inl h1
      · exact Or.inr (Or.inl (poll_modified_none parse fixed st fv h1))
      · exact Or.inr (Or.inr (fun fv' hfv' => h1 fv' (by simp [hfv'])))

/-- from `init_file` on: the initial observation and every poll of any history -/
theorem specHistory_model (fixed : Bool) (m0 : Option Mtime) (text0 : Text) (st0 : RState Text)
    (hinit : initState parse m0 text0 = some st0) (h : List (FileView Text)) (hs : Safe fixed st0 h) (a : Action) :
    specHistory parse m0 text0 (obsOf a st0) (modelPolls parse fixed st0 h) = none := by
  unfold initState at hinit
  unfold specHistory
  cases hp : parse text0 with
  | none => simp [hp] at hinit
  | some p =>
    obtain ⟨c, r⟩ := p
    simp only [hp, Option.some.injEq] at hinit
    subst hinit
    have hspec := specPolls_model parse fixed h
      { modified := m0, source := text0, active := c, rate := r.getD 0, alive := r.isSome }
      { remM := m0, remText := text0,
        prev := obsOf a { modified := m0, source := text0, active := c, rate := r.getD 0, alive := r.isSome } }
      1 (by simp [Linked, obsOf]) hs
    cases r <;> simp [obsOf] at hspec ⊢ <;> exact hspec

/-! ### the loop of `run` (gated by `alive`) against the bare sequence of `run_once` calls -/

theorem runAll_cons (fixed : Bool) (st : RState Text) (fv : FileView Text) (rest : List (FileView Text)) :
    runAll parse fixed st (fv :: rest) = runAll parse fixed (poll parse fixed st fv).1 rest := rfl

/-- once the loop of `run` has ended nothing is read or applied any more -/
theorem runAll_dead (fixed : Bool) (h : List (FileView Text)) (st : RState Text) (hd : st.alive = false) :
    runAll parse fixed st h = st := by
  induction h with
  | nil => rfl
  | cons fv rest ih =>
    rw [runAll_cons]
    have : (poll parse fixed st fv).1 = st := by simp [poll, hd]
    rw [this]; exact ih

/-- no text that gets applied lacks a refresh rate -/
def NoRateRemoval (ts : List Text) : Prop := ∀ t ∈ ts, ∀ c, parse t ≠ some (c, none)

theorem runAll_eq_stepAll (fixed : Bool) (h : List (FileView Text)) :
    ∀ (st : RState Text), st.alive = true →
      NoRateRemoval parse (changes st.source (reads fixed st.modified h)) →
      runAll parse fixed st h = stepAll parse fixed st h := by
  induction h with
  | nil => intro st _ _; rfl
  | cons fv rest ih =>
    intro st ha hn
    have hstep : stepAll parse fixed st (fv :: rest) = stepAll parse fixed (runOnce parse fixed st fv).1 rest := rfl
    rw [runAll_cons, hstep]
    have hpoll : (poll parse fixed st fv).1 = (runOnce parse fixed st fv).1 := by simp [poll, ha]
    rw [hpoll]
    have hst1 := runOnce_fst parse fixed st fv
    simp only [reads] at hn
    cases hr : readsOne st.modified fv with
    | none =>
      rw [hr] at hst1
      simp only [hr, Option.toList_none, List.nil_append] at hn
      apply ih
      · rw [hst1]; exact ha
      · rw [hst1]; exact hn
    | some t =>
      rw [hr] at hst1
      simp only [hr, Option.toList_some, List.cons_append, List.nil_append, changes] at hn
      by_cases hts : t = st.source
      · simp only [hts, if_true] at hn
        have : (runOnce parse fixed st fv).1 = { st with modified := nextModified fixed st.modified fv } := by
          rw [hst1]; simp [applyText, hts]
        apply ih
        · rw [this]; exact ha
        · rw [this]; exact hn
      · simp only [hts, if_false] at hn
        have hsrc : (runOnce parse fixed st fv).1.source = t := by
          rw [hst1]; unfold applyText; simp only [hts, if_false]
          cases parse t with
          | none => rfl
          | some p => rfl
        have hmod : (runOnce parse fixed st fv).1.modified = nextModified fixed st.modified fv := by
          rw [hst1, applyText_modified]
        have halive : (runOnce parse fixed st fv).1.alive = true := by
          rw [hst1]; unfold applyText; simp only [hts, if_false]
          cases hp : parse t with
          | none => exact ha
          | some p =>
            obtain ⟨c, r⟩ := p
            cases r with
            | none => exact absurd hp (hn t (by simp) c)
            | some x => rfl
        apply ih _ halive
        rw [hsrc, hmod]
        intro t' ht' c
        exact hn t' (by simp [ht']) c
end

section
variable {Text : Type} [DecidableEq Text] (parse : Text → Option (ConfigTag × Option Rate))

/-! ### the thread: repeated polls of an unchanged file, and the poll history it shows -/

theorem runOnce_idem (fixed : Bool) (st : RState Text) (fv : FileView Text) :
    (runOnce parse fixed (runOnce parse fixed st fv).1 fv).1 = (runOnce parse fixed st fv).1 ∧
    (runOnce parse fixed (runOnce parse fixed st fv).1 fv).2 ≠ .applied := by
  rcases st with ⟨modified, source, active, rate, alive⟩
  cases fv with
  | missing => cases modified <;> simp [runOnce, readAndApply, FileView.mtime?, FileView.text?]
  | unreadable m =>
    cases modified with
    | none => simp [runOnce, readAndApply, FileView.mtime?, FileView.text?]
    | some l =>
      by_cases hlm : l = m <;> cases fixed <;>
        simp [runOnce, readAndApply, FileView.mtime?, FileView.text?, hlm]
  | ok m t =>
    have hparse : parse t = none ∨ ∃ c r, parse t = some (c, r) := by
      cases parse t with
      | none => left; rfl
      | some p => right; exact ⟨p.1, p.2, rfl⟩
    cases modified with
    | none =>
      by_cases hts : t = source <;> rcases hparse with hp | ⟨c, r, hp⟩ <;>
        simp [runOnce, readAndApply, FileView.mtime?, FileView.text?, hts, hp]
    | some l =>
      by_cases hlm : l = m <;> by_cases hts : t = source <;> rcases hparse with hp | ⟨c, r, hp⟩ <;> cases fixed <;>
        simp [runOnce, readAndApply, FileView.mtime?, FileView.text?, hts, hp, hlm]

theorem poll_idem (fixed : Bool) (st : RState Text) (fv : FileView Text) :
    (poll parse fixed (poll parse fixed st fv).1 fv).1 = (poll parse fixed st fv).1 ∧
    (poll parse fixed (poll parse fixed st fv).1 fv).2 ≠ .applied := by
  by_cases ha : st.alive = true
  · have h1 : poll parse fixed st fv = runOnce parse fixed st fv := by simp [poll, ha]
    rw [h1]
    by_cases ha2 : (runOnce parse fixed st fv).1.alive = true
    · have h2 : poll parse fixed (runOnce parse fixed st fv).1 fv = runOnce parse fixed (runOnce parse fixed st fv).1 fv := by
        simp [poll, ha2]
      rw [h2]; exact runOnce_idem parse fixed st fv
    · simp [poll, ha2]
  · simp [poll, ha]

theorem pollMany_eq (fixed : Bool) (fv : FileView Text) (n : Nat) :
    ∀ st : RState Text, pollMany parse fixed st fv n = (poll parse fixed st fv).1 := by
  induction n with
  | zero => intro st; rfl
  | succ k ih =>
    intro st
    simp only [pollMany]
    rw [ih, (poll_idem parse fixed st fv).1]


def tobsOf (p : Action × RState Text) : TObs :=
  { active := p.2.active, touched := p.1 == .applied, alive := p.2.alive, polled := true }

/-- every refresh rate a file can ask for is an ordinary (fast) one -/
def FastRates : Prop := ∀ t c r, parse t = some (c, some r) → r < slowRate

theorem applyText_rate_fast (hf : FastRates parse) (st : RState Text) (t : Text) (h : st.rate < slowRate) :
    (applyText parse st t).rate < slowRate := by
  unfold applyText
  split
  · exact h
  · cases hp : parse t with
    | none => exact h
    | some p =>
      obtain ⟨c, r⟩ := p
      cases r with
      | none => exact h
      | some x => exact hf t c x hp

theorem poll_rate_fast (hf : FastRates parse) (fixed : Bool) (st : RState Text) (fv : FileView Text)
    (h : st.rate < slowRate) : (poll parse fixed st fv).1.rate < slowRate := by
  unfold poll
  split
  · rw [runOnce_fst]
    cases readsOne st.modified fv with
    | none => exact h
    | some t => exact applyText_rate_fast parse hf _ t h
  · exact h

/-- with ordinary rates only, what the thread shows after each edit is what the poll history shows -/
theorem threadRun_fast (hf : FastRates parse) (fixed : Bool) (views : List (FileView Text)) :
    ∀ (st : RState Text) (cur : FileView Text), st.rate < slowRate →
      threadRun parse fixed st cur (views.map .edit) = (pollAll parse fixed st views).map tobsOf := by
  induction views with
  | nil => intro st cur _; rfl
  | cons fv rest ih =>
    intro st cur h
    simp only [List.map_cons, threadRun, pollAll, h, decide_true, if_true]
    rw [ih _ fv (poll_rate_fast parse hf fixed st fv h)]
    rfl

end

section
variable {Text : Type} [DecidableEq Text] (parse : Text → Option (ConfigTag × Option Rate))

/-! ### histories with rate removal, the thread without rate assumptions, the two-look initialisation -/

/-- `lastGood` for the loop of `run`: once a text without a refresh rate has been applied the loop
has ended and later texts are not even looked at -/
def lastGoodRun : (ConfigTag × Rate × Bool) → List Text → (ConfigTag × Rate × Bool)
  | acc, [] => acc
  | acc, t :: ts =>
    if acc.2.2 then
      match parse t with
      | none => lastGoodRun acc ts
      | some (c, r) => lastGoodRun (c, r.getD acc.2.1, r.isSome) ts
    else acc

theorem lastGoodRun_dead (a : ConfigTag) (r : Rate) (ts : List Text) :
    lastGoodRun parse (a, r, false) ts = (a, r, false) := by
  cases ts <;> simp [lastGoodRun]

/-- the loop of `run` over any history, rate removal included -/
theorem runAll_lastGoodRun (fixed : Bool) (h : List (FileView Text)) :
    ∀ (st : RState Text),
      let r := runAll parse fixed st h
      (r.active, r.rate, r.alive) =
        lastGoodRun parse (st.active, st.rate, st.alive) (changes st.source (reads fixed st.modified h)) := by
  induction h with
  | nil => intro st; simp [runAll, reads, changes, lastGoodRun]
  | cons fv rest ih =>
    intro st
    simp only
    rw [runAll_cons]
    by_cases ha : st.alive = true
    · have hpoll : (poll parse fixed st fv).1 = (runOnce parse fixed st fv).1 := by simp [poll, ha]
      rw [hpoll]
      have hst1 := runOnce_fst parse fixed st fv
      have ih1 := ih (runOnce parse fixed st fv).1
      simp only at ih1
      rw [ih1]
      simp only [reads]
      cases hr : readsOne st.modified fv with
      | none =>
        rw [hr] at hst1
        simp only [Option.toList_none, List.nil_append]
        rw [hst1]
      | some t =>
        rw [hr] at hst1
        simp only [Option.toList_some, List.cons_append, List.nil_append, changes]
        have hmod : (runOnce parse fixed st fv).1.modified = nextModified fixed st.modified fv := by
          rw [hst1, applyText_modified]
        by_cases hts : t = st.source
        · have : (runOnce parse fixed st fv).1 = { st with modified := nextModified fixed st.modified fv } := by
            rw [hst1]; simp [applyText, hts]
          simp only [hts, if_true]
          rw [this]
        · simp only [hts, if_false]
          have hsrc : (runOnce parse fixed st fv).1.source = t := by
            rw [hst1]; unfold applyText; simp only [hts, if_false]
            cases parse t with
            | none => rfl
            | some p => rfl
          rw [hsrc, hmod]
          simp only [lastGoodRun, ha, if_true]
          rw [hst1]
          unfold applyText
          simp only [hts, if_false]
          cases hp : parse t with
          | none => simp [ha]
          | some p => obtain ⟨c, r⟩ := p; simp [ha]
    · have hd : st.alive = false := by simpa using ha
      have hpoll : (poll parse fixed st fv).1 = st := by simp [poll, hd]
      rw [hpoll, runAll_dead parse fixed rest st hd, hd, lastGoodRun_dead]

/-! the thread, without any assumption on the rates -/

/-- the file views the loop actually polls, as the model's own rates decide -/
def polledViews (fixed : Bool) : RState Text → FileView Text → List (TStep Text) → List (FileView Text)
  | _, _, [] => []
  | st, cur, step :: rest =>
    let (view, polled) : FileView Text × Bool := match step with
      | .edit fv => (fv, decide (st.rate < slowRate))
      | .longWait => (cur, true)
    if polled then view :: polledViews fixed (poll parse fixed st view).1 view rest
    else polledViews fixed st view rest

theorem threadRun_polled (fixed : Bool) (steps : List (TStep Text)) :
    ∀ (st : RState Text) (cur : FileView Text),
      (threadRun parse fixed st cur steps).filter (·.polled) =
        (pollAll parse fixed st (polledViews parse fixed st cur steps)).map tobsOf ∧
      ∀ o ∈ threadRun parse fixed st cur steps, o.polled = false → o.touched = false := by
  induction steps with
  | nil => intro st cur; simp [threadRun, polledViews, pollAll]
  | cons step rest ih =>
    intro st cur
    cases step with
    | edit fv =>
      by_cases hr : st.rate < slowRate
      · simp only [threadRun, polledViews, hr, decide_true, if_true, pollAll, List.map_cons]
        have := ih (poll parse fixed st fv).1 fv
        refine ⟨?_, ?_⟩
        · simp only [List.filter_cons, if_true]
          rw [this.1]; rfl
        · intro o ho hp
          simp only [List.mem_cons] at ho
          rcases ho with rfl | ho
          · simp at hp
          · exact this.2 o ho hp
      · simp only [threadRun, polledViews, hr, decide_false, Bool.false_eq_true, if_false]
        have := ih st fv
        refine ⟨?_, ?_⟩
        · simp only [List.filter_cons, Bool.false_eq_true, if_false]
          exact this.1
        · intro o ho hp
          simp only [List.mem_cons] at ho
          rcases ho with rfl | ho
          · rfl
          · exact this.2 o ho hp
    | longWait =>
      simp only [threadRun, polledViews, if_true, pollAll, List.map_cons]
      have := ih (poll parse fixed st cur).1 cur
      refine ⟨?_, ?_⟩
      · simp only [List.filter_cons, if_true]
        rw [this.1]; rfl
      · intro o ho hp
        simp only [List.mem_cons] at ho
        rcases ho with rfl | ho
        · simp at hp
        · exact this.2 o ho hp


/-- "stat, then read": whatever edit lands between the two looks, the history that follows
satisfies the specification (the remembered mtime is the older one, the remembered text the newer) -/
theorem specHistory2_model_statsFirst (fixed noMtime : Bool) (v1 v2 : FileView Text) (st0 : RState Text)
    (h : List (FileView Text)) (hinit : initState2 parse true noMtime v1 v2 = some st0)
    (hs : Safe fixed st0 h) (a : Action) :
    specHistory2 parse noMtime v1 v2 (obsOf a st0) (modelPolls parse fixed st0 h) = none := by
  unfold initState2 at hinit
  simp only [if_true] at hinit
  cases hv : v2.text? with
  | none => simp [hv] at hinit
  | some text =>
    simp only [hv] at hinit
    unfold initState at hinit
    cases hp : parse text with
    | none => simp [hp] at hinit
    | some p =>
      obtain ⟨c, r⟩ := p
      simp only [hp, Option.some.injEq] at hinit
      subst hinit
      have hgo : goInit parse noMtime
          (obsOf a { modified := if noMtime then none else v1.mtime?, source := text, active := c, rate := r.getD 0, alive := r.isSome })
          (modelPolls parse fixed { modified := if noMtime then none else v1.mtime?, source := text, active := c, rate := r.getD 0, alive := r.isSome } h)
          v1 v2 = none := by
        simp only [goInit, hv]
        exact specPolls_model parse fixed h _ _ 1 (by simp [Linked, obsOf]) hs
      have hfit : fitsInit parse
          (obsOf a { modified := if noMtime then none else v1.mtime?, source := text, active := c, rate := r.getD 0, alive := r.isSome : RState Text })
          v2 = true := by
        cases r <;> simp [fitsInit, hv, hp, obsOf]
      unfold specHistory2
      have hany : (List.filter (fun c_1 : FileView Text × FileView Text => fitsInit parse
            (obsOf a { modified := if noMtime then none else v1.mtime?, source := text, active := c, rate := r.getD 0, alive := r.isSome : RState Text }) c_1.2)
            [(v2, v2), (v1, v1), (v1, v2)]).any
          (fun c_1 => (goInit parse noMtime
            (obsOf a { modified := if noMtime then none else v1.mtime?, source := text, active := c, rate := r.getD 0, alive := r.isSome })
            (modelPolls parse fixed { modified := if noMtime then none else v1.mtime?, source := text, active := c, rate := r.getD 0, alive := r.isSome } h)
            c_1.1 c_1.2).isNone) = true := by
        rw [List.any_eq_true]
        refine ⟨(v1, v2), ?_, by simp [hgo]⟩
        rw [List.mem_filter]
        exact ⟨by simp, hfit⟩
      simp only [hany, if_true]
end

/-! ### witnesses used by Properties/C15.lean -/

def wA : Doc := { kind := .good, tag := 1, rate := some 30, nonce := 0 }
def wB : Doc := { kind := .good, tag := 2, rate := some 60, nonce := 0 }
/-- the file becomes unreadable (here: mtime 11), then readable again with the new text and the
same mtime: witness case `C15 reload g:1:30:0;g:2:60:0 0:10:0 d:11,w:1:11` -/
def wHistory : List (FileView Doc) := [.unreadable 11, .ok 11 wB]
def wInit : RState Doc := { modified := some 10, source := wA, active := 1, rate := 30, alive := true }

def wBad : Doc := { kind := .syntax, tag := 9, rate := none, nonce := 0 }
def wNoRate : Doc := { kind := .good, tag := 3, rate := none, nonce := 0 }


end Log4rs.Reconfig.Reloader
