import Log4rsModel.Base.Outcome
/-
C15 (a) — the snapshot swap. Model of `src/lib.rs`:

  struct SharedLogger { root, appenders, err_handler }          -- ONE value: tree + table + handler
  struct Logger(Arc<ArcSwap<SharedLogger>>)                      -- ONE pointer
  fn log(&self, record) { let shared = self.0.load();            -- step `load`
      shared.root.find(target)                                   -- step `find`
            .log(record, &shared.appenders)                      -- steps `deliver a₁ … deliver aₖ`
      for e in errs { (shared.err_handler)(&e) } }               -- step `handleErrors`
  fn set_config(&self, config) { let shared = SharedLogger::new(config); self.shared.store(Arc::new(shared)) }

The machine below runs any number of `log` calls ("threads") against one store. An *event list* is
an interleaving: `step tid` lets one log call take its next step, `swap s` stores a new snapshot
(by another thread, or re-entrantly by the appender the stepping thread is currently inside of —
`deliver` is split into "resolve index and enter `append`" and "return from `append`", so a swap
can fall inside a delivery), `spawn t l` starts a new log call (possibly nested inside an `append`).

`LoadMode.once` is the code as it is (the pointer is loaded once). The other load modes are
deliberately wrong variants; they exist only to show that the theorems distinguish them from the
code (non-vacuity).
-/
namespace Log4rs.Reconfig

abbrev AppenderId := Nat
abbrev Target := Nat
abbrev Level := Nat

/-- one `SharedLogger`: the tree (what `root.find(target)` yields: the found logger's level and
its appender indices) and the appender table, together -/
structure Snapshot where
  tag : Nat
  table : List AppenderId
  /-- `root.find(target).level` -/
  level : Target → Nat
  /-- `root.find(target).appenders`: indices into `table` -/
  apps : Target → List Nat

/-- `find` + the level gate of `ConfiguredLogger::log`: the indices the record fans out to -/
def Snapshot.route (s : Snapshot) (t : Target) (l : Level) : List Nat :=
  if s.level t ≥ l then s.apps t else []

/-- invariant of every snapshot `SharedLogger::new` builds: indices point into its own table -/
def Snapshot.WF (s : Snapshot) : Prop := ∀ t i, i ∈ s.apps t → i < s.table.length

theorem Snapshot.WF.route {s : Snapshot} (h : s.WF) (t : Target) (l : Level) (i : Nat)
    (hi : i ∈ s.route t l) : i < s.table.length := by
  unfold Snapshot.route at hi
  split at hi
  · exact h t i hi
  · cases hi

/-- a delivery: (tag of the snapshot whose table resolved the index, appender found there) -/
abbrev Delivery := Nat × AppenderId

/-- resolve a list of indices in the table of `s` (out-of-range indices are *not* silently
dropped by the machine — they panic; here they are dropped, and `prescribed_length` shows nothing
is dropped for a well-formed snapshot) -/
def resolve (s : Snapshot) (idxs : List Nat) : List Delivery :=
  idxs.filterMap (fun i => (s.table[i]?).map (fun a => (s.tag, a)))

/-- what routing a record entirely under snapshot `s` delivers -/
def prescribed (s : Snapshot) (t : Target) (l : Level) : List Delivery :=
  resolve s (s.route t l)

/-! ### construction of a snapshot from a configuration (mirror of `SharedLogger::new`) -/

/-- a small configuration: appender table by name, root, and non-additive loggers one per target.
(The full tree is C01's subject; here only "tree and table are built together" matters.) -/
structure MiniCfg where
  tag : Nat
  table : List AppenderId                      -- appender names, table order
  rootLevel : Nat
  rootApps : List AppenderId                   -- names
  loggers : List (Target × Nat × List AppenderId)   -- target, level, appender names (additive = false)

def MiniCfg.valid (c : MiniCfg) : Bool :=
  c.table.Nodup && c.rootApps.all (c.table.contains ·) &&
  c.loggers.all (fun e => e.2.2.all (c.table.contains ·)) && (c.loggers.map (·.1)).Nodup

/-- `appender_map[name]`: name → index in the table -/
def nameIdx (table : List AppenderId) (name : AppenderId) : Option Nat :=
  let i := table.idxOf name
  if i < table.length then some i else none

def MiniCfg.effective (c : MiniCfg) (t : Target) : Nat × List AppenderId :=
  match c.loggers.find? (fun e => e.1 == t) with
  | some e => e.2
  | none => (c.rootLevel, c.rootApps)

/-- `SharedLogger::new`: names are turned into indices of *this* configuration's table -/
def mkSnapshot (c : MiniCfg) : Snapshot where
  tag := c.tag
  table := c.table
  level := fun t => (c.effective t).1
  apps := fun t => (c.effective t).2.filterMap (nameIdx c.table)

/-- `SharedLogger::new` as the code is: `appender_map[&**appender]` PANICS on a name that is not in
the table. (`Config::builder().build` never hands such a configuration over; that is `c.valid`.)
`mkSnapshot` above is the total function used on valid configurations. -/
def mkSnapshotO (c : MiniCfg) : Outcome Unit Snapshot :=
  if c.rootApps.all (c.table.contains ·) && c.loggers.all (fun e => e.2.2.all (c.table.contains ·)) then
    .ok (mkSnapshot c)
  else .panic "appender_map[name]: no such appender"

/-! ### the machine -/

inductive Pc where
  | init                                         -- before `self.0.load()`
  | loaded (s : Snapshot)                        -- pointer loaded, before `find`
  | fanout (s : Snapshot) (todo : List Nat)      -- about to resolve the head index
  | inAppend (s : Snapshot) (todo : List Nat)    -- inside `appenders[idx].append(record)`
  | errs (s : Snapshot)                          -- the error loop (uses `shared.err_handler`)
  | done
  | panicked

structure Thread where
  target : Target
  level : Level
  pc : Pc := .init
  /-- ghost: the value of the store at the moment this call executed `load` -/
  atLoad : Option Snapshot := none
  out : List Delivery := []

/-- what an observer (the capturing appenders, the harness) sees -/
inductive Obs where
  | begin (tid : Nat) (t : Target) (l : Level)
  | deliver (tid : Nat) (tag : Nat) (a : AppenderId)
  | swapped (tag : Nat)
  | fin (tid : Nat)
  | panic (tid : Nat)
  deriving Repr, DecidableEq

inductive Event where
  | spawn (t : Target) (l : Level)
  | step (tid : Nat)
  | swap (s : Snapshot)

structure Sys where
  store : Snapshot
  threads : List Thread := []
  trace : List Obs := []

/-- how a `log` call reads the shared pointer. `once` is the code. The other two are deliberately
wrong variants, present only so that the theorems can be seen to tell them from the code:
`everyStep` re-reads the pointer at every step; `gateThenReload` decides "is this record enabled"
on a first load and does find + fan-out on a second one (an early-return `if !self.enabled(..)`
in front of `let shared = self.0.load()`). -/
inductive LoadMode where
  | once | everyStep | gateThenReload
  deriving Repr, DecidableEq

def LoadMode.pick (m : LoadMode) (store s : Snapshot) : Snapshot :=
  match m with
  | .everyStep => store
  | _ => s

/-- one step of one `log` call. `mode = .once`: the code. -/
def Thread.step (mode : LoadMode) (store : Snapshot) (tid : Nat) (th : Thread) : Thread × List Obs :=
  match th.pc with
  | .init => ({ th with pc := .loaded store, atLoad := some store }, [])
  | .loaded s =>
    match mode with
    | .gateThenReload =>
      if s.level th.target ≥ th.level then ({ th with pc := .fanout store (store.apps th.target) }, [])
      else ({ th with pc := .fanout s [] }, [])
    | _ => ({ th with pc := .fanout s ((mode.pick store s).route th.target th.level) }, [])
  | .fanout s [] => ({ th with pc := .errs s }, [])
  | .fanout s (i :: todo) =>
    let cur := mode.pick store s
    match cur.table[i]? with
    | none => ({ th with pc := .panicked }, [.panic tid])      -- `appenders[idx]` out of bounds
    | some a => ({ th with pc := .inAppend s todo, out := th.out ++ [(cur.tag, a)] },
                 [.deliver tid cur.tag a])
  | .inAppend s todo => ({ th with pc := .fanout s todo }, [])
  | .errs _ => ({ th with pc := .done }, [.fin tid])
  | .done => (th, [])
  | .panicked => (th, [])

def Sys.apply (mode : LoadMode) (sys : Sys) : Event → Sys
  | .spawn t l =>
    { sys with threads := sys.threads ++ [{ target := t, level := l }],
               trace := sys.trace ++ [.begin sys.threads.length t l] }
  | .swap s => { sys with store := s, trace := sys.trace ++ [.swapped s.tag] }
  | .step tid =>
    match sys.threads[tid]? with
    | none => sys
    | some th =>
      let r := th.step mode sys.store tid
      { sys with threads := sys.threads.set tid r.1, trace := sys.trace ++ r.2 }

def Sys.run (mode : LoadMode) (sys : Sys) (evs : List Event) : Sys :=
  evs.foldl (Sys.apply mode) sys

def Thread.finished (th : Thread) : Bool :=
  match th.pc with
  | .done => true
  | .panicked => true
  | _ => false

/-! ### scripted scenarios (what the harness drives deterministically)

`ops` are performed one after the other by the main thread: `log t l` or `swap k` (index into the
case's configurations). An appender `(cfg tag, name)` may carry a script, executed from inside its
`append` for top-level records: `swap k` = `handle.set_config(cfg k)` re-entrantly, `log t l` = a
nested record logged from inside `append` (nested records never trigger scripts). The scheduler
below only *chooses the interleaving*; the run itself is `Sys.run` on the chosen event list. -/

inductive Act where
  | log (t : Target) (l : Level)
  | swap (k : Nat)
  deriving Repr, DecidableEq

structure Scenario where
  cfgs : List MiniCfg
  scripts : List (Nat × AppenderId × List Act)     -- (cfg tag, appender name, actions)
  ops : List Act

def Scenario.script (sc : Scenario) (tag : Nat) (a : AppenderId) : List Act :=
  match sc.scripts.find? (fun e => e.1 == tag && e.2.1 == a) with
  | some e => e.2.2
  | none => []

inductive Frame where
  | acts (depth : Nat) (as : List Act)
  | run (tid : Nat) (depth : Nat)

/-- the scheduler: returns the interleaving (event list) the scripted scenario produces -/
def schedule (sc : Scenario) : Nat → Sys → List Frame → List Event → List Event
  | 0, _, _, acc => acc.reverse
  | _, _, [], acc => acc.reverse
  | fuel + 1, sys, .acts _ [] :: rest, acc => schedule sc fuel sys rest acc
  | fuel + 1, sys, .acts d (.swap k :: as) :: rest, acc =>
    match sc.cfgs[k]? with
    | none => schedule sc fuel sys (.acts d as :: rest) acc
    | some c =>
      let ev := Event.swap (mkSnapshot c)
      schedule sc fuel (sys.apply .once ev) (.acts d as :: rest) (ev :: acc)
  | fuel + 1, sys, .acts d (.log t l :: as) :: rest, acc =>
    let ev := Event.spawn t l
    schedule sc fuel (sys.apply .once ev) (.run sys.threads.length d :: .acts d as :: rest) (ev :: acc)
  | fuel + 1, sys, .run tid d :: rest, acc =>
    match sys.threads[tid]? with
    | none => schedule sc fuel sys rest acc
    | some th =>
      if th.finished then schedule sc fuel sys rest acc
      else
        let ev := Event.step tid
        let r := th.step .once sys.store tid
        let inner : List Frame :=
          if d == 0 then
            match r.2 with
            | [.deliver _ tag a] => [.acts 1 (sc.script tag a)]
            | _ => []
          else []
        schedule sc fuel (sys.apply .once ev) (inner ++ .run tid d :: rest) (ev :: acc)

def Scenario.init (sc : Scenario) : Option Sys :=
  (sc.cfgs[0]?).map (fun c => { store := mkSnapshot c })

def Scenario.events (sc : Scenario) (sys : Sys) : List Event :=
  schedule sc 1000000 sys [.acts 0 sc.ops] []

/-- the model's observation of a scripted scenario -/
def Scenario.trace (sc : Scenario) : Option (List Obs) :=
  sc.init.map (fun sys => (sys.run .once (sc.events sys)).trace)

end Log4rs.Reconfig
