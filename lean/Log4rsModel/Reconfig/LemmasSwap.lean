import Log4rsModel.Reconfig.Swap
/-
Helper lemmas for C15 (a): the per-thread invariant of the snapshot machine and its preservation.
-/
namespace Log4rs.Reconfig

theorem nameIdx_lt {table : List AppenderId} {n : AppenderId} {i : Nat}
    (h : nameIdx table n = some i) : i < table.length := by
  unfold nameIdx at h
  simp only at h
  split at h
  · simp at h; omega
  · simp at h

/-- every snapshot `SharedLogger::new` builds resolves its indices in its own table -/
theorem mkSnapshot_WF (c : MiniCfg) : (mkSnapshot c).WF := by
  intro t i hi
  simp only [mkSnapshot] at hi ⊢
  rw [List.mem_filterMap] at hi
  obtain ⟨a, _, ha⟩ := hi
  exact nameIdx_lt ha

theorem resolve_nil (s : Snapshot) : resolve s [] = [] := rfl

theorem resolve_cons_some (s : Snapshot) (i : Nat) (todo : List Nat) (a : AppenderId)
    (h : s.table[i]? = some a) : resolve s (i :: todo) = (s.tag, a) :: resolve s todo := by
  simp [resolve, h]

/-- nothing is dropped when the indices are in range -/
theorem resolve_length (s : Snapshot) (idxs : List Nat) (h : ∀ i ∈ idxs, i < s.table.length) :
    (resolve s idxs).length = idxs.length := by
  induction idxs with
  | nil => rfl
  | cons i rest ih =>
    have hi : i < s.table.length := h i (by simp)
    have : s.table[i]? = some s.table[i] := List.getElem?_eq_getElem hi
    rw [resolve_cons_some s i rest _ this]
    simp [ih (fun j hj => h j (by simp [hj]))]

theorem mem_resolve {s : Snapshot} {idxs : List Nat} {d : Delivery} (h : d ∈ resolve s idxs) :
    ∃ i ∈ idxs, s.table[i]? = some d.2 ∧ d.1 = s.tag := by
  simp only [resolve, List.mem_filterMap] at h
  obtain ⟨i, hi, hd⟩ := h
  cases hg : s.table[i]? with
  | none => simp [hg] at hd
  | some a =>
    simp [hg] at hd
    exact ⟨i, hi, by rw [hg, ← hd], by rw [← hd]⟩

/-- the invariant of one `log` call under the code's discipline (pointer loaded once) -/
def Thread.Inv (th : Thread) : Prop :=
  match th.pc with
  | .init => th.atLoad = none ∧ th.out = []
  | .loaded s => th.atLoad = some s ∧ s.WF ∧ th.out = []
  | .fanout s todo => th.atLoad = some s ∧ s.WF ∧ (∀ i ∈ todo, i < s.table.length) ∧
      th.out ++ resolve s todo = prescribed s th.target th.level
  | .inAppend s todo => th.atLoad = some s ∧ s.WF ∧ (∀ i ∈ todo, i < s.table.length) ∧
      th.out ++ resolve s todo = prescribed s th.target th.level
  | .errs s => th.atLoad = some s ∧ s.WF ∧ th.out = prescribed s th.target th.level
  | .done => ∃ s, th.atLoad = some s ∧ s.WF ∧ th.out = prescribed s th.target th.level
  | .panicked => False

def Thread.isPanicked (th : Thread) : Bool :=
  match th.pc with
  | .panicked => true
  | _ => false

def Thread.isDone (th : Thread) : Bool :=
  match th.pc with
  | .done => true
  | _ => false

def Event.WF : Event → Prop
  | .swap s => s.WF
  | _ => True

def Sys.Inv (sys : Sys) : Prop := sys.store.WF ∧ ∀ th ∈ sys.threads, th.Inv

theorem Thread.step_target (mode : LoadMode) (store : Snapshot) (tid : Nat) (th : Thread) :
    (th.step mode store tid).1.target = th.target ∧ (th.step mode store tid).1.level = th.level := by
  rcases th with ⟨t, l, pc, al, out⟩
  cases pc with
  | fanout s todo =>
    cases todo with
    | nil => simp [Thread.step]
    | cons i rest =>
      simp only [Thread.step]
      split <;> simp
  | loaded s =>
    cases mode <;> simp only [Thread.step] <;> (try split) <;> simp
  | _ => simp [Thread.step]

/-- one step of the code's `log` keeps the invariant, whatever the store holds at that moment -/
theorem Thread.step_inv (store : Snapshot) (hs : store.WF) (tid : Nat) (th : Thread) (h : th.Inv) :
    (th.step .once store tid).1.Inv := by
  rcases th with ⟨t, l, pc, al, out⟩
  cases pc with
  | init =>
    simp only [Thread.Inv] at h
    simp only [Thread.step, Thread.Inv]
    exact ⟨trivial, hs, h.2⟩
  | loaded s =>
    simp only [Thread.Inv] at h
    obtain ⟨h1, h2, h3⟩ := h
    simp only [Thread.step, Thread.Inv, LoadMode.pick]
    refine ⟨h1, h2, fun i hi => h2.route _ _ i hi, ?_⟩
    simp [h3, prescribed]
  | fanout s todo =>
    simp only [Thread.Inv] at h
    obtain ⟨h1, h2, h3, h4⟩ := h
    cases todo with
    | nil =>
      simp only [Thread.step, Thread.Inv]
      exact ⟨h1, h2, by simpa [resolve_nil] using h4⟩
    | cons i rest =>
      have hi : i < s.table.length := h3 i (by simp)
      have hget : s.table[i]? = some s.table[i] := List.getElem?_eq_getElem hi
      simp only [Thread.step, LoadMode.pick, hget, Thread.Inv]
      refine ⟨h1, h2, fun j hj => h3 j (by simp [hj]), ?_⟩
      rw [← h4, resolve_cons_some s i rest _ hget]
      simp
  | inAppend s todo =>
    simp only [Thread.Inv] at h
    simp only [Thread.step, Thread.Inv]
    exact h
  | errs s =>
    simp only [Thread.Inv] at h
    simp only [Thread.step, Thread.Inv]
    exact ⟨s, h⟩
  | done =>
    simp only [Thread.Inv] at h
    simp only [Thread.step, Thread.Inv]
    exact h
  | panicked => exact h.elim

theorem Sys.apply_inv (sys : Sys) (h : sys.Inv) (e : Event) (he : e.WF) : (sys.apply .once e).Inv := by
  obtain ⟨hs, ht⟩ := h
  cases e with
  | spawn t l =>
    refine ⟨hs, ?_⟩
    intro th hth
    simp only [Sys.apply, List.mem_append, List.mem_singleton] at hth
    rcases hth with hth | rfl
    · exact ht th hth
    · simp [Thread.Inv]
  | swap s =>
    exact ⟨he, ht⟩
  | step tid =>
    simp only [Sys.apply]
    cases hg : sys.threads[tid]? with
    | none => exact ⟨hs, ht⟩
    | some th =>
      refine ⟨hs, ?_⟩
      intro th' hth'
      simp only at hth'
      have hmem : th ∈ sys.threads := List.mem_of_getElem? hg
      rcases List.mem_or_eq_of_mem_set hth' with h1 | h1
      · exact ht th' h1
      · rw [h1]; exact Thread.step_inv sys.store hs tid th (ht th hmem)

theorem Sys.run_inv (sys : Sys) (h : sys.Inv) (evs : List Event) (hev : ∀ e ∈ evs, e.WF) :
    (sys.run .once evs).Inv := by
  induction evs generalizing sys with
  | nil => exact h
  | cons e rest ih =>
    simp only [Sys.run, List.foldl_cons]
    exact ih (sys.apply .once e) (Sys.apply_inv sys h e (hev e (by simp))) (fun e' he' => hev e' (by simp [he']))

/-! ### which snapshot a call loads -/

/-- `P` holds of the store and of every snapshot stored later; then it holds of whatever a call
that has not loaded yet will load -/
def LoadsIn (P : Snapshot → Prop) (sys : Sys) (tid : Nat) : Prop :=
  P sys.store ∧ ∃ th, sys.threads[tid]? = some th ∧ ∀ s, th.atLoad = some s → P s

theorem Thread.step_atLoad (mode : LoadMode) (store : Snapshot) (tid : Nat) (th : Thread) (s : Snapshot)
    (h : (th.step mode store tid).1.atLoad = some s) : th.atLoad = some s ∨ s = store := by
  rcases th with ⟨t, l, pc, al, out⟩
  cases pc with
  | fanout s' todo =>
    cases todo with
    | nil => simp_all [Thread.step]
    | cons i rest =>
      simp only [Thread.step] at h
      split at h <;> simp_all
  | init => simp_all [Thread.step]
  | loaded s' =>
    cases mode <;> simp only [Thread.step] at h <;> (try split at h) <;> simp_all
  | _ => simp_all [Thread.step]

theorem LoadsIn.apply {P : Snapshot → Prop} {sys : Sys} {tid : Nat} (h : LoadsIn P sys tid)
    (mode : LoadMode) (e : Event) (he : ∀ s, e = .swap s → P s) : LoadsIn P (sys.apply mode e) tid := by
  obtain ⟨hP, th, hth, hat⟩ := h
  cases e with
  | spawn t l =>
    refine ⟨hP, th, ?_, hat⟩
    simp only [Sys.apply]
    have hlt : tid < sys.threads.length := by
      rcases Nat.lt_or_ge tid sys.threads.length with h | h
      · exact h
      · rw [List.getElem?_eq_none h] at hth; cases hth
    rw [List.getElem?_append_left hlt]; exact hth
  | swap s => exact ⟨he s rfl, th, hth, hat⟩
  | step tid' =>
    simp only [Sys.apply]
    cases hg : sys.threads[tid']? with
    | none => exact ⟨hP, th, hth, hat⟩
    | some th' =>
      refine ⟨hP, ?_⟩
      by_cases heq : tid' = tid
      · subst heq
        rw [hth] at hg; cases hg
        have hlt : tid' < sys.threads.length := by
          rcases Nat.lt_or_ge tid' sys.threads.length with h | h
          · exact h
          · rw [List.getElem?_eq_none h] at hth; cases hth
        refine ⟨(th.step mode sys.store tid').1, by simp [hlt], ?_⟩
        intro s hs
        rcases Thread.step_atLoad mode sys.store tid' th s hs with h1 | h1
        · exact hat s h1
        · rw [h1]; exact hP
      · refine ⟨th, ?_, hat⟩
        simp only
        rw [List.getElem?_set_ne heq]; exact hth

theorem LoadsIn.run {P : Snapshot → Prop} (mode : LoadMode) (evs : List Event) :
    ∀ {sys : Sys} {tid : Nat}, LoadsIn P sys tid → (∀ s, Event.swap s ∈ evs → P s) →
      LoadsIn P (sys.run mode evs) tid := by
  induction evs with
  | nil => intro sys tid h _; exact h
  | cons e rest ih =>
    intro sys tid h hev
    simp only [Sys.run, List.foldl_cons]
    exact ih (h.apply mode e (fun s hs => hev s (by simp [hs]))) (fun s hs => hev s (by simp [hs]))

/-- a call keeps the target and level it was spawned with -/
theorem Sys.run_target (mode : LoadMode) (evs : List Event) :
    ∀ (sys : Sys) (tid : Nat) (th0 th : Thread),
      sys.threads[tid]? = some th0 → (sys.run mode evs).threads[tid]? = some th →
      th.target = th0.target ∧ th.level = th0.level := by
  induction evs with
  | nil => intro sys tid th0 th h0 h1; simp [Sys.run] at h1; rw [h0] at h1; cases h1; exact ⟨rfl, rfl⟩
  | cons e rest ih =>
    intro sys tid th0 th h0 h1
    simp only [Sys.run, List.foldl_cons] at h1
    have hlt : tid < sys.threads.length := by
      rcases Nat.lt_or_ge tid sys.threads.length with h | h
      · exact h
      · rw [List.getElem?_eq_none h] at h0; cases h0
    cases e with
    | spawn t' l' =>
      refine ih (sys.apply mode (.spawn t' l')) tid th0 th ?_ h1
      simp only [Sys.apply]; rw [List.getElem?_append_left hlt]; exact h0
    | swap s => exact ih (sys.apply mode (.swap s)) tid th0 th h0 h1
    | step tid' =>
      cases hg : sys.threads[tid']? with
      | none =>
        refine ih (sys.apply mode (.step tid')) tid th0 th ?_ h1
        simp [Sys.apply, hg, h0]
      | some th' =>
        by_cases heq : tid' = tid
        · subst heq
          rw [h0] at hg; cases hg
          have := ih (sys.apply mode (.step tid')) tid' (th0.step mode sys.store tid').1 th
            (by simp only [Sys.apply, h0]; simp [hlt]) h1
          have hst := Thread.step_target mode sys.store tid' th0
          exact ⟨this.1.trans hst.1, this.2.trans hst.2⟩
        · refine ih (sys.apply mode (.step tid')) tid th0 th ?_ h1
          simp only [Sys.apply, hg]
          rw [List.getElem?_set_ne heq]; exact h0

theorem Thread.Inv.not_panicked {th : Thread} (h : th.Inv) : th.isPanicked = false := by
  rcases th with ⟨t, l, pc, al, out⟩
  cases pc <;> first | rfl | exact h.elim

theorem Thread.Inv.of_done {th : Thread} (h : th.Inv) (hd : th.isDone = true) :
    ∃ s, th.atLoad = some s ∧ s.WF ∧ th.out = prescribed s th.target th.level := by
  rcases th with ⟨t, l, pc, al, out⟩
  cases pc with
  | done => exact h
  | _ => simp [Thread.isDone] at hd

/-- at every moment: the deliveries made so far are a prefix of what the loaded snapshot prescribes -/
theorem Thread.Inv.pre {th : Thread} (h : th.Inv) {s : Snapshot} (hs : th.atLoad = some s) :
    s.WF ∧ ∃ rest, th.out ++ rest = prescribed s th.target th.level := by
  rcases th with ⟨t, l, pc, al, out⟩
  cases pc with
  | init => simp only [Thread.Inv] at h; simp_all
  | loaded s' =>
    simp only [Thread.Inv] at h
    obtain ⟨h1, h2, h3⟩ := h
    simp only at hs h1 h3 ⊢
    rw [h1] at hs; cases hs
    exact ⟨h2, _, by rw [h3]; rfl⟩
  | fanout s' todo =>
    simp only [Thread.Inv] at h
    obtain ⟨h1, h2, _, h4⟩ := h
    simp only at hs h1 h4 ⊢
    rw [h1] at hs; cases hs
    exact ⟨h2, _, h4⟩
  | inAppend s' todo =>
    simp only [Thread.Inv] at h
    obtain ⟨h1, h2, _, h4⟩ := h
    simp only at hs h1 h4 ⊢
    rw [h1] at hs; cases hs
    exact ⟨h2, _, h4⟩
  | errs s' =>
    simp only [Thread.Inv] at h
    obtain ⟨h1, h2, h3⟩ := h
    simp only at hs h1 h3 ⊢
    rw [h1] at hs; cases hs
    exact ⟨h2, [], by simp [h3]⟩
  | done =>
    simp only [Thread.Inv] at h
    obtain ⟨s', h1, h2, h3⟩ := h
    simp only at hs h1 h3 ⊢
    rw [h1] at hs; cases hs
    exact ⟨h2, [], by simp [h3]⟩
  | panicked => exact h.elim

/-! ### the scripted scheduler only produces well-formed events -/


theorem schedule_WF (sc : Scenario) (fuel : Nat) (sys : Sys) (stack : List Frame) (acc : List Event)
    (hacc : ∀ e ∈ acc, e.WF) : ∀ e ∈ schedule sc fuel sys stack acc, e.WF := by
  fun_induction schedule sc fuel sys stack acc with
  | case1 => simpa using hacc
  | case2 => simpa using hacc
  | case3 _ _ _ _ _ ih => exact ih hacc
  | case4 _ _ _ _ _ _ _ _ ih => exact ih hacc
  | case5 _ _ _ _ _ _ _ c _ _ ih =>
    apply ih
    intro e he
    simp only [List.mem_cons] at he
    rcases he with rfl | he
    · exact mkSnapshot_WF c
    · exact hacc e he
  | case6 _ _ _ _ _ _ _ _ _ ih =>
    apply ih
    intro e he
    simp only [List.mem_cons] at he
    rcases he with rfl | he
    · trivial
    · exact hacc e he
  | case7 _ _ _ _ _ _ _ ih => exact ih hacc
  | case8 _ _ _ _ _ _ _ _ _ ih => exact ih hacc
  | case9 _ _ _ _ _ _ _ _ _ _ _ _ ih =>
    apply ih
    intro e he
    simp only [List.mem_cons] at he
    rcases he with rfl | he
    · trivial
    · exact hacc e he

/-! ### names and indices -/


theorem nameIdx_of_mem {table : List AppenderId} {n : AppenderId} (h : n ∈ table) :
    nameIdx table n = some (table.idxOf n) ∧ table[table.idxOf n]? = some n := by
  have hlt : table.idxOf n < table.length := List.idxOf_lt_length_of_mem h
  refine ⟨by simp [nameIdx, hlt], ?_⟩
  rw [List.getElem?_eq_getElem hlt, List.getElem_idxOf hlt]

theorem resolve_names (tag : Nat) (table : List AppenderId) (level : Target → Nat) (apps : Target → List Nat)
    (names : List AppenderId) (h : ∀ n ∈ names, n ∈ table) :
    resolve { tag, table, level, apps } (names.filterMap (nameIdx table)) = names.map (fun n => (tag, n)) := by
  induction names with
  | nil => rfl
  | cons n rest ih =>
    obtain ⟨h1, h2⟩ := nameIdx_of_mem (h n (by simp))
    have := ih (fun m hm => h m (by simp [hm]))
    simp only [List.filterMap_cons, h1, List.map_cons]
    rw [resolve_cons_some _ _ _ n (by simpa using h2), this]

theorem MiniCfg.effective_mem (c : MiniCfg) (hv : c.valid = true) (t : Target) :
    ∀ n ∈ (c.effective t).2, n ∈ c.table := by
  simp only [MiniCfg.valid, Bool.and_eq_true, List.all_eq_true, List.contains_iff_mem] at hv
  obtain ⟨⟨⟨_, hroot⟩, hlog⟩, _⟩ := hv
  intro n hn
  unfold MiniCfg.effective at hn
  split at hn
  · rename_i e he
    have hmem := List.mem_of_find?_eq_some he
    exact hlog e hmem n hn
  · exact hroot n hn

/-- what a snapshot built from a valid configuration prescribes, in terms of appender *names*:
resolving the indices in the snapshot's own table gives back exactly the configured appenders -/
theorem prescribed_mkSnapshot (c : MiniCfg) (hv : c.valid = true) (t : Target) (l : Level) :
    prescribed (mkSnapshot c) t l =
      if (c.effective t).1 ≥ l then (c.effective t).2.map (fun n => (c.tag, n)) else [] := by
  simp only [prescribed, mkSnapshot, Snapshot.route]
  split
  · rename_i h
    simp only [h, if_true]
    exact resolve_names c.tag c.table _ _ _ (c.effective_mem hv t)
  · rename_i h
    simp only [h, if_false]
    rfl


/-! ### the observable trace shows exactly the deliveries of each call -/

/-- the deliveries of call `tid` as they appear in the observable trace -/
def delivOf (tid : Nat) : Obs → Option Delivery
  | .deliver t tag a => if t = tid then some (tag, a) else none
  | _ => none

def Sys.TraceInv (sys : Sys) : Prop :=
  (∀ tid th, sys.threads[tid]? = some th → sys.trace.filterMap (delivOf tid) = th.out) ∧
  (∀ tid, sys.threads.length ≤ tid → sys.trace.filterMap (delivOf tid) = [])

theorem Thread.step_obs (mode : LoadMode) (store : Snapshot) (tid : Nat) (th : Thread) :
    (th.step mode store tid).1.out = th.out ++ (th.step mode store tid).2.filterMap (delivOf tid) ∧
    ∀ tid', tid' ≠ tid → (th.step mode store tid).2.filterMap (delivOf tid') = [] := by
  rcases th with ⟨t, l, pc, al, out⟩
  cases pc with
  | fanout s todo =>
    cases todo with
    | nil => simp [Thread.step]
    | cons i rest =>
      simp only [Thread.step]
      split
      · simp [delivOf]
      · simp only [List.filterMap_cons, delivOf, if_true, List.filterMap_nil, true_and]
        intro tid' hne
        simp [Ne.symm hne]
  | errs s => simp [Thread.step, delivOf]
  | loaded s =>
    cases mode <;> simp only [Thread.step] <;> (try split) <;> simp
  | _ => simp [Thread.step]

theorem Sys.apply_traceInv (mode : LoadMode) (sys : Sys) (h : sys.TraceInv) (e : Event) :
    (sys.apply mode e).TraceInv := by
  obtain ⟨h1, h2⟩ := h
  cases e with
  | spawn t l =>
    constructor
    · intro tid th hth
      simp only [Sys.apply] at hth ⊢
      simp only [List.filterMap_append, List.filterMap_cons, delivOf, List.filterMap_nil, List.append_nil]
      rcases Nat.lt_or_ge tid sys.threads.length with hlt | hge
      · rw [List.getElem?_append_left hlt] at hth
        exact h1 tid th hth
      · rw [List.getElem?_append_right hge] at hth
        have : tid - sys.threads.length = 0 := by
          rcases Nat.eq_zero_or_pos (tid - sys.threads.length) with h | h
          · exact h
          · rw [List.getElem?_eq_none (by simp; omega)] at hth; cases hth
        rw [this] at hth
        simp at hth
        rw [← hth]
        exact h2 tid hge
    · intro tid hge
      simp only [Sys.apply, List.length_append, List.length_singleton] at hge ⊢
      simp only [List.filterMap_append, List.filterMap_cons, delivOf, List.filterMap_nil, List.append_nil]
      exact h2 tid (by omega)
  | swap s =>
    constructor
    · intro tid th hth
      simp only [Sys.apply] at hth ⊢
      simp only [List.filterMap_append, List.filterMap_cons, delivOf, List.filterMap_nil, List.append_nil]
      exact h1 tid th hth
    · intro tid hge
      simp only [Sys.apply] at hge ⊢
      simp only [List.filterMap_append, List.filterMap_cons, delivOf, List.filterMap_nil, List.append_nil]
      exact h2 tid hge
  | step tid' =>
    simp only [Sys.apply]
    cases hg : sys.threads[tid']? with
    | none => exact ⟨h1, h2⟩
    | some th' =>
      have hlt' : tid' < sys.threads.length := by
        rcases Nat.lt_or_ge tid' sys.threads.length with h | h
        · exact h
        · rw [List.getElem?_eq_none h] at hg; cases hg
      obtain ⟨ho1, ho2⟩ := Thread.step_obs mode sys.store tid' th'
      constructor
      · intro tid th hth
        simp only at hth ⊢
        rw [List.filterMap_append]
        by_cases heq : tid' = tid
        · subst heq
          simp [hlt'] at hth
          rw [← hth, ho1, h1 tid' th' hg]
        · rw [List.getElem?_set_ne heq] at hth
          rw [ho2 tid (Ne.symm heq), List.append_nil]
          exact h1 tid th hth
      · intro tid hge
        simp only [List.length_set] at hge ⊢
        rw [List.filterMap_append, ho2 tid (by omega), List.append_nil]
        exact h2 tid hge

theorem Sys.run_traceInv (mode : LoadMode) (evs : List Event) :
    ∀ (sys : Sys), sys.TraceInv → (sys.run mode evs).TraceInv := by
  induction evs with
  | nil => intro sys h; exact h
  | cons e rest ih =>
    intro sys h
    simp only [Sys.run, List.foldl_cons]
    exact ih _ (Sys.apply_traceInv mode sys h e)

/-! ### witnesses used by the non-vacuity theorems of Properties/C15.lean -/

def wOld : Snapshot := { tag := 0, table := [10, 11, 12], level := fun _ => 5, apps := fun _ => [0, 2] }
def wSmall : Snapshot := { tag := 1, table := [20], level := fun _ => 5, apps := fun _ => [0] }
def wBig : Snapshot := { tag := 1, table := [20, 21, 22], level := fun _ => 5, apps := fun _ => [1] }
/-- a configuration that switches the record's level off -/
def wQuiet : Snapshot := { tag := 1, table := [20, 21, 22], level := fun _ => 1, apps := fun _ => [1] }

theorem wOld_WF : wOld.WF := by
  intro t i hi; simp [wOld] at hi ⊢; omega
theorem wSmall_WF : wSmall.WF := by
  intro t i hi; simp [wSmall] at hi ⊢; omega
theorem wBig_WF : wBig.WF := by
  intro t i hi; simp [wBig] at hi ⊢; omega
theorem wQuiet_WF : wQuiet.WF := by
  intro t i hi; simp [wQuiet] at hi ⊢; omega

/-- the interleaving for the double-load variant: the swap falls between the first load (the
"is it enabled" check) and the second (find + fan-out) -/
def wEventsEarly (new : Snapshot) : List Event :=
  [.spawn 0 3, .step 0, .swap new, .step 0, .step 0, .step 0, .step 0, .step 0, .step 0, .step 0]

/-- the interleaving: one record; the appender at fan-out position 0 calls `set_config` from
inside `append` (the swap falls between "enter append" and "return from append") -/
def wEvents (new : Snapshot) : List Event :=
  [.spawn 0 3, .step 0, .step 0, .step 0, .swap new, .step 0, .step 0, .step 0, .step 0, .step 0]

def outs (sys : Sys) : List (List Delivery × Bool × Bool) :=
  sys.threads.map (fun th => (th.out, th.isDone, th.isPanicked))


end Log4rs.Reconfig
