/-
C15 (b) — the file reloader. Model of `src/config/file.rs`:

  fn run(&mut self, mut rate) { loop { sleep(rate);
        match self.run_once(rate) { Ok(Some(r)) => rate = r, Ok(None) => break, Err(e) => handle_error(&e) } } }

  fn run_once(&mut self, rate) -> Result<Option<Duration>> {
      let mut new_modified = None;
      if let Some(last_modified) = self.modified {
          let modified = fs::metadata(&self.path).and_then(|m| m.modified())?;   -- missing ⇒ Err
          if last_modified == modified { return Ok(Some(rate)); }                 -- mtime short-circuit
          new_modified = Some(modified);
      }
      let source = read_config(&self.path)?;                                      -- unreadable ⇒ Err
      if new_modified.is_some() { self.modified = new_modified; }                 -- only AFTER the read succeeded
      if source == self.source { return Ok(Some(rate)); }
      self.source = source;                                                       -- BEFORE the parse
      let config = self.format.parse(&self.source)?;                              -- unparsable ⇒ Err
      let rate = config.refresh_rate();
      let config = deserialize(&config, &self.deserializers);                     -- lossy, total
      self.handle.set_config(config);
      Ok(rate) }                                                                  -- None ⇒ loop ends

  init_file / VerifReloader::new:  let modified = fs::metadata(..).modified().ok();   -- first look
                                   let source = read_config(&path)?;                  -- second look

`parse` is abstract: a text either fails to parse or denotes a configuration (identified by a tag)
and an optional refresh rate. The functions carry two variant parameters so that the historical
behaviour stays expressible: `fixed` (`true` = the code as it is now, since 6066c40: the mtime is
remembered only after the read succeeded; `false` = before) and, for the initialisation,
`statsFirst` (`true` = the code as it is now, since b32fc8c; `false` = read first). The constants
`codeFixed` and `initStatsBeforeRead` say which variant `/repo` is; the driver uses them.
-/
namespace Log4rs.Reconfig.Reloader

abbrev Mtime := Nat
abbrev Rate := Nat
abbrev ConfigTag := Nat

/-- The model flag of finding `C15/reload-mtime-consumed-by-failed-read`: `true` = `/repo` as it is
now (fixed by 6066c40); `false` = before (`self.modified` was assigned before `read_config`). -/
def codeFixed : Bool := true

/-- what the file system shows at the path at the moment of one poll. It is what the path RESOLVES
to: `fs::metadata` and `read_to_string` follow symbolic links (final component and directory
components alike), so an edit of a link's target and the re-pointing of a link are both edits of
this view; the link's own timestamp plays no role. -/
inductive FileView (Text : Type) where
  | missing                                  -- `fs::metadata` fails
  | unreadable (m : Mtime)                   -- metadata works, `read_to_string` fails (directory, EACCES, not UTF-8)
  | ok (m : Mtime) (text : Text)
  deriving Repr, DecidableEq

def FileView.mtime? {Text} : FileView Text → Option Mtime
  | .missing => none
  | .unreadable m => some m
  | .ok m _ => some m

def FileView.text? {Text} : FileView Text → Option Text
  | .ok _ t => some t
  | _ => none

structure RState (Text : Type) where
  modified : Option Mtime      -- `self.modified`
  source : Text                -- `self.source`
  active : ConfigTag           -- the configuration the logger currently holds (last `set_config`)
  rate : Rate                  -- `rate` of `run`
  alive : Bool                 -- the loop of `run` has not ended
  deriving Repr, DecidableEq

inductive Action where
  | applied | unchanged | error | dead
  deriving Repr, DecidableEq

section
variable {Text : Type} [DecidableEq Text] (parse : Text → Option (ConfigTag × Option Rate))

/-- the part of `run_once` after the mtime block; `m'` is the `modified` value to remember if the
read succeeds (only used by the patched variant) -/
def readAndApply (st : RState Text) (fv : FileView Text) : RState Text × Action :=
  match fv.text? with
  | none => (st, .error)                                            -- read_config(..)?
  | some src =>
    if src = st.source then (st, .unchanged)
    else
      let st := { st with source := src }                            -- before the parse
      match parse src with
      | none => (st, .error)                                         -- format.parse(..)?
      | some (c, r) =>
        ({ st with active := c, rate := r.getD st.rate, alive := r.isSome }, .applied)

/-- one `run_once` together with the `match` of `run` around it -/
def runOnce (fixed : Bool) (st : RState Text) (fv : FileView Text) : RState Text × Action :=
  match st.modified with
  | some last =>
    match fv.mtime? with
    | none => (st, .error)                                           -- fs::metadata(..)?
    | some m =>
      if last = m then (st, .unchanged)
      else if fixed then
        match fv.text? with
        | none => (st, .error)                                       -- patched: mtime not remembered
        | some _ => readAndApply parse { st with modified := some m } fv
      else readAndApply parse { st with modified := some m } fv    -- code: remembered before the read
  | none => readAndApply parse st fv

/-- one iteration of `run`: nothing happens any more once the loop has ended -/
def poll (fixed : Bool) (st : RState Text) (fv : FileView Text) : RState Text × Action :=
  if st.alive then runOnce parse fixed st fv else (st, .dead)

/-- all polls of a history; the observations (action, state after) in order -/
def pollAll (fixed : Bool) : RState Text → List (FileView Text) → List (Action × RState Text)
  | _, [] => []
  | st, fv :: rest =>
    let r := poll parse fixed st fv
    (r.2, r.1) :: pollAll fixed r.1 rest

/-- state after a history of polls (gated by `alive`, as `run` is) -/
def runAll (fixed : Bool) (st : RState Text) (h : List (FileView Text)) : RState Text :=
  h.foldl (fun s fv => (poll parse fixed s fv).1) st

/-- state after a history of `run_once` calls (not gated; the stepping hook) -/
def stepAll (fixed : Bool) (st : RState Text) (h : List (FileView Text)) : RState Text :=
  h.foldl (fun s fv => (runOnce parse fixed s fv).1) st

/-- `init_file` / `VerifReloader::new`: the file must be readable and parsable; the reloader
thread is started only if the configuration has a refresh rate -/
def initState (m : Option Mtime) (text : Text) : Option (RState Text) :=
  match parse text with
  | none => none
  | some (c, r) => some { modified := m, source := text, active := c, rate := r.getD 0, alive := r.isSome }

/-- `init_file` / `VerifReloader::new` look at the file twice:

      let modified = fs::metadata(&path).and_then(|m| m.modified()).ok();         -- first look
      let source = read_config(&path)?;                                          -- second look

`v1` is what the first look finds, `v2` what the second finds (an edit can land in between).
`statsFirst = true` is the code as it is now (stat, then read): the remembered mtime is `v1`'s,
the remembered text `v2`'s. `statsFirst = false` is the code before b32fc8c (read, then stat). `noMtime`:
the platform has no mtimes. With `v1 = v2` this is `initState`. -/
def initState2 (statsFirst noMtime : Bool) (v1 v2 : FileView Text) : Option (RState Text) :=
  let readView := if statsFirst then v2 else v1
  let statView := if statsFirst then v1 else v2
  match readView.text? with
  | none => none
  | some text => initState parse (if noMtime then none else statView.mtime?) text

end

/-- The model flag of finding `C15/init-read-then-stat`: `true` = `/repo` as it is now (b32fc8c). -/
def initStatsBeforeRead : Bool := true

/-! ### the real thread (`ConfigReloader::start` / `run`), with time abstracted

`run` is `loop { sleep(rate); poll }`. The harness edits the file, waits `W` (a generous multiple
of every ordinary rate it uses) and observes. Timing assumptions, recorded in props.d/C15.json:
(T1) while the current rate is below `slowRate`, at least one poll happens between an edit and the
observation that follows it — how many does not matter, `poll` is idempotent on an unchanged file
(`C15_repeated_polls_idempotent`); (T2) while the current rate is at least `slowRate`, no poll
happens between an edit and the next observation (the loop is inside its `sleep(rate)`), and a
`longWait` step outlasts that sleep. -/

def slowRate : Rate := 1000

inductive TStep (Text : Type) where
  | edit (fv : FileView Text)
  | longWait
  deriving Repr, DecidableEq

structure TObs where
  active : ConfigTag
  touched : Bool        -- `set_config` was called since the previous observation
  alive : Bool          -- the thread "log4rs refresh" exists
  polled : Bool         -- (model only) a poll happened in this step
  deriving Repr, DecidableEq

section
variable {Text : Type} [DecidableEq Text] (parse : Text → Option (ConfigTag × Option Rate))

/-- `n + 1` polls that all see the same file -/
def pollMany (fixed : Bool) (st : RState Text) (fv : FileView Text) : Nat → RState Text
  | 0 => (poll parse fixed st fv).1
  | n + 1 => pollMany fixed (poll parse fixed st fv).1 fv n

/-- the thread over a history of edits; `cur` is what the file system currently shows -/
def threadRun (fixed : Bool) : RState Text → FileView Text → List (TStep Text) → List TObs
  | _, _, [] => []
  | st, cur, step :: rest =>
    let (view, polled) : FileView Text × Bool := match step with
      | .edit fv => (fv, decide (st.rate < slowRate))
      | .longWait => (cur, true)
    if polled then
      let r := poll parse fixed st view
      { active := r.1.active, touched := r.2 == .applied, alive := r.1.alive, polled := true }
        :: threadRun fixed r.1 view rest
    else
      { active := st.active, touched := false, alive := st.alive, polled := false }
        :: threadRun fixed st view rest
end

end Log4rs.Reconfig.Reloader
