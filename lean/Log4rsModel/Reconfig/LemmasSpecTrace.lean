import Log4rsModel.Reconfig.Spec
import Log4rsModel.Reconfig.LemmasSwap
/-
The machine of Swap.lean satisfies the executable specification `specTrace` (the windowed form)
on EVERY event list: the link between the fold over the observable trace and the machine's state.
-/
set_option linter.unusedSimpArgs false
namespace Log4rs.Reconfig

/-- the shape of one step of the code's `log` under the thread invariant -/
theorem Thread.step_shape (store : Snapshot) (tid : Nat) (th : Thread) (h : th.Inv) :
    let r := th.step .once store tid
    (r.2 = [] ∧ r.1.out = th.out ∧ r.1.isDone = th.isDone ∧
      (r.1.atLoad = th.atLoad ∨ (th.atLoad = none ∧ r.1.atLoad = some store))) ∨
    (∃ tag a, r.2 = [.deliver tid tag a] ∧ r.1.out = th.out ++ [(tag, a)] ∧ r.1.isDone = th.isDone ∧
      r.1.atLoad = th.atLoad) ∨
    (r.2 = [.fin tid] ∧ r.1.out = th.out ∧ r.1.isDone = true ∧ r.1.atLoad = th.atLoad) := by
  rcases th with ⟨t, l, pc, al, out⟩
  cases pc with
  | init =>
    simp only [Thread.Inv] at h
    left; simp [Thread.step, Thread.isDone, h.1]
  | loaded s => left; simp [Thread.step, Thread.isDone, LoadMode.pick]
  | fanout s todo =>
    simp only [Thread.Inv] at h
    obtain ⟨_, _, h3, _⟩ := h
    cases todo with
    | nil => left; simp [Thread.step, Thread.isDone]
    | cons i rest =>
      have hi : i < s.table.length := h3 i (by simp)
      have hget : s.table[i]? = some s.table[i] := List.getElem?_eq_getElem hi
      right; left
      exact ⟨s.tag, s.table[i], by simp [Thread.step, LoadMode.pick, hget, Thread.isDone]⟩
  | inAppend s todo => left; simp [Thread.step, Thread.isDone]
  | errs s => right; right; simp [Thread.step, Thread.isDone]
  | done => left; simp [Thread.step, Thread.isDone]
  | panicked => exact h.elim

/-- what the observer's record and the machine's call have in common -/
def RecLinked (Q : Snapshot → Prop) (store : Snapshot) (r : RecInfo) (th : Thread) : Prop :=
  r.target = th.target ∧ r.level = th.level ∧ r.out = th.out ∧ r.ended = th.isDone ∧
  (∀ s, th.atLoad = some s → Q s ∧ (s.tag = r.curAtBegin ∨ s.tag ∈ r.window)) ∧
  (th.atLoad = none → (store.tag = r.curAtBegin ∨ store.tag ∈ r.window))

def SpecInv (Q : Snapshot → Prop) (sys : Sys) (st : TraceState) : Prop :=
  st.panicked = false ∧ st.malformed = false ∧ st.cur = sys.store.tag ∧ Q sys.store ∧
  st.recs.length = sys.threads.length ∧
  ∀ (tid : Nat) (r : RecInfo) (th : Thread), st.recs[tid]? = some r → sys.threads[tid]? = some th → RecLinked Q sys.store r th

theorem Thread.Inv.atLoad_none_not_done {th : Thread} (h : th.Inv) (hn : th.atLoad = none) :
    th.isDone = false := by
  rcases th with ⟨t, l, pc, al, out⟩
  cases pc <;> simp only [Thread.Inv] at h <;> simp_all [Thread.isDone]

theorem SpecInv.apply {Q : Snapshot → Prop} {sys : Sys} {st : TraceState}
    (hinv : sys.Inv) (h : SpecInv Q sys st) (e : Event) (he : e.WF) (hq : ∀ s, e = .swap s → Q s) :
    SpecInv Q (sys.apply .once e)
      (((sys.apply .once e).trace.drop sys.trace.length).foldl TraceState.feed st) := by
  obtain ⟨hp, hm, hc, hqs, hlen, hrec⟩ := h
  cases e with
  | spawn t l =>
    simp only [Sys.apply, List.drop_left, List.foldl_cons, List.foldl_nil, TraceState.feed, hlen, if_true]
    refine ⟨hp, hm, hc, hqs, by simp [hlen], ?_⟩
    intro tid r th hr hth
    rcases Nat.lt_or_ge tid sys.threads.length with hlt | hge
    · rw [List.getElem?_append_left (by omega)] at hr
      rw [List.getElem?_append_left hlt] at hth
      exact hrec tid r th hr hth
    · rw [List.getElem?_append_right (by omega)] at hr
      rw [List.getElem?_append_right hge] at hth
      have h0 : tid - sys.threads.length = 0 := by
        rcases Nat.eq_zero_or_pos (tid - sys.threads.length) with h | h
        · exact h
        · rw [List.getElem?_eq_none (by simp; omega)] at hth; cases hth
      rw [hlen, h0] at hr
      rw [h0] at hth
      simp at hr hth
      subst hr hth
      simp [RecLinked, Thread.isDone, hc]
  | swap s =>
    simp only [Sys.apply, List.drop_left, List.foldl_cons, List.foldl_nil, TraceState.feed]
    refine ⟨hp, hm, rfl, hq s rfl, by simp [hlen], ?_⟩
    intro tid r th hr hth
    simp only [List.getElem?_map] at hr
    cases hr0 : st.recs[tid]? with
    | none => simp [hr0] at hr
    | some r0 =>
      simp only [hr0, Option.map_some, Option.some.injEq] at hr
      have hl := hrec tid r0 th hr0 hth
      obtain ⟨h1, h2, h3, h4, h5, h6⟩ := hl
      have hthInv : th.Inv := hinv.2 th (List.mem_of_getElem? hth)
      by_cases hend : r0.ended = true
      · simp only [hend, if_true] at hr
        subst hr
        refine ⟨h1, h2, h3, h4, h5, ?_⟩
        intro hn
        have := hthInv.atLoad_none_not_done hn
        rw [← h4, hend] at this; cases this
      · have hend' : r0.ended = false := by simpa using hend
        simp only [hend', Bool.false_eq_true, if_false] at hr
        subst hr
        refine ⟨h1, h2, h3, by simpa [hend'] using h4, ?_, ?_⟩
        · intro s' hs'
          obtain ⟨ha, hb⟩ := h5 s' hs'
          refine ⟨ha, ?_⟩
          rcases hb with hb | hb
          · exact Or.inl hb
          · exact Or.inr (by simp [hb])
        · intro _; exact Or.inr (by simp)
  | step tid' =>
    simp only [Sys.apply]
    cases hg : sys.threads[tid']? with
    | none =>
      simp only [List.drop_length, List.foldl_nil]
      exact ⟨hp, hm, hc, hqs, hlen, hrec⟩
    | some th' =>
      have hlt' : tid' < sys.threads.length := by
        rcases Nat.lt_or_ge tid' sys.threads.length with h | h
        · exact h
        · rw [List.getElem?_eq_none h] at hg; cases hg
      have hthInv : th'.Inv := hinv.2 th' (List.mem_of_getElem? hg)
      have hshape := Thread.step_shape sys.store tid' th' hthInv
      have htl := Thread.step_target .once sys.store tid' th'
      simp only [List.drop_left]
      obtain ⟨r0, hr0⟩ : ∃ r0, st.recs[tid']? = some r0 := by
        have : tid' < st.recs.length := by omega
        exact ⟨st.recs[tid'], List.getElem?_eq_getElem this⟩
      have hl0 := hrec tid' r0 th' hr0 hg
      rcases hshape with ⟨ho, hout, hdone, hat⟩ | ⟨tag, a, ho, hout, hdone, hat⟩ | ⟨ho, hout, hdone, hat⟩
      · -- silent step
        rw [ho]
        simp only [List.foldl_nil]
        refine ⟨hp, hm, hc, hqs, by simp [hlen], ?_⟩
        intro tid r th hr hth
        by_cases heq : tid' = tid
        · subst heq
          simp [hlt'] at hth
          subst hth
          rw [hr0] at hr; cases hr
          obtain ⟨h1, h2, h3, h4, h5, h6⟩ := hl0
          refine ⟨h1.trans htl.1.symm, h2.trans htl.2.symm, h3.trans hout.symm, h4.trans hdone.symm, ?_, ?_⟩
          · intro s hs
            rcases hat with hat | ⟨hn, hat⟩
            · exact h5 s (hat ▸ hs)
            · rw [hat] at hs; cases hs
              exact ⟨hqs, h6 hn⟩
          · intro hn
            rcases hat with hat | ⟨_, hat⟩
            · exact h6 (hat ▸ hn)
            · rw [hat] at hn; cases hn
        · rw [List.getElem?_set_ne heq] at hth
          exact hrec tid r th hr hth
      · -- a delivery
        rw [ho]
        simp only [List.foldl_cons, List.foldl_nil, TraceState.feed]
        refine ⟨hp, hm, hc, hqs, by simp [hlen, List.length_modify], ?_⟩
        intro tid r th hr hth
        rw [List.getElem?_modify] at hr
        by_cases heq : tid' = tid
        · subst heq
          simp [hlt'] at hth
          subst hth
          simp only [hr0, Option.map_eq_map, Option.map_some, if_true, Option.some.injEq] at hr
          subst hr
          obtain ⟨h1, h2, h3, h4, h5, h6⟩ := hl0
          refine ⟨h1.trans htl.1.symm, h2.trans htl.2.symm, ?_, h4.trans hdone.symm, ?_, ?_⟩
          · simp only; rw [h3, hout]
          · intro s hs; exact h5 s (hat ▸ hs)
          · intro hn; exact h6 (hat ▸ hn)
        · rw [List.getElem?_set_ne heq] at hth
          cases hrt : st.recs[tid]? with
          | none => simp [hrt] at hr
          | some rt =>
            simp only [hrt, Option.map_eq_map, Option.map_some, heq, if_false, Option.some.injEq] at hr
            subst hr
            exact hrec tid rt th hrt hth
      · -- completion
        rw [ho]
        simp only [List.foldl_cons, List.foldl_nil, TraceState.feed]
        refine ⟨hp, hm, hc, hqs, by simp [hlen, List.length_modify], ?_⟩
        intro tid r th hr hth
        rw [List.getElem?_modify] at hr
        by_cases heq : tid' = tid
        · subst heq
          simp [hlt'] at hth
          subst hth
          simp only [hr0, Option.map_eq_map, Option.map_some, if_true, Option.some.injEq] at hr
          subst hr
          obtain ⟨h1, h2, h3, h4, h5, h6⟩ := hl0
          refine ⟨h1.trans htl.1.symm, h2.trans htl.2.symm, h3.trans hout.symm, hdone.symm, ?_, ?_⟩
          · intro s hs; exact h5 s (hat ▸ hs)
          · intro hn; exact h6 (hat ▸ hn)
        · rw [List.getElem?_set_ne heq] at hth
          cases hrt : st.recs[tid]? with
          | none => simp [hrt] at hr
          | some rt =>
            simp only [hrt, Option.map_eq_map, Option.map_some, heq, if_false, Option.some.injEq] at hr
            subst hr
            exact hrec tid rt th hrt hth

theorem Sys.apply_trace (mode : LoadMode) (sys : Sys) (e : Event) :
    (sys.apply mode e).trace = sys.trace ++ (sys.apply mode e).trace.drop sys.trace.length := by
  cases e with
  | spawn t l => simp [Sys.apply]
  | swap s => simp [Sys.apply]
  | step tid =>
    simp only [Sys.apply]
    cases sys.threads[tid]? <;> simp

theorem SpecInv.run {Q : Snapshot → Prop} (st0 : TraceState) (evs : List Event) :
    ∀ (sys : Sys), sys.Inv → SpecInv Q sys (sys.trace.foldl TraceState.feed st0) →
      (∀ e ∈ evs, e.WF ∧ ∀ s, e = .swap s → Q s) →
      SpecInv Q (sys.run .once evs) ((sys.run .once evs).trace.foldl TraceState.feed st0) := by
  induction evs with
  | nil => intro sys _ h _; exact h
  | cons e rest ih =>
    intro sys hinv h hev
    simp only [Sys.run, List.foldl_cons]
    have he := hev e (by simp)
    have h1 := SpecInv.apply hinv h e he.1 he.2
    rw [← List.foldl_append, ← Sys.apply_trace] at h1
    exact ih _ (Sys.apply_inv sys hinv e he.1) h1 (fun e' he' => hev e' (by simp [he']))

/-- every completed run of the machine satisfies the executable specification of part (a) -/
theorem specTrace_run (c0 : MiniCfg) (more : List MiniCfg) (evs : List Event)
    (hev : ∀ e ∈ evs, ∀ s, e = .swap s → ∃ c ∈ c0 :: more, s = mkSnapshot c)
    (hdone : ∀ th ∈ (Sys.run .once { store := mkSnapshot c0 } evs).threads, th.isDone = true) :
    specTrace (c0 :: more) false (Sys.run .once { store := mkSnapshot c0 } evs).trace = none := by
  let Q : Snapshot → Prop := fun s => ∃ c ∈ (c0 :: more), s = mkSnapshot c
  let sys0 : Sys := { store := mkSnapshot c0 }
  have hinv0 : sys0.Inv := ⟨mkSnapshot_WF c0, by simp [sys0]⟩
  have hwf : ∀ e ∈ evs, e.WF ∧ ∀ s, e = .swap s → Q s := by
    intro e he
    refine ⟨?_, fun s hs => hev e he s hs⟩
    cases e with
    | swap s =>
      obtain ⟨c, _, hc⟩ := hev _ he s rfl
      rw [hc]; exact mkSnapshot_WF c
    | _ => trivial
  have h0 : SpecInv Q sys0 (sys0.trace.foldl TraceState.feed { cur := c0.tag }) := by
    refine ⟨rfl, rfl, rfl, ⟨c0, by simp, rfl⟩, rfl, ?_⟩
    intro tid r th hr _
    simp [sys0] at hr
  have hfin := SpecInv.run (Q := Q) { cur := c0.tag } evs sys0 hinv0 h0 hwf
  have hinvF := Sys.run_inv sys0 hinv0 evs (fun e he => (hwf e he).1)
  obtain ⟨hp, hm, _, _, hlen, hrec⟩ := hfin
  -- every record is complete and was routed under one configuration of its window
  have hall : ∀ r ∈ (specState (c0 :: more) (Sys.run .once sys0 evs).trace).recs,
      r.ended = true ∧ recOk (c0 :: more) false r = true := by
    intro r hr
    obtain ⟨tid, htid⟩ := List.mem_iff_getElem?.mp hr
    have hlt : tid < (Sys.run .once sys0 evs).threads.length := by
      have : tid < (specState (c0 :: more) (Sys.run .once sys0 evs).trace).recs.length := by
        rcases Nat.lt_or_ge tid (specState (c0 :: more) (Sys.run .once sys0 evs).trace).recs.length with h | h
        · exact h
        · rw [List.getElem?_eq_none h] at htid; cases htid
      have hl : (specState (c0 :: more) (Sys.run .once sys0 evs).trace).recs.length = (Sys.run .once sys0 evs).threads.length := hlen
      omega
    have hth : (Sys.run .once sys0 evs).threads[tid]? = some (Sys.run .once sys0 evs).threads[tid] :=
      List.getElem?_eq_getElem hlt
    obtain ⟨h1, h2, h3, h4, h5, _⟩ := hrec tid r _ htid hth
    have hd := hdone _ (List.mem_of_getElem? hth)
    refine ⟨h4.trans hd, ?_⟩
    obtain ⟨s, hs, _, hout⟩ := (hinvF.2 _ (List.mem_of_getElem? hth)).of_done hd
    obtain ⟨⟨c, hc, hsc⟩, htag⟩ := h5 s hs
    simp only [recOk, List.any_eq_true]
    refine ⟨c, hc, ?_⟩
    have htagc : s.tag = c.tag := by rw [hsc]; rfl
    simp only [Bool.and_eq_true, Bool.or_eq_true, beq_iff_eq, Bool.not_false, Bool.true_and,
      List.contains_iff_mem, prescribedBy]
    refine ⟨?_, ?_⟩
    · rcases htag with h | h
      · left; rw [← htagc, h]
      · right; rw [← htagc]; exact h
    · rw [h1, h2, h3, hout, hsc]
  have hstate : specState (c0 :: more) (Sys.run .once sys0 evs).trace =
      (Sys.run .once sys0 evs).trace.foldl TraceState.feed { cur := c0.tag } := rfl
  unfold specTrace
  simp only [List.isEmpty_cons, Bool.false_eq_true, if_false]
  rw [hstate] at hall ⊢
  simp only [hp, hm, Bool.false_eq_true, if_false]
  have e1 : (List.foldl TraceState.feed { cur := c0.tag } (Sys.run .once sys0 evs).trace).recs.any (fun r => !r.ended) = false := by
    rw [List.any_eq_false]; intro r hr; simp [(hall r hr).1]
  have e3 : (List.foldl TraceState.feed { cur := c0.tag } (Sys.run .once sys0 evs).trace).recs.any
      (fun r => !(recOk (c0 :: more) false r)) = false := by
    rw [List.any_eq_false]; intro r hr; simp [(hall r hr).2]
  have e2 : (List.foldl TraceState.feed { cur := c0.tag } (Sys.run .once sys0 evs).trace).recs.any
      (fun r => !((c0 :: more).any (fun c => prescribedBy c r.target r.level == r.out))) = false := by
    rw [List.any_eq_false]; intro r hr
    have := (hall r hr).2
    simp only [recOk, List.any_eq_true, Bool.and_eq_true] at this
    obtain ⟨c, hc, _, h2⟩ := this
    have hany : (c0 :: more).any (fun c => prescribedBy c r.target r.level == r.out) = true :=
      List.any_eq_true.mpr ⟨c, hc, h2⟩
    simp [hany]
  simp only [e1, e2, e3, Bool.false_eq_true, if_false]

end Log4rs.Reconfig
