import Log4rsModel.Reconfig.Swap
/-
C15 (a), reconfiguring threadS — `Handle::set_config` makes two process-wide writes (src/lib.rs):

  pub fn set_config(&self, config: Config) {
      static SET_CONFIG: Mutex<()> = Mutex::new(());
      let shared = Arc::new(SharedLogger::new(config));           -- built before the lock is taken
      let old = { let _guard = SET_CONFIG.lock()…;
                  log::set_max_level(shared.root.max_log_level());   -- write 1: the facade's gate
                  self.shared.swap(shared) };                        -- write 2: the snapshot pointer
      drop(old);                                                   -- dropped after the lock is released
  }

and every record logged through the `log!` macros passes the gate `level <= log::max_level()`
before `Logger::log` is called at all. The machine of Swap.lean treats `set_config` as one event
(which is what the loggers see of it, see `C15_gate_one_config`); here the two writes are separate
events, so that `set_config` calls can interleave, and a record is abstracted to "gate, then routed
under the snapshot it loads" (which is what `C15_snapshot_atomic` proves of `Logger::log`).

`serialised = true` is the code as it is now (since 411af7e, both writes under one lock: a second
call waits). `serialised = false` is the code before: two unsynchronised writes.
-/
namespace Log4rs.Reconfig

/-- The model flag of finding `C15/set-config-two-writers-mixed`: `true` = `/repo` as it is now (411af7e). -/
def setConfigSerialised : Bool := true

/-- `ConfiguredLogger::max_log_level`: the most verbose level any logger of the configuration has -/
def MiniCfg.maxLevel (c : MiniCfg) : Nat :=
  c.loggers.foldl (fun m e => max m e.2.1) c.rootLevel

structure FSys where
  maxLevel : Nat              -- `log::max_level()`
  store : Nat                 -- index of the configuration whose snapshot the pointer holds
  atHook : List Nat := []     -- calls that have done write 1 and not yet write 2
  waiting : List Nat := []    -- calls blocked on the lock (serialised variant only)
  done : List Nat := []       -- calls that have returned
  deriving Repr, DecidableEq

inductive FEvent where
  | enter (k : Nat)           -- a thread calls `set_config(cfg k)` and runs up to the point between the writes
  | finish (k : Nat)          -- that thread performs `store` and returns
  deriving Repr, DecidableEq

def cfgMax (cfgs : List MiniCfg) (k : Nat) : Nat := ((cfgs[k]?).map MiniCfg.maxLevel).getD 0

def FSys.apply (serialised : Bool) (cfgs : List MiniCfg) (s : FSys) : FEvent → FSys
  | .enter k =>
    if s.atHook.contains k || s.waiting.contains k || s.done.contains k then s
    else if serialised && !s.atHook.isEmpty then { s with waiting := s.waiting ++ [k] }
    else { s with maxLevel := cfgMax cfgs k, atHook := s.atHook ++ [k] }
  | .finish k =>
    if !s.atHook.contains k then s
    else
      let s1 := { s with store := k, atHook := s.atHook.erase k, done := s.done ++ [k] }
      if serialised then
        match s1.waiting with
        | [] => s1
        | w :: ws => { s1 with maxLevel := cfgMax cfgs w, atHook := [w], waiting := ws }
      else s1

def FSys.run (serialised : Bool) (cfgs : List MiniCfg) (s : FSys) (evs : List FEvent) : FSys :=
  evs.foldl (FSys.apply serialised cfgs) s

/-- `init_config`: gate and snapshot come from the same configuration -/
def FSys.init (cfgs : List MiniCfg) : FSys := { maxLevel := cfgMax cfgs 0, store := 0 }

/-- what happens to a record logged through the macros in state `s` -/
def FSys.record (cfgs : List MiniCfg) (s : FSys) (t : Target) (l : Level) : List Delivery :=
  if l ≤ s.maxLevel then
    match cfgs[s.store]? with
    | some c => prescribed (mkSnapshot c) t l
    | none => []
  else []

/-- nobody is inside `set_config` -/
def FSys.quiescent (s : FSys) : Bool := s.atHook.isEmpty && s.waiting.isEmpty

/-- the states after each prefix of a schedule (the first is the initial state) -/
def FSys.states (serialised : Bool) (cfgs : List MiniCfg) : FSys → List FEvent → List FSys
  | s, [] => [s]
  | s, e :: rest => s :: FSys.states serialised cfgs (s.apply serialised cfgs e) rest

end Log4rs.Reconfig
