import Log4rsModel.Reconfig.Swap
import Log4rsModel.Reconfig.Reloader
import Log4rsModel.Reconfig.Facade
/-
C15 — executable specification, evaluated by the driver on the *implementation's* observation.

(a) "every record … is routed entirely under the old configuration or entirely under the new one,
never a mixture, without panicking, and records logged after the swap returns use only the new
configuration": read off an observed trace of begin/deliver/swap-returned/end events.

(b) "applies a changed file's configuration and refresh rate, leaves the logger untouched for
unchanged files, and on an unreadable or unparsable file keeps the last good configuration active
and keeps polling": read off the observed (action, active configuration, rate, alive) per poll,
against an *ideal observer* that remembers the (mtime, text) of the last version of the file it
could read. Visible hypothesis: an edit can be noticed only if the mtime differs from the
remembered one, or mtimes are unavailable.
-/
namespace Log4rs.Reconfig

/-! ### (a) -/

structure RecInfo where
  target : Target
  level : Level
  curAtBegin : Nat          -- tag of the configuration whose `set_config` returned last before the record began
  window : List Nat := []   -- tags whose `set_config` returned while the record was being processed
  out : List Delivery := []
  ended : Bool := false

structure TraceState where
  cur : Nat
  recs : List RecInfo := []     -- record ids are positions: the k-th `begin` carries id k
  panicked : Bool := false
  malformed : Bool := false

def TraceState.feed (st : TraceState) : Obs → TraceState
  | .begin tid t l =>
    if tid = st.recs.length then
      { st with recs := st.recs ++ [{ target := t, level := l, curAtBegin := st.cur }] }
    else { st with malformed := true }
  | .deliver tid tag a =>
    { st with recs := st.recs.modify tid (fun r => { r with out := r.out ++ [(tag, a)] }) }
  | .swapped tag =>
    { st with cur := tag,
              recs := st.recs.map (fun r => if r.ended then r else { r with window := r.window ++ [tag] }) }
  | .fin tid => { st with recs := st.recs.modify tid (fun r => { r with ended := true }) }
  | .panic _ => { st with panicked := true }

def prescribedBy (c : MiniCfg) (t : Target) (l : Level) : List Delivery :=
  prescribed (mkSnapshot c) t l

/-- routed entirely under ONE configuration, and one that was current at some moment between the
record's begin and its end: the one in force when it began, or one stored while it was being
processed (by another thread, or re-entrantly by one of its own appenders). With `strict` the
window is ignored: for traces in which nothing can happen between "begin" and the load (the
single-threaded scripted scenarios of the harness) the record must follow the configuration in
force when it began. -/
def recOk (cfgs : List MiniCfg) (strict : Bool) (r : RecInfo) : Bool :=
  cfgs.any (fun c =>
    (c.tag == r.curAtBegin || (!strict && r.window.contains c.tag)) && prescribedBy c r.target r.level == r.out)

def specState (cfgs : List MiniCfg) (trace : List Obs) : TraceState :=
  trace.foldl TraceState.feed { cur := ((cfgs.head?).map (·.tag)).getD 0 }

/-- `none` = the property holds on this trace; `some clause` = the violated clause -/
def specTrace (cfgs : List MiniCfg) (strict : Bool) (trace : List Obs) : Option String :=
  let st := specState cfgs trace
  if cfgs.isEmpty then some "no-config"
  else if st.panicked then some "panic"
  else if st.malformed then some "malformed trace"
  else if st.recs.any (fun r => !r.ended) then some "incomplete: a record did not complete"
  else if st.recs.any (fun r => !(cfgs.any (fun c => prescribedBy c r.target r.level == r.out))) then
    some "mixed: a record matches no single configuration"
  else if st.recs.any (fun r => !(recOk cfgs strict r)) then
    some "stale: a record was routed under a configuration that was not current while it was processed"
  else none

/-- multi-thread stress: the *set* of distinct delivery lists seen for one probe by the logging
threads must be a subset of what single configurations prescribe -/
def specStressProbe (cfgs : List MiniCfg) (t : Target) (l : Level) (seen : List (List Delivery)) : Bool :=
  seen.all (fun out => cfgs.any (fun c => prescribedBy c t l == out))

/-- a record logged by the (only) reconfiguring thread right after its `set_config(k)` returned -/
def specStressAfter (cfgs : List MiniCfg) (t : Target) (l : Level) (k : Nat) (out : List Delivery) : Bool :=
  cfgs.any (fun c => c.tag == k && prescribedBy c t l == out)

/-! ### (a) racing `set_config` calls seen through the facade

Observed after every scheduling event: which calls sit between their two writes, which have
returned, and what a sweep of probe records (through the `log!` macro) delivered. The statement,
read for concurrent calls: a record is routed entirely under ONE configuration that may be current
at that moment — a call still in flight, or a returned call that has not been superseded by a
call that started after it returned and has itself returned. When nobody is inside `set_config` the
configuration cannot change between two records, so the whole sweep must agree with ONE such
configuration ("records logged after the swap returns use only the new configuration"). -/

structure RaceObs where
  hook : List Nat
  done : List Nat
  outs : List (List Delivery)

/-- index of the first observation at which `p` holds -/
def firstIdx {α} (p : α → Bool) (xs : List α) : Option Nat :=
  let i := xs.findIdx p
  if i < xs.length then some i else none

def specRace (cfgs : List MiniCfg) (probes : List (Target × Level)) (sched : List FEvent)
    (obs : List RaceObs) : Option String :=
  let calls := (sched.filterMap (fun e => match e with | .enter k => some k | _ => none)).eraseDups
  -- observation i is taken after event i-1; a call starts with event index `start` (so it is in
  -- flight from observation start+1 on) and has returned at the first observation listing it
  let start (k : Nat) : Option Nat := firstIdx (· == FEvent.enter k) sched
  let ret (k : Nat) : Option Nat := if k = 0 then some 0 else firstIdx (fun o => o.done.contains k) obs
  let check (i : Nat) (o : RaceObs) : Option String :=
    let started := calls.filter (fun k => match start k with | some s => s < i | none => false)
    let inflight := started.filter (fun k => !o.done.contains k)
    let completed := 0 :: started.filter (fun k => o.done.contains k)
    let maximal := completed.filter (fun k => !completed.any (fun k' =>
      k' != k && (match start k', ret k with
        | some s', some r => decide (r ≤ s')       -- k' started after k had returned
        | _, _ => false)))
    let allowed := maximal ++ inflight
    let agrees (k : Nat) (p : Target × Level) (out : List Delivery) : Bool :=
      match cfgs[k]? with
      | some c => prescribedBy c p.1 p.2 == out
      | none => false
    if o.outs.length != probes.length then some "observation shape" else
    let pairs := List.zip probes o.outs
    match pairs.find? (fun po => !(allowed.any (fun k => agrees k po.1 po.2))) with
    | some _ => some ("mixed: a record at step " ++ toString i ++ " matches no configuration that can be current")
    | none =>
      if inflight.isEmpty && !(maximal.any (fun k => pairs.all (fun po => agrees k po.1 po.2))) then
        some ("two-writers: no set_config is in flight at step " ++ toString i ++
              " and the records do not all follow one of the last configurations")
      else none
  (List.zip (List.range obs.length) obs).findSome? (fun io => check io.1 io.2)

/-! ### (b) -/
namespace Reloader

/-- one observation of the reloader after a poll -/
structure PollObs where
  action : Action
  active : ConfigTag
  rate : Rate
  alive : Bool
  deriving Repr, DecidableEq

structure Ideal (Text : Type) where
  remM : Option Mtime        -- mtime of the last version that could be read (none: mtimes unavailable)
  remText : Text             -- its text
  prev : PollObs

section
variable {Text : Type} [DecidableEq Text] (parse : Text → Option (ConfigTag × Option Rate))

def untouched (p o : PollObs) : Bool :=
  o.action != .applied && o.active == p.active && o.rate == p.rate && o.alive == p.alive

/-- the configuration and rate of a parsed text took effect (`set_config` was called) -/
def appliedAs (p o : PollObs) (c : ConfigTag) (r : Option Rate) : Bool :=
  o.action == .applied && o.active == c && o.alive == r.isSome &&
  (match r with | some x => o.rate == x | none => o.rate == p.rate)

/-- verdict for one poll (`none` = fine) and the observer's next state -/
def specPoll (st : Ideal Text) (fv : FileView Text) (o : PollObs) : Option String × Ideal Text :=
  let p := st.prev
  let visible : Bool := match st.remM, fv.mtime? with
    | none, _ => true
    | some r, some m => r != m
    | some _, none => false
  let st' : Ideal Text :=
    match fv with
    | .ok m t => if visible then { st with remM := st.remM.map (fun _ => m), remText := t, prev := o }
                 else { st with prev := o }
    | _ => { st with prev := o }
  let verdict : Option String :=
    if !p.alive then
      (if o.action == .dead && o.active == p.active && o.rate == p.rate && !o.alive then none else some "dead-loop-acted")
    else if o.action == .dead then some "stopped-polling"
    else
      match fv with
      | .missing => if untouched p o then none else some "bad-keeps-good-and-polls(missing)"
      | .unreadable _ => if untouched p o then none else some "bad-keeps-good-and-polls(unreadable)"
      | .ok _ t =>
        match parse t with
        | none => if untouched p o then none else some "bad-keeps-good-and-polls(unparsable)"
        | some (c, r) =>
          if t == st.remText then
            -- the version last read is back / still there (no change, touch, reappearance):
            -- nothing may happen to the logger, the loop goes on with the same rate
            (if untouched p o then none else some "unchanged-touched")
          else if visible then
            -- a changed, readable, parsable file whose mtime moved: it must be applied, now
            (if appliedAs p o c r then none else some "changed-not-applied")
          else
            -- an edit that kept the remembered mtime: may be missed (then nothing happens at all)
            -- or noticed (then it is applied properly)
            (if untouched p o || appliedAs p o c r then none else some "same-mtime-edit-mishandled")
  (verdict, st')

def specPolls : Ideal Text → Nat → List (FileView Text × PollObs) → Option (Nat × String)
  | _, _, [] => none
  | st, i, (fv, o) :: rest =>
    match specPoll parse st fv o with
    | (some why, _) => some (i, why)
    | (none, st') => specPolls st' (i + 1) rest

/-- whole history: the initial observation must be the parsed initial file, then every poll -/
def specHistory (m0 : Option Mtime) (text0 : Text) (init : PollObs)
    (polls : List (FileView Text × PollObs)) : Option (Nat × String) :=
  match parse text0 with
  | none => some (0, "init-unparsable")
  | some (c, r) =>
    if init.active == c && init.alive == r.isSome && (match r with | some x => init.rate == x | none => true) then
      specPolls parse { remM := m0, remText := text0, prev := init } 1 polls
    else some (0, "init-wrong")

/-- does the initial observation show the configuration of version `v`? -/
def fitsInit (init : PollObs) (v : FileView Text) : Bool :=
  match v.text?.bind parse with
  | some (c, r) => init.active == c && init.alive == r.isSome && (match r with | some x => init.rate == x | none => true)
  | none => false

/-- the history judged by an observer that remembers `mv`'s mtime and `tv`'s text -/
def goInit (noMtime : Bool) (init : PollObs) (polls : List (FileView Text × PollObs))
    (mv tv : FileView Text) : Option (Nat × String) :=
  match tv.text? with
  | some t => specPolls parse { remM := if noMtime then none else mv.mtime?, remText := t, prev := init } 1 polls
  | none => some (0, "init-wrong")

/-- the initialisation looked at the file twice and an edit may have landed in between (`v1`
before, `v2` after). The initial configuration must be that of one of the two versions. Either
version may be the one that was loaded, and the remembered mtime may be that version's own or the
OLDER one (mtime taken before the read: the next poll re-examines the file and finds it unchanged).
What is not admissible is the newer mtime with the older text: then the newer version is never
examined. The history must be right for one admissible memory. -/
def specHistory2 (noMtime : Bool) (v1 v2 : FileView Text) (init : PollObs)
    (polls : List (FileView Text × PollObs)) : Option (Nat × String) :=
  let cands := ([(v2, v2), (v1, v1), (v1, v2)] : List (FileView Text × FileView Text)).filter
    (fun c => fitsInit parse init c.2)
  if cands.any (fun c => (goInit parse noMtime init polls c.1 c.2).isNone) then none
  else match cands.head? with
    | none => some (0, "init-wrong")
    | some c => goInit parse noMtime init polls c.1 c.2

end

/-! #### the concrete texts the harness writes -/

inductive DocKind where
  | good       -- valid YAML, one tagged appender
  | lossy      -- valid YAML, one tagged appender + one appender of unknown kind (dropped by `deserialize`)
  | syntax     -- not YAML
  | schema     -- YAML, but not a `RawConfig` (unknown top-level key)
  | badrate    -- `refresh_rate: banana`
  deriving Repr, DecidableEq

/-- a document; the harness renders it injectively (the nonce ends up in a comment) -/
structure Doc where
  kind : DocKind
  tag : ConfigTag
  rate : Option Rate
  nonce : Nat
  deriving Repr, DecidableEq

def parseDoc (d : Doc) : Option (ConfigTag × Option Rate) :=
  match d.kind with
  | .good => some (d.tag, d.rate)
  | .lossy => some (d.tag, d.rate)
  | _ => none

/-! #### the real thread: what can be seen is (active tag, touched, alive) after each step; the
refresh rate itself is not observable, only its effect (T2 of Reloader.lean): while the last
applied configuration asked for a slow rate, an edit must not be picked up before the long wait -/

structure ThreadSpecState where
  id : Ideal Doc
  cur : FileView Doc
  rate : Option Rate        -- refresh rate of the configuration the *statement* says is active

/-- one observed step. The `PollObs` handed to `specPoll` gets the rate the statement prescribes
(it cannot be observed), so only the configuration / touched / alive clauses can fail. -/
def specThreadStep (st : ThreadSpecState) (step : TStep Doc) (active : ConfigTag) (touched alive : Bool) :
    Option String × ThreadSpecState :=
  let p := st.id.prev
  let slow : Bool := match st.rate with
    | some r => decide (r ≥ slowRate)
    | none => false
  let (view, polled) : FileView Doc × Bool := match step with
    | .edit fv => (fv, !slow)
    | .longWait => (st.cur, true)
  if !polled then
    -- the loop is asleep for the slow rate: nothing may happen yet
    (if !touched && active == p.active && alive == p.alive then none else some "rate-not-followed",
     { st with cur := view })
  else
    let action : Action := if touched then .applied else if !p.alive then .dead else .unchanged
    let newRate : Option Rate :=
      if touched then (match view.text?.bind parseDoc with
        | some (_, r) => r
        | none => st.rate) else st.rate
    let o : PollObs := { action, active, alive,
                         rate := if touched then (newRate.getD p.rate) else p.rate }
    let (v, id') := specPoll parseDoc st.id view o
    (v, { id := id', cur := view, rate := newRate })

def specThreadSteps : ThreadSpecState → Nat → List (TStep Doc × ConfigTag × Bool × Bool) → Option (Nat × String)
  | _, _, [] => none
  | st, i, (step, a, t, al) :: rest =>
    match specThreadStep st step a t al with
    | (some why, _) => some (i, why)
    | (none, st') => specThreadSteps st' (i + 1) rest

/-- `(m1, d1)`: the file as `init_file`'s first look finds it, `(m2, d2)`: as its second look finds
it (equal unless an edit lands in between); the initial configuration must be that of one of the
two, and the observer remembers the one that was loaded -/
def specThread (m1 : Mtime) (d1 : Doc) (m2 : Mtime) (d2 : Doc) (initActive : ConfigTag) (initAlive : Bool)
    (steps : List (TStep Doc × ConfigTag × Bool × Bool)) : Option (Nat × String) :=
  let fits (d : Doc) : Bool := match parseDoc d with
    | some (c, r) => initActive == c && initAlive == r.isSome
    | none => false
  let go (m : Mtime) (d : Doc) : Option (Nat × String) :=
    match parseDoc d with
    | none => some (0, "init-unparsable")
    | some (c, r) =>
      specThreadSteps
        { id := { remM := some m, remText := d,
                  prev := { action := .unchanged, active := c, rate := r.getD 0, alive := r.isSome } },
          cur := .ok m2 d2, rate := r } 1 steps
  match [(m2, d2), (m1, d1), (m1, d2)].filter (fun v => fits v.2) with
  | [] => some (0, "init-wrong")
  | c :: cs => if (c :: cs).any (fun v => (go v.1 v.2).isNone) then none else go c.1 c.2

end Reloader
end Log4rs.Reconfig
