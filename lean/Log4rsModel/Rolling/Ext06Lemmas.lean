import Log4rsModel.Rolling.Ext06Spec
import Log4rsModel.Rolling.Ext17Spec
import Log4rsModel.Rolling.LemmasRoller
/-
The model's histories (size trigger, any roller honouring the two contracts below, restarts with
changed mode / limit, failing encoders, roller faults) satisfy the executable statement `Spec06`.
-/
namespace Log4rs.Rolling
open Log4rs.Roller

/-- what a FAILING roll may do to the log file: leave it as it is, or have removed it (a roller
that reports `Err` after doing its work) — never replace its content -/
def RollErrKeeps (roll : RollFn) (path : Path) : Prop :=
  ∀ fault d e d', roll path fault d = (.error e, d') → d'.get? path = d.get? path ∨ d'.get? path = none

theorem size_getD (d : Disk) (path : Path) :
    ((d.get? path).map List.length).getD 0 = ((d.get? path).getD []).length := by
  cases d.get? path <;> rfl

theorem sizeCfg_fire (path : Path) (am : Bool) (N : Nat) (roll : RollFn) (t : Unit) (L now : Nat) :
    ((sizeCfg path am N roll).trig.fire t L now).1 = if L > N then .yes else .no := by
  simp [sizeCfg, sizeTrigger]

namespace Spec06

/-- one successful-encoder append, as the observer sees it -/
theorem append_entry (path : Path) (roll : RollFn) (hgone : RollGone roll path) (herr : RollErrKeeps roll path)
    (am : Bool) (N : Nat) (s : St Unit) (hwf : WF (sizeCfg path am N roll) s) (r : Rec) (fault : Nat → Bool) :
    let cfg := sizeCfg path am N roll
    let out := (append cfg s r fault).1
    let s' := (append cfg s r fault).2
    let L := ((s.disk.get? path).getD []).length + (encBytes r).length
    out.consult = some (L, L) ∧
    (L ≤ N → out.res = .ok ∧ out.rolled = none ∧ (s'.disk.get? path).map List.length = some L) ∧
    (L > N → (out.res = .ok ∧ out.rolled = some true ∧ s'.disk.get? path = none) ∨
             (out.res = .errRoll ∧ out.rolled = some false ∧
               ((s'.disk.get? path).map List.length = some L ∨ s'.disk.get? path = none))) := by
  intro cfg out s' L
  obtain ⟨hc, _, _, _, hno, _, hyes⟩ :=
    append_post_spec cfg s r fault hwf rfl _ _ (append cfg s r fault).1 (append cfg s r fault).2 rfl rfl rfl
  have hov : openView cfg s = (s.disk.get? path).getD [] := openView_of_opened cfg s hwf.1
  have hL : (openView cfg s ++ encBytes r).length = L := by rw [hov]; simp [L]
  rw [hL] at hc hno hyes
  have hfire := sizeCfg_fire path am N roll s.tst L s.now
  refine ⟨hc, ?_, ?_⟩
  · intro hle
    have hans : (cfg.trig.fire s.tst L s.now).1 = .no := by rw [hfire]; simp; omega
    obtain ⟨h1, h2, ⟨w, _, _, hg, _⟩, _⟩ := hno hans
    refine ⟨h1, h2, ?_⟩
    have hg' : s'.disk.get? path = some (openView cfg s ++ encBytes r) := hg
    rw [hg', Option.map_some, hL]
  · intro hgt
    have hans : (cfg.trig.fire s.tst L s.now).1 = .yes := by rw [hfire]; simp [hgt]
    obtain ⟨d1, hg1, _, _, hd, hres⟩ := hyes hans
    have hd' : s'.disk = (roll path fault d1).2 := hd
    rcases hres with ⟨x, hx, h1, h2⟩ | ⟨e, he, h1, h2⟩
    · left
      refine ⟨h1, h2, ?_⟩
      rw [hd']
      exact hgone fault d1 x _ (by have : (roll path fault d1).1 = .ok x := hx; rw [← this])
    · right
      refine ⟨h1, h2, ?_⟩
      rw [hd']
      have hk := herr fault d1 e _ (by have : (roll path fault d1).1 = .error e := he; rw [← this])
      rcases hk with hk | hk
      · left
        have hg1' : d1.get? path = some (openView cfg s ++ encBytes r) := hg1
        rw [hk, hg1', Option.map_some, hL]
      · right; exact hk

theorem okEntry_append (path : Path) (roll : RollFn) (hgone : RollGone roll path) (herr : RollErrKeeps roll path)
    (s : St6) (hwf : WF (sizeCfg path s.am s.limit roll) s.st) (r : Rec) (f : Option Nat) :
    okEntry (sOf path s) (.arrive (encBytes r).length false) (entryOf path (apply6 path roll s (.x (.op (.append r f))))) = true := by
  obtain ⟨hc, hle, hgt⟩ := append_entry path roll hgone herr s.am s.limit s.st hwf r (faultFn f)
  have hsz : (sOf path s).size.getD 0 = ((s.st.disk.get? path).getD []).length := size_getD _ _
  simp only [okEntry, entryOf, apply6, applyX, applyOp, Option.map_some, Option.bind_some, hc, Option.toList_some]
  simp only [hsz, sOf, beq_self_eq_true, Bool.true_and]
  by_cases h : ((s.st.disk.get? path).getD []).length + (encBytes r).length ≤ s.limit
  · obtain ⟨h1, h2, h3⟩ := hle h
    have hng : ¬ ((s.st.disk.get? path).getD []).length + (encBytes r).length > s.limit := by omega
    simp [h1, h2, h3, hng, size_getD]
  · have hg : ((s.st.disk.get? path).getD []).length + (encBytes r).length > s.limit := by omega
    rcases hgt hg with ⟨h1, h2, h3⟩ | ⟨h1, h2, h3⟩
    · simp [h1, h2, h3, hg, size_getD]
    · rcases h3 with h3 | h3 <;> simp [h1, h2, h3, hg, size_getD]

theorem okEntry_appendFail (path : Path) (roll : RollFn) (s : St6) (hwf : WF (sizeCfg path s.am s.limit roll) s.st)
    (r : Rec) (n : Nat) (f : Option Nat) :
    okEntry (sOf path s) (.arrive (encBytes r).length true) (entryOf path (apply6 path roll s (.x (.appendFail r n f)))) = true := by
  let cfg := sizeCfg path s.am s.limit roll
  obtain ⟨ho, ⟨w, _, _, hg, _⟩, _⟩ := appendFail_post_spec cfg s.st r n (faultFn f) hwf rfl
  have hov : openView cfg s.st = (s.st.disk.get? path).getD [] := openView_of_opened cfg s.st hwf.1
  have hg' : (appendFail cfg s.st r n (faultFn f)).2.disk.get? path = some ((s.st.disk.get? path).getD []) := by
    rw [← hov]; exact hg
  have hsz : (sOf path s).size.getD 0 = ((s.st.disk.get? path).getD []).length := size_getD _ _
  simp only [okEntry, entryOf, apply6, applyX]
  rw [show (appendFail (sizeCfg path s.am s.limit roll) s.st r n (faultFn f)).1 = _ from ho]
  rw [show (appendFail (sizeCfg path s.am s.limit roll) s.st r n (faultFn f)).2.disk.get? path = _ from hg']
  simp [hsz]

/-- a new appender on the path (same or changed parameters) -/
theorem okEntry_reconf (path : Path) (roll : RollFn) (s : St6) (hwf : WF (sizeCfg path s.am s.limit roll) s.st)
    (am' : Bool) (n' : Nat) :
    ((build (sizeCfg path am' n' roll) (dropWriter (sizeCfg path s.am s.limit roll) s.st)).disk.get? path).map List.length =
      some (if am' then (sOf path s).size.getD 0 else 0) := by
  let cfg := sizeCfg path s.am s.limit roll
  let cfg' := sizeCfg path am' n' roll
  have hsz : (sOf path s).size.getD 0 = ((s.st.disk.get? path).getD []).length := size_getD _ _
  -- dropping the writer does not change the file
  have hdrop : (dropWriter cfg s.st).disk.get? path = s.st.disk.get? path := by
    unfold dropWriter
    cases hw : s.st.writer with
    | none => rfl
    | some w =>
      rcases hwf.2 with h | ⟨a, w', hw', hb, hg, _⟩
      · rw [hw] at h; cases h
      · rw [hw] at hw'
        have : w' = w := (Option.some.inj hw').symm
        subst this
        simp only [flushW, hb, List.append_nil]
        rw [fileOf_of_get (show s.st.disk.get? cfg.path = some a from hg)]
        show ((s.st.disk.set path a).get? path) = _
        rw [DiskL.get?_set_self]
        exact hg.symm
  let s1 : St Unit := { dropWriter cfg s.st with writer := none, tst := cfg'.trig.reinit (dropWriter cfg s.st).tst (dropWriter cfg s.st).now, opened := false }
  obtain ⟨⟨w, _, _, hg, _⟩, _⟩ := getWriter_spec cfg' s1 (Or.inl rfl)
  have hov : openView cfg' s1 = if am' then (s.st.disk.get? path).getD [] else [] := by
    show (if cfg'.appendMode || false then fileOf cfg' (dropWriter cfg s.st).disk else []) = _
    show (if am' || false then ((dropWriter cfg s.st).disk.get? path).getD [] else []) = _
    rw [hdrop]
    cases am' <;> rfl
  have hg' : (build cfg' (dropWriter cfg s.st)).disk.get? path = some (openView cfg' s1) := hg
  rw [hg', hov, hsz]
  cases am' <;> rfl

/-- every operation of the model satisfies the statement, and the observer's next state is the
state of the model -/
theorem step6 (path : Path) (roll : RollFn) (hgone : RollGone roll path) (herr : RollErrKeeps roll path)
    (s : St6) (hwf : WF (sizeCfg path s.am s.limit roll) s.st) (op : Op6) :
    okEntry (sOf path s) (evOf s op) (entryOf path (apply6 path roll s op)) = true ∧
    WF (sizeCfg path (apply6 path roll s op).2.am (apply6 path roll s op).2.limit roll) (apply6 path roll s op).2.st ∧
    next (sOf path s) (evOf s op) (entryOf path (apply6 path roll s op)) = sOf path (apply6 path roll s op).2 := by
  cases op with
  | reconf am' n' =>
    refine ⟨?_, WF_build _ _, rfl⟩
    have h := okEntry_reconf path roll s hwf am' n'
    simp only [okEntry, evOf, entryOf, apply6]
    rw [h]
    simp
  | x o =>
    cases o with
    | appendFail r n f =>
      exact ⟨okEntry_appendFail path roll s hwf r n f, appendFail_wf _ s.st r n (faultFn f) hwf, rfl⟩
    | op o =>
      cases o with
      | append r f =>
        exact ⟨okEntry_append path roll hgone herr s hwf r f, (append_wf _ s.st r (faultFn f) hwf).1, rfl⟩
      | restart =>
        refine ⟨?_, WF_restart _ _, rfl⟩
        have h := okEntry_reconf path roll s hwf s.am s.limit
        simp only [okEntry, evOf, entryOf, apply6, applyX, applyOp, restart]
        rw [h]
        simp
      | tick dt =>
        refine ⟨?_, hwf, rfl⟩
        simp [okEntry, evOf, entryOf, apply6, applyX, applyOp, sOf]

/-- the model's histories satisfy the executable statement -/
theorem trace6_meets_spec (path : Path) (roll : RollFn) (hgone : RollGone roll path) (herr : RollErrKeeps roll path)
    (ops : List Op6) (s : St6) (hwf : WF (sizeCfg path s.am s.limit roll) s.st) (k : Nat) :
    go k (sOf path s) (evsOf path roll s ops) ((trace6 path roll s ops).map (entryOf path)) = none := by
  induction ops generalizing s k with
  | nil => rfl
  | cons op ops ih =>
    obtain ⟨h1, h2, h3⟩ := step6 path roll hgone herr s hwf op
    simp only [evsOf, trace6, List.map_cons, go, h1, if_true]
    rw [h3]
    exact ih _ h2 _

/-- the state after a history -/
def final6 (path : Path) (roll : RollFn) (s : St6) (ops : List Op6) : St6 :=
  ops.foldl (fun s op => (apply6 path roll s op).2) s

theorem WF_apply6 (path : Path) (roll : RollFn) (s : St6) (hwf : WF (sizeCfg path s.am s.limit roll) s.st) (op : Op6) :
    WF (sizeCfg path (apply6 path roll s op).2.am (apply6 path roll s op).2.limit roll) (apply6 path roll s op).2.st := by
  cases op with
  | reconf am' n' => exact WF_build _ _
  | x o => exact WF_applyX _ s.st o hwf

theorem WF_final6 (path : Path) (roll : RollFn) (ops : List Op6) (s : St6) (hwf : WF (sizeCfg path s.am s.limit roll) s.st) :
    WF (sizeCfg path (final6 path roll s ops).am (final6 path roll s ops).limit roll) (final6 path roll s ops).st := by
  induction ops generalizing s with
  | nil => exact hwf
  | cons op ops ih => exact ih _ (WF_apply6 path roll s hwf op)

theorem WF_init6 (path : Path) (roll : RollFn) (am : Bool) (limit : Nat) (d : Disk) (now : Nat) :
    WF (sizeCfg path (init6 path roll am limit d now).am (init6 path roll am limit d now).limit roll)
      (init6 path roll am limit d now).st := WF_init _ d () now

end Spec06

/-! ### the rollers of the tie honour both contracts -/

theorem rollGone_lateWrap (roll : RollFn) (path : Path) (hg : RollGone roll path) : RollGone (Spec17.lateWrap roll) path := by
  intro fault d x d' h
  unfold Spec17.lateWrap at h
  by_cases hf : fault Spec17.LATE
  · simp only [hf, if_true] at h
    rcases hr : roll path (fun _ => false) d with ⟨res, d''⟩
    rw [hr] at h
    cases res with
    | ok y => simp at h
    | error e => simp at h
  · simp only [hf] at h
    exact hg fault d x d' h

theorem rollErrKeeps_lateWrap (roll : RollFn) (path : Path) (hg : RollGone roll path) (hk : RollErrKeeps roll path) :
    RollErrKeeps (Spec17.lateWrap roll) path := by
  intro fault d e d' h
  unfold Spec17.lateWrap at h
  by_cases hf : fault Spec17.LATE
  · simp only [hf, if_true] at h
    rcases hr : roll path (fun _ => false) d with ⟨res, d''⟩
    rw [hr] at h
    cases res with
    | ok y =>
      simp only at h
      have hd : d'' = d' := (Prod.mk.inj h).2
      subst hd
      exact Or.inr (hg _ d y d'' hr)
    | error e' =>
      simp only at h
      have hd : d'' = d' := (Prod.mk.inj h).2
      subst hd
      exact hk _ d e' d'' hr
  · simp only [hf] at h
    exact hk fault d e d' h

theorem rollErrKeeps_of_contract (roll : RollFn) (path : Path) (arch : Disk → List Bytes)
    (hc : RollContract roll path arch) : RollErrKeeps roll path :=
  fun fault d e d' h => Or.inl (hc.err fault d e d' h).1

end Log4rs.Rolling
