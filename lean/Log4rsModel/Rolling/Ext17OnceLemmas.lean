import Log4rsModel.Rolling.Ext17Once
/-
Invariant of the `Once` machine with an atomic claim: while INCOMPLETE nobody runs the closure and
nobody has answered `true`; while RUNNING exactly one caller is the runner and nobody has answered
`true`; once COMPLETE nobody runs it any more and at most one call answered `true`.
-/
namespace Log4rs.Rolling.Once17

theorem sum_map_set {α : Type} (f : α → Nat) (l : List α) (i : Nat) (t a : α) (h : l[i]? = some t) :
    ((l.set i a).map f).sum + f t = (l.map f).sum + f a := by
  induction l generalizing i with
  | nil => simp at h
  | cons x l ih =>
    cases i with
    | zero =>
      simp only [List.getElem?_cons_zero, Option.some.injEq] at h
      subst h
      simp only [List.set_cons_zero, List.map_cons, List.sum_cons]
      omega
    | succ i =>
      simp only [List.getElem?_cons_succ] at h
      have := ih i h
      simp only [List.set_cons_succ, List.map_cons, List.sum_cons]
      omega

theorem le_sum_map {α : Type} (f : α → Nat) (l : List α) (i : Nat) (t : α) (h : l[i]? = some t) :
    f t ≤ (l.map f).sum := by
  induction l generalizing i with
  | nil => simp at h
  | cons x l ih =>
    cases i with
    | zero =>
      simp only [List.getElem?_cons_zero, Option.some.injEq] at h
      subst h
      simp only [List.map_cons, List.sum_cons]
      omega
    | succ i =>
      simp only [List.getElem?_cons_succ] at h
      have := ih i h
      simp only [List.map_cons, List.sum_cons]
      omega

def Th.isRunner (t : Th) : Nat := if t.pc = .runner then 1 else 0

def runners (s : St) : Nat := (s.threads.map Th.isRunner).sum

def Inv (s : St) : Prop :=
  match s.once with
  | .incomplete => runners s = 0 ∧ yesCount s = 0
  | .running => runners s = 1 ∧ yesCount s = 0
  | .complete => runners s = 0 ∧ yesCount s ≤ 1

theorem sum_zero_of_all {α : Type} (f : α → Nat) (l : List α) (h : ∀ x ∈ l, f x = 0) : (l.map f).sum = 0 := by
  induction l with
  | nil => rfl
  | cons x l ih =>
    simp only [List.map_cons, List.sum_cons]
    rw [h x (by simp), ih (fun y hy => h y (by simp [hy]))]

theorem inv_init (progs : List (Nat × Bool)) : Inv (init progs) := by
  show runners (init progs) = 0 ∧ yesCount (init progs) = 0
  constructor
  · apply sum_zero_of_all
    intro t ht
    simp only [Once17.init, List.mem_map] at ht
    obtain ⟨p, _, rfl⟩ := ht
    rfl
  · apply sum_zero_of_all
    intro t ht
    simp only [Once17.init, List.mem_map] at ht
    obtain ⟨p, _, rfl⟩ := ht
    rfl

theorem yes_push (t : Th) (a : Bool) (h : t.pc = .ret a) :
    Th.yes { t with pc := .idle, results := t.results ++ [a] } = Th.yes t := by
  cases a <;> simp [Th.yes, h, List.filter_append]

theorem inv_step {s s' : St} {i : Nat} (inv : Inv s) (h : step i s = some s') : Inv s' := by
  unfold Once17.step at h
  cases hti : s.threads[i]? with
  | none => simp [hti] at h
  | some t =>
    simp only [hti] at h
    have hr := sum_map_set Th.isRunner s.threads i t
    have hy := sum_map_set Th.yes s.threads i t
    have hrl := le_sum_map Th.isRunner s.threads i t hti
    cases hpc : t.pc with
    | idle =>
      simp only [hpc] at h
      by_cases h0 : t.todo = 0
      · simp [h0] at h
      · simp only [h0, if_false, Option.some.injEq] at h
        subst h
        have r := hr { t with todo := t.todo - 1, pc := .entered } hti
        have y := hy { t with todo := t.todo - 1, pc := .entered } hti
        have e1 : Th.isRunner { t with todo := t.todo - 1, pc := .entered } = 0 := rfl
        have e2 : Th.isRunner t = 0 := by simp [Th.isRunner, hpc]
        have e3 : Th.yes { t with todo := t.todo - 1, pc := .entered } = Th.yes t := by simp [Th.yes, hpc]
        unfold Inv at inv ⊢
        simp only [runners, yesCount] at inv ⊢
        cases ho : s.once <;> simp only [ho] at inv ⊢ <;> omega
    | entered =>
      simp only [hpc] at h
      have e2 : Th.isRunner t = 0 := by simp [Th.isRunner, hpc]
      cases ho : s.once with
      | incomplete =>
        simp only [ho, Option.some.injEq] at h
        subst h
        have r := hr { t with pc := .runner } hti
        have y := hy { t with pc := .runner } hti
        have e1 : Th.isRunner { t with pc := .runner } = 1 := rfl
        have e3 : Th.yes { t with pc := .runner } = Th.yes t := by simp [Th.yes, hpc]
        unfold Inv at inv ⊢
        simp only [runners, yesCount, ho] at inv ⊢
        omega
      | running =>
        simp only [ho, Option.some.injEq] at h
        subst h
        have r := hr { t with pc := .waiting } hti
        have y := hy { t with pc := .waiting } hti
        have e1 : Th.isRunner { t with pc := .waiting } = 0 := rfl
        have e3 : Th.yes { t with pc := .waiting } = Th.yes t := by simp [Th.yes, hpc]
        unfold Inv at inv ⊢
        simp only [runners, yesCount, ho] at inv ⊢
        omega
      | complete =>
        simp only [ho, Option.some.injEq] at h
        subst h
        have r := hr { t with pc := .ret false } hti
        have y := hy { t with pc := .ret false } hti
        have e1 : Th.isRunner { t with pc := .ret false } = 0 := rfl
        have e3 : Th.yes { t with pc := .ret false } = Th.yes t := by simp [Th.yes, hpc]
        unfold Inv at inv ⊢
        simp only [runners, yesCount, ho] at inv ⊢
        omega
    | sawIncomplete => simp [hpc] at h
    | runner =>
      simp only [hpc, Option.some.injEq] at h
      subst h
      have r := hr { t with pc := .ret t.big } hti
      have y := hy { t with pc := .ret t.big } hti
      have e1 : Th.isRunner { t with pc := .ret t.big } = 0 := rfl
      have e2 : Th.isRunner t = 1 := by simp [Th.isRunner, hpc]
      have e3 : Th.yes { t with pc := .ret t.big } ≤ Th.yes t + 1 := by
        cases hb : t.big <;> simp [Th.yes, hpc]
      unfold Inv at inv ⊢
      simp only [runners, yesCount] at inv ⊢
      cases ho : s.once <;> simp only [ho] at inv <;> omega
    | waiting =>
      simp only [hpc] at h
      by_cases hc : s.once = .complete
      · simp only [hc, if_true, Option.some.injEq] at h
        subst h
        have r := hr { t with pc := .ret false } hti
        have y := hy { t with pc := .ret false } hti
        have e1 : Th.isRunner { t with pc := .ret false } = 0 := rfl
        have e2 : Th.isRunner t = 0 := by simp [Th.isRunner, hpc]
        have e3 : Th.yes { t with pc := .ret false } = Th.yes t := by simp [Th.yes, hpc]
        unfold Inv at inv ⊢
        simp only [runners, yesCount, hc] at inv ⊢
        omega
      · simp [hc] at h
    | ret a =>
      simp only [hpc, Option.some.injEq] at h
      subst h
      have r := hr { t with pc := .idle, results := t.results ++ [a] } hti
      have y := hy { t with pc := .idle, results := t.results ++ [a] } hti
      have e1 : Th.isRunner { t with pc := .idle, results := t.results ++ [a] } = 0 := rfl
      have e2 : Th.isRunner t = 0 := by simp [Th.isRunner, hpc]
      have e3 := yes_push t a hpc
      unfold Inv at inv ⊢
      simp only [runners, yesCount] at inv ⊢
      cases ho : s.once <;> simp only [ho] at inv ⊢ <;> omega

theorem inv_run (sched : List Nat) {s : St} (inv : Inv s) : Inv (run step s sched) := by
  induction sched generalizing s with
  | nil => exact inv
  | cons i rest ih =>
    simp only [Once17.run]
    cases h : step i s with
    | none => simpa [h] using ih inv
    | some s' => simpa [h] using ih (inv_step inv h)

theorem inv_yes_le_one {s : St} (inv : Inv s) : yesCount s ≤ 1 := by
  unfold Inv at inv
  cases ho : s.once <;> simp only [ho] at inv <;> omega

end Log4rs.Rolling.Once17
