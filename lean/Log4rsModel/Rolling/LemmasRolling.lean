import Log4rsModel.Rolling.Model
import Log4rsModel.Rolling.Lemmas
import Log4rsModel.Rolling.LemmasDisk
/-
What one `RollingFileAppender::append` does, stated on lookups of the disk (`append_spec`), and
the basic well-formedness invariant of the appender state. Used by C05, C06 and C17.
-/
namespace Log4rs.Rolling
open Log4rs.Roller (Disk Path FsErr)

variable {σ : Type}

/-- `d'` agrees with `d` everywhere except possibly at the active path -/
def SameElse (cfg : Cfg σ) (d d' : Disk) : Prop := ∀ q, q ≠ cfg.path → d'.get? q = d.get? q

theorem SameElse.refl (cfg : Cfg σ) (d : Disk) : SameElse cfg d d := fun _ _ => rfl

theorem SameElse.trans {cfg : Cfg σ} {d1 d2 d3 : Disk} (h1 : SameElse cfg d1 d2) (h2 : SameElse cfg d2 d3) :
    SameElse cfg d1 d3 := fun q hq => (h2 q hq).trans (h1 q hq)

theorem SameElse.set (cfg : Cfg σ) (d : Disk) (c : Bytes) : SameElse cfg d (d.set cfg.path c) :=
  fun q hq => DiskL.get?_set_ne d cfg.path q c hq

/-- the writer is open on the active file, nothing pending, and its counter is the file's size -/
def Opened (cfg : Cfg σ) (s : St σ) (a : Bytes) : Prop :=
  ∃ w, s.writer = some w ∧ w.buf = [] ∧ s.disk.get? cfg.path = some a ∧ w.len = a.length

/-- the writer part of a state between two operations -/
def WFw (cfg : Cfg σ) (s : St σ) : Prop := s.writer = none ∨ ∃ a, Opened cfg s a

/-- state between two operations of a built appender (it has opened its file at least once) -/
def WF (cfg : Cfg σ) (s : St σ) : Prop := s.opened = true ∧ WFw cfg s

/-- the content `get_writer` finds / leaves in the active file -/
def openView (cfg : Cfg σ) (s : St σ) : Bytes :=
  match s.writer with
  | some _ => fileOf cfg s.disk
  | none => if cfg.appendMode || s.opened then fileOf cfg s.disk else []

theorem openView_of_opened (cfg : Cfg σ) (s : St σ) (h : s.opened = true) : openView cfg s = fileOf cfg s.disk := by
  unfold openView
  cases s.writer <;> simp [h]

theorem fileOf_of_get {cfg : Cfg σ} {d : Disk} {a : Bytes} (h : d.get? cfg.path = some a) : fileOf cfg d = a := by
  simp [fileOf, h]

theorem getWriter_opened (cfg : Cfg σ) (s : St σ) (h : s.opened = true ∨ s.writer = none) :
    (getWriter cfg s).1.opened = true := by
  unfold getWriter
  cases hw : s.writer with
  | some w =>
    rcases h with h | h
    · exact h
    · simp [hw] at h
  | none => rfl

theorem getWriter_spec (cfg : Cfg σ) (s : St σ) (hwf : WFw cfg s) :
    Opened cfg (getWriter cfg s).1 (openView cfg s) ∧ (getWriter cfg s).1.writer = some (getWriter cfg s).2 ∧
    SameElse cfg s.disk (getWriter cfg s).1.disk ∧
    (getWriter cfg s).1.tst = s.tst ∧ (getWriter cfg s).1.now = s.now := by
  unfold getWriter openView
  cases hw : s.writer with
  | some w =>
    rcases hwf with h | ⟨a, w', hw', hb, hg, hl⟩
    · simp [hw] at h
    · rw [hw] at hw'
      have : w' = w := (Option.some.inj hw').symm
      subst this
      exact ⟨⟨w', hw, hb, by rw [fileOf_of_get hg]; exact hg, by rw [fileOf_of_get hg]; exact hl⟩, hw,
        SameElse.refl cfg _, rfl, rfl⟩
  | none =>
    refine ⟨⟨_, rfl, rfl, DiskL.get?_set_self _ _ _, ?_⟩, rfl, SameElse.set cfg _ _, rfl, rfl⟩
    by_cases ha : (cfg.appendMode || s.opened) = true <;> simp [ha]

theorem writeAndFlush_spec (cfg : Cfg σ) (s : St σ) (w : Writer) (r : Rec) (a : Bytes)
    (hw : s.writer = some w) (hb : w.buf = []) (hg : s.disk.get? cfg.path = some a) (hl : w.len = a.length) :
    Opened cfg (writeAndFlush cfg s w r).1 (a ++ encBytes r) ∧
    (writeAndFlush cfg s w r).1.writer = some (writeAndFlush cfg s w r).2 ∧
    (writeAndFlush cfg s w r).2.len = (a ++ encBytes r).length ∧
    SameElse cfg s.disk (writeAndFlush cfg s w r).1.disk ∧
    (writeAndFlush cfg s w r).1.tst = s.tst ∧ (writeAndFlush cfg s w r).1.now = s.now ∧
    (writeAndFlush cfg s w r).1.opened = s.opened := by
  have hlog := BufFile.logical_foldl_writeLoop [encBytes r] { disk := a, buf := [] }
  simp only [BufFile.logical, List.append_nil, List.flatten_cons, List.flatten_nil] at hlog
  have hfile : fileOf cfg s.disk = a := fileOf_of_get hg
  simp only [writeAndFlush, writeRec, flushW, hfile, hb]
  have h1 : fileOf cfg (s.disk.set cfg.path (List.foldl BufFile.writeLoop { disk := a, buf := [] } [encBytes r]).disk) =
      (List.foldl BufFile.writeLoop { disk := a, buf := [] } [encBytes r]).disk :=
    fileOf_of_get (DiskL.get?_set_self _ _ _)
  rw [h1, hlog]
  refine ⟨⟨_, rfl, rfl, DiskL.get?_set_self _ _ _, ?_⟩, trivial, ?_, ?_, trivial, trivial, trivial⟩
  · simp [hl, encBytes]
  · simp [hl, encBytes]
  · exact (SameElse.set cfg _ _).trans (SameElse.set cfg _ _)

/-- the result of the roller on the disk `d1` -/
structure Rolled (cfg : Cfg σ) (fault : Nat → Bool) (d1 : Disk) (out : Out) (s' : St σ) : Prop where
  writer : s'.writer = none
  disk : s'.disk = (cfg.roll cfg.path fault d1).2
  result : (∃ x, (cfg.roll cfg.path fault d1).1 = .ok x ∧ out.res = .ok ∧ out.rolled = some true) ∨
           (∃ e, (cfg.roll cfg.path fault d1).1 = .error e ∧ out.res = .errRoll ∧ out.rolled = some false)

theorem process_spec (cfg : Cfg σ) (s : St σ) (a : Bytes) (len : Nat) (fault : Nat → Bool)
    (ho : Opened cfg s a) :
    ∀ p fa, p = process cfg s len fault → fa = cfg.trig.fire s.tst len s.now →
    p.2.2.tst = fa.2 ∧ p.2.2.now = s.now ∧ p.2.2.opened = s.opened ∧
    (fa.1 = .no → p.1 = .ok ∧ p.2.1 = none ∧ Opened cfg p.2.2 a ∧ p.2.2.disk = s.disk) ∧
    (fa.1 = .err → p.1 = .errTrigger ∧ p.2.1 = none ∧ Opened cfg p.2.2 a ∧ p.2.2.disk = s.disk) ∧
    (fa.1 = .yes → ∃ d1, d1.get? cfg.path = some a ∧ SameElse cfg s.disk d1 ∧
        p.2.2.writer = none ∧ p.2.2.disk = (cfg.roll cfg.path fault d1).2 ∧
        ((∃ x, (cfg.roll cfg.path fault d1).1 = .ok x ∧ p.1 = .ok ∧ p.2.1 = some true) ∨
         (∃ e, (cfg.roll cfg.path fault d1).1 = .error e ∧ p.1 = .errRoll ∧ p.2.1 = some false))) := by
  intro p fa hp hfa
  obtain ⟨w, hw, hb, hg, hl⟩ := ho
  unfold process at hp
  rw [← hfa] at hp
  rcases hfa' : fa with ⟨ans, t'⟩
  rw [hfa'] at hp
  cases ans with
  | no =>
    simp only at hp
    subst hp
    exact ⟨rfl, rfl, rfl, fun _ => ⟨rfl, rfl, ⟨w, hw, hb, hg, hl⟩, rfl⟩, fun h => by simp at h, fun h => by simp at h⟩
  | err =>
    simp only at hp
    subst hp
    exact ⟨rfl, rfl, rfl, fun h => by simp at h, fun _ => ⟨rfl, rfl, ⟨w, hw, hb, hg, hl⟩, rfl⟩, fun h => by simp at h⟩
  | yes =>
    simp only [dropWriter, hw, flushW, hb, List.append_nil, fileOf_of_get hg] at hp
    have hd1 : (s.disk.set cfg.path a).get? cfg.path = some a := DiskL.get?_set_self _ _ _
    rcases hroll : cfg.roll cfg.path fault (s.disk.set cfg.path a) with ⟨res, d'⟩
    rw [hroll] at hp
    cases res with
    | ok x =>
      simp only at hp
      subst hp
      refine ⟨rfl, rfl, rfl, fun h => by simp at h, fun h => by simp at h, fun _ => ?_⟩
      exact ⟨_, hd1, SameElse.set cfg _ _, rfl, by simp [hroll], Or.inl ⟨x, by simp [hroll], rfl, rfl⟩⟩
    | error e =>
      simp only at hp
      subst hp
      refine ⟨rfl, rfl, rfl, fun h => by simp at h, fun h => by simp at h, fun _ => ?_⟩
      exact ⟨_, hd1, SameElse.set cfg _ _, rfl, by simp [hroll], Or.inr ⟨e, by simp [hroll], rfl, rfl⟩⟩

/-- What `append` does in pre-process mode. -/
theorem append_pre_spec (cfg : Cfg σ) (s : St σ) (r : Rec) (fault : Nat → Bool) (hwf : WF cfg s)
    (hpre : cfg.trig.pre = true) :
    ∀ a0 fa out s', a0 = openView cfg s → fa = cfg.trig.fire s.tst a0.length s.now →
      (out, s') = append cfg s r fault →
    out.consult = some (a0.length, a0.length) ∧ s'.tst = fa.2 ∧ s'.now = s.now ∧ s'.opened = true ∧
    (fa.1 = .no → out.res = .ok ∧ out.rolled = none ∧ Opened cfg s' (a0 ++ encBytes r) ∧ SameElse cfg s.disk s'.disk) ∧
    (fa.1 = .err → out.res = .errTrigger ∧ out.rolled = none ∧ Opened cfg s' a0 ∧ SameElse cfg s.disk s'.disk) ∧
    (fa.1 = .yes → ∃ d1, d1.get? cfg.path = some a0 ∧ SameElse cfg s.disk d1 ∧
        ((∃ x, (cfg.roll cfg.path fault d1).1 = .ok x ∧ out.res = .ok ∧ out.rolled = some true ∧
            Opened cfg s' (fileOf cfg (cfg.roll cfg.path fault d1).2 ++ encBytes r) ∧
            SameElse cfg (cfg.roll cfg.path fault d1).2 s'.disk) ∨
         (∃ e, (cfg.roll cfg.path fault d1).1 = .error e ∧ out.res = .errRoll ∧ out.rolled = some false ∧
            s'.writer = none ∧ s'.disk = (cfg.roll cfg.path fault d1).2))) := by
  intro a0 fa out s' ha0 hfa hout
  subst ha0
  obtain ⟨ho, hw1, hse1, ht1, hn1⟩ := getWriter_spec cfg s hwf.2
  have hop1 : (getWriter cfg s).1.opened = true := getWriter_opened cfg s (Or.inl hwf.1)
  have hlen : (getWriter cfg s).2.len = (openView cfg s).length := by
    obtain ⟨w, hw, _, _, hl⟩ := ho
    rw [hw1] at hw
    rw [Option.some.inj hw]
    exact hl
  have hfile : (fileOf cfg (getWriter cfg s).1.disk).length = (openView cfg s).length := by
    obtain ⟨_, _, _, hg, _⟩ := ho
    rw [fileOf_of_get hg]
  have hps := process_spec cfg (getWriter cfg s).1 (openView cfg s) (openView cfg s).length fault ho _ fa rfl
    (by rw [hfa, ht1, hn1])
  obtain ⟨hpt, hpn, hpo, hno, herr, hyes⟩ := hps
  rw [hn1] at hpn
  rw [hop1] at hpo
  unfold append at hout
  simp only [hpre, if_true, hlen, hfile] at hout
  rcases hproc : process cfg (getWriter cfg s).1 (openView cfg s).length fault with ⟨res, rolled, s3⟩
  rw [hproc] at hout hpt hpn hpo hno herr hyes
  simp only at hpt hpn hpo hno herr hyes
  cases hans : fa.1 with
  | no =>
    obtain ⟨hr, hro, ho3, hd3⟩ := hno hans
    subst hr
    simp only at hout
    have hwf3 : WFw cfg s3 := Or.inr ⟨_, ho3⟩
    obtain ⟨ho4, hw4, hse4, ht4, hn4⟩ := getWriter_spec cfg s3 hwf3
    have hop4 : (getWriter cfg s3).1.opened = true := getWriter_opened cfg s3 (Or.inl hpo)
    have hov : openView cfg s3 = openView cfg s := by
      obtain ⟨w, hw, _, hg, _⟩ := ho3
      simp [openView, hw, fileOf_of_get hg]
    rw [hov] at ho4
    obtain ⟨w4, hw4', hb4, hg4, hl4⟩ := ho4
    have hw44 : (getWriter cfg s3).2 = w4 := by
      rw [hw4] at hw4'
      exact Option.some.inj hw4'
    obtain ⟨ho5, _, _, hse5, ht5, hn5, hop5⟩ := writeAndFlush_spec cfg (getWriter cfg s3).1 w4 r _ hw4' hb4 hg4 hl4
    rw [← hw44] at ho5 hse5 ht5 hn5 hop5
    have e1 : out = { res := .ok, consult := some ((openView cfg s).length, (openView cfg s).length), rolled := rolled } := (Prod.mk.inj hout).1
    have e2 : s' = (writeAndFlush cfg (getWriter cfg s3).1 (getWriter cfg s3).2 r).1 := (Prod.mk.inj hout).2
    refine ⟨by rw [e1], by rw [e2, ht5, ht4, hpt], by rw [e2, hn5, hn4, hpn], by rw [e2, hop5, hop4], ?_,
      fun h => by simp [hans] at h, fun h => by simp [hans] at h⟩
    intro _
    refine ⟨by rw [e1], by rw [e1, hro], by rw [e2]; exact ho5, ?_⟩
    rw [e2]
    exact (hse1.trans (hd3 ▸ SameElse.refl cfg _)).trans (hse4.trans hse5)
  | err =>
    obtain ⟨hr, hro, ho3, hd3⟩ := herr hans
    subst hr
    simp only at hout
    have e1 : out = { res := .errTrigger, consult := some ((openView cfg s).length, (openView cfg s).length), rolled := rolled } := (Prod.mk.inj hout).1
    have e2 : s' = s3 := (Prod.mk.inj hout).2
    refine ⟨by rw [e1], by rw [e2, hpt], by rw [e2, hpn], by rw [e2, hpo], fun h => by simp [hans] at h, ?_,
      fun h => by simp [hans] at h⟩
    intro _
    exact ⟨by rw [e1], by rw [e1, hro], by rw [e2]; exact ho3, by rw [e2, hd3]; exact hse1⟩
  | yes =>
    obtain ⟨d1, hg1, hsd1, hw3, hd3, hres⟩ := hyes hans
    rcases hres with ⟨x, hrx, hr, hro⟩ | ⟨e, hre, hr, hro⟩
    · subst hr
      simp only at hout
      have hwf3 : WFw cfg s3 := Or.inl hw3
      obtain ⟨ho4, hw4, hse4, ht4, hn4⟩ := getWriter_spec cfg s3 hwf3
      have hop4 : (getWriter cfg s3).1.opened = true := getWriter_opened cfg s3 (Or.inl hpo)
      have hov : openView cfg s3 = fileOf cfg (cfg.roll cfg.path fault d1).2 := by
        rw [openView_of_opened cfg s3 hpo, hd3]
      rw [hov] at ho4
      obtain ⟨w4, hw4', hb4, hg4, hl4⟩ := ho4
      have hw44 : (getWriter cfg s3).2 = w4 := by
        rw [hw4] at hw4'
        exact Option.some.inj hw4'
      obtain ⟨ho5, _, _, hse5, ht5, hn5, hop5⟩ := writeAndFlush_spec cfg (getWriter cfg s3).1 w4 r _ hw4' hb4 hg4 hl4
      rw [← hw44] at ho5 hse5 ht5 hn5 hop5
      have e1 : out = { res := .ok, consult := some ((openView cfg s).length, (openView cfg s).length), rolled := rolled } := (Prod.mk.inj hout).1
      have e2 : s' = (writeAndFlush cfg (getWriter cfg s3).1 (getWriter cfg s3).2 r).1 := (Prod.mk.inj hout).2
      refine ⟨by rw [e1], by rw [e2, ht5, ht4, hpt], by rw [e2, hn5, hn4, hpn], by rw [e2, hop5, hop4],
        fun h => by simp [hans] at h, fun h => by simp [hans] at h, fun _ => ?_⟩
      refine ⟨d1, hg1, hse1.trans hsd1, Or.inl ⟨x, hrx, by rw [e1], by rw [e1, hro], by rw [e2]; exact ho5, ?_⟩⟩
      rw [e2, ← hd3]
      exact hse4.trans hse5
    · subst hr
      simp only at hout
      have e1 : out = { res := .errRoll, consult := some ((openView cfg s).length, (openView cfg s).length), rolled := rolled } := (Prod.mk.inj hout).1
      have e2 : s' = s3 := (Prod.mk.inj hout).2
      refine ⟨by rw [e1], by rw [e2, hpt], by rw [e2, hpn], by rw [e2, hpo], fun h => by simp [hans] at h,
        fun h => by simp [hans] at h, fun _ => ?_⟩
      exact ⟨d1, hg1, hse1.trans hsd1, Or.inr ⟨e, hre, by rw [e1], by rw [e1, hro], by rw [e2]; exact hw3, by rw [e2]; exact hd3⟩⟩

/-- What an append whose encoder fails does in pre-process mode (code after 9f38f0b): the policy
runs and the writer is (re)opened exactly as for a successful append, then nothing is written. -/
theorem appendFail_pre_spec (cfg : Cfg σ) (s : St σ) (r : Rec) (n : Nat) (fault : Nat → Bool) (hwf : WF cfg s)
    (hpre : cfg.trig.pre = true) :
    ∀ a0 fa out s', a0 = openView cfg s → fa = cfg.trig.fire s.tst a0.length s.now →
      (out, s') = appendFail cfg s r n fault →
    out.consult = some (a0.length, a0.length) ∧ s'.tst = fa.2 ∧ s'.now = s.now ∧ s'.opened = true ∧
    (fa.1 = .no → out.res = .errEncode ∧ out.rolled = none ∧ Opened cfg s' a0 ∧ SameElse cfg s.disk s'.disk) ∧
    (fa.1 = .err → out.res = .errTrigger ∧ out.rolled = none ∧ Opened cfg s' a0 ∧ SameElse cfg s.disk s'.disk) ∧
    (fa.1 = .yes → ∃ d1, d1.get? cfg.path = some a0 ∧ SameElse cfg s.disk d1 ∧
        ((∃ x, (cfg.roll cfg.path fault d1).1 = .ok x ∧ out.res = .errEncode ∧ out.rolled = some true ∧
            Opened cfg s' (fileOf cfg (cfg.roll cfg.path fault d1).2) ∧
            SameElse cfg (cfg.roll cfg.path fault d1).2 s'.disk) ∨
         (∃ e, (cfg.roll cfg.path fault d1).1 = .error e ∧ out.res = .errRoll ∧ out.rolled = some false ∧
            s'.writer = none ∧ s'.disk = (cfg.roll cfg.path fault d1).2))) := by
  intro a0 fa out s' ha0 hfa hout
  subst ha0
  obtain ⟨ho, hw1, hse1, ht1, hn1⟩ := getWriter_spec cfg s hwf.2
  have hop1 : (getWriter cfg s).1.opened = true := getWriter_opened cfg s (Or.inl hwf.1)
  have hlen : (getWriter cfg s).2.len = (openView cfg s).length := by
    obtain ⟨w, hw, _, _, hl⟩ := ho
    rw [hw1] at hw
    rw [Option.some.inj hw]
    exact hl
  have hfile : (fileOf cfg (getWriter cfg s).1.disk).length = (openView cfg s).length := by
    obtain ⟨_, _, _, hg, _⟩ := ho
    rw [fileOf_of_get hg]
  have hps := process_spec cfg (getWriter cfg s).1 (openView cfg s) (openView cfg s).length fault ho _ fa rfl
    (by rw [hfa, ht1, hn1])
  obtain ⟨hpt, hpn, hpo, hno, herr, hyes⟩ := hps
  rw [hn1] at hpn
  rw [hop1] at hpo
  unfold appendFail at hout
  simp only [hpre, if_true, hlen, hfile] at hout
  rcases hproc : process cfg (getWriter cfg s).1 (openView cfg s).length fault with ⟨res, rolled, s3⟩
  rw [hproc] at hout hpt hpn hpo hno herr hyes
  simp only at hpt hpn hpo hno herr hyes
  cases hans : fa.1 with
  | no =>
    obtain ⟨hr, hro, ho3, hd3⟩ := hno hans
    subst hr
    simp only at hout
    have hwf3 : WFw cfg s3 := Or.inr ⟨_, ho3⟩
    obtain ⟨ho4, _, hse4, ht4, hn4⟩ := getWriter_spec cfg s3 hwf3
    have hop4 : (getWriter cfg s3).1.opened = true := getWriter_opened cfg s3 (Or.inl hpo)
    have hov : openView cfg s3 = openView cfg s := by
      obtain ⟨w, hw, _, hg, _⟩ := ho3
      simp [openView, hw, fileOf_of_get hg]
    rw [hov] at ho4
    have e1 : out = { res := .errEncode, consult := some ((openView cfg s).length, (openView cfg s).length), rolled := rolled } := (Prod.mk.inj hout).1
    have e2 : s' = (getWriter cfg s3).1 := (Prod.mk.inj hout).2
    refine ⟨by rw [e1], by rw [e2, ht4, hpt], by rw [e2, hn4, hpn], by rw [e2, hop4], ?_,
      fun h => by simp [hans] at h, fun h => by simp [hans] at h⟩
    intro _
    refine ⟨by rw [e1], by rw [e1, hro], by rw [e2]; exact ho4, ?_⟩
    rw [e2]
    exact (hse1.trans (hd3 ▸ SameElse.refl cfg _)).trans hse4
  | err =>
    obtain ⟨hr, hro, ho3, hd3⟩ := herr hans
    subst hr
    simp only at hout
    have e1 : out = { res := .errTrigger, consult := some ((openView cfg s).length, (openView cfg s).length), rolled := rolled } := (Prod.mk.inj hout).1
    have e2 : s' = s3 := (Prod.mk.inj hout).2
    refine ⟨by rw [e1], by rw [e2, hpt], by rw [e2, hpn], by rw [e2, hpo], fun h => by simp [hans] at h, ?_,
      fun h => by simp [hans] at h⟩
    intro _
    exact ⟨by rw [e1], by rw [e1, hro], by rw [e2]; exact ho3, by rw [e2, hd3]; exact hse1⟩
  | yes =>
    obtain ⟨d1, hg1, hsd1, hw3, hd3, hres⟩ := hyes hans
    rcases hres with ⟨x, hrx, hr, hro⟩ | ⟨e, hre, hr, hro⟩
    · subst hr
      simp only at hout
      have hwf3 : WFw cfg s3 := Or.inl hw3
      obtain ⟨ho4, _, hse4, ht4, hn4⟩ := getWriter_spec cfg s3 hwf3
      have hop4 : (getWriter cfg s3).1.opened = true := getWriter_opened cfg s3 (Or.inl hpo)
      have hov : openView cfg s3 = fileOf cfg (cfg.roll cfg.path fault d1).2 := by
        rw [openView_of_opened cfg s3 hpo, hd3]
      rw [hov] at ho4
      have e1 : out = { res := .errEncode, consult := some ((openView cfg s).length, (openView cfg s).length), rolled := rolled } := (Prod.mk.inj hout).1
      have e2 : s' = (getWriter cfg s3).1 := (Prod.mk.inj hout).2
      refine ⟨by rw [e1], by rw [e2, ht4, hpt], by rw [e2, hn4, hpn], by rw [e2, hop4],
        fun h => by simp [hans] at h, fun h => by simp [hans] at h, fun _ => ?_⟩
      refine ⟨d1, hg1, hse1.trans hsd1, Or.inl ⟨x, hrx, by rw [e1], by rw [e1, hro], by rw [e2]; exact ho4, ?_⟩⟩
      rw [e2, ← hd3]
      exact hse4
    · subst hr
      simp only at hout
      have e1 : out = { res := .errRoll, consult := some ((openView cfg s).length, (openView cfg s).length), rolled := rolled } := (Prod.mk.inj hout).1
      have e2 : s' = s3 := (Prod.mk.inj hout).2
      refine ⟨by rw [e1], by rw [e2, hpt], by rw [e2, hpn], by rw [e2, hpo], fun h => by simp [hans] at h,
        fun h => by simp [hans] at h, fun _ => ?_⟩
      exact ⟨d1, hg1, hse1.trans hsd1, Or.inr ⟨e, hre, by rw [e1], by rw [e1, hro], by rw [e2]; exact hw3, by rw [e2]; exact hd3⟩⟩

/-- … and in post-process mode: only `get_writer` has happened -/
theorem appendFail_post_spec (cfg : Cfg σ) (s : St σ) (r : Rec) (n : Nat) (fault : Nat → Bool) (hwf : WF cfg s)
    (hpre : cfg.trig.pre = false) :
    (appendFail cfg s r n fault).1 = { res := .errEncode, consult := none, rolled := none } ∧
    Opened cfg (appendFail cfg s r n fault).2 (openView cfg s) ∧
    SameElse cfg s.disk (appendFail cfg s r n fault).2.disk ∧
    (appendFail cfg s r n fault).2.tst = s.tst ∧ (appendFail cfg s r n fault).2.now = s.now ∧
    (appendFail cfg s r n fault).2.opened = true := by
  obtain ⟨ho, _, hse1, ht1, hn1⟩ := getWriter_spec cfg s hwf.2
  have hop1 : (getWriter cfg s).1.opened = true := getWriter_opened cfg s (Or.inl hwf.1)
  have h : appendFail cfg s r n fault = ({ res := .errEncode, consult := none, rolled := none }, (getWriter cfg s).1) := by
    simp [appendFail, hpre]
  rw [h]
  exact ⟨rfl, ho, hse1, ht1, hn1, hop1⟩

/-- What `append` does in post-process mode. -/
theorem append_post_spec (cfg : Cfg σ) (s : St σ) (r : Rec) (fault : Nat → Bool) (hwf : WF cfg s)
    (hpre : cfg.trig.pre = false) :
    ∀ a1 fa out s', a1 = openView cfg s ++ encBytes r → fa = cfg.trig.fire s.tst a1.length s.now →
      (out, s') = append cfg s r fault →
    out.consult = some (a1.length, a1.length) ∧ s'.tst = fa.2 ∧ s'.now = s.now ∧ s'.opened = true ∧
    (fa.1 = .no → out.res = .ok ∧ out.rolled = none ∧ Opened cfg s' a1 ∧ SameElse cfg s.disk s'.disk) ∧
    (fa.1 = .err → out.res = .errTrigger ∧ out.rolled = none ∧ Opened cfg s' a1 ∧ SameElse cfg s.disk s'.disk) ∧
    (fa.1 = .yes → ∃ d1, d1.get? cfg.path = some a1 ∧ SameElse cfg s.disk d1 ∧
        s'.writer = none ∧ s'.disk = (cfg.roll cfg.path fault d1).2 ∧
        ((∃ x, (cfg.roll cfg.path fault d1).1 = .ok x ∧ out.res = .ok ∧ out.rolled = some true) ∨
         (∃ e, (cfg.roll cfg.path fault d1).1 = .error e ∧ out.res = .errRoll ∧ out.rolled = some false))) := by
  intro a1 fa out s' ha1 hfa hout
  obtain ⟨ho, hw1, hse1, ht1, hn1⟩ := getWriter_spec cfg s hwf.2
  have hop1 : (getWriter cfg s).1.opened = true := getWriter_opened cfg s (Or.inl hwf.1)
  obtain ⟨w, hw, hb, hg, hl⟩ := ho
  have hww : (getWriter cfg s).2 = w := by
    rw [hw1] at hw
    exact Option.some.inj hw
  obtain ⟨ho2, hw2, hlen2, hse2, ht2, hn2, hop2⟩ := writeAndFlush_spec cfg (getWriter cfg s).1 w r _ hw hb hg hl
  rw [← hww] at ho2 hw2 hlen2 hse2 ht2 hn2 hop2
  rw [← ha1] at ho2 hlen2
  have hfile : (fileOf cfg (writeAndFlush cfg (getWriter cfg s).1 (getWriter cfg s).2 r).1.disk).length = a1.length := by
    obtain ⟨_, _, _, hg2, _⟩ := ho2
    rw [fileOf_of_get hg2]
  have hps := process_spec cfg (writeAndFlush cfg (getWriter cfg s).1 (getWriter cfg s).2 r).1 a1 a1.length fault ho2 _ fa rfl
    (by rw [hfa, ht2, hn2, ht1, hn1])
  obtain ⟨hpt, hpn, hpo, hno, herr, hyes⟩ := hps
  rw [hn2, hn1] at hpn
  rw [hop2, hop1] at hpo
  unfold append at hout
  simp only [hpre, Bool.false_eq_true, if_false, hlen2, hfile] at hout
  rcases hproc : process cfg (writeAndFlush cfg (getWriter cfg s).1 (getWriter cfg s).2 r).1 a1.length fault with ⟨res, rolled, s3⟩
  rw [hproc] at hout hpt hpn hpo hno herr hyes
  simp only at hpt hpn hpo hno herr hyes
  have e1 : out = { res := res, consult := some (a1.length, a1.length), rolled := rolled } := (Prod.mk.inj hout).1
  have e2 : s' = s3 := (Prod.mk.inj hout).2
  refine ⟨by rw [e1], by rw [e2, hpt], by rw [e2, hpn], by rw [e2, hpo], ?_, ?_, ?_⟩
  · intro h
    obtain ⟨hr, hro, ho3, hd3⟩ := hno h
    exact ⟨by rw [e1, hr], by rw [e1, hro], by rw [e2]; exact ho3, by rw [e2, hd3]; exact hse1.trans hse2⟩
  · intro h
    obtain ⟨hr, hro, ho3, hd3⟩ := herr h
    exact ⟨by rw [e1, hr], by rw [e1, hro], by rw [e2]; exact ho3, by rw [e2, hd3]; exact hse1.trans hse2⟩
  · intro h
    obtain ⟨d1, hg1, hsd1, hw3, hd3, hres⟩ := hyes h
    refine ⟨d1, hg1, (hse1.trans hse2).trans hsd1, by rw [e2]; exact hw3, by rw [e2]; exact hd3, ?_⟩
    rcases hres with ⟨x, hrx, hr, hro⟩ | ⟨e, hre, hr, hro⟩
    · exact Or.inl ⟨x, hrx, by rw [e1, hr], by rw [e1, hro]⟩
    · exact Or.inr ⟨e, hre, by rw [e1, hr], by rw [e1, hro]⟩

end Log4rs.Rolling
