import Log4rsModel.Rolling.Model
import Log4rsModel.Rolling.Spec
/-
C17 — the statement as an executable function on what a reader of the directory sees.

`Spec17.step` is evaluated by `Driver/C17.lean` on the REAL directory after every operation, and
`Properties/C17.lean` proves that the model's `traceX` refines it (`C17_model_refines_spec`), so
(P) and (S) are one formalisation, not two that meet on samples.

State of the statement (`Expect`): the retention window slot by slot (`slots[i]` = decoded content of
archive `base+i`, `none` = no such file — pre-existing windows may have gaps), the active file,
whether the appender is still waiting for its first record, and whether the log file exists.

Reading decisions (listed in props.d/C17.json):
* "the log file that existed at that moment" = the file as the new appender's open left it
  (append mode: the old content; truncate mode: empty);
* the first record to ARRIVE decides, also when its encoder then fails (the policy runs first);
* "becomes the newest archive" = slot `base` holds the old content and every older archive has
  moved up by one slot (`rotateSlots`; C07's statement of the fixed-window rotation, gaps
  included: an empty slot is passed on upwards, except that the last slot keeps its content when
  the slot below it is empty); on a dense window this is `Spec.rotateWindow` (`rotateSlots_dense`);
* when the one rotation FAILS the statement says nothing about the directory; the function then
  describes the image C08 proves safe: a rotation stopped before step `k` has performed the first
  `k` shifts (`shifted`), the log file is untouched, the record is not written, and the request is
  never repeated; a roller that reports `Err` after doing all its work leaves the rotated window
  and no log file.
-/
namespace Log4rs.Rolling.Spec17
open Log4rs.Rolling

/-- fault index meaning "the roller does all its work and then reports `Err`" (the harness's
roller wrapper; the same number as `Driver.C05.LATE`) -/
def LATE : Nat := 1000000

/-- the harness's roller wrapper in front of a model roller -/
def lateWrap (roll : RollFn) : RollFn := fun p f d =>
  if f LATE then
    match roll p (fun _ => false) d with
    | (.ok _, d') => (.error (.injected LATE), d')
    | e => e
  else roll p f d

/-- how the roller is made to behave while this record is handled (an input of the case) -/
inductive Mood where
  | works
  | failsAt (k : Nat)     -- step `k` of the rotation fails, the disk unchanged by that step
  | late                  -- all the work is done, then `Err` is reported
  deriving Repr, DecidableEq

inductive Ev where
  | arrive (rec : Bytes) (encFails : Bool) (mood : Mood)
  | restart
  | tick
  deriving Repr, DecidableEq

def moodOf : Option Nat → Mood
  | none => .works
  | some k => if k = LATE then .late else .failsAt k

def evOf : XOp → Ev
  | .op (.append r f) => .arrive (encBytes r) false (moodOf f)
  | .appendFail r _ f => .arrive (encBytes r) true (moodOf f)
  | .op .restart => .restart
  | .op (.tick _) => .tick

structure Expect where
  slots : List (Option Bytes)
  active : Bytes
  first : Bool
  present : Bool := true
  deriving Repr, DecidableEq

/-- what the operation reports besides the directory -/
structure Verdict where
  /-- rotation requests (`Roll::roll` invocations) while the record is handled -/
  calls : Nat
  /-- `append` returns `Ok` -/
  ok : Bool
  deriving Repr, DecidableEq

def slotAt (slots : List (Option Bytes)) (i : Nat) : Option Bytes := (slots[i]?).join

/-- the window after the first `p` shifts of a rotation (`count-2 → count-1` first): below
`count-1-p` nothing has moved yet; slot `count-1-p` has been moved away (`p ≥ 1`); above it every
slot holds what the slot below it held, the last slot keeping its own content when that was empty -/
def shifted (count p : Nat) (slots : List (Option Bytes)) : List (Option Bytes) :=
  (List.range count).map fun i =>
    if i < count - 1 - p then slotAt slots i
    else if i = count - 1 - p then (if p = 0 then slotAt slots i else none)
    else match slotAt slots (i - 1) with
      | some y => some y
      | none => if i = count - 1 then slotAt slots i else none

/-- the whole rotation: all `count-1` shifts, then the rolled content goes to slot `base` -/
def rotateSlots (count : Nat) (slots : List (Option Bytes)) (x : Bytes) : List (Option Bytes) :=
  (shifted count (count - 1) slots).set 0 (some x)

/-- a dense window (newest first) as slots -/
def ofWindow (count : Nat) (ws : List Bytes) : List (Option Bytes) :=
  (List.range count).map fun i => ws[i]?

/-- number of steps of one rotation (`count = 0` and the delete roller: one `remove_file`) -/
def nSteps (count : Nat) : Nat := if count = 0 then 1 else count

inductive Outcome where
  | done
  | doneErr
  | stopped (p : Nat)
  deriving Repr, DecidableEq

def outcomeOf (count : Nat) : Mood → Outcome
  | .works => .done
  | .late => .doneErr
  | .failsAt k => if k < nSteps count then .stopped k else .done

/-- is this the record that requests the rotation? -/
def rollsNow (minSize : Nat) (x : Expect) : Bool := x.first && decide (x.active.length ≥ minSize)

/-- one operation, as the statement reads it -/
def step (count minSize : Nat) (am : Bool) (x : Expect) : Ev → Expect × Option Verdict
  | .tick => (x, none)
  | .restart => ({ x with active := if am then x.active else [], first := true, present := true }, none)
  | .arrive rec encFails mood =>
    if rollsNow minSize x then
      match outcomeOf count mood with
      | .done =>
        ({ slots := rotateSlots count x.slots x.active, active := if encFails then [] else rec, first := false, present := true },
         some { calls := 1, ok := !encFails })
      | .doneErr =>
        ({ slots := rotateSlots count x.slots x.active, active := [], first := false, present := false },
         some { calls := 1, ok := false })
      | .stopped p =>
        ({ x with slots := shifted count p x.slots, first := false }, some { calls := 1, ok := false })
    else
      ({ x with active := if encFails then x.active else x.active ++ rec, first := false, present := true },
       some { calls := 0, ok := !encFails })

/-- the states and verdicts after every operation of a history -/
def trace (count minSize : Nat) (am : Bool) (x : Expect) : List Ev → List (Expect × Option Verdict)
  | [] => []
  | e :: es => step count minSize am x e :: trace count minSize am (step count minSize am x e).1 es

/-- the statement's state after a whole history -/
def final (count minSize : Nat) (am : Bool) (x : Expect) (evs : List Ev) : Expect :=
  evs.foldl (fun x e => (step count minSize am x e).1) x

end Log4rs.Rolling.Spec17
