import Log4rsModel.Rolling.Ext17Lemmas
/-
Refinement: the model's rolling appender with an on-start-up trigger and the (wrapped)
fixed-window roller, run on any disk, refines `Spec17.step` — directory (log file, window slots,
everything else), number of rotation requests and result of every operation. The delete roller is
the instance `count = 0`.
-/
namespace Log4rs.Rolling
open Log4rs.Roller

/-- paths that are neither the log file nor a window slot -/
def Outside (r : RollerCfg) (path q : Path) : Prop := q ≠ path ∧ ∀ j, j < r.count → q ≠ r.nameOf (r.base + j)

/-- the fault-free rotation of a log file holding `a0` -/
theorem roll_free (r : RollerCfg) (decode : Bytes → Bytes) (hdec : ∀ x, decode (r.codec x) = x) (path : Path)
    (hinj : r.count ≠ 0 → NamesInj r) (hfa : r.count ≠ 0 → FileApart r path)
    (d1 : Disk) (a0 : Bytes) (h : d1.get? path = some a0) :
    ∃ d', fixedWindowRoll r path (fun _ => false) d1 = (.ok d', d') ∧ d'.get? path = none ∧
      slotsOf r decode d' = Spec17.rotateSlots r.count (slotsOf r decode d1) a0 := by
  by_cases hc : r.count = 0
  · refine ⟨d1.erase path, ?_, DiskL.get?_erase_self _ _, ?_⟩
    · rw [fixedWindowRoll_zero r hc path _ d1 a0 h]; rfl
    · simp [slotsOf, hc, Spec17.rotateSlots, Spec17.shifted]
  · obtain ⟨d', hroll, hq⟩ := fixedWindowRoll_ok r path d1 a0 hc (hfa hc) h
    refine ⟨d', hroll, ?_, slotsOf_rotated r decode hdec (hinj hc) path (hfa hc) hc d1 d' a0 hq⟩
    rw [hq, if_neg (fun e => (hfa hc r.base) e.symm), if_pos rfl]

/-- what the wrapped roller returns and leaves, by the `Spec17.Outcome` of the operation -/
structure RollOutcome (r : RollerCfg) (decode : Bytes → Bytes) (path : Path) (d1 : Disk) (a0 : Bytes) (f : Option Nat)
    (res : Except FsErr Disk) (d' : Disk) : Prop where
  frame : ∀ q, Outside r path q → d'.get? q = d1.get? q
  done : Spec17.outcomeOf r.count (Spec17.moodOf f) = .done →
    (∃ x, res = .ok x) ∧ d'.get? path = none ∧ slotsOf r decode d' = Spec17.rotateSlots r.count (slotsOf r decode d1) a0
  doneErr : Spec17.outcomeOf r.count (Spec17.moodOf f) = .doneErr →
    (∃ e, res = .error e) ∧ d'.get? path = none ∧ slotsOf r decode d' = Spec17.rotateSlots r.count (slotsOf r decode d1) a0
  stopped : ∀ p, Spec17.outcomeOf r.count (Spec17.moodOf f) = .stopped p →
    (∃ e, res = .error e) ∧ d'.get? path = some a0 ∧ slotsOf r decode d' = Spec17.shifted r.count p (slotsOf r decode d1)

theorem lateWrap_disk (roll : RollFn) (p : Path) (f : Nat → Bool) (d : Disk) :
    ∃ g, (Spec17.lateWrap roll p f d).2 = (roll p g d).2 := by
  unfold Spec17.lateWrap
  by_cases hf : f Spec17.LATE
  · refine ⟨fun _ => false, ?_⟩
    simp only [hf, if_true]
    rcases roll p (fun _ => false) d with ⟨res, d'⟩
    cases res <;> rfl
  · exact ⟨f, by simp [hf]⟩

theorem roll_outcome (r : RollerCfg) (decode : Bytes → Bytes) (hdec : ∀ x, decode (r.codec x) = x) (path : Path)
    (hinj : r.count ≠ 0 → NamesInj r) (hfa : r.count ≠ 0 → FileApart r path)
    (d1 : Disk) (a0 : Bytes) (h : d1.get? path = some a0) (f : Option Nat) :
    RollOutcome r decode path d1 a0 f
      (Spec17.lateWrap (fixedWindowRoll r) path (faultFn f) d1).1
      (Spec17.lateWrap (fixedWindowRoll r) path (faultFn f) d1).2 := by
  have hframe : ∀ q, Outside r path q →
      (Spec17.lateWrap (fixedWindowRoll r) path (faultFn f) d1).2.get? q = d1.get? q := by
    intro q hq
    obtain ⟨g, hg⟩ := lateWrap_disk (fixedWindowRoll r) path (faultFn f) d1
    rw [hg]
    apply fixedWindowRoll_frame r path g d1 q hq.1
    intro i h1 h2
    have := hq.2 (i - r.base) (by omega)
    rwa [show r.base + (i - r.base) = i from by omega] at this
  obtain ⟨d', hfree, hgone, hslots⟩ := roll_free r decode hdec path hinj hfa d1 a0 h
  cases f with
  | none =>
    have hw : Spec17.lateWrap (fixedWindowRoll r) path (faultFn none) d1 = (.ok d', d') := by
      simp [Spec17.lateWrap, faultFn_none, hfree]
    rw [hw] at hframe ⊢
    exact ⟨hframe, fun _ => ⟨⟨_, rfl⟩, hgone, hslots⟩, fun h => by simp [Spec17.outcomeOf, Spec17.moodOf] at h,
      fun p h => by simp [Spec17.outcomeOf, Spec17.moodOf] at h⟩
  | some k =>
    by_cases hk : k = Spec17.LATE
    · subst hk
      have hw : Spec17.lateWrap (fixedWindowRoll r) path (faultFn (some Spec17.LATE)) d1 =
          (.error (.injected Spec17.LATE), d') := by
        simp [Spec17.lateWrap, faultFn, hfree]
      rw [hw] at hframe ⊢
      exact ⟨hframe, fun h => by simp [Spec17.outcomeOf, Spec17.moodOf] at h, fun _ => ⟨⟨_, rfl⟩, hgone, hslots⟩,
        fun p h => by simp [Spec17.outcomeOf, Spec17.moodOf] at h⟩
    · have hpass : Spec17.lateWrap (fixedWindowRoll r) path (faultFn (some k)) d1 =
          fixedWindowRoll r path (faultFn (some k)) d1 := by
        have : faultFn (some k) Spec17.LATE = false := by simp [faultFn, hk]
        simp [Spec17.lateWrap, this]
      have hmood : Spec17.moodOf (some k) = .failsAt k := by simp [Spec17.moodOf, hk]
      rw [hpass] at hframe ⊢
      by_cases hlt : k < Spec17.nSteps r.count
      · have hout : Spec17.outcomeOf r.count (Spec17.moodOf (some k)) = .stopped k := by
          rw [hmood]; simp [Spec17.outcomeOf, hlt]
        refine ⟨hframe, (fun h => by rw [hout] at h; cases h), (fun h => by rw [hout] at h; cases h), fun p hp => ?_⟩
        rw [hout] at hp
        have hpk : k = p := by injection hp
        subst hpk
        by_cases hc : r.count = 0
        · have hk0 : k = 0 := by simp [Spec17.nSteps, hc] at hlt; exact hlt
          subst hk0
          rw [fixedWindowRoll_zero r hc path _ d1 a0 h]
          have : faultFn (some 0) 0 = true := by simp [faultFn]
          simp only [this, if_true]
          exact ⟨⟨_, rfl⟩, h, by simp [slotsOf, hc, Spec17.shifted]⟩
        · have hkc : k < r.count := by simpa [Spec17.nSteps, hc] using hlt
          rw [fixedWindowRoll_fault r path d1 k hkc]
          refine ⟨⟨_, rfl⟩, ?_, slotsOf_applyShifts r decode (hinj hc) k hkc d1⟩
          show (applyShifts { r with base := r.base + (r.count - 1 - k) } k d1).get? path = some a0
          rw [get?_applyShifts_other { r with base := r.base + (r.count - 1 - k) } k d1 path (fun j _ => ((hfa hc) _).symm)]
          exact h
      · have hout : Spec17.outcomeOf r.count (Spec17.moodOf (some k)) = .done := by
          rw [hmood]; simp [Spec17.outcomeOf, hlt]
        rw [fixedWindowRoll_fault_beyond r path d1 k (by omega), hfree] at hframe ⊢
        exact ⟨hframe, fun _ => ⟨⟨_, rfl⟩, hgone, hslots⟩, (fun h => by rw [hout] at h; cases h),
          (fun p h => by rw [hout] at h; cases h)⟩

/-- the directory of the model state is the one the statement describes -/
structure Agrees (r : RollerCfg) (decode : Bytes → Bytes) (path : Path) (d0 : Disk) (x : Spec17.Expect) (s : St Bool) : Prop where
  file : s.disk.get? path = if x.present then some x.active else none
  slots : slotsOf r decode s.disk = x.slots
  frame : ∀ q, Outside r path q → s.disk.get? q = d0.get? q
  tst : s.tst = !x.first
  absent : x.present = false → x.active = []
  firstPresent : x.first = true → x.present = true

/-- verdict of the statement against the model's output of the operation -/
def VerdictOk : Option Spec17.Verdict → Option Out → Prop
  | none, none => True
  | some v, some o => v.calls = (if o.rolled.isSome then 1 else 0) ∧ v.ok = decide (o.res = .ok)
  | _, _ => False

/-- the appender of the tie: on-start-up trigger, wrapped fixed-window roller -/
def fwStartupCfg (r : RollerCfg) (path : Path) (am : Bool) (m : Nat) : Cfg Bool :=
  { path, appendMode := am, trig := onStartupTrigger m, roll := Spec17.lateWrap (fixedWindowRoll r) }

theorem Agrees.fileOf {r : RollerCfg} {decode : Bytes → Bytes} {path : Path} {d0 : Disk} {x : Spec17.Expect} {s : St Bool}
    (h : Agrees r decode path d0 x s) (am : Bool) (m : Nat) : fileOf (fwStartupCfg r path am m) s.disk = x.active := by
  unfold Rolling.fileOf
  show ((s.disk.get? path).getD []) = x.active
  rw [h.file]
  cases hp : x.present with
  | true => rfl
  | false => simp [h.absent hp]

theorem slotsOf_sameElse (r : RollerCfg) (decode : Bytes → Bytes) (path : Path) (hfa : r.count ≠ 0 → FileApart r path)
    (d d' : Disk) (h : ∀ q, q ≠ path → d'.get? q = d.get? q) : slotsOf r decode d' = slotsOf r decode d := by
  apply slotsOf_congr
  intro j hj
  exact h _ (hfa (by omega) _)

/-- the common shape of `append_pre_spec` and `appendFail_pre_spec` for the on-start-up trigger -/
def ArriveSpec (cfg : Cfg Bool) (s : St Bool) (a0 tail : Bytes) (okRes : Res) (fault : Nat → Bool) (rolls : Bool)
    (out : Out) (s' : St Bool) : Prop :=
  s'.tst = true ∧ s'.opened = true ∧
  (rolls = false → out.res = okRes ∧ out.rolled = none ∧ Opened cfg s' (a0 ++ tail) ∧ SameElse cfg s.disk s'.disk) ∧
  (rolls = true → ∃ d1, d1.get? cfg.path = some a0 ∧ SameElse cfg s.disk d1 ∧
    ((∃ y, (cfg.roll cfg.path fault d1).1 = .ok y ∧ out.res = okRes ∧ out.rolled = some true ∧
        Opened cfg s' (fileOf cfg (cfg.roll cfg.path fault d1).2 ++ tail) ∧
        SameElse cfg (cfg.roll cfg.path fault d1).2 s'.disk) ∨
     (∃ e, (cfg.roll cfg.path fault d1).1 = .error e ∧ out.res = .errRoll ∧ out.rolled = some false ∧
        s'.writer = none ∧ s'.disk = (cfg.roll cfg.path fault d1).2)))

theorem startup_fire (m : Nat) (tst : Bool) (len now : Nat) :
    (onStartupTrigger m).fire tst len now = (if !tst && decide (len ≥ m) then .yes else .no, true) := by
  cases tst <;> simp [onStartupTrigger] <;> split <;> simp_all

theorem arriveSpec_append (r : RollerCfg) (path : Path) (am : Bool) (m : Nat) (s : St Bool) (rec : Rec) (fault : Nat → Bool)
    (hwf : WF (fwStartupCfg r path am m) s) :
    let cfg := fwStartupCfg r path am m
    ArriveSpec cfg s (fileOf cfg s.disk) (encBytes rec) .ok fault (!s.tst && decide ((fileOf cfg s.disk).length ≥ m))
      (append cfg s rec fault).1 (append cfg s rec fault).2 := by
  intro cfg
  obtain ⟨_, ht, _, hop, hno, _, hyes⟩ := append_pre_spec cfg s rec fault hwf rfl _ _
    (append cfg s rec fault).1 (append cfg s rec fault).2 rfl rfl rfl
  rw [openView_of_opened cfg s hwf.1] at ht hno hyes
  have hfire := startup_fire m s.tst (fileOf cfg s.disk).length s.now
  have hf : cfg.trig.fire s.tst (fileOf cfg s.disk).length s.now =
      (if !s.tst && decide ((fileOf cfg s.disk).length ≥ m) then .yes else .no, true) := hfire
  rw [hf] at ht hno hyes
  refine ⟨ht, hop, fun hr => ?_, fun hr => ?_⟩
  · exact hno (by simp [hr])
  · exact hyes (by simp [hr])

theorem arriveSpec_appendFail (r : RollerCfg) (path : Path) (am : Bool) (m : Nat) (s : St Bool) (rec : Rec) (n : Nat)
    (fault : Nat → Bool) (hwf : WF (fwStartupCfg r path am m) s) :
    let cfg := fwStartupCfg r path am m
    ArriveSpec cfg s (fileOf cfg s.disk) [] .errEncode fault (!s.tst && decide ((fileOf cfg s.disk).length ≥ m))
      (appendFail cfg s rec n fault).1 (appendFail cfg s rec n fault).2 := by
  intro cfg
  obtain ⟨_, ht, _, hop, hno, _, hyes⟩ := appendFail_pre_spec cfg s rec n fault hwf rfl _ _
    (appendFail cfg s rec n fault).1 (appendFail cfg s rec n fault).2 rfl rfl rfl
  rw [openView_of_opened cfg s hwf.1] at ht hno hyes
  have hf : cfg.trig.fire s.tst (fileOf cfg s.disk).length s.now =
      (if !s.tst && decide ((fileOf cfg s.disk).length ≥ m) then .yes else .no, true) :=
    startup_fire m s.tst (fileOf cfg s.disk).length s.now
  rw [hf] at ht hno hyes
  refine ⟨ht, hop, fun hr => ?_, fun hr => ?_⟩
  · simpa using hno (by simp [hr])
  · simpa using hyes (by simp [hr])

/-- a record arrives: the model state after it is the one the statement describes -/
theorem arrive_refines (r : RollerCfg) (decode : Bytes → Bytes) (hdec : ∀ x, decode (r.codec x) = x) (path : Path)
    (hinj : r.count ≠ 0 → NamesInj r) (hfa : r.count ≠ 0 → FileApart r path) (am : Bool) (m : Nat) (d0 : Disk)
    (x : Spec17.Expect) (s : St Bool) (hag : Agrees r decode path d0 x s)
    (recB tail : Bytes) (okRes : Res) (encFails : Bool) (htail : tail = if encFails then [] else recB)
    (hok : decide (okRes = .ok) = !encFails) (f : Option Nat) (out : Out) (s' : St Bool)
    (hspec : ArriveSpec (fwStartupCfg r path am m) s x.active tail okRes (faultFn f) (Spec17.rollsNow m x) out s') :
    Agrees r decode path d0 (Spec17.step r.count m am x (.arrive recB encFails (Spec17.moodOf f))).1 s' ∧
    WF (fwStartupCfg r path am m) s' ∧
    VerdictOk (Spec17.step r.count m am x (.arrive recB encFails (Spec17.moodOf f))).2 (some out) := by
  obtain ⟨ht, hop, hno, hyes⟩ := hspec
  have hse_slots : ∀ d d' : Disk, SameElse (fwStartupCfg r path am m) d d' → slotsOf r decode d' = slotsOf r decode d :=
    fun d d' h => slotsOf_sameElse r decode path hfa d d' h
  cases hr : Spec17.rollsNow m x with
  | false =>
    obtain ⟨hres, hrolled, hopened, hse⟩ := hno hr
    have hstep : Spec17.step r.count m am x (.arrive recB encFails (Spec17.moodOf f)) =
        ({ x with active := if encFails then x.active else x.active ++ recB, first := false, present := true },
         some { calls := 0, ok := !encFails }) := by
      simp [Spec17.step, hr]
    rw [hstep]
    refine ⟨⟨?_, ?_, ?_, ?_, ?_, ?_⟩, ⟨hop, Or.inr ⟨_, hopened⟩⟩, ?_⟩
    · obtain ⟨w, _, _, hg, _⟩ := hopened
      have hg' : s'.disk.get? path = some (x.active ++ tail) := hg
      rw [hg', htail]
      cases encFails <;> simp
    · show slotsOf r decode s'.disk = x.slots
      rw [hse_slots _ _ hse, hag.slots]
    · intro q hq
      rw [hse q hq.1]
      exact hag.frame q hq
    · simp [ht]
    · intro h; cases h
    · intro h; cases h
    · show (0 : Nat) = (if out.rolled.isSome then 1 else 0) ∧ (!encFails) = decide (out.res = .ok)
      rw [hrolled, hres, hok]
      simp
  | true =>
    have hfirst : x.first = true := by
      simp only [Spec17.rollsNow, Bool.and_eq_true] at hr
      exact hr.1
    have hpres : x.present = true := hag.firstPresent hfirst
    obtain ⟨d1, hg1, hse1, hdisj⟩ := hyes hr
    have hro := roll_outcome r decode hdec path hinj hfa d1 x.active hg1 f
    have hs1 : slotsOf r decode d1 = x.slots := by rw [hse_slots _ _ hse1, hag.slots]
    have hframe1 : ∀ q, Outside r path q → d1.get? q = d0.get? q := by
      intro q hq
      rw [hse1 q hq.1]
      exact hag.frame q hq
    cases hout : Spec17.outcomeOf r.count (Spec17.moodOf f) with
    | done =>
      obtain ⟨⟨y, hy⟩, hgone, hsl⟩ := hro.done hout
      have hstep : Spec17.step r.count m am x (.arrive recB encFails (Spec17.moodOf f)) =
          ({ slots := Spec17.rotateSlots r.count x.slots x.active, active := if encFails then [] else recB,
             first := false, present := true }, some { calls := 1, ok := !encFails }) := by
        simp [Spec17.step, hr, hout]
      rw [hstep]
      rcases hdisj with ⟨y', hy', hres, hrolled, hopened, hse⟩ | ⟨e, he, _⟩
      · have hfile : fileOf (fwStartupCfg r path am m)
            ((fwStartupCfg r path am m).roll (fwStartupCfg r path am m).path (faultFn f) d1).2 = [] := by
          show ((Spec17.lateWrap (fixedWindowRoll r) path (faultFn f) d1).2.get? path).getD [] = []
          rw [hgone]; rfl
        rw [hfile] at hopened
        refine ⟨⟨?_, ?_, ?_, ?_, ?_, ?_⟩, ⟨hop, Or.inr ⟨_, hopened⟩⟩, ?_⟩
        · obtain ⟨w, _, _, hg, _⟩ := hopened
          have hg' : s'.disk.get? path = some ([] ++ tail) := hg
          rw [hg', htail]
          cases encFails <;> simp
        · show slotsOf r decode s'.disk = Spec17.rotateSlots r.count x.slots x.active
          rw [hse_slots _ _ hse]
          show slotsOf r decode (Spec17.lateWrap (fixedWindowRoll r) path (faultFn f) d1).2 = _
          rw [hsl, hs1]
        · intro q hq
          rw [hse q hq.1]
          show (Spec17.lateWrap (fixedWindowRoll r) path (faultFn f) d1).2.get? q = _
          rw [hro.frame q hq]
          exact hframe1 q hq
        · simp [ht]
        · intro h; cases h
        · intro h; cases h
        · show (1 : Nat) = (if out.rolled.isSome then 1 else 0) ∧ (!encFails) = decide (out.res = .ok)
          rw [hrolled, hres, hok]
          simp
      · exfalso
        have : (Spec17.lateWrap (fixedWindowRoll r) path (faultFn f) d1).1 = .error e := he
        rw [hy] at this
        cases this
    | doneErr =>
      obtain ⟨⟨e0, he0⟩, hgone, hsl⟩ := hro.doneErr hout
      have hstep : Spec17.step r.count m am x (.arrive recB encFails (Spec17.moodOf f)) =
          ({ slots := Spec17.rotateSlots r.count x.slots x.active, active := [], first := false, present := false },
           some { calls := 1, ok := false }) := by
        simp [Spec17.step, hr, hout]
      rw [hstep]
      rcases hdisj with ⟨y', hy', _⟩ | ⟨e, he, hres, hrolled, hw, hd⟩
      · exfalso
        have : (Spec17.lateWrap (fixedWindowRoll r) path (faultFn f) d1).1 = .ok y' := hy'
        rw [he0] at this
        cases this
      · have hd' : s'.disk = (Spec17.lateWrap (fixedWindowRoll r) path (faultFn f) d1).2 := hd
        refine ⟨⟨?_, ?_, ?_, ?_, ?_, ?_⟩, ⟨hop, Or.inl hw⟩, ?_⟩
        · show s'.disk.get? path = _
          rw [hd', hgone]; rfl
        · show slotsOf r decode s'.disk = Spec17.rotateSlots r.count x.slots x.active
          rw [hd', hsl, hs1]
        · intro q hq
          rw [hd', hro.frame q hq]
          exact hframe1 q hq
        · simp [ht]
        · intro _; rfl
        · intro h; cases h
        · show (1 : Nat) = (if out.rolled.isSome then 1 else 0) ∧ false = decide (out.res = .ok)
          rw [hrolled, hres]
          simp
    | stopped p =>
      obtain ⟨⟨e0, he0⟩, hkeep, hsl⟩ := hro.stopped p hout
      have hstep : Spec17.step r.count m am x (.arrive recB encFails (Spec17.moodOf f)) =
          ({ x with slots := Spec17.shifted r.count p x.slots, first := false }, some { calls := 1, ok := false }) := by
        simp [Spec17.step, hr, hout]
      rw [hstep]
      rcases hdisj with ⟨y', hy', _⟩ | ⟨e, he, hres, hrolled, hw, hd⟩
      · exfalso
        have : (Spec17.lateWrap (fixedWindowRoll r) path (faultFn f) d1).1 = .ok y' := hy'
        rw [he0] at this
        cases this
      · have hd' : s'.disk = (Spec17.lateWrap (fixedWindowRoll r) path (faultFn f) d1).2 := hd
        refine ⟨⟨?_, ?_, ?_, ?_, ?_, ?_⟩, ⟨hop, Or.inl hw⟩, ?_⟩
        · show s'.disk.get? path = if x.present then some x.active else none
          rw [hd', hkeep, hpres]; rfl
        · show slotsOf r decode s'.disk = Spec17.shifted r.count p x.slots
          rw [hd', hsl, hs1]
        · intro q hq
          rw [hd', hro.frame q hq]
          exact hframe1 q hq
        · simp [ht]
        · intro h
          have : x.present = false := h
          rw [hpres] at this; cases this
        · intro h; cases h
        · show (1 : Nat) = (if out.rolled.isSome then 1 else 0) ∧ false = decide (out.res = .ok)
          rw [hrolled, hres]
          simp

theorem rollsNow_eq {r : RollerCfg} {decode : Bytes → Bytes} {path : Path} {d0 : Disk} {x : Spec17.Expect} {s : St Bool}
    (hag : Agrees r decode path d0 x s) (am : Bool) (m : Nat) :
    (!s.tst && decide ((fileOf (fwStartupCfg r path am m) s.disk).length ≥ m)) = Spec17.rollsNow m x := by
  rw [hag.fileOf am m, hag.tst]
  simp [Spec17.rollsNow]

/-- dropping the writer of a well-formed state does not change what is on the disk -/
theorem dropWriter_lookup {σ : Type} (cfg : Cfg σ) (s : St σ) (hwf : WFw cfg s) :
    (dropWriter cfg s).writer = none ∧ (∀ q, (dropWriter cfg s).disk.get? q = s.disk.get? q) ∧
    (dropWriter cfg s).tst = s.tst ∧ (dropWriter cfg s).now = s.now := by
  unfold dropWriter
  cases hw : s.writer with
  | none => exact ⟨hw, fun _ => rfl, rfl, rfl⟩
  | some w =>
    rcases hwf with h | ⟨a, w', hw', hb, hg, _⟩
    · rw [hw] at h; cases h
    · rw [hw] at hw'
      have : w' = w := (Option.some.inj hw').symm
      subst this
      refine ⟨rfl, fun q => ?_, rfl, rfl⟩
      simp only [flushW, hb, List.append_nil, fileOf_of_get hg]
      by_cases hq : q = cfg.path
      · subst hq; rw [DiskL.get?_set_self]; exact hg.symm
      · exact DiskL.get?_set_ne _ _ _ _ hq

/-- one operation of the model refines one step of the statement -/
theorem step_refines (r : RollerCfg) (decode : Bytes → Bytes) (hdec : ∀ x, decode (r.codec x) = x) (path : Path)
    (hinj : r.count ≠ 0 → NamesInj r) (hfa : r.count ≠ 0 → FileApart r path) (am : Bool) (m : Nat) (d0 : Disk)
    (x : Spec17.Expect) (s : St Bool) (hag : Agrees r decode path d0 x s) (hwf : WF (fwStartupCfg r path am m) s) (op : XOp) :
    Agrees r decode path d0 (Spec17.step r.count m am x (Spec17.evOf op)).1 (applyX (fwStartupCfg r path am m) s op).2 ∧
    WF (fwStartupCfg r path am m) (applyX (fwStartupCfg r path am m) s op).2 ∧
    VerdictOk (Spec17.step r.count m am x (Spec17.evOf op)).2 (applyX (fwStartupCfg r path am m) s op).1 := by
  cases op with
  | appendFail rec n f =>
    have hsp := arriveSpec_appendFail r path am m s rec n (faultFn f) hwf
    simp only at hsp
    rw [rollsNow_eq hag am m, hag.fileOf am m] at hsp
    exact arrive_refines r decode hdec path hinj hfa am m d0 x s hag (encBytes rec) [] .errEncode true rfl (by decide) f _ _ hsp
  | op o =>
    cases o with
    | append rec f =>
      have hsp := arriveSpec_append r path am m s rec (faultFn f) hwf
      simp only at hsp
      rw [rollsNow_eq hag am m, hag.fileOf am m] at hsp
      exact arrive_refines r decode hdec path hinj hfa am m d0 x s hag (encBytes rec) (encBytes rec) .ok false rfl (by decide) f _ _ hsp
    | tick dt =>
      exact ⟨⟨hag.file, hag.slots, hag.frame, hag.tst, hag.absent, hag.firstPresent⟩, hwf, trivial⟩
    | restart =>
      let cfg := fwStartupCfg r path am m
      obtain ⟨hdw, hdl, hdt, hdn⟩ := dropWriter_lookup cfg s hwf.2
      let s1 : St Bool := { dropWriter cfg s with writer := none, tst := cfg.trig.reinit (dropWriter cfg s).tst (dropWriter cfg s).now, opened := false }
      have hgs := getWriter_spec cfg s1 (Or.inl rfl)
      obtain ⟨hopened, _, hse, htst, _⟩ := hgs
      have hov : openView cfg s1 = if am then x.active else [] := by
        show (if cfg.appendMode || false then fileOf cfg (dropWriter cfg s).disk else []) = _
        have : fileOf cfg (dropWriter cfg s).disk = x.active := by
          unfold Rolling.fileOf
          rw [hdl]
          exact hag.fileOf am m
        rw [this]
        show (if am || false then x.active else []) = _
        cases am <;> rfl
      rw [hov] at hopened
      refine ⟨⟨?_, ?_, ?_, ?_, ?_, ?_⟩, WF_restart cfg s, trivial⟩
      · obtain ⟨w, _, _, hg, _⟩ := hopened
        exact hg
      · show slotsOf r decode (getWriter cfg s1).1.disk = x.slots
        rw [slotsOf_sameElse r decode path hfa _ _ hse]
        rw [slotsOf_congr r decode s.disk (dropWriter cfg s).disk (fun j _ => hdl _)]
        exact hag.slots
      · intro q hq
        show (getWriter cfg s1).1.disk.get? q = _
        rw [hse q hq.1]
        show (dropWriter cfg s).disk.get? q = _
        rw [hdl]
        exact hag.frame q hq
      · show (getWriter cfg s1).1.tst = _
        rw [htst]
        rfl
      · intro h; cases h
      · intro _; rfl

/-- what the statement starts from: the directory as the first appender's open leaves it -/
def expect0 (r : RollerCfg) (decode : Bytes → Bytes) (path : Path) (am : Bool) (d : Disk) : Spec17.Expect :=
  { slots := slotsOf r decode d, active := if am then (d.get? path).getD [] else [], first := true, present := true }

theorem agrees_init (r : RollerCfg) (decode : Bytes → Bytes) (path : Path) (hfa : r.count ≠ 0 → FileApart r path)
    (am : Bool) (m : Nat) (d : Disk) (now : Nat) :
    Agrees r decode path d (expect0 r decode path am d) (init (fwStartupCfg r path am m) d false now) := by
  let cfg := fwStartupCfg r path am m
  let s1 : St Bool := { disk := d, writer := none, tst := cfg.trig.reinit false now, now := now, opened := false }
  obtain ⟨hopened, _, hse, htst, _⟩ := getWriter_spec cfg s1 (Or.inl rfl)
  have hov : openView cfg s1 = if am then (d.get? path).getD [] else [] := by
    show (if cfg.appendMode || false then fileOf cfg d else []) = _
    show (if am || false then (d.get? path).getD [] else []) = _
    cases am <;> rfl
  rw [hov] at hopened
  refine ⟨?_, ?_, ?_, ?_, ?_, ?_⟩
  · obtain ⟨w, _, _, hg, _⟩ := hopened
    exact hg
  · exact slotsOf_sameElse r decode path hfa _ _ hse
  · intro q hq
    exact hse q hq.1
  · show (getWriter cfg s1).1.tst = _
    rw [htst]; rfl
  · intro h; cases h
  · intro _; rfl

/-- two lists of the same length, related entry by entry -/
def Pointwise {α β : Type} (R : α → β → Prop) : List α → List β → Prop
  | [], [] => True
  | a :: as, b :: bs => R a b ∧ Pointwise R as bs
  | _, _ => False

/-- the model's trace refines the statement's trace, operation by operation -/
theorem trace_refines (r : RollerCfg) (decode : Bytes → Bytes) (hdec : ∀ x, decode (r.codec x) = x) (path : Path)
    (hinj : r.count ≠ 0 → NamesInj r) (hfa : r.count ≠ 0 → FileApart r path) (am : Bool) (m : Nat) (d0 : Disk)
    (ops : List XOp) (x : Spec17.Expect) (s : St Bool) (hag : Agrees r decode path d0 x s)
    (hwf : WF (fwStartupCfg r path am m) s) :
    Pointwise (fun (e : Option Out × St Bool) (xv : Spec17.Expect × Option Spec17.Verdict) =>
        Agrees r decode path d0 xv.1 e.2 ∧ VerdictOk xv.2 e.1)
      (traceX (fwStartupCfg r path am m) s ops) (Spec17.trace r.count m am x (ops.map Spec17.evOf)) := by
  induction ops generalizing x s with
  | nil => exact trivial
  | cons op ops ih =>
    obtain ⟨h1, h2, h3⟩ := step_refines r decode hdec path hinj hfa am m d0 x s hag hwf op
    exact ⟨⟨h1, h3⟩, ih _ _ h1 h2⟩

/-- … and so does the state after the whole history -/
theorem final_refines (r : RollerCfg) (decode : Bytes → Bytes) (hdec : ∀ x, decode (r.codec x) = x) (path : Path)
    (hinj : r.count ≠ 0 → NamesInj r) (hfa : r.count ≠ 0 → FileApart r path) (am : Bool) (m : Nat) (d0 : Disk)
    (ops : List XOp) (x : Spec17.Expect) (s : St Bool) (hag : Agrees r decode path d0 x s)
    (hwf : WF (fwStartupCfg r path am m) s) :
    Agrees r decode path d0 (Spec17.final r.count m am x (ops.map Spec17.evOf))
      (ops.foldl (fun s op => (applyX (fwStartupCfg r path am m) s op).2) s) ∧
    WF (fwStartupCfg r path am m) (ops.foldl (fun s op => (applyX (fwStartupCfg r path am m) s op).2) s) := by
  induction ops generalizing x s with
  | nil => exact ⟨hag, hwf⟩
  | cons op ops ih =>
    obtain ⟨h1, h2, _⟩ := step_refines r decode hdec path hinj hfa am m d0 x s hag hwf op
    exact ih _ _ h1 h2

end Log4rs.Rolling
