import Log4rsModel.Rolling.Lock
/-
Every reachable state of the coarse lock machine is a sequential execution of the committed jobs
in commit order, and the commit order is a merge of the threads' completed jobs.
-/
namespace Log4rs.Rolling

variable {Sh Job : Type}

structure LInv (body : Job → Sh → Sh) (sh0 : Sh) (progs : List (List Job)) (s : LState Sh Job) : Prop where
  shared : s.shared = (s.log.map (·.2)).foldl (fun sh j => body j sh) sh0
  threads : ∀ i t, s.threads[i]? = some t →
    (s.log.filter (fun e => e.1 == i)).map (·.2) = t.done ∧ ∃ p, progs[i]? = some p ∧ t.done ++ t.todo = p

theorem LInv.init (body : Job → Sh → Sh) (sh0 : Sh) (progs : List (List Job)) :
    LInv body sh0 progs (LState.init sh0 progs) := by
  constructor
  · rfl
  · intro i t h
    simp only [LState.init, List.getElem?_map, Option.map_eq_some_iff] at h
    obtain ⟨p, hp, rfl⟩ := h
    exact ⟨rfl, p, hp, rfl⟩

theorem LInv.step {body : Job → Sh → Sh} {sh0 : Sh} {progs : List (List Job)} {s s' : LState Sh Job} {i : Nat}
    (inv : LInv body sh0 progs s) (h : lstep body i s = some s') : LInv body sh0 progs s' := by
  unfold lstep at h
  cases hti : s.threads[i]? with
  | none => simp [hti] at h
  | some t =>
    have hi : i < s.threads.length := (List.getElem?_eq_some_iff.mp hti).1
    simp only [hti] at h
    cases htodo : t.todo with
    | nil => simp [htodo] at h
    | cons j rest =>
      simp only [htodo] at h
      obtain ⟨hlog, p, hp1, hp2⟩ := inv.threads i t hti
      by_cases hh : t.holding
      · simp only [hh, if_true] at h
        have := (Option.some.inj h).symm
        subst this
        constructor
        · simp [inv.shared]
        · intro k t1 h1
          by_cases hki : k = i
          · subst hki
            rw [List.getElem?_set_self hi] at h1
            have := (Option.some.inj h1).symm
            subst this
            refine ⟨by simp [List.filter_append, hlog], p, hp1, ?_⟩
            rw [← hp2, htodo]
            simp
          · rw [List.getElem?_set_ne (fun e => hki e.symm)] at h1
            obtain ⟨hl, hp⟩ := inv.threads k t1 h1
            have hik : (i == k) = false := by
              simp only [beq_eq_false_iff_ne, ne_eq]
              exact fun e => hki e.symm
            exact ⟨by simp [List.filter_append, hik, hl], hp⟩
      · simp only [hh] at h
        by_cases hf : s.lockFree
        · simp only [hf, if_true] at h
          have := (Option.some.inj h).symm
          subst this
          constructor
          · exact inv.shared
          · intro k t1 h1
            by_cases hki : k = i
            · subst hki
              rw [List.getElem?_set_self hi] at h1
              have := (Option.some.inj h1).symm
              subst this
              exact ⟨hlog, p, hp1, by simpa [htodo] using hp2⟩
            · rw [List.getElem?_set_ne (fun e => hki e.symm)] at h1
              exact inv.threads k t1 h1
        · simp [hf] at h

theorem LInv.run {body : Job → Sh → Sh} {sh0 : Sh} {progs : List (List Job)} (sched : List Nat)
    {s : LState Sh Job} (inv : LInv body sh0 progs s) : LInv body sh0 progs (lrun body s sched) := by
  induction sched generalizing s with
  | nil => exact inv
  | cons i rest ih =>
    simp only [lrun]
    cases h : lstep body i s with
    | none => simpa [h] using ih inv
    | some s' => simpa [h] using ih (inv.step h)

end Log4rs.Rolling
