import Log4rsModel.Rolling.Lemmas
/-
The lock machine of the file appender (C04): an invariant preserved by every step of every
thread, hence true in every state any schedule can reach.
-/
namespace Log4rs.Rolling

theorem logOf_append_self (s : CState) (i : Nat) (r : Rec) (s' : CState) (h : s'.log = s.log ++ [(i, r)]) :
    s'.logOf i = s.logOf i ++ [r] := by
  simp [CState.logOf, h, List.filter_append]

theorem logOf_append_ne (s : CState) (i j : Nat) (r : Rec) (s' : CState) (h : s'.log = s.log ++ [(i, r)])
    (hne : j ≠ i) : s'.logOf j = s.logOf j := by
  have : (i == j) = false := by
    simp only [beq_eq_false_iff_ne, ne_eq]
    exact fun e => hne e.symm
  simp [CState.logOf, h, List.filter_append, this]

theorem committed_append (s : CState) (i : Nat) (r : Rec) (s' : CState) (h : s'.log = s.log ++ [(i, r)]) :
    s'.committed = s.committed ++ encBytes r := by
  simp [CState.committed, h]

/-- what is true of thread `j` in state `s` -/
def TOk (progs : List (List Rec)) (log : List (Nat × Rec)) (j : Nat) (t : Thread) : Prop :=
  (∃ p, progs[j]? = some p ∧ t.acked ++ t.todo = p) ∧
  (match t.pc with
   | .idle => (log.filter (fun e => e.1 == j)).map (·.2) = t.acked
   | .writing r dn rest =>
     (log.filter (fun e => e.1 == j)).map (·.2) = t.acked ∧ (∃ tl, t.todo = r :: tl) ∧ [encBytes r] = dn ++ rest
   | .flushed r => (log.filter (fun e => e.1 == j)).map (·.2) = t.acked ++ [r] ∧ (∃ tl, t.todo = r :: tl))

/-- what the lock protects -/
def LockOk (init0 : Bytes) (s : CState) : Prop :=
  match s.holder with
  | none => (∀ (j : Nat) (t : Thread), s.threads[j]? = some t → t.pc = Pc.idle) ∧ s.w.buf = [] ∧ s.w.disk = init0 ++ s.committed
  | some h =>
    ∃ t, s.threads[h]? = some t ∧ (∀ (j : Nat) (t' : Thread), j ≠ h → s.threads[j]? = some t' → t'.pc = Pc.idle) ∧
      (match t.pc with
       | .idle => False
       | .writing _ dn _ => ∃ p, s.w.disk = init0 ++ s.committed ++ p ∧ p ++ s.w.buf = dn.flatten
       | .flushed _ => s.w.buf = [] ∧ s.w.disk = init0 ++ s.committed)

structure CInv (progs : List (List Rec)) (init0 : Bytes) (s : CState) : Prop where
  threadsOk : ∀ j t, s.threads[j]? = some t → TOk progs s.log j t
  lockOk : LockOk init0 s

theorem CInv.init (m : OpenMode) (pre : Option Bytes) (progs : List (List Rec)) :
    CInv progs (openContent m pre) (CState.init m pre progs) := by
  constructor
  · intro j t h
    simp only [CState.init, List.getElem?_map, Option.map_eq_some_iff] at h
    obtain ⟨p, hp, rfl⟩ := h
    exact ⟨⟨p, hp, by simp⟩, by simp [CState.init]⟩
  · simp only [LockOk, CState.init]
    refine ⟨?_, rfl, by simp [CState.committed, FileAppender.build]⟩
    intro j t h
    simp only [List.getElem?_map, Option.map_eq_some_iff] at h
    obtain ⟨p, _, rfl⟩ := h
    rfl

private theorem get_set {ts : List Thread} {i j : Nat} {t t' : Thread}
    (h : (ts.set i t')[j]? = some t) (hi : i < ts.length) : (j = i ∧ t = t') ∨ (j ≠ i ∧ ts[j]? = some t) := by
  by_cases hji : j = i
  · subst hji
    rw [List.getElem?_set_self hi] at h
    exact Or.inl ⟨rfl, (Option.some.inj h).symm⟩
  · rw [List.getElem?_set_ne (fun e => hji e.symm)] at h
    exact Or.inr ⟨hji, h⟩

theorem CInv.step {progs : List (List Rec)} {init0 : Bytes} {s s' : CState} {i : Nat}
    (inv : CInv progs init0 s) (hstep : stepThread i s = some s') : CInv progs init0 s' := by
  unfold stepThread at hstep
  cases hti : s.threads[i]? with
  | none => simp [hti] at hstep
  | some t =>
    have hi : i < s.threads.length := by
      have := List.getElem?_eq_some_iff.mp hti
      exact this.1
    have tok := inv.threadsOk i t hti
    simp only [hti] at hstep
    cases hpc : t.pc with
    | idle =>
      simp only [hpc] at hstep
      cases htodo : t.todo with
      | nil => simp [htodo] at hstep
      | cons r tl =>
        cases hh : s.holder with
        | some h => simp [htodo, hh] at hstep
        | none =>
          simp only [htodo, hh] at hstep
          have hs' := (Option.some.inj hstep).symm
          subst hs'
          have lk := inv.lockOk
          simp only [LockOk, hh] at lk
          obtain ⟨hidle, hbuf, hdisk⟩ := lk
          constructor
          · intro j t1 h1
            rcases get_set h1 hi with ⟨rfl, rfl⟩ | ⟨_, h2⟩
            · obtain ⟨⟨pp, hp1, hp2⟩, hl⟩ := tok
              simp only [hpc] at hl
              exact ⟨⟨pp, hp1, by simpa [htodo] using hp2⟩, by simp [hl]⟩
            · exact inv.threadsOk j t1 h2
          · simp only [LockOk]
            refine ⟨_, List.getElem?_set_self hi, ?_, ?_⟩
            · intro j t1 hne h1
              rw [List.getElem?_set_ne (fun e => hne e.symm)] at h1
              exact hidle j t1 h1
            · exact ⟨[], by simpa [CState.committed] using hdisk, by simp [hbuf]⟩
    | writing r dn rest =>
      simp only [hpc] at hstep
      have lk := inv.lockOk
      -- the writer is the holder
      have hold : s.holder = some i := by
        cases hh : s.holder with
        | none =>
          simp only [LockOk, hh] at lk
          have := lk.1 i t hti
          simp [hpc] at this
        | some h =>
          simp only [LockOk, hh] at lk
          obtain ⟨th, _, hoth, _⟩ := lk
          by_cases hih : i = h
          · rw [hih]
          · have := hoth i t hih hti
            simp [hpc] at this
      simp only [LockOk, hold] at lk
      obtain ⟨th, hth, hoth, hbody⟩ := lk
      have : th = t := by
        rw [hti] at hth
        exact (Option.some.inj hth).symm
      subst this
      simp only [hpc] at hbody
      obtain ⟨p, hdisk, hpb⟩ := hbody
      obtain ⟨hp, hl⟩ := tok
      simp only [hpc] at hl
      obtain ⟨hlog, ⟨tl, htodo⟩, hr⟩ := hl
      cases hrest : rest with
      | cons c cs =>
        simp only [hrest] at hstep
        have hs' := (Option.some.inj hstep).symm
        subst hs'
        constructor
        · intro j t1 h1
          rcases get_set h1 hi with ⟨rfl, rfl⟩ | ⟨_, h2⟩
          · exact ⟨hp, hlog, ⟨tl, htodo⟩, by rw [hr, hrest]; simp⟩
          · exact inv.threadsOk j t1 h2
        · simp only [LockOk, hold]
          refine ⟨_, List.getElem?_set_self hi, ?_, ?_⟩
          · intro j t1 hne h1
            rw [List.getElem?_set_ne (fun e => hne e.symm)] at h1
            exact hoth j t1 hne h1
          · obtain ⟨q, hq1, hq2⟩ := BufFile.writeAll_grows s.w c
            refine ⟨p ++ q, ?_, ?_⟩
            · simp only [CState.committed] at hdisk ⊢
              rw [hq1, hdisk]
              simp
            · simp only [List.flatten_append, List.flatten_cons, List.flatten_nil, List.append_nil,
                List.append_assoc]
              rw [hq2, ← List.append_assoc, hpb]
      | nil =>
        simp only [hrest] at hstep
        have hs' := (Option.some.inj hstep).symm
        subst hs'
        constructor
        · intro j t1 h1
          rcases get_set h1 hi with ⟨rfl, rfl⟩ | ⟨hne, h2⟩
          · refine ⟨hp, ?_⟩
            simp only [List.filter_append, List.map_append, hlog]
            exact ⟨by simp, ⟨tl, htodo⟩⟩
          · have := inv.threadsOk j t1 h2
            have hij : (i == j) = false := by
              simp only [beq_eq_false_iff_ne, ne_eq]
              exact fun e => hne e.symm
            unfold TOk at this ⊢
            simpa [List.filter_append, hij] using this
        · simp only [LockOk, hold]
          refine ⟨_, List.getElem?_set_self hi, ?_, ?_⟩
          · intro j t1 hne h1
            rw [List.getElem?_set_ne (fun e => hne e.symm)] at h1
            exact hoth j t1 hne h1
          · refine ⟨rfl, ?_⟩
            subst hrest
            simp only [List.append_nil] at hr
            subst hr
            simp only [List.flatten_cons, List.flatten_nil, List.append_nil] at hpb
            simp only [CState.committed] at hdisk ⊢
            simp only [BufFile.flush_disk, hdisk, List.map_append, List.flatMap_append, List.map_cons,
              List.map_nil, List.flatMap_cons, List.flatMap_nil, List.append_nil, encBytes,
              List.append_assoc, hpb]
    | flushed r =>
      simp only [hpc] at hstep
      have hs' := (Option.some.inj hstep).symm
      subst hs'
      have lk := inv.lockOk
      have hold : s.holder = some i := by
        cases hh : s.holder with
        | none =>
          simp only [LockOk, hh] at lk
          have := lk.1 i t hti
          simp [hpc] at this
        | some h =>
          simp only [LockOk, hh] at lk
          obtain ⟨th, _, hoth, _⟩ := lk
          by_cases hih : i = h
          · rw [hih]
          · have := hoth i t hih hti
            simp [hpc] at this
      simp only [LockOk, hold] at lk
      obtain ⟨th, hth, hoth, hbody⟩ := lk
      have : th = t := by
        rw [hti] at hth
        exact (Option.some.inj hth).symm
      subst this
      simp only [hpc] at hbody
      obtain ⟨hbuf, hdisk⟩ := hbody
      obtain ⟨⟨pp, hp1, hp2⟩, hl⟩ := tok
      simp only [hpc] at hl
      obtain ⟨hlog, tl, htodo⟩ := hl
      constructor
      · intro j t1 h1
        rcases get_set h1 hi with ⟨rfl, rfl⟩ | ⟨_, h2⟩
        · refine ⟨⟨pp, hp1, ?_⟩, by simpa using hlog⟩
          rw [← hp2, htodo]
          simp
        · exact inv.threadsOk j t1 h2
      · simp only [LockOk]
        refine ⟨?_, hbuf, by simpa [CState.committed] using hdisk⟩
        intro j t1 h1
        rcases get_set h1 hi with ⟨rfl, rfl⟩ | ⟨hne, h2⟩
        · rfl
        · exact hoth j t1 hne h2

/-- the commit log only names existing threads, and no step changes the number of threads -/
def LogRange (n : Nat) (s : CState) : Prop := s.threads.length = n ∧ ∀ e ∈ s.log, e.1 < n

theorem LogRange.step {n : Nat} {s s' : CState} {i : Nat} (h : LogRange n s) (hstep : stepThread i s = some s') :
    LogRange n s' := by
  unfold stepThread at hstep
  cases hti : s.threads[i]? with
  | none => simp [hti] at hstep
  | some t =>
    have hi : i < s.threads.length := (List.getElem?_eq_some_iff.mp hti).1
    simp only [hti] at hstep
    cases hpc : t.pc with
    | idle =>
      simp only [hpc] at hstep
      cases htodo : t.todo with
      | nil => simp [htodo] at hstep
      | cons r tl =>
        cases hh : s.holder with
        | some h => simp [htodo, hh] at hstep
        | none =>
          simp only [htodo, hh] at hstep
          have hs' := (Option.some.inj hstep).symm
          subst hs'
          exact ⟨by simp [h.1], h.2⟩
    | writing r dn rest =>
      simp only [hpc] at hstep
      cases hrest : rest with
      | cons c cs =>
        simp only [hrest] at hstep
        have hs' := (Option.some.inj hstep).symm
        subst hs'
        exact ⟨by simp [h.1], h.2⟩
      | nil =>
        simp only [hrest] at hstep
        have hs' := (Option.some.inj hstep).symm
        subst hs'
        refine ⟨by simp [h.1], ?_⟩
        intro e he
        simp only [List.mem_append, List.mem_singleton] at he
        rcases he with he | rfl
        · exact h.2 e he
        · exact h.1 ▸ hi
    | flushed r =>
      simp only [hpc] at hstep
      have hs' := (Option.some.inj hstep).symm
      subst hs'
      exact ⟨by simp [h.1], h.2⟩

theorem LogRange.run {n : Nat} (sched : List Nat) {s : CState} (h : LogRange n s) :
    LogRange n (runSched s sched) := by
  induction sched generalizing s with
  | nil => exact h
  | cons i rest ih =>
    simp only [runSched]
    cases hs : stepThread i s with
    | none => simpa [hs] using ih h
    | some s' => simpa [hs] using ih (h.step hs)

theorem CInv.run {progs : List (List Rec)} {init0 : Bytes} (sched : List Nat) {s : CState}
    (inv : CInv progs init0 s) : CInv progs init0 (runSched s sched) := by
  induction sched generalizing s with
  | nil => exact inv
  | cons i rest ih =>
    simp only [runSched]
    cases h : stepThread i s with
    | none => simpa [h] using ih inv
    | some s' => simpa [h] using ih (inv.step h)

end Log4rs.Rolling
