import Log4rsModel.Rolling.LemmasRoller
import Log4rsModel.Rolling.Spec
/-
The fixed-window model (`Roller/Model.lean`: `fixedWindowRoll`) satisfies `RollContract` for the
reading "contents of the slots base+count-1 … base that exist, oldest first" — for every initial
window (gaps, pre-existing archives), every base/count, with or without compression, and at every
point where the fault oracle makes the rotation stop. (Own proof; the roller area has its own
rotation theorems.)
-/
namespace Log4rs.Rolling
open Log4rs.Roller

theorem filterMap_congr' {α β : Type} (f g : α → Option β) (l : List α) (h : ∀ x ∈ l, f x = g x) :
    l.filterMap f = l.filterMap g := by
  induction l with
  | nil => rfl
  | cons a l ih =>
    simp only [List.filterMap_cons]
    rw [h a (by simp), ih (fun x hx => h x (by simp [hx]))]

/-- existing contents of slots `lo+n-1 … lo`, oldest (highest index) first -/
def winOf (nameOf : Nat → Path) (lo n : Nat) (d : Disk) : List Bytes :=
  (List.range n).reverse.filterMap (fun j => d.get? (nameOf (lo + j)))

theorem winOf_eq_archives (nameOf : Nat → Path) (lo n : Nat) (d : Disk) :
    winOf nameOf lo n d = Spec.archives nameOf lo n d.get? := rfl

theorem winOf_succ_top (nameOf : Nat → Path) (lo n : Nat) (d : Disk) :
    winOf nameOf lo (n + 1) d = (d.get? (nameOf (lo + n))).toList ++ winOf nameOf lo n d := by
  simp only [winOf, List.range_succ, List.reverse_append, List.reverse_cons, List.reverse_nil, List.nil_append,
    List.singleton_append, List.filterMap_cons]
  cases d.get? (nameOf (lo + n)) <;> rfl

theorem winOf_succ_bot (nameOf : Nat → Path) (lo n : Nat) (d : Disk) :
    winOf nameOf lo (n + 1) d = winOf nameOf (lo + 1) n d ++ (d.get? (nameOf lo)).toList := by
  simp only [winOf, List.range_succ_eq_map, List.reverse_cons, List.filterMap_append, List.filterMap_cons,
    List.filterMap_nil, Nat.add_zero]
  congr 1
  · rw [← List.map_reverse, List.filterMap_map]
    apply filterMap_congr'
    intro j _
    simp only [Function.comp]
    congr 2
    omega

theorem winOf_congr (nameOf : Nat → Path) (lo n : Nat) (d d' : Disk)
    (h : ∀ j, j < n → d'.get? (nameOf (lo + j)) = d.get? (nameOf (lo + j))) :
    winOf nameOf lo n d' = winOf nameOf lo n d := by
  simp only [winOf]
  apply filterMap_congr'
  intro j hj
  simp only [List.mem_reverse, List.mem_range] at hj
  exact h j hj

/-- the shift part of a rotation, as slot indices: `base+k-1, …, base` -/
def idxL (b k : Nat) : List Nat := (List.range k).reverse.map (fun j => b + j)

theorem idxL_succ (b k : Nat) : idxL b (k + 1) = (b + k) :: idxL b k := by
  simp [idxL, List.range_succ]

theorem steps_eq (b c : Nat) : steps b c = (idxL b (c - 1)).map Step.shift ++ [Step.final] := by
  simp [steps, idxL, List.map_map, Function.comp_def]

def shiftRun (nameOf : Nat → Path) : List Nat → Disk → Disk
  | [], d => d
  | i :: is, d => shiftRun nameOf is (moveFile (nameOf i) (nameOf (i + 1)) d)

/-- running shift steps under the fault oracle: either a fault stops it after a prefix, or all of
them run and the rest of the steps follows -/
theorem runSteps_shifts (r : RollerCfg) (file : Path) (fault : Nat → Bool) (is : List Nat) (tl : List Step)
    (kk : Nat) (d : Disk) :
    (∃ p e, p <+: is ∧ runSteps r file fault kk (is.map Step.shift ++ tl) d = (.error e, shiftRun r.nameOf p d)) ∨
    runSteps r file fault kk (is.map Step.shift ++ tl) d =
      runSteps r file fault (kk + is.length) tl (shiftRun r.nameOf is d) := by
  induction is generalizing kk d with
  | nil => right; simp [shiftRun]
  | cons i is ih =>
    simp only [List.map_cons, List.cons_append, runSteps]
    by_cases hf : fault kk
    · left
      exact ⟨[], FsErr.injected kk, List.nil_prefix, by simp [hf, shiftRun]⟩
    · simp only [hf, applyStep]
      rcases ih (kk + 1) (moveFile (r.nameOf i) (r.nameOf (i + 1)) d) with ⟨p, e, hp, h⟩ | h
      · left
        refine ⟨i :: p, e, ?_, ?_⟩
        · obtain ⟨t, ht⟩ := hp
          exact ⟨t, by simp [ht]⟩
        · simpa [shiftRun] using h
      · right
        simp only [Bool.false_eq_true, if_false]
        rw [h]
        simp only [shiftRun, List.length_cons]
        congr 1
        omega

theorem moveFile_src_none (src dst : Path) (d : Disk) (h : d.get? src = none) : moveFile src dst d = d := by
  simp [moveFile, h]

theorem moveFile_some (src dst : Path) (d : Disk) (c : Bytes) (h : d.get? src = some c) (hne : src ≠ dst) :
    (moveFile src dst d).get? dst = some c ∧ (moveFile src dst d).get? src = none := by
  simp only [moveFile, h]
  exact ⟨DiskL.get?_set_self _ _ _, by rw [DiskL.get?_set_ne _ _ _ _ hne]; exact DiskL.get?_erase_self _ _⟩

/-- what a prefix of the shift loop does to the window `base … base+k` -/
theorem shift_window (nameOf : Nat → Path) (b : Nat) (k : Nat)
    (hinj : ∀ i j, i ≤ k → j ≤ k → nameOf (b + i) = nameOf (b + j) → i = j)
    (d : Disk) (p : List Nat) (hp : p <+: idxL b k) :
    (∀ q, (∀ j, j ≤ k → q ≠ nameOf (b + j)) → (shiftRun nameOf p d).get? q = d.get? q) ∧
    (d.get? (nameOf (b + k)) = none → winOf nameOf b (k + 1) (shiftRun nameOf p d) = winOf nameOf b (k + 1) d) ∧
    (winOf nameOf b (k + 1) (shiftRun nameOf p d) = winOf nameOf b (k + 1) d ∨
     winOf nameOf b (k + 1) (shiftRun nameOf p d) = (winOf nameOf b (k + 1) d).drop 1) ∧
    (p = idxL b k → k ≥ 1 → (shiftRun nameOf p d).get? (nameOf b) = none) := by
  induction k generalizing d p with
  | zero =>
    have : p = [] := by
      simp only [idxL, List.range_zero, List.reverse_nil, List.map_nil] at hp
      exact List.prefix_nil.mp hp
    subst this
    exact ⟨fun _ _ => rfl, fun _ => rfl, Or.inl rfl, fun _ h => absurd h (by omega)⟩
  | succ k ih =>
    rw [idxL_succ] at hp
    cases p with
    | nil => exact ⟨fun _ _ => rfl, fun _ => rfl, Or.inl rfl, fun h => by rw [idxL_succ] at h; cases h⟩
    | cons i p' =>
      obtain ⟨hi, hp'⟩ := List.cons_prefix_cons.mp hp
      subst hi
      have hinj' : ∀ i j, i ≤ k → j ≤ k → nameOf (b + i) = nameOf (b + j) → i = j :=
        fun i j hi hj h => hinj i j (by omega) (by omega) h
      have hne : nameOf (b + k) ≠ nameOf (b + k + 1) := by
        intro h
        have := hinj k (k + 1) (by omega) (by omega) (by rw [h]; rfl)
        omega
      have htop_ne : ∀ j, j ≤ k → nameOf (b + (k + 1)) ≠ nameOf (b + j) := by
        intro j hj h
        have := hinj (k + 1) j (by omega) (by omega) h
        omega
      let d1 := moveFile (nameOf (b + k)) (nameOf (b + k + 1)) d
      obtain ⟨ihf, ihc, _, ihb⟩ := ih hinj' d1 p' hp'
      have hrun : shiftRun nameOf ((b + k) :: p') d = shiftRun nameOf p' d1 := rfl
      -- slots below b+k are not touched by the first move
      have hlow : ∀ j, j < k → d1.get? (nameOf (b + j)) = d.get? (nameOf (b + j)) := by
        intro j hj
        apply moveFile_get_other
        · intro h; have := hinj j k (by omega) (by omega) h; omega
        · intro h; have := hinj j (k + 1) (by omega) (by omega) h; omega
      have htop' : (shiftRun nameOf p' d1).get? (nameOf (b + (k + 1))) = d1.get? (nameOf (b + (k + 1))) :=
        ihf _ (fun j hj => htop_ne j hj)
      -- frame
      have hframe : ∀ q, (∀ j, j ≤ k + 1 → q ≠ nameOf (b + j)) →
          (shiftRun nameOf ((b + k) :: p') d).get? q = d.get? q := by
        intro q hq
        rw [hrun, ihf q (fun j hj => hq j (by omega))]
        exact moveFile_get_other _ _ _ _ (hq k (by omega)) (hq (k + 1) (by omega))
      -- the window after, in terms of the window before
      have hwin : winOf nameOf b (k + 1 + 1) (shiftRun nameOf ((b + k) :: p') d) =
          (match d.get? (nameOf (b + k)) with
           | none => winOf nameOf b (k + 1 + 1) d
           | some x => [x] ++ winOf nameOf b k d) := by
        rw [hrun, winOf_succ_top, htop']
        cases hsrc : d.get? (nameOf (b + k)) with
        | none =>
          have hd1 : d1 = d := moveFile_src_none _ _ _ hsrc
          simp only
          rw [hd1] at ihc ⊢
          rw [ihc hsrc, ← winOf_succ_top]
        | some x =>
          obtain ⟨hdst, hsrc'⟩ := moveFile_some _ _ d x hsrc hne
          simp only
          rw [show nameOf (b + (k + 1)) = nameOf (b + k + 1) from rfl, hdst, ihc hsrc', winOf_succ_top, hsrc']
          simp only [Option.toList, List.nil_append]
          rw [winOf_congr nameOf b k d d1 hlow]
      refine ⟨hframe, ?_, ?_, ?_⟩
      · intro htop
        rw [hwin]
        cases hsrc : d.get? (nameOf (b + k)) with
        | none => rfl
        | some x =>
          simp only
          rw [winOf_succ_top, winOf_succ_top, htop, hsrc]
          rfl
      · rw [hwin]
        cases hsrc : d.get? (nameOf (b + k)) with
        | none => exact Or.inl rfl
        | some x =>
          simp only
          rw [winOf_succ_top, winOf_succ_top, hsrc]
          cases d.get? (nameOf (b + (k + 1))) with
          | none => exact Or.inl rfl
          | some y => exact Or.inr rfl
      · intro hfull _
        rw [idxL_succ] at hfull
        have hp'full : p' = idxL b k := (List.cons.inj hfull).2
        rw [hrun]
        by_cases hk : k ≥ 1
        · exact ihb hp'full hk
        · have hk0 : k = 0 := by omega
          subst hk0
          have : p' = [] := by simpa [idxL] using hp'full
          subst this
          simp only [shiftRun]
          cases hsrc : d.get? (nameOf (b + 0)) with
          | none =>
            have hd1 : d1 = d := moveFile_src_none _ _ _ hsrc
            rw [hd1]
            simpa using hsrc
          | some x =>
            have := (moveFile_some _ _ d x hsrc hne).2
            simpa [d1] using this

/-- the reading of the retained archives used for the fixed-window roller: window contents, oldest
first, decoded (`decode ∘ codec = id` is the codec assumption; plain moves store the bytes as is) -/
def fwArch (r : RollerCfg) (decode : Bytes → Bytes) (d : Disk) : List Bytes :=
  (winOf r.nameOf r.base r.count d).map (match r.comp with | .none => id | _ => decode)

theorem finalStep_spec (r : RollerCfg) (file : Path) (dm d' : Disk)
    (h : finalStep r.comp r.codec file (r.nameOf r.base) dm = .ok d') (a : Bytes) (ha : dm.get? file = some a)
    (hne : r.nameOf r.base ≠ file) :
    d'.get? file = none ∧
    d'.get? (r.nameOf r.base) = some (match r.comp with | .none => a | _ => r.codec a) ∧
    (∀ q, q ≠ file → q ≠ r.nameOf r.base → d'.get? q = dm.get? q) := by
  refine ⟨finalStep_gone _ _ _ _ _ _ hne h, ?_, ?_⟩
  · unfold finalStep at h
    cases hc : r.comp with
    | none =>
      simp only [hc, moveFile, ha] at h
      have : d' = (dm.erase file).set (r.nameOf r.base) a := by injection h with h; exact h.symm
      rw [this]; exact DiskL.get?_set_self _ _ _
    | gzip =>
      simp only [hc, ha] at h
      have : d' = (dm.set (r.nameOf r.base) (r.codec a)).erase file := by injection h with h; exact h.symm
      rw [this, DiskL.get?_erase_ne _ _ _ hne]; exact DiskL.get?_set_self _ _ _
    | zstd =>
      simp only [hc, ha] at h
      have : d' = (dm.set (r.nameOf r.base) (r.codec a)).erase file := by injection h with h; exact h.symm
      rw [this, DiskL.get?_erase_ne _ _ _ hne]; exact DiskL.get?_set_self _ _ _
  · intro q hq1 hq2
    unfold finalStep at h
    cases hc : r.comp with
    | none =>
      simp only [hc, moveFile, ha] at h
      have : d' = (dm.erase file).set (r.nameOf r.base) a := by injection h with h; exact h.symm
      rw [this, DiskL.get?_set_ne _ _ _ _ hq2, DiskL.get?_erase_ne _ _ _ hq1]
    | gzip =>
      simp only [hc, ha] at h
      have : d' = (dm.set (r.nameOf r.base) (r.codec a)).erase file := by injection h with h; exact h.symm
      rw [this, DiskL.get?_erase_ne _ _ _ hq1, DiskL.get?_set_ne _ _ _ _ hq2]
    | zstd =>
      simp only [hc, ha] at h
      have : d' = (dm.set (r.nameOf r.base) (r.codec a)).erase file := by injection h with h; exact h.symm
      rw [this, DiskL.get?_erase_ne _ _ _ hq1, DiskL.get?_set_ne _ _ _ _ hq2]

end Log4rs.Rolling

namespace Log4rs.Rolling
open Log4rs.Roller

theorem drop_one_snoc {α : Type} (l : List α) (x : α) : ∃ j, j ≤ 1 ∧ l.drop 1 ++ [x] = (l ++ [x]).drop j := by
  cases l with
  | nil => exact ⟨0, by omega, rfl⟩
  | cons a t => exact ⟨1, by omega, rfl⟩

/-- the single `final` step under the fault oracle -/
theorem runSteps_final_only (r : RollerCfg) (file : Path) (fault : Nat → Bool) (kk : Nat) (dm : Disk) :
    (∃ e, runSteps r file fault kk [Step.final] dm = (.error e, dm)) ∨
    (∃ d', finalStep r.comp r.codec file (r.nameOf r.base) dm = .ok d' ∧
      runSteps r file fault kk [Step.final] dm = (.ok d', d')) := by
  simp only [runSteps]
  by_cases hf : fault kk
  · left; exact ⟨FsErr.injected kk, by simp [hf]⟩
  · simp only [hf, applyStep]
    cases hfin : finalStep r.comp r.codec file (r.nameOf r.base) dm with
    | error e => left; exact ⟨e, by simp⟩
    | ok d' => right; exact ⟨d', rfl, by simp [runSteps]⟩

/-- the fixed-window model: frame, success and failure clauses, each with the bound `j ≤ 1` -/
theorem fixedWindow_clauses (r : RollerCfg) (path : Path) (decode : Bytes → Bytes)
    (hdec : ∀ x, decode (r.codec x) = x)
    (hinj : ∀ i j, i < r.count → j < r.count → r.nameOf (r.base + i) = r.nameOf (r.base + j) → i = j)
    (hfile : ∀ j, j < r.count → r.nameOf (r.base + j) ≠ path) :
    (∀ d d', (∀ q, q ≠ path → d'.get? q = d.get? q) → fwArch r decode d' = fwArch r decode d) ∧
    (∀ fault d x d' a, fixedWindowRoll r path fault d = (.ok x, d') → d.get? path = some a →
      d'.get? path = none ∧ ∃ j, j ≤ 1 ∧ fwArch r decode d' = (fwArch r decode d ++ [a]).drop j) ∧
    (∀ fault d e d', fixedWindowRoll r path fault d = (.error e, d') →
      d'.get? path = d.get? path ∧ ∃ j, j ≤ 1 ∧ fwArch r decode d' = (fwArch r decode d).drop j) := by
  have hframe : ∀ d d', (∀ q, q ≠ path → d'.get? q = d.get? q) → fwArch r decode d' = fwArch r decode d := by
    intro d d' h
    simp only [fwArch]
    rw [winOf_congr r.nameOf r.base r.count d d' (fun j hj => h _ (hfile j hj))]
  refine ⟨hframe, ?_, ?_⟩
  · -- success
    intro fault d x d' a h hg
    unfold fixedWindowRoll at h
    by_cases hc : r.count = 0
    · simp only [hc, if_true] at h
      by_cases hf : fault 0
      · simp [hf] at h
      · simp only [hf, hg] at h
        have := (Prod.mk.inj h).2
        subst this
        refine ⟨DiskL.get?_erase_self d path, 1, ?_⟩
        simp [fwArch, winOf, hc]
    · obtain ⟨k, hk⟩ : ∃ k, r.count = k + 1 := ⟨r.count - 1, by omega⟩
      simp only [hc, if_false, steps_eq, hk, Nat.add_sub_cancel] at h
      have hinj' : ∀ i j, i ≤ k → j ≤ k → r.nameOf (r.base + i) = r.nameOf (r.base + j) → i = j :=
        fun i j hi hj => hinj i j (by omega) (by omega)
      obtain ⟨hfr, _, hwin, hbot⟩ := shift_window r.nameOf r.base k hinj' d (idxL r.base k) (List.prefix_refl _)
      have hpath : (shiftRun r.nameOf (idxL r.base k) d).get? path = some a := by
        rw [hfr path (fun j hj => (hfile j (by omega)).symm)]
        exact hg
      rcases runSteps_shifts r path fault (idxL r.base k) [Step.final] 0 d with ⟨p, e, _, he⟩ | hall
      · rw [he] at h; cases (Prod.mk.inj h).1
      · rw [hall] at h
        rcases runSteps_final_only r path fault (0 + (idxL r.base k).length) (shiftRun r.nameOf (idxL r.base k) d)
          with ⟨e, he⟩ | ⟨d'', hfin, hrun⟩
        · rw [he] at h; cases (Prod.mk.inj h).1
        · rw [hrun] at h
          have hd' : d'' = d' := (Prod.mk.inj h).2
          subst hd'
          have hbne : r.nameOf r.base ≠ path := by simpa using hfile 0 (by omega)
          obtain ⟨hgone, hslot, hothers⟩ := finalStep_spec r path _ _ hfin a hpath hbne
          refine ⟨hgone, ?_⟩
          -- the window after the final step
          have hup : winOf r.nameOf (r.base + 1) k d'' = winOf r.nameOf (r.base + 1) k (shiftRun r.nameOf (idxL r.base k) d) := by
            apply winOf_congr
            intro j hj
            apply hothers
            · have := hfile (1 + j) (by omega)
              simpa [Nat.add_assoc] using this
            · intro heq
              have := hinj (1 + j) 0 (by omega) (by omega) (by simpa [Nat.add_assoc] using heq)
              omega
          have hnew : winOf r.nameOf r.base (k + 1) d'' =
              winOf r.nameOf (r.base + 1) k (shiftRun r.nameOf (idxL r.base k) d) ++
                [match r.comp with | .none => a | _ => r.codec a] := by
            rw [winOf_succ_bot, hup, hslot]
            rfl
          have hdecA : (match r.comp with | .none => id | _ => decode) (match r.comp with | .none => a | _ => r.codec a) = a := by
            cases r.comp <;> simp [hdec]
          -- the window before the final step, bottom slot peeled
          have hmid : ∃ j, j ≤ 1 ∧ winOf r.nameOf (r.base + 1) k (shiftRun r.nameOf (idxL r.base k) d) ++
                [match r.comp with | .none => a | _ => r.codec a] =
              (winOf r.nameOf r.base (k + 1) d ++ [match r.comp with | .none => a | _ => r.codec a]).drop j := by
            by_cases hk1 : k ≥ 1
            · have hb := hbot rfl hk1
              have hmid' : winOf r.nameOf r.base (k + 1) (shiftRun r.nameOf (idxL r.base k) d) =
                  winOf r.nameOf (r.base + 1) k (shiftRun r.nameOf (idxL r.base k) d) := by
                rw [winOf_succ_bot, hb]; simp
              rw [← hmid']
              rcases hwin with hw | hw
              · exact ⟨0, by omega, by rw [hw]; rfl⟩
              · rw [hw]; exact drop_one_snoc _ _
            · have hk0 : k = 0 := by omega
              subst hk0
              simp only [winOf, List.range_zero, List.reverse_nil, List.filterMap_nil, List.nil_append]
              cases hb0 : d.get? (r.nameOf r.base) with
              | none => exact ⟨0, by omega, by simp [List.range_succ, hb0]⟩
              | some y => exact ⟨1, by omega, by simp [List.range_succ, hb0]⟩
          obtain ⟨j, hj1, hj⟩ := hmid
          refine ⟨j, hj1, ?_⟩
          simp only [fwArch, hk]
          rw [hnew, hj, List.map_drop, List.map_append, List.map_cons, List.map_nil, hdecA]
  · -- failure
    intro fault d e d' h
    unfold fixedWindowRoll at h
    by_cases hc : r.count = 0
    · simp only [hc, if_true] at h
      by_cases hf : fault 0
      · simp only [hf, if_true] at h
        rw [← (Prod.mk.inj h).2]
        exact ⟨rfl, 0, by omega, rfl⟩
      · simp only [hf] at h
        cases hg : d.get? path with
        | none =>
          simp only [hg] at h
          rw [← (Prod.mk.inj h).2]
          exact ⟨hg, 0, by omega, rfl⟩
        | some c => simp [hg] at h
    · obtain ⟨k, hk⟩ : ∃ k, r.count = k + 1 := ⟨r.count - 1, by omega⟩
      simp only [hc, if_false, steps_eq, hk, Nat.add_sub_cancel] at h
      have hinj' : ∀ i j, i ≤ k → j ≤ k → r.nameOf (r.base + i) = r.nameOf (r.base + j) → i = j :=
        fun i j hi hj => hinj i j (by omega) (by omega)
      -- whatever prefix of the shifts ran, the contract's conclusion holds for that disk
      have hprefix : ∀ p, p <+: idxL r.base k →
          (shiftRun r.nameOf p d).get? path = d.get? path ∧
          ∃ j, j ≤ 1 ∧ fwArch r decode (shiftRun r.nameOf p d) = (fwArch r decode d).drop j := by
        intro p hp
        obtain ⟨hfr, _, hwin, _⟩ := shift_window r.nameOf r.base k hinj' d p hp
        refine ⟨hfr path (fun j hj => (hfile j (by omega)).symm), ?_⟩
        simp only [fwArch, hk]
        rcases hwin with hw | hw
        · exact ⟨0, by omega, by rw [hw]; rfl⟩
        · exact ⟨1, by omega, by rw [hw, List.map_drop]⟩
      rcases runSteps_shifts r path fault (idxL r.base k) [Step.final] 0 d with ⟨p, e', hp, he⟩ | hall
      · rw [he] at h
        rw [← (Prod.mk.inj h).2]
        exact hprefix p hp
      · rw [hall] at h
        rcases runSteps_final_only r path fault (0 + (idxL r.base k).length) (shiftRun r.nameOf (idxL r.base k) d)
          with ⟨e', he⟩ | ⟨d'', _, hrun⟩
        · rw [he] at h
          rw [← (Prod.mk.inj h).2]
          exact hprefix _ (List.prefix_refl _)
        · rw [hrun] at h; cases (Prod.mk.inj h).1


theorem rollContract_fixedWindow (r : RollerCfg) (path : Path) (decode : Bytes → Bytes)
    (hdec : ∀ x, decode (r.codec x) = x)
    (hinj : ∀ i j, i < r.count → j < r.count → r.nameOf (r.base + i) = r.nameOf (r.base + j) → i = j)
    (hfile : ∀ j, j < r.count → r.nameOf (r.base + j) ≠ path) :
    RollContract (fixedWindowRoll r) path (fwArch r decode) := by
  obtain ⟨hf, hok, herr⟩ := fixedWindow_clauses r path decode hdec hinj hfile
  refine ⟨hf, ?_, ?_⟩
  · intro fault d x d' a h hg
    obtain ⟨h1, j, _, h2⟩ := hok fault d x d' a h hg
    exact ⟨h1, j, h2⟩
  · intro fault d e d' h
    obtain ⟨h1, j, _, h2⟩ := herr fault d e d' h
    exact ⟨h1, j, h2⟩

theorem rollContractB_fixedWindow (r : RollerCfg) (path : Path) (decode : Bytes → Bytes)
    (hdec : ∀ x, decode (r.codec x) = x)
    (hinj : ∀ i j, i < r.count → j < r.count → r.nameOf (r.base + i) = r.nameOf (r.base + j) → i = j)
    (hfile : ∀ j, j < r.count → r.nameOf (r.base + j) ≠ path) :
    RollContractB (fixedWindowRoll r) path (fwArch r decode) := by
  obtain ⟨_, hok, herr⟩ := fixedWindow_clauses r path decode hdec hinj hfile
  exact { toRollContract := rollContract_fixedWindow r path decode hdec hinj hfile
          okB := fun fault d x d' a h hg => (hok fault d x d' a h hg).2
          errB := fun fault d e d' h => (herr fault d e d' h).2 }


/-! ### the compressing final step in three sub-steps (`fixedWindowRollC`) -/

/-- when the sub-step fault (index `count`) does not strike, the 3-step model is the shared one -/
theorem fixedWindowRollC_no_fault (lc : Bool) (r : RollerCfg) (file : Path) (fault : Nat → Bool) (d : Disk)
    (h : fault r.count = false) : fixedWindowRollC lc r file fault d = fixedWindowRoll r file fault d := by
  unfold fixedWindowRollC
  by_cases hc : r.count = 0
  · simp [hc]
  · simp only [hc, if_false]
    cases hcomp : r.comp with
    | none => rfl
    | gzip =>
      simp only
      rcases hr : fixedWindowRoll r file fault d with ⟨res, d'⟩
      cases res with
      | error e => rfl
      | ok x => cases hg : d.get? file <;> simp [h]
    | zstd =>
      simp only
      rcases hr : fixedWindowRoll r file fault d with ⟨res, d'⟩
      cases res with
      | error e => rfl
      | ok x => cases hg : d.get? file <;> simp [h]

/-- without compression there is no third sub-step -/
theorem fixedWindowRollC_plain (lc : Bool) (r : RollerCfg) (file : Path) (fault : Nat → Bool) (d : Disk)
    (h : r.comp = .none) : fixedWindowRollC lc r file fault d = fixedWindowRoll r file fault d := by
  unfold fixedWindowRollC
  by_cases hc : r.count = 0
  · simp [hc]
  · simp [hc, h]

/-- the roller as the histories of the partial theorem see it: the `remove_file(src)` sub-step of a
compressing rotation is not made to fail -/
def noRemoveFault (r : RollerCfg) (roll : RollFn) : RollFn := fun p f d => roll p (fun k => f k && k != r.count) d

theorem rollContractB_fixedWindowC_partial (lc : Bool) (r : RollerCfg) (path : Path) (decode : Bytes → Bytes)
    (hdec : ∀ x, decode (r.codec x) = x)
    (hinj : ∀ i j, i < r.count → j < r.count → r.nameOf (r.base + i) = r.nameOf (r.base + j) → i = j)
    (hfile : ∀ j, j < r.count → r.nameOf (r.base + j) ≠ path) :
    RollContractB (noRemoveFault r (fixedWindowRollC lc r)) path (fwArch r decode) := by
  have hB := rollContractB_fixedWindow r path decode hdec hinj hfile
  have heq : ∀ f d, noRemoveFault r (fixedWindowRollC lc r) path f d =
      fixedWindowRoll r path (fun k => f k && k != r.count) d := by
    intro f d
    simp only [noRemoveFault]
    exact fixedWindowRollC_no_fault lc r path _ d (by simp)
  exact { frame := hB.frame
          ok := fun f d x d' a h hg => hB.ok _ d x d' a (by rw [← heq]; exact h) hg
          err := fun f d e d' h => hB.err _ d e d' (by rw [← heq]; exact h)
          okB := fun f d x d' a h hg => hB.okB _ d x d' a (by rw [← heq]; exact h) hg
          errB := fun f d e d' h => hB.errB _ d e d' (by rw [← heq]; exact h) }


/-- after a successful rotation of a non-empty window, slot `base` is occupied -/
theorem fixedWindowRoll_ok_slot (r : RollerCfg) (path : Path)
    (hinj : ∀ i j, i < r.count → j < r.count → r.nameOf (r.base + i) = r.nameOf (r.base + j) → i = j)
    (hfile : ∀ j, j < r.count → r.nameOf (r.base + j) ≠ path) (hc : r.count ≠ 0)
    (fault : Nat → Bool) (d x d' : Disk) (a : Bytes)
    (h : fixedWindowRoll r path fault d = (.ok x, d')) (hg : d.get? path = some a) :
    ∃ a', d'.get? (r.nameOf r.base) = some a' := by
  unfold fixedWindowRoll at h
  obtain ⟨k, hk⟩ : ∃ k, r.count = k + 1 := ⟨r.count - 1, by omega⟩
  simp only [hc, if_false, steps_eq, hk, Nat.add_sub_cancel] at h
  have hinj' : ∀ i j, i ≤ k → j ≤ k → r.nameOf (r.base + i) = r.nameOf (r.base + j) → i = j :=
    fun i j hi hj => hinj i j (by omega) (by omega)
  obtain ⟨hfr, _, _, _⟩ := shift_window r.nameOf r.base k hinj' d (idxL r.base k) (List.prefix_refl _)
  have hpath : (shiftRun r.nameOf (idxL r.base k) d).get? path = some a := by
    rw [hfr path (fun j hj => (hfile j (by omega)).symm)]
    exact hg
  rcases runSteps_shifts r path fault (idxL r.base k) [Step.final] 0 d with ⟨p, e, _, he⟩ | hall
  · rw [he] at h; cases (Prod.mk.inj h).1
  · rw [hall] at h
    rcases runSteps_final_only r path fault (0 + (idxL r.base k).length) (shiftRun r.nameOf (idxL r.base k) d)
      with ⟨e, he⟩ | ⟨d'', hfin, hrun⟩
    · rw [he] at h; cases (Prod.mk.inj h).1
    · rw [hrun] at h
      have hd' : d'' = d' := (Prod.mk.inj h).2
      subst hd'
      have hbne : r.nameOf r.base ≠ path := by simpa using hfile 0 (by omega)
      exact ⟨_, (finalStep_spec r path _ _ hfin a hpath hbne).2.1⟩

theorem dropLast_of_drop_snoc {α : Type} (A L : List α) (a x : α) (j : Nat)
    (h : L ++ [x] = (A ++ [a]).drop j) : L = A.drop j := by
  by_cases hj : j ≤ A.length
  · rw [List.drop_append_of_le_length hj] at h
    exact (List.append_inj' h rfl).1
  · have : (A ++ [a]).drop j = [] := List.drop_eq_nil_of_le (by simp; omega)
    rw [this] at h
    simp at h

/-- THE REPAIRED compressing rotation (`leavesCopy = false`: the destination is removed when
`compress` fails) satisfies the bounded contract at every fault, the `remove_file(src)` sub-step
included -/
theorem rollContractB_fixedWindowC_fixed (r : RollerCfg) (path : Path) (decode : Bytes → Bytes)
    (hdec : ∀ x, decode (r.codec x) = x)
    (hinj : ∀ i j, i < r.count → j < r.count → r.nameOf (r.base + i) = r.nameOf (r.base + j) → i = j)
    (hfile : ∀ j, j < r.count → r.nameOf (r.base + j) ≠ path) :
    RollContractB (fixedWindowRollC false r) path (fwArch r decode) := by
  have hB := rollContractB_fixedWindow r path decode hdec hinj hfile
  -- every outcome of the 3-step model is an outcome of the shared model, except the new failure
  have key : ∀ fault d,
      fixedWindowRollC false r path fault d = fixedWindowRoll r path fault d ∨
      (r.count ≠ 0 ∧ ∃ x d' c, fixedWindowRoll r path fault d = (.ok x, d') ∧ d.get? path = some c ∧
        fixedWindowRollC false r path fault d =
          (.error (.injected r.count), (d'.set path c).erase (r.nameOf r.base))) := by
    intro fault d
    unfold fixedWindowRollC
    by_cases hc : r.count = 0
    · left; simp [hc]
    · simp only [hc, if_false]
      cases hcomp : r.comp with
      | none => left; rfl
      | gzip =>
        simp only
        rcases hr : fixedWindowRoll r path fault d with ⟨res, d'⟩
        cases res with
        | error e => left; rfl
        | ok x =>
          cases hg : d.get? path with
          | none => left; rfl
          | some c =>
            by_cases hf : fault r.count
            · right; exact ⟨hc, x, d', c, rfl, rfl, by simp [hf]⟩
            · left; simp [hf]
      | zstd =>
        simp only
        rcases hr : fixedWindowRoll r path fault d with ⟨res, d'⟩
        cases res with
        | error e => left; rfl
        | ok x =>
          cases hg : d.get? path with
          | none => left; rfl
          | some c =>
            by_cases hf : fault r.count
            · right; exact ⟨hc, x, d', c, rfl, rfl, by simp [hf]⟩
            · left; simp [hf]
  -- the new failure: log file back in place, slot `base` empty again
  have hnew : ∀ fault d x d' c, r.count ≠ 0 → fixedWindowRoll r path fault d = (.ok x, d') → d.get? path = some c →
      ((d'.set path c).erase (r.nameOf r.base)).get? path = d.get? path ∧
      ∃ j, j ≤ 1 ∧ fwArch r decode ((d'.set path c).erase (r.nameOf r.base)) = (fwArch r decode d).drop j := by
    intro fault d x d' c hc hr hg
    have hbne : r.nameOf r.base ≠ path := by simpa using hfile 0 (by omega)
    refine ⟨by rw [DiskL.get?_erase_ne _ _ _ (fun e => hbne e.symm), DiskL.get?_set_self, hg], ?_⟩
    obtain ⟨j, hj, harch⟩ := hB.okB fault d x d' c hr hg
    obtain ⟨a', hslot⟩ := fixedWindowRoll_ok_slot r path hinj hfile hc fault d x d' c hr hg
    obtain ⟨k, hk⟩ : ∃ k, r.count = k + 1 := ⟨r.count - 1, by omega⟩
    refine ⟨j, hj, ?_⟩
    -- the window of d' ends with slot base; erasing it removes exactly that last element
    have h1 : winOf r.nameOf r.base (k + 1) d' = winOf r.nameOf (r.base + 1) k d' ++ [a'] := by
      rw [winOf_succ_bot, hslot]; rfl
    have h2 : winOf r.nameOf r.base (k + 1) ((d'.set path c).erase (r.nameOf r.base)) = winOf r.nameOf (r.base + 1) k d' := by
      rw [winOf_succ_bot, DiskL.get?_erase_self]
      simp only [Option.toList, List.append_nil]
      apply winOf_congr
      intro i hi
      have hne1 : r.nameOf (r.base + 1 + i) ≠ r.nameOf r.base := by
        intro heq
        have := hinj (1 + i) 0 (by omega) (by omega) (by simpa [Nat.add_assoc] using heq)
        omega
      have hne2 : r.nameOf (r.base + 1 + i) ≠ path := by
        have := hfile (1 + i) (by omega)
        simpa [Nat.add_assoc] using this
      rw [DiskL.get?_erase_ne _ _ _ hne1, DiskL.get?_set_ne _ _ _ _ hne2]
    simp only [fwArch, hk] at harch ⊢
    rw [h2]
    rw [h1, List.map_append, List.map_cons, List.map_nil] at harch
    exact dropLast_of_drop_snoc _ _ _ _ _ harch
  refine { frame := hB.frame, ok := ?_, err := ?_, okB := ?_, errB := ?_ }
  · intro fault d x d' a h hg
    rcases key fault d with heq | ⟨_, _, _, _, _, _, heq⟩
    · exact hB.ok fault d x d' a (heq ▸ h) hg
    · rw [heq] at h; cases (Prod.mk.inj h).1
  · intro fault d e d' h
    rcases key fault d with heq | ⟨hc, x, d1, c, hr, hg, heq⟩
    · obtain ⟨h1, j, h2⟩ := hB.err fault d e d' (heq ▸ h)
      exact ⟨h1, j, h2⟩
    · rw [heq] at h
      have hd : d' = (d1.set path c).erase (r.nameOf r.base) := ((Prod.mk.inj h).2).symm
      subst hd
      obtain ⟨h1, j, _, h2⟩ := hnew fault d x d1 c hc hr hg
      exact ⟨h1, j, h2⟩
  · intro fault d x d' a h hg
    rcases key fault d with heq | ⟨_, _, _, _, _, _, heq⟩
    · exact hB.okB fault d x d' a (heq ▸ h) hg
    · rw [heq] at h; cases (Prod.mk.inj h).1
  · intro fault d e d' h
    rcases key fault d with heq | ⟨hc, x, d1, c, hr, hg, heq⟩
    · exact hB.errB fault d e d' (heq ▸ h)
    · rw [heq] at h
      have hd : d' = (d1.set path c).erase (r.nameOf r.base) := ((Prod.mk.inj h).2).symm
      subst hd
      exact (hnew fault d x d1 c hc hr hg).2

end Log4rs.Rolling
