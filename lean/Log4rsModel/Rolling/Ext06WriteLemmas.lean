import Log4rsModel.Rolling.Ext06Write
import Log4rsModel.Rolling.LemmasRolling
/-
Exact accounting of the `write_all` loop for every short-write oracle, and the coincidence of the
counting appender with the model's.
-/
namespace Log4rs.Rolling.Write06
open Log4rs.Rolling Log4rs.Roller

/-- the oracle accepts at least one byte and at most what is offered (`File::write` on a regular
file; `Ok(0)` would be `WriteZero`, an I/O error outside the model) -/
def GoodAccept (acc : Accept) : Prop := ∀ k n, 1 ≤ n → 1 ≤ acc k n ∧ acc k n ≤ n

/-- one `write`: accepts between 1 and all bytes, counts exactly what it accepted, and the accepted
bytes are appended to what the writer holds (disk ++ buffer) -/
theorem write_spec (acc : Accept) (hacc : GoodAccept acc) (w : LW) (data : Bytes) (hne : data ≠ []) :
    1 ≤ (write acc w data).1 ∧ (write acc w data).1 ≤ data.length ∧
    (write acc w data).2.len = w.len + (write acc w data).1 ∧
    (write acc w data).2.bf.logical = w.bf.logical ++ data.take (write acc w data).1 := by
  have hlen : 1 ≤ data.length := by
    cases data with
    | nil => exact absurd rfl hne
    | cons a t => simp
  unfold write
  by_cases h1 : data.length < CAP - w.bf.buf.length
  · rw [if_pos h1]
    refine ⟨hlen, Nat.le_refl _, rfl, ?_⟩
    simp [BufFile.logical, List.append_assoc]
  · rw [if_neg h1]
    by_cases h2 : data.length ≥ CAP
    · rw [if_pos h2]
      obtain ⟨ha1, ha2⟩ := hacc w.calls data.length hlen
      refine ⟨ha1, ha2, rfl, ?_⟩
      by_cases h3 : data.length > CAP - w.bf.buf.length
      · simp [h3, BufFile.logical, BufFile.flush, List.append_assoc]
      · -- the slice exactly fills the spare capacity and is at least the capacity: the buffer is empty
        have hb : w.bf.buf.length = 0 := by
          simp only [CAP] at h1 h2 h3 ⊢
          omega
        have hb' : w.bf.buf = [] := List.eq_nil_of_length_eq_zero hb
        rw [if_neg h3]
        simp [BufFile.logical, hb']
    · rw [if_neg h2]
      refine ⟨hlen, Nat.le_refl _, rfl, ?_⟩
      by_cases h3 : data.length > CAP - w.bf.buf.length
      · simp [h3, BufFile.logical, BufFile.flush, List.append_assoc]
      · simp [h3, BufFile.logical, List.append_assoc]

/-- the loop: whatever the oracle does, `write_all` ends with every byte handed on exactly once and
the counter advanced by exactly the length of the slice -/
theorem writeAll_spec (acc : Accept) (hacc : GoodAccept acc) (fuel : Nat) (w : LW) (data : Bytes)
    (hf : data.length ≤ fuel) :
    ∃ w', writeAll acc fuel w data = some w' ∧ w'.len = w.len + data.length ∧
      w'.bf.logical = w.bf.logical ++ data := by
  induction fuel generalizing w data with
  | zero =>
    have : data = [] := List.eq_nil_of_length_eq_zero (by omega)
    subst this
    exact ⟨w, by simp [writeAll], by simp, by simp⟩
  | succ fuel ih =>
    by_cases he : data = []
    · subst he
      exact ⟨w, by simp [writeAll], by simp, by simp⟩
    · obtain ⟨h1, h2, h3, h4⟩ := write_spec acc hacc w data he
      have hie : data.isEmpty = false := by
        cases data with
        | nil => exact absurd rfl he
        | cons a t => rfl
      have hn0 : ¬ (write acc w data).1 = 0 := by omega
      obtain ⟨w', hw', hl', hg'⟩ := ih (write acc w data).2 (data.drop (write acc w data).1)
        (by rw [List.length_drop]; omega)
      refine ⟨w', ?_, ?_, ?_⟩
      · simp only [writeAll, hie, Bool.false_eq_true, if_false, hn0]
        exact hw'
      · rw [hl', h3, List.length_drop]; omega
      · rw [hg', h4, List.append_assoc, List.take_append_drop]

theorem set_set (d : Disk) (p : Path) (x y : Bytes) : (d.set p x).set p y = d.set p y := by
  have : (d.set p x).erase p = d.erase p := by
    simp only [Disk.set, Disk.erase, List.filter_append, List.filter_filter]
    congr 1
    simp
  show (⟨((d.set p x).erase p).files ++ [(p, y)]⟩ : Disk) = _
  rw [this]
  rfl

variable {σ : Type}

/-- write + flush through the counting writer is write + flush of the model -/
theorem writeAndFlushX_eq (acc : Accept) (hacc : GoodAccept acc) (cfg : Cfg σ) (s : St σ) (w : Writer) (r : Rec) :
    writeAndFlushX acc cfg s w r = some (writeAndFlush cfg s w r) := by
  obtain ⟨lw, hlw, hlen, hlog⟩ := writeAll_spec acc hacc (encBytes r).length
    { bf := { disk := fileOf cfg s.disk, buf := w.buf }, len := w.len, calls := 0 } (encBytes r) (Nat.le_refl _)
  have hmodel := BufFile.logical_foldl_writeLoop [encBytes r] { disk := fileOf cfg s.disk, buf := w.buf }
  simp only [BufFile.logical, List.flatten_cons, List.flatten_nil, List.append_nil] at hmodel hlog
  unfold writeAndFlushX
  rw [hlw]
  simp only [writeAndFlush, writeRec, flushW]
  have h1 : fileOf cfg (s.disk.set cfg.path (List.foldl BufFile.writeLoop { disk := fileOf cfg s.disk, buf := w.buf } [encBytes r]).disk) =
      (List.foldl BufFile.writeLoop { disk := fileOf cfg s.disk, buf := w.buf } [encBytes r]).disk :=
    fileOf_of_get (DiskL.get?_set_self _ _ _)
  rw [h1, set_set, set_set, hmodel, hlog, hlen]
  simp [encBytes]

/-- THE COUNTING APPENDER IS THE MODEL'S: for every oracle of short writes, `appendX` does exactly
what `append` does — same outputs (the size shown to the policy included), same state -/
theorem appendX_eq (acc : Accept) (hacc : GoodAccept acc) (cfg : Cfg σ) (s : St σ) (r : Rec) (fault : Nat → Bool) :
    appendX acc cfg s r fault = some (append cfg s r fault) := by
  unfold appendX append
  simp only [writeAndFlushX_eq acc hacc]
  by_cases hp : cfg.trig.pre
  · simp only [hp, if_true]
    rcases hproc : process cfg (getWriter cfg s).1 (getWriter cfg s).2.len fault with ⟨res, rolled, s3⟩
    cases res <;> simp
  · simp only [hp]
    simp

end Log4rs.Rolling.Write06
