/-
`OnStartUpTrigger::trigger` called from many threads WITHOUT any lock around it.

  fn trigger(&self, file: &LogFile) -> Result<bool> {
      let mut result = false;
      self.initial.call_once(|| { if file.len_estimate() >= self.min_size { result = true; } });
      Ok(result)
  }

`trigger` is a public method of a `Send + Sync` object, so the appender's mutex is not what makes
"at most one rotation request" true of the trigger itself: `std::sync::Once` is. The machine below
makes the one-shot a separate step of every call:

  state of the `Once`: INCOMPLETE | RUNNING | COMPLETE
  call_once:  a caller looks at the state and, if INCOMPLETE, becomes the runner — ONE atomic step
              (the compare-and-swap of `Once`; this is the assumption);
              the runner executes the closure (sets `result` from its own size test) and stores COMPLETE;
              a caller that finds RUNNING blocks until COMPLETE and returns `false`;
              a caller that finds COMPLETE returns `false`.

`stepRacy` is the same machine with the look and the claim as two separate steps (a plain
`bool` flag: `if !done { done = true; … }`): two callers can both see INCOMPLETE. It exists for the
negative witness `C17_once_racy_flag_breaks` — the theorem about `step` really uses atomicity.
-/
namespace Log4rs.Rolling.Once17

inductive OnceSt where
  | incomplete | running | complete
  deriving Repr, DecidableEq

inductive Pc where
  | idle
  | entered            -- inside `call_once`, the state not yet examined
  | sawIncomplete      -- (racy variant only) has seen INCOMPLETE, has not claimed it yet
  | runner             -- claimed the `Once`: the closure runs next
  | waiting            -- found RUNNING: blocked until COMPLETE
  | ret (ans : Bool)   -- `trigger` is about to return `ans`
  deriving Repr, DecidableEq

structure Th where
  /-- calls of `trigger` still to make -/
  todo : Nat
  pc : Pc
  /-- what its calls returned so far -/
  results : List Bool
  /-- outcome of this caller's size test `len_estimate() >= min_size` (the files may differ) -/
  big : Bool
  deriving Repr, DecidableEq

structure St where
  once : OnceSt
  threads : List Th
  deriving Repr, DecidableEq

def init (progs : List (Nat × Bool)) : St :=
  { once := .incomplete, threads := progs.map fun p => { todo := p.1, pc := .idle, results := [], big := p.2 } }

/-- one step of thread `i` with an atomic `Once`; `none`: not enabled -/
def step (i : Nat) (s : St) : Option St :=
  match s.threads[i]? with
  | none => none
  | some t =>
    match t.pc with
    | .idle => if t.todo = 0 then none else some { s with threads := s.threads.set i { t with todo := t.todo - 1, pc := .entered } }
    | .entered =>
      match s.once with
      | .incomplete => some { once := .running, threads := s.threads.set i { t with pc := .runner } }
      | .running => some { s with threads := s.threads.set i { t with pc := .waiting } }
      | .complete => some { s with threads := s.threads.set i { t with pc := .ret false } }
    | .sawIncomplete => none
    | .runner => some { once := .complete, threads := s.threads.set i { t with pc := .ret t.big } }
    | .waiting => if s.once = .complete then some { s with threads := s.threads.set i { t with pc := .ret false } } else none
    | .ret a => some { s with threads := s.threads.set i { t with pc := .idle, results := t.results ++ [a] } }

/-- the same with a non-atomic flag: looking and claiming are two steps -/
def stepRacy (i : Nat) (s : St) : Option St :=
  match s.threads[i]? with
  | none => none
  | some t =>
    match t.pc with
    | .entered =>
      match s.once with
      | .incomplete => some { s with threads := s.threads.set i { t with pc := .sawIncomplete } }
      | _ => step i s
    | .sawIncomplete => some { once := .running, threads := s.threads.set i { t with pc := .runner } }
    | _ => step i s

def run (stp : Nat → St → Option St) (s : St) : List Nat → St
  | [] => s
  | i :: rest => run stp ((stp i s).getD s) rest

/-- rotation requests: calls of `trigger` that returned (or are about to return) `true` -/
def Th.yes (t : Th) : Nat := (t.results.filter id).length + (match t.pc with | .ret true => 1 | _ => 0)

def yesCount (s : St) : Nat := (s.threads.map Th.yes).sum

end Log4rs.Rolling.Once17
