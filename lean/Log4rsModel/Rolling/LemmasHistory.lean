import Log4rsModel.Rolling.LemmasRolling
/-
Lifting single-step facts to all histories (`trace`, `run`), and the well-formedness invariant.
-/
namespace Log4rs.Rolling
open Log4rs.Roller (Disk Path FsErr)

variable {σ : Type}

theorem trace_forall (cfg : Cfg σ) {P : St σ → Prop} {Q : Option Out × St σ → Prop}
    (hstep : ∀ s op, P s → P (applyOp cfg s op).2 ∧ Q (applyOp cfg s op))
    (ops : List Op) (s : St σ) (hs : P s) : ∀ e ∈ trace cfg s ops, Q e := by
  induction ops generalizing s with
  | nil => intro e he; simp [trace] at he
  | cons op ops ih =>
    intro e he
    simp only [trace, List.mem_cons] at he
    rcases he with rfl | he
    · exact (hstep s op hs).2
    · exact ih _ (hstep s op hs).1 e he

theorem run_invariant (cfg : Cfg σ) {P : St σ → Prop}
    (hstep : ∀ s op, P s → P (applyOp cfg s op).2) (ops : List Op) (s : St σ) (hs : P s) :
    P (run cfg s ops).2 := by
  induction ops generalizing s with
  | nil => exact hs
  | cons op ops ih => simpa [run] using ih _ (hstep s op hs)

theorem WF_build (cfg : Cfg σ) (s : St σ) : WF cfg (build cfg s) := by
  have h := (getWriter_spec cfg { s with writer := none, tst := cfg.trig.reinit s.tst s.now, opened := false } (Or.inl rfl)).1
  exact ⟨getWriter_opened cfg _ (Or.inr rfl), Or.inr ⟨_, h⟩⟩

theorem WF_init (cfg : Cfg σ) (d : Disk) (t0 : σ) (now : Nat) : WF cfg (init cfg d t0 now) := WF_build cfg _

theorem WF_restart (cfg : Cfg σ) (s : St σ) : WF cfg (restart cfg s) := WF_build cfg _

/-- every append leaves a well-formed state and shows the policy the true size -/
theorem append_wf (cfg : Cfg σ) (s : St σ) (r : Rec) (fault : Nat → Bool) (hwf : WF cfg s) :
    WF cfg (append cfg s r fault).2 ∧ ∃ L, (append cfg s r fault).1.consult = some (L, L) := by
  cases hpre : cfg.trig.pre with
  | true =>
    obtain ⟨hc, _, _, hop, hno, herr, hyes⟩ := append_pre_spec cfg s r fault hwf hpre _ _ (append cfg s r fault).1 (append cfg s r fault).2 rfl rfl rfl
    refine ⟨⟨hop, ?_⟩, _, hc⟩
    cases hans : (cfg.trig.fire s.tst (openView cfg s).length s.now).1 with
    | no => exact Or.inr ⟨_, (hno hans).2.2.1⟩
    | err => exact Or.inr ⟨_, (herr hans).2.2.1⟩
    | yes =>
      obtain ⟨d1, _, _, h⟩ := hyes hans
      rcases h with ⟨_, _, _, _, ho, _⟩ | ⟨_, _, _, _, hw, _⟩
      · exact Or.inr ⟨_, ho⟩
      · exact Or.inl hw
  | false =>
    obtain ⟨hc, _, _, hop, hno, herr, hyes⟩ := append_post_spec cfg s r fault hwf hpre _ _ (append cfg s r fault).1 (append cfg s r fault).2 rfl rfl rfl
    refine ⟨⟨hop, ?_⟩, _, hc⟩
    cases hans : (cfg.trig.fire s.tst (openView cfg s ++ encBytes r).length s.now).1 with
    | no => exact Or.inr ⟨_, (hno hans).2.2.1⟩
    | err => exact Or.inr ⟨_, (herr hans).2.2.1⟩
    | yes =>
      obtain ⟨d1, _, _, hw, _⟩ := hyes hans
      exact Or.inl hw

theorem WF_applyOp (cfg : Cfg σ) (s : St σ) (op : Op) (hwf : WF cfg s) : WF cfg (applyOp cfg s op).2 := by
  cases op with
  | append r f => exact (append_wf cfg s r (faultFn f) hwf).1
  | restart => exact WF_restart cfg s
  | tick dt => exact hwf


theorem appendFail_wf (cfg : Cfg σ) (s : St σ) (r : Rec) (n : Nat) (fault : Nat → Bool) (hwf : WF cfg s) :
    WF cfg (appendFail cfg s r n fault).2 := by
  cases hpre : cfg.trig.pre with
  | true =>
    obtain ⟨_, _, _, hop, hno, herr, hyes⟩ := appendFail_pre_spec cfg s r n fault hwf hpre _ _
      (appendFail cfg s r n fault).1 (appendFail cfg s r n fault).2 rfl rfl rfl
    refine ⟨hop, ?_⟩
    cases hans : (cfg.trig.fire s.tst (openView cfg s).length s.now).1 with
    | no => exact Or.inr ⟨_, (hno hans).2.2.1⟩
    | err => exact Or.inr ⟨_, (herr hans).2.2.1⟩
    | yes =>
      obtain ⟨d1, _, _, h⟩ := hyes hans
      rcases h with ⟨_, _, _, _, ho, _⟩ | ⟨_, _, _, _, hw, _⟩
      · exact Or.inr ⟨_, ho⟩
      · exact Or.inl hw
  | false =>
    obtain ⟨_, ho, _, _, _, hop⟩ := appendFail_post_spec cfg s r n fault hwf hpre
    exact ⟨hop, Or.inr ⟨_, ho⟩⟩

theorem WF_applyX (cfg : Cfg σ) (s : St σ) (op : XOp) (hwf : WF cfg s) : WF cfg (applyX cfg s op).2 := by
  cases op with
  | op o => exact WF_applyOp cfg s o hwf
  | appendFail r n f => exact appendFail_wf cfg s r n (faultFn f) hwf

end Log4rs.Rolling
