import Log4rsModel.Rolling.Ext17Roller
/-
Slot-level description of what the (wrapped) fixed-window roller leaves on the disk, in the
vocabulary of `Spec17` (`shifted`, `rotateSlots`), and the refinement step between the model's
appender with an on-start-up trigger and `Spec17.step`.
-/
namespace Log4rs.Rolling
open Log4rs.Roller

/-- how an archive is read back: plain patterns store the bytes, compressing ones are decoded -/
def decOf (r : RollerCfg) (decode : Bytes → Bytes) : Bytes → Bytes :=
  match r.comp with
  | .none => id
  | _ => decode

theorem decOf_enc (r : RollerCfg) (decode : Bytes → Bytes) (hdec : ∀ x, decode (r.codec x) = x) (a : Bytes) :
    decOf r decode (r.enc a) = a := by
  unfold decOf RollerCfg.enc
  cases r.comp <;> simp [hdec]

/-- the retention window of a disk, slot by slot, decoded -/
def slotsOf (r : RollerCfg) (decode : Bytes → Bytes) (d : Disk) : List (Option Bytes) :=
  (List.range r.count).map fun j => (d.get? (r.nameOf (r.base + j))).map (decOf r decode)

theorem slotsOf_length (r : RollerCfg) (decode : Bytes → Bytes) (d : Disk) : (slotsOf r decode d).length = r.count := by
  simp [slotsOf]

theorem slotAt_slotsOf (r : RollerCfg) (decode : Bytes → Bytes) (d : Disk) (j : Nat) (hj : j < r.count) :
    Spec17.slotAt (slotsOf r decode d) j = (d.get? (r.nameOf (r.base + j))).map (decOf r decode) := by
  simp [Spec17.slotAt, slotsOf, hj]

theorem slotsOf_congr (r : RollerCfg) (decode : Bytes → Bytes) (d d' : Disk)
    (h : ∀ j, j < r.count → d'.get? (r.nameOf (r.base + j)) = d.get? (r.nameOf (r.base + j))) :
    slotsOf r decode d' = slotsOf r decode d := by
  unfold slotsOf
  apply List.map_congr_left
  intro j hj
  rw [h j (List.mem_range.mp hj)]

theorem rebase_zero (r : RollerCfg) : ({ r with base := r.base + 0 } : RollerCfg) = r := by
  cases r; rfl

/-- the window after the first `p` shifts of a rotation -/
theorem slotsOf_applyShifts (r : RollerCfg) (decode : Bytes → Bytes) (hinj : NamesInj r) (p : Nat) (hp : p < r.count)
    (d : Disk) :
    slotsOf r decode (applyShifts { r with base := r.base + (r.count - 1 - p) } p d) =
      Spec17.shifted r.count p (slotsOf r decode d) := by
  let r' : RollerCfg := { r with base := r.base + (r.count - 1 - p) }
  have hinj' : NamesInj r' := hinj
  obtain ⟨h0, hj⟩ := slot_applyShifts hinj' p d
  unfold Spec17.shifted
  conv => lhs; unfold slotsOf
  apply List.map_congr_left
  intro i hi
  have hi' : i < r.count := List.mem_range.mp hi
  by_cases h1 : i < r.count - 1 - p
  · simp only [h1, if_true]
    rw [slotAt_slotsOf r decode d i hi']
    have := slot_applyShifts_other hinj' p d (r.base + i) (Or.inl (by show r.base + i < r.base + (r.count - 1 - p); omega))
    simp only [slot] at this
    show (Disk.get? (applyShifts r' p d) (r.nameOf (r.base + i))).map _ = _
    rw [show r.nameOf (r.base + i) = r'.nameOf (r.base + i) from rfl, this]
  · simp only [h1, if_false]
    by_cases h2 : i = r.count - 1 - p
    · simp only [h2, if_true]
      by_cases hp0 : p = 0
      · subst hp0
        simp only [if_true]
        rw [slotAt_slotsOf r decode d _ (by omega)]
        rfl
      · simp only [hp0, if_false]
        have := h0 (by omega)
        simp only [slot] at this
        show (Disk.get? (applyShifts r' p d) (r.nameOf (r.base + (r.count - 1 - p)))).map _ = none
        rw [show r.nameOf (r.base + (r.count - 1 - p)) = r'.nameOf r'.base from rfl, this]
        rfl
    · simp only [h2, if_false]
      have hgt : r.count - 1 - p < i := by omega
      have := hj (i - (r.count - 1 - p)) (by omega) (by omega)
      simp only [slot] at this
      have e1 : r'.base + (i - (r.count - 1 - p)) = r.base + i := by
        show r.base + (r.count - 1 - p) + (i - (r.count - 1 - p)) = r.base + i; omega
      have e2 : r.base + i - 1 = r.base + (i - 1) := by omega
      have e3 : r'.base + p = r.base + (r.count - 1) := by
        show r.base + (r.count - 1 - p) + p = r.base + (r.count - 1); omega
      rw [e1, e2, e3] at this
      show (Disk.get? (applyShifts r' p d) (r.nameOf (r.base + i))).map _ = _
      rw [show r.nameOf (r.base + i) = r'.nameOf (r.base + i) from rfl, this]
      rw [slotAt_slotsOf r decode d (i - 1) (by omega)]
      cases hprev : d.get? (r.nameOf (r.base + (i - 1))) with
      | some y => rfl
      | none =>
        simp only [Option.map_none]
        by_cases hl : i = r.count - 1
        · subst hl
          have : r.count - 1 - (r.count - 1 - p) = p := by omega
          simp only [this, if_true]
          rw [slotAt_slotsOf r decode d _ (by omega)]
        · have : ¬ i - (r.count - 1 - p) = p := by omega
          simp [this, hl]

/-- the window after a complete, successful rotation of the content `a` -/
theorem slotsOf_rotated (r : RollerCfg) (decode : Bytes → Bytes) (hdec : ∀ x, decode (r.codec x) = x)
    (hinj : NamesInj r) (path : Path) (hfa : FileApart r path) (hc : r.count ≠ 0) (d d' : Disk) (a : Bytes)
    (hq : ∀ q, d'.get? q =
        if q = r.nameOf r.base then some (r.enc a)
        else if q = path then none else (applyShifts r (r.count - 1) d).get? q) :
    slotsOf r decode d' = Spec17.rotateSlots r.count (slotsOf r decode d) a := by
  have hsh := slotsOf_applyShifts r decode hinj (r.count - 1) (by omega) d
  rw [show r.count - 1 - (r.count - 1) = 0 from by omega, rebase_zero] at hsh
  unfold Spec17.rotateSlots
  rw [← hsh]
  apply List.ext_getElem?
  intro i
  by_cases hi : i < r.count
  · by_cases hi0 : i = 0
    · subst hi0
      rw [List.getElem?_set_self (by rw [slotsOf_length]; exact hi)]
      simp only [slotsOf, List.getElem?_map, List.getElem?_range hi, Option.map_some, Nat.add_zero]
      rw [hq, if_pos rfl]
      simp [decOf_enc r decode hdec]
    · rw [List.getElem?_set_ne (by omega)]
      simp only [slotsOf, List.getElem?_map, List.getElem?_range hi, Option.map_some]
      rw [hq, if_neg (fun e => by have := hinj _ _ e; omega), if_neg (hfa _)]
  · have h1 : (slotsOf r decode d').length ≤ i := by rw [slotsOf_length]; omega
    have h2 : ((slotsOf r decode (applyShifts r (r.count - 1) d)).set 0 (some a)).length ≤ i := by
      rw [List.length_set, slotsOf_length]; omega
    rw [List.getElem?_eq_none h1, List.getElem?_eq_none h2]

/-- on a dense window the slot-level rotation is the statement's `rotateWindow` -/
theorem Spec17.rotateSlots_dense (count : Nat) (ws : List Bytes) (x : Bytes) :
    Spec17.rotateSlots count (Spec17.ofWindow count ws) x = Spec17.ofWindow count (Spec.rotateWindow count ws x) := by
  unfold Spec17.rotateSlots Spec17.ofWindow Spec17.shifted Spec.rotateWindow
  apply List.ext_getElem?
  intro i
  by_cases hi : i < count
  · have hsl : ∀ j, j < count → Spec17.slotAt (List.map (fun i => ws[i]?) (List.range count)) j = ws[j]? := by
      intro j hj
      simp [Spec17.slotAt, hj]
    by_cases hi0 : i = 0
    · subst hi0
      rw [List.getElem?_set_self (by simp; omega)]
      simp [hi]
    · rw [List.getElem?_set_ne (by omega)]
      simp only [List.getElem?_map, List.getElem?_range hi, Option.map_some]
      have h1 : ¬ i < count - 1 - (count - 1) := by omega
      have h2 : ¬ i = count - 1 - (count - 1) := by omega
      simp only [h1, h2, if_false]
      rw [hsl (i - 1) (by omega), hsl i hi]
      rw [List.getElem?_take, if_pos hi]
      obtain ⟨k, rfl⟩ : ∃ k, i = k + 1 := ⟨i - 1, by omega⟩
      simp only [Nat.add_sub_cancel, List.getElem?_cons_succ]
      cases hk : ws[k]? with
      | some y => rfl
      | none =>
        have : ws.length ≤ k := by simpa using hk
        have : ws[k + 1]? = none := by simp; omega
        simp [this]
  · rw [List.getElem?_eq_none (by simp; omega), List.getElem?_eq_none (by simp; omega)]

end Log4rs.Rolling
