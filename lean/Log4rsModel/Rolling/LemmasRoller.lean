import Log4rsModel.Rolling.LemmasHistory
/-
What the appender needs of a roller, as explicit contracts, and their proofs for the shared models
of the delete roller and the fixed-window roller (own proofs; the roller area has its own).
-/
namespace Log4rs.Rolling
open Log4rs.Roller

/-- `Roll::roll`'s documented obligation: "If this method returns successfully, there *must* no
longer be a file at the specified location." -/
def RollGone (roll : RollFn) (path : Path) : Prop :=
  ∀ fault d x d', roll path fault d = (.ok x, d') → d'.get? path = none

theorem rollGone_delete (path : Path) : RollGone (fun p f d => deleteRoll p f d) path := by
  intro fault d x d' h
  simp only [deleteRoll] at h
  by_cases hf : fault 0
  · simp [hf] at h
  · simp only [hf] at h
    cases hg : d.get? path with
    | none => simp [hg] at h
    | some c =>
      simp only [hg] at h
      have := (Prod.mk.inj h).2
      subst this
      exact DiskL.get?_erase_self d path

theorem finalStep_gone (comp : Compression) (codec : Bytes → Bytes) (file dst : Path) (dm d' : Disk)
    (hne : dst ≠ file) (h : finalStep comp codec file dst dm = .ok d') : d'.get? file = none := by
  unfold finalStep at h
  cases comp with
  | none =>
    simp only [moveFile] at h
    cases hg : dm.get? file with
    | none =>
      simp only [hg] at h
      have : d' = dm := by injection h with h; exact h.symm
      rw [this, hg]
    | some c =>
      simp only [hg] at h
      have : d' = (dm.erase file).set dst c := by injection h with h; exact h.symm
      rw [this, DiskL.get?_set_ne _ _ _ _ (fun e => hne e.symm)]
      exact DiskL.get?_erase_self dm file
  | gzip =>
    cases hg : dm.get? file with
    | none => simp [hg] at h
    | some c =>
      simp only [hg] at h
      have : d' = (dm.set dst (codec c)).erase file := by injection h with h; exact h.symm
      rw [this]
      exact DiskL.get?_erase_self _ file
  | zstd =>
    cases hg : dm.get? file with
    | none => simp [hg] at h
    | some c =>
      simp only [hg] at h
      have : d' = (dm.set dst (codec c)).erase file := by injection h with h; exact h.symm
      rw [this]
      exact DiskL.get?_erase_self _ file

/-- a successful run of steps ending in `final` ends with a successful final step -/
theorem runSteps_final (r : RollerCfg) (file : Path) (fault : Nat → Bool) (l : List Step) (k : Nat) (d : Disk)
    (x d' : Disk) (h : runSteps r file fault k (l ++ [Step.final]) d = (.ok x, d')) :
    ∃ dm, finalStep r.comp r.codec file (r.nameOf r.base) dm = .ok d' := by
  induction l generalizing k d with
  | nil =>
    simp only [List.nil_append, runSteps] at h
    by_cases hf : fault k
    · simp [hf] at h
    · simp only [hf] at h
      cases ha : applyStep r file Step.final d with
      | error e => simp [ha] at h
      | ok d'' =>
        simp only [ha, runSteps] at h
        have : d' = d'' := (Prod.mk.inj h).2.symm
        exact ⟨d, by rw [this]; exact ha⟩
  | cons s l ih =>
    simp only [List.cons_append, runSteps] at h
    by_cases hf : fault k
    · simp [hf] at h
    · simp only [hf] at h
      cases ha : applyStep r file s d with
      | error e => simp [ha] at h
      | ok d'' =>
        simp only [ha] at h
        exact ih _ _ h

theorem rollGone_fixedWindow (r : RollerCfg) (path : Path) (hbase : r.nameOf r.base ≠ path) :
    RollGone (fixedWindowRoll r) path := by
  intro fault d x d' h
  unfold fixedWindowRoll at h
  by_cases hc : r.count = 0
  · simp only [hc, if_true] at h
    by_cases hf : fault 0
    · simp [hf] at h
    · simp only [hf] at h
      cases hg : d.get? path with
      | none => simp [hg] at h
      | some c =>
        simp only [hg] at h
        have := (Prod.mk.inj h).2
        subst this
        exact DiskL.get?_erase_self d path
  · simp only [hc, if_false, steps] at h
    obtain ⟨dm, hfin⟩ := runSteps_final r path fault _ 0 d x d' h
    exact finalStep_gone _ _ _ _ _ _ hbase hfin

end Log4rs.Rolling

namespace Log4rs.Rolling
open Log4rs.Roller

/-- What the no-loss argument needs of a roller, relative to a reading `arch` of the retained
archives (oldest first):
* `arch` looks only at paths other than the log file;
* a successful roll removes the log file and makes its content the newest archive, dropping at most
  whole oldest archives;
* a failed roll leaves the log file alone and drops at most whole oldest archives. -/
structure RollContract (roll : RollFn) (path : Path) (arch : Disk → List Bytes) : Prop where
  frame : ∀ d d', (∀ q, q ≠ path → d'.get? q = d.get? q) → arch d' = arch d
  ok : ∀ fault d x d' a, roll path fault d = (.ok x, d') → d.get? path = some a →
    d'.get? path = none ∧ ∃ j, arch d' = (arch d ++ [a]).drop j
  err : ∀ fault d e d', roll path fault d = (.error e, d') →
    d'.get? path = d.get? path ∧ ∃ j, arch d' = (arch d).drop j

/-- `RollContract` with the retention bound: one call of the roller discards at most ONE whole
oldest archive (`j ≤ 1`), whether it succeeds or fails — "only whole oldest files may have been
discarded by the retention window", one per rotation request. -/
structure RollContractB (roll : RollFn) (path : Path) (arch : Disk → List Bytes) : Prop
    extends RollContract roll path arch where
  okB : ∀ fault d x d' a, roll path fault d = (.ok x, d') → d.get? path = some a →
    ∃ j, j ≤ 1 ∧ arch d' = (arch d ++ [a]).drop j
  errB : ∀ fault d e d', roll path fault d = (.error e, d') → ∃ j, j ≤ 1 ∧ arch d' = (arch d).drop j

/-- the delete roller retains nothing -/
theorem rollContract_delete (path : Path) : RollContract (fun p f d => deleteRoll p f d) path (fun _ => []) := by
  refine ⟨fun _ _ _ => rfl, ?_, ?_⟩
  · intro fault d x d' a h hg
    exact ⟨rollGone_delete path fault d x d' h, 1, by simp⟩
  · intro fault d e d' h
    simp only [deleteRoll] at h
    by_cases hf : fault 0
    · simp only [hf, if_true] at h
      rw [← (Prod.mk.inj h).2]
      exact ⟨rfl, 0, rfl⟩
    · simp only [hf] at h
      cases hg : d.get? path with
      | none =>
        simp only [hg] at h
        rw [← (Prod.mk.inj h).2]
        exact ⟨hg, 0, rfl⟩
      | some c => simp [hg] at h

theorem rollContractB_delete (path : Path) : RollContractB (fun p f d => deleteRoll p f d) path (fun _ => []) :=
  { toRollContract := rollContract_delete path
    okB := fun _ _ _ _ _ _ _ => ⟨1, Nat.le_refl _, by simp⟩
    errB := fun _ _ _ _ _ => ⟨0, by omega, rfl⟩ }

theorem moveFile_get_other (src dst q : Path) (d : Disk) (h1 : q ≠ src) (h2 : q ≠ dst) :
    (moveFile src dst d).get? q = d.get? q := by
  unfold moveFile
  cases hg : d.get? src with
  | none => rfl
  | some c =>
    simp only
    rw [DiskL.get?_set_ne _ _ _ _ h2, DiskL.get?_erase_ne _ _ _ h1]

end Log4rs.Rolling
