import Log4rsModel.Rolling.Model
/-
A small-step lock machine: a thread acquires the lock (enabled iff no thread holds it), then runs
the micro-steps of its critical section ONE AT A TIME — the scheduler may run any other thread in
between, but a thread that does not hold the lock can only try to acquire it — and finally
releases. Mutual exclusion of the mutex is the assumption the machine encodes; that the guard spans
all micro-steps of `append` is how `appendMicro` is written (as the code is written).

`appendMicro` cuts `RollingFileAppender::append` at the places where the code has its
`critical_section_point` hooks: get_writer | policy (pre) or encode+flush (post) | the rest.
-/
namespace Log4rs.Rolling

structure MThread (Sh Job : Type) where
  todo : List Job
  /-- `some rest`: holds the lock, `rest` = micro-steps still to run -/
  pc : Option (List (Sh → Sh))
  done : List Job

structure MState (Sh Job : Type) where
  shared : Sh
  holder : Option Nat
  threads : List (MThread Sh Job)
  /-- ghost: the order in which the critical sections were left -/
  log : List (Nat × Job)

variable {Sh Job : Type}

def MState.init (sh : Sh) (progs : List (List Job)) : MState Sh Job :=
  { shared := sh, holder := none, threads := progs.map (fun p => { todo := p, pc := none, done := [] }), log := [] }

def mstep (micro : Job → List (Sh → Sh)) (i : Nat) (s : MState Sh Job) : Option (MState Sh Job) :=
  match s.threads[i]? with
  | none => none
  | some t =>
    match t.pc, t.todo with
    | none, j :: _ =>
      match s.holder with
      | none => some { s with holder := some i, threads := s.threads.set i { t with pc := some (micro j) } }
      | some _ => none
    | none, [] => none
    | some (f :: fs), _ => some { s with shared := f s.shared, threads := s.threads.set i { t with pc := some fs } }
    | some [], j :: rest =>
      some { s with holder := none, threads := s.threads.set i { todo := rest, pc := none, done := t.done ++ [j] },
                    log := s.log ++ [(i, j)] }
    | some [], [] => none

def mrun (micro : Job → List (Sh → Sh)) (s : MState Sh Job) : List Nat → MState Sh Job
  | [] => s
  | i :: rest => mrun micro ((mstep micro i s).getD s) rest

/-- a whole critical section, run without interruption -/
def runJob (micro : Job → List (Sh → Sh)) (j : Job) (sh : Sh) : Sh := (micro j).foldl (fun s f => f s) sh

/-! ### the rolling appender's critical section in three micro-steps -/

variable {σ : Type}

/-- shared state of the appender plus what `append` keeps in locals between its phases -/
structure Mid (σ : Type) where
  st : St σ
  outs : List (Option Out)
  w : Option Writer := none
  pend : Option (Res × Option Bool × (Nat × Nat)) := none

/-- `let log_writer = self.get_writer(&mut writer)?` -/
def phaseA (cfg : Cfg σ) (m : Mid σ) : Mid σ :=
  let (s1, w) := getWriter cfg m.st
  { m with st := s1, w := some w }

/-- pre-process: `policy.process` (hook `rolling:between-policy-and-write` follows);
post-process: encode + write + flush (hook `rolling:between-write-and-policy` follows) -/
def phaseB (cfg : Cfg σ) (r : Rec) (fault : Nat → Bool) (m : Mid σ) : Mid σ :=
  match m.w with
  | none => m
  | some w =>
    if cfg.trig.pre then
      let consult := (w.len, (fileOf cfg m.st.disk).length)
      let (res, rolled, s2) := process cfg m.st w.len fault
      { m with st := s2, pend := some (res, rolled, consult) }
    else
      let (s2, w2) := writeAndFlush cfg m.st w r
      { m with st := s2, w := some w2 }

/-- pre-process: reopen if rolled, encode + write + flush; post-process: `policy.process` -/
def phaseC (cfg : Cfg σ) (r : Rec) (fault : Nat → Bool) (m : Mid σ) : Mid σ :=
  if cfg.trig.pre then
    match m.pend with
    | none => m
    | some (res, rolled, consult) =>
      match res with
      | .ok =>
        let (s3, w3) := getWriter cfg m.st
        let (s4, _) := writeAndFlush cfg s3 w3 r
        { st := s4, outs := m.outs ++ [some { res := .ok, consult := some consult, rolled }] }
      | e => { st := m.st, outs := m.outs ++ [some { res := e, consult := some consult, rolled }] }
  else
    match m.w with
    | none => m
    | some w =>
      let consult := (w.len, (fileOf cfg m.st.disk).length)
      let (res, rolled, s3) := process cfg m.st w.len fault
      { st := s3, outs := m.outs ++ [some { res, consult := some consult, rolled }] }

def appendMicro (cfg : Cfg σ) (r : Rec) : List (Mid σ → Mid σ) :=
  [phaseA cfg, phaseB cfg r (fun _ => false), phaseC cfg r (fun _ => false)]

end Log4rs.Rolling
