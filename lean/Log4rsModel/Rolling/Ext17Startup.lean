import Log4rsModel.Rolling.LemmasRoller
import Log4rsModel.Rolling.LemmasLock
/-
Helper definitions and lemmas for C17 (on-start-up trigger): the configuration, counting of
rotation requests, "no record has arrived since the appender was built", one append / one failing
append under the trigger, and what happens to records that arrive after the one-shot is spent.
-/
namespace Log4rs.Rolling
open Log4rs.Roller

def startupCfg (path : Path) (appendMode : Bool) (minSize : Nat) (roll : RollFn) : Cfg Bool :=
  { path, appendMode, trig := onStartupTrigger minSize, roll }

def isRoll : Option Out → Bool
  | some out => out.rolled.isSome
  | none => false

/-- number of operations of a history in which the roller was invoked -/
def rolls (outs : List (Option Out)) : Nat := (outs.filter isRoll).length

def isRestart : Op → Bool
  | .restart => true
  | _ => false

def restarts (ops : List Op) : Nat := (ops.filter isRestart).length

/-- no append since the appender was built (scanning the history from the start) -/
def fresh (ops : List Op) : Bool :=
  ops.foldl (fun b op => match op with | .append _ _ => false | .restart => true | .tick _ => b) true

/-- one append under the on-start-up trigger -/
theorem startup_append (path : Path) (am : Bool) (m : Nat) (roll : RollFn) (s : St Bool) (r : Rec)
    (fault : Nat → Bool) (hwf : WF (startupCfg path am m roll) s) :
    (append (startupCfg path am m roll) s r fault).2.tst = true ∧
    (s.tst = true → (append (startupCfg path am m roll) s r fault).1.rolled = none) ∧
    (s.tst = false → ((append (startupCfg path am m roll) s r fault).1.rolled.isSome ↔
        (openView (startupCfg path am m roll) s).length ≥ m)) := by
  obtain ⟨_, ht, _, _, hno, _, hyes⟩ := append_pre_spec (startupCfg path am m roll) s r fault hwf rfl _ _
    (append (startupCfg path am m roll) s r fault).1 (append (startupCfg path am m roll) s r fault).2 rfl rfl rfl
  have key : ∀ L, ((startupCfg path am m roll).trig.fire s.tst L s.now) =
      if s.tst then (.no, true) else (if L ≥ m then .yes else .no, true) := by
    intro L; simp [startupCfg, onStartupTrigger]
  refine ⟨?_, ?_, ?_⟩
  · rw [ht, key]; cases s.tst <;> simp
  · intro hs
    have hf : ((startupCfg path am m roll).trig.fire s.tst (openView (startupCfg path am m roll) s).length s.now).1 = .no := by
      rw [key, hs]; rfl
    exact (hno hf).2.1
  · intro hs
    by_cases hge : (openView (startupCfg path am m roll) s).length ≥ m
    · have hf : ((startupCfg path am m roll).trig.fire s.tst (openView (startupCfg path am m roll) s).length s.now).1 = .yes := by
        rw [key, hs]; simp [hge]
      obtain ⟨d1, _, _, h⟩ := hyes hf
      rcases h with ⟨_, _, _, hr, _⟩ | ⟨_, _, _, hr, _⟩ <;> simp [hr, hge]
    · have hf : ((startupCfg path am m roll).trig.fire s.tst (openView (startupCfg path am m roll) s).length s.now).1 = .no := by
        rw [key, hs]; simp [hge]
      simp [(hno hf).2.1, hge]

theorem startup_applyOp_tst (path : Path) (am : Bool) (m : Nat) (roll : RollFn) (s : St Bool) (op : Op)
    (hwf : WF (startupCfg path am m roll) s) :
    (applyOp (startupCfg path am m roll) s op).2.tst =
      match op with | .append _ _ => true | .restart => false | .tick _ => s.tst := by
  cases op with
  | append r f => exact (startup_append path am m roll s r (faultFn f) hwf).1
  | restart =>
    simp only [applyOp, restart, build]
    exact (getWriter_spec (startupCfg path am m roll) _ (Or.inl rfl)).2.2.2.1
  | tick dt => rfl

theorem rolls_bound (path : Path) (am : Bool) (m : Nat) (roll : RollFn) (ops : List Op) (s : St Bool)
    (hwf : WF (startupCfg path am m roll) s) :
    rolls (run (startupCfg path am m roll) s ops).1 ≤ (if s.tst then 0 else 1) + restarts ops := by
  induction ops generalizing s with
  | nil => simp [run, rolls]
  | cons op ops ih =>
    have hwf' := WF_applyOp (startupCfg path am m roll) s op hwf
    have ih' := ih _ hwf'
    have htst := startup_applyOp_tst path am m roll s op hwf
    have hr : rolls (run (startupCfg path am m roll) s (op :: ops)).1 =
        (if isRoll (applyOp (startupCfg path am m roll) s op).1 then 1 else 0) +
          rolls (run (startupCfg path am m roll) (applyOp (startupCfg path am m roll) s op).2 ops).1 := by
      simp only [run, rolls, List.filter_cons]
      split <;> simp <;> omega
    rw [hr]
    cases op with
    | append r f =>
      have hs := startup_append path am m roll s r (faultFn f) hwf
      simp only [htst, if_true] at ih'
      have hres : restarts (Op.append r f :: ops) = restarts ops := by simp [restarts, isRestart]
      rw [hres]
      cases hst : s.tst with
      | true =>
        have : isRoll (applyOp (startupCfg path am m roll) s (.append r f)).1 = false := by
          simp [applyOp, isRoll, hs.2.1 hst]
        simp only [this]
        simp only [Bool.false_eq_true, if_false, if_true]
        omega
      | false =>
        simp only [Bool.false_eq_true, if_false]
        split <;> omega
    | restart =>
      have : isRoll (applyOp (startupCfg path am m roll) s .restart).1 = false := rfl
      have hres : restarts (Op.restart :: ops) = restarts ops + 1 := by simp [restarts, isRestart, List.filter_cons]
      rw [this, hres]
      simp only [htst] at ih'
      simp only [Bool.false_eq_true, if_false] at ih' ⊢
      split <;> omega
    | tick dt =>
      have : isRoll (applyOp (startupCfg path am m roll) s (.tick dt)).1 = false := rfl
      have hres : restarts (Op.tick dt :: ops) = restarts ops := by simp [restarts, isRestart]
      rw [this, hres]
      simp only [htst] at ih'
      simpa using ih'


theorem startup_tst_run (path : Path) (am : Bool) (m : Nat) (roll : RollFn) (ops : List Op) (s : St Bool)
    (hwf : WF (startupCfg path am m roll) s) (b : Bool) (hb : s.tst = !b) :
    (run (startupCfg path am m roll) s ops).2.tst =
      !(ops.foldl (fun b op => match op with | .append _ _ => false | .restart => true | .tick _ => b) b) := by
  induction ops generalizing s b with
  | nil => simpa [run] using hb
  | cons op ops ih =>
    have hwf' := WF_applyOp (startupCfg path am m roll) s op hwf
    have htst := startup_applyOp_tst path am m roll s op hwf
    simp only [run, List.foldl_cons]
    apply ih _ hwf'
    rw [htst]
    cases op <;> simp [hb]


theorem startup_appendFail (path : Path) (am : Bool) (m : Nat) (roll : RollFn) (s : St Bool) (r : Rec) (n : Nat)
    (fault : Nat → Bool) (hwf : WF (startupCfg path am m roll) s) :
    (appendFail (startupCfg path am m roll) s r n fault).2.tst = true ∧
    (s.tst = true → (appendFail (startupCfg path am m roll) s r n fault).1.rolled = none) ∧
    (s.tst = false → ((appendFail (startupCfg path am m roll) s r n fault).1.rolled.isSome ↔
        (openView (startupCfg path am m roll) s).length ≥ m)) := by
  obtain ⟨_, ht, _, _, hno, _, hyes⟩ := appendFail_pre_spec (startupCfg path am m roll) s r n fault hwf rfl _ _
    (appendFail (startupCfg path am m roll) s r n fault).1 (appendFail (startupCfg path am m roll) s r n fault).2 rfl rfl rfl
  have key : ∀ L, ((startupCfg path am m roll).trig.fire s.tst L s.now) =
      if s.tst then (.no, true) else (if L ≥ m then .yes else .no, true) := by
    intro L; simp [startupCfg, onStartupTrigger]
  refine ⟨?_, ?_, ?_⟩
  · rw [ht, key]; cases s.tst <;> simp
  · intro hs
    have hf : ((startupCfg path am m roll).trig.fire s.tst (openView (startupCfg path am m roll) s).length s.now).1 = .no := by
      rw [key, hs]; rfl
    exact (hno hf).2.1
  · intro hs
    by_cases hge : (openView (startupCfg path am m roll) s).length ≥ m
    · have hf : ((startupCfg path am m roll).trig.fire s.tst (openView (startupCfg path am m roll) s).length s.now).1 = .yes := by
        rw [key, hs]; simp [hge]
      obtain ⟨d1, _, _, h⟩ := hyes hf
      rcases h with ⟨_, _, _, hr, _⟩ | ⟨_, _, _, hr, _⟩ <;> simp [hr, hge]
    · have hf : ((startupCfg path am m roll).trig.fire s.tst (openView (startupCfg path am m roll) s).length s.now).1 = .no := by
        rw [key, hs]; simp [hge]
      simp [(hno hf).2.1, hge]

/-- a record arrives at the appender (its encoder may or may not succeed) -/
def arrival : XOp → Bool
  | .op (.append _ _) => true
  | .appendFail _ _ _ => true
  | _ => false

/-- no record has arrived since the appender was built -/
def freshX (ops : List XOp) : Bool :=
  ops.foldl (fun b op => match op with
    | .op (.append _ _) => false | .appendFail _ _ _ => false | .op .restart => true | .op (.tick _) => b) true

/-- the state after a history -/
def finalX (cfg : Cfg Bool) (s : St Bool) (ops : List XOp) : St Bool := ops.foldl (fun s op => (applyX cfg s op).2) s

theorem startup_applyX_tst (path : Path) (am : Bool) (m : Nat) (roll : RollFn) (s : St Bool) (op : XOp)
    (hwf : WF (startupCfg path am m roll) s) :
    (applyX (startupCfg path am m roll) s op).2.tst =
      match op with
      | .op (.append _ _) => true | .appendFail _ _ _ => true | .op .restart => false | .op (.tick _) => s.tst := by
  cases op with
  | appendFail r n f => exact (startup_appendFail path am m roll s r n (faultFn f) hwf).1
  | op o =>
    have := startup_applyOp_tst path am m roll s o hwf
    cases o <;> simpa [applyX] using this

theorem WF_finalX (cfg : Cfg Bool) (ops : List XOp) (s : St Bool) (hwf : WF cfg s) : WF cfg (finalX cfg s ops) := by
  induction ops generalizing s with
  | nil => exact hwf
  | cons op ops ih => exact ih _ (WF_applyX cfg s op hwf)

theorem startup_tst_finalX (path : Path) (am : Bool) (m : Nat) (roll : RollFn) (ops : List XOp) (s : St Bool)
    (hwf : WF (startupCfg path am m roll) s) (b : Bool) (hb : s.tst = !b) :
    (finalX (startupCfg path am m roll) s ops).tst =
      !(ops.foldl (fun b op => match op with
        | .op (.append _ _) => false | .appendFail _ _ _ => false | .op .restart => true | .op (.tick _) => b) b) := by
  induction ops generalizing s b with
  | nil => simpa [finalX] using hb
  | cons op ops ih =>
    have hwf' := WF_applyX (startupCfg path am m roll) s op hwf
    have htst := startup_applyX_tst path am m roll s op hwf
    simp only [finalX, List.foldl_cons]
    apply ih _ hwf'
    rw [htst]
    cases op with
    | appendFail r n f => simp
    | op o => cases o <;> simp [hb]


def isRollX : Option Out × St Bool → Bool := fun e => isRoll e.1

def xIsRestart : XOp → Bool
  | .op .restart => true
  | _ => false

def restartsX (ops : List XOp) : Nat := (ops.filter xIsRestart).length


/-! ### the first appender, prefixes of histories, records after the one-shot is spent -/

theorem init_tst (path : Path) (am : Bool) (m : Nat) (roll : RollFn) (d : Disk) (now : Nat) :
    (init (startupCfg path am m roll) d false now).tst = false :=
  (getWriter_spec (startupCfg path am m roll) _ (Or.inl rfl)).2.2.2.1

/-- the log file as the first appender's open leaves it -/
theorem init_fileOf (path : Path) (am : Bool) (m : Nat) (roll : RollFn) (d : Disk) (now : Nat) :
    fileOf (startupCfg path am m roll) (init (startupCfg path am m roll) d false now).disk =
      if am then fileOf (startupCfg path am m roll) d else [] := by
  let cfg := startupCfg path am m roll
  have h := (getWriter_spec cfg { disk := d, writer := none, tst := cfg.trig.reinit false now, now := now, opened := false } (Or.inl rfl)).1
  have ho : Opened cfg (init cfg d false now) (if am then fileOf cfg d else []) := by
    simpa [openView, init, build, cfg, startupCfg] using h
  obtain ⟨_, _, _, hg, _⟩ := ho
  exact fileOf_of_get hg

theorem finalX_append (cfg : Cfg Bool) (s : St Bool) (pre : List XOp) (op : XOp) :
    finalX cfg s (pre ++ [op]) = (applyX cfg (finalX cfg s pre) op).2 := by
  simp [finalX, List.foldl_append]

theorem finalX_cons (cfg : Cfg Bool) (s : St Bool) (op : XOp) (ops : List XOp) :
    finalX cfg s (op :: ops) = finalX cfg (applyX cfg s op).2 ops := rfl

/-- entry `k` of a trace is operation `k` applied to the state after the first `k` operations -/
theorem traceX_getElem? (cfg : Cfg Bool) (ops : List XOp) (s : St Bool) (k : Nat) :
    (traceX cfg s ops)[k]? = (ops[k]?).map (fun op => applyX cfg (finalX cfg s (ops.take k)) op) := by
  induction ops generalizing s k with
  | nil => simp [traceX]
  | cons op ops ih =>
    cases k with
    | zero => simp [traceX, finalX]
    | succ k =>
      simp only [traceX, List.getElem?_cons_succ, List.take_succ_cons]
      rw [ih, finalX_cons]

theorem traceX_length17 (cfg : Cfg Bool) (ops : List XOp) (s : St Bool) : (traceX cfg s ops).length = ops.length := by
  induction ops generalizing s with
  | nil => rfl
  | cons op ops ih => simp [traceX, ih]

/-- what a record contributes to the file when nothing is rotated: its bytes, or nothing when its
encoder fails -/
def okBytes : XOp → Bytes
  | .op (.append r _) => encBytes r
  | _ => []

/-- a record arriving after the one-shot is spent: no rotation request, the file grows by exactly
the record (by nothing when the encoder fails) -/
theorem arrive_after_fired (path : Path) (am : Bool) (m : Nat) (roll : RollFn) (s : St Bool) (op : XOp)
    (hwf : WF (startupCfg path am m roll) s) (hst : s.tst = true) (harr : arrival op = true) :
    let cfg := startupCfg path am m roll
    (∃ out, (applyX cfg s op).1 = some out ∧ out.rolled = none) ∧
    (applyX cfg s op).2.tst = true ∧
    fileOf cfg (applyX cfg s op).2.disk = fileOf cfg s.disk ++ okBytes op := by
  intro cfg
  have key : ∀ L, (cfg.trig.fire s.tst L s.now) = (.no, true) := by
    intro L; simp [cfg, startupCfg, onStartupTrigger, hst]
  cases op with
  | appendFail r n f =>
    obtain ⟨_, ht, _, _, hno, _, _⟩ := appendFail_pre_spec cfg s r n (faultFn f) hwf rfl _ _
      (appendFail cfg s r n (faultFn f)).1 (appendFail cfg s r n (faultFn f)).2 rfl rfl rfl
    rw [key] at ht hno
    obtain ⟨_, hr, ⟨w, _, _, hg, _⟩, _⟩ := hno rfl
    refine ⟨⟨_, rfl, hr⟩, ht, ?_⟩
    show fileOf cfg (appendFail cfg s r n (faultFn f)).2.disk = _
    rw [fileOf_of_get hg, openView_of_opened cfg s hwf.1]
    simp [okBytes]
  | op o =>
    cases o with
    | append r f =>
      obtain ⟨_, ht, _, _, hno, _, _⟩ := append_pre_spec cfg s r (faultFn f) hwf rfl _ _
        (append cfg s r (faultFn f)).1 (append cfg s r (faultFn f)).2 rfl rfl rfl
      rw [key] at ht hno
      obtain ⟨_, hr, ⟨w, _, _, hg, _⟩, _⟩ := hno rfl
      refine ⟨⟨_, rfl, hr⟩, ht, ?_⟩
      show fileOf cfg (append cfg s r (faultFn f)).2.disk = _
      rw [fileOf_of_get hg, openView_of_opened cfg s hwf.1]
      rfl
    | restart => simp [arrival] at harr
    | tick dt => simp [arrival] at harr

/-- … and so for any number of them -/
theorem arrivals_after_fired (path : Path) (am : Bool) (m : Nat) (roll : RollFn) (ops : List XOp) (s : St Bool)
    (hwf : WF (startupCfg path am m roll) s) (hst : s.tst = true) (harr : ∀ op ∈ ops, arrival op = true) :
    let cfg := startupCfg path am m roll
    (∀ e ∈ traceX cfg s ops, ∃ out, e.1 = some out ∧ out.rolled = none) ∧
    fileOf cfg (finalX cfg s ops).disk = fileOf cfg s.disk ++ (ops.map okBytes).flatten := by
  intro cfg
  induction ops generalizing s with
  | nil => exact ⟨fun e he => by simp [traceX] at he, by simp [finalX]⟩
  | cons op ops ih =>
    obtain ⟨h1, h2, h3⟩ := arrive_after_fired path am m roll s op hwf hst (harr op (by simp))
    obtain ⟨ih1, ih2⟩ := ih _ (WF_applyX cfg s op hwf) h2 (fun o ho => harr o (by simp [ho]))
    refine ⟨?_, ?_⟩
    · intro e he
      simp only [traceX, List.mem_cons] at he
      rcases he with rfl | he
      · exact h1
      · exact ih1 e he
    · rw [finalX_cons, ih2]
      show fileOf (startupCfg path am m roll) (applyX (startupCfg path am m roll) s op).2.disk ++ _ = _
      rw [h3]
      simp only [List.map_cons, List.flatten_cons, List.append_assoc]
      rfl

/-- the record that finds the one-shot armed: it requests the rotation iff the file is big enough;
if the roller then succeeds (and honours `Roll::roll`'s contract) the file afterwards holds exactly
this record; without a rotation the record is appended to what was there -/
theorem first_arrival (path : Path) (am : Bool) (m : Nat) (roll : RollFn) (s : St Bool) (op : XOp)
    (hwf : WF (startupCfg path am m roll) s) (hst : s.tst = false) (harr : arrival op = true) :
    let cfg := startupCfg path am m roll
    ∃ out, (applyX cfg s op).1 = some out ∧
      (out.rolled.isSome ↔ (fileOf cfg s.disk).length ≥ m) ∧
      (applyX cfg s op).2.tst = true ∧
      (out.rolled = none → fileOf cfg (applyX cfg s op).2.disk = fileOf cfg s.disk ++ okBytes op) ∧
      (out.rolled = some true → RollGone roll path → fileOf cfg (applyX cfg s op).2.disk = okBytes op) := by
  intro cfg
  have hov := openView_of_opened cfg s hwf.1
  have key : ∀ L, (cfg.trig.fire s.tst L s.now) = (if L ≥ m then .yes else .no, true) := by
    intro L; simp [cfg, startupCfg, onStartupTrigger, hst]
  cases op with
  | appendFail r n f =>
    have hiff := (startup_appendFail path am m roll s r n (faultFn f) hwf).2.2 hst
    rw [hov] at hiff
    obtain ⟨_, ht, _, _, hno, _, hyes⟩ := appendFail_pre_spec cfg s r n (faultFn f) hwf rfl _ _
      (appendFail cfg s r n (faultFn f)).1 (appendFail cfg s r n (faultFn f)).2 rfl rfl rfl
    rw [hov, key] at ht hno hyes
    refine ⟨(appendFail cfg s r n (faultFn f)).1, rfl, hiff, ht, ?_, ?_⟩
    · intro hnone
      have hsmall : ¬ (fileOf cfg s.disk).length ≥ m := by
        intro hb
        have := hiff.mpr hb
        rw [hnone] at this
        cases this
      obtain ⟨_, _, ⟨w, _, _, hg, _⟩, _⟩ := hno (by simp [hsmall])
      show fileOf cfg (appendFail cfg s r n (faultFn f)).2.disk = _
      rw [fileOf_of_get hg]; simp [okBytes]
    · intro hsome hgone
      have hbig : (fileOf cfg s.disk).length ≥ m := hiff.mp (by rw [hsome]; rfl)
      obtain ⟨d1, _, _, h⟩ := hyes (by simp [hbig])
      rcases h with ⟨x, hx, _, _, ⟨w, _, _, hg, _⟩, _⟩ | ⟨e, _, _, hr, _⟩
      · have hg0 : (cfg.roll cfg.path (faultFn f) d1).2.get? cfg.path = none :=
          hgone (faultFn f) d1 x _ (by rw [← hx]; rfl)
        show fileOf cfg (appendFail cfg s r n (faultFn f)).2.disk = _
        rw [fileOf_of_get hg]
        simp [fileOf, hg0, okBytes]
      · rw [hsome] at hr; cases hr
  | op o =>
    cases o with
    | append r f =>
      have hiff := (startup_append path am m roll s r (faultFn f) hwf).2.2 hst
      rw [hov] at hiff
      obtain ⟨_, ht, _, _, hno, _, hyes⟩ := append_pre_spec cfg s r (faultFn f) hwf rfl _ _
        (append cfg s r (faultFn f)).1 (append cfg s r (faultFn f)).2 rfl rfl rfl
      rw [hov, key] at ht hno hyes
      refine ⟨(append cfg s r (faultFn f)).1, rfl, hiff, ht, ?_, ?_⟩
      · intro hnone
        have hsmall : ¬ (fileOf cfg s.disk).length ≥ m := by
          intro hb
          have := hiff.mpr hb
          rw [hnone] at this
          cases this
        obtain ⟨_, _, ⟨w, _, _, hg, _⟩, _⟩ := hno (by simp [hsmall])
        show fileOf cfg (append cfg s r (faultFn f)).2.disk = _
        rw [fileOf_of_get hg]; rfl
      · intro hsome hgone
        have hbig : (fileOf cfg s.disk).length ≥ m := hiff.mp (by rw [hsome]; rfl)
        obtain ⟨d1, _, _, h⟩ := hyes (by simp [hbig])
        rcases h with ⟨x, hx, _, _, ⟨w, _, _, hg, _⟩, _⟩ | ⟨e, _, _, hr, _⟩
        · have hg0 : (cfg.roll cfg.path (faultFn f) d1).2.get? cfg.path = none :=
            hgone (faultFn f) d1 x _ (by rw [← hx]; rfl)
          show fileOf cfg (append cfg s r (faultFn f)).2.disk = _
          rw [fileOf_of_get hg]
          simp [fileOf, hg0, okBytes]
        · rw [hsome] at hr; cases hr
    | restart => simp [arrival] at harr
    | tick dt => simp [arrival] at harr

end Log4rs.Rolling
