import Log4rsModel.Rolling.BufWriter
/-
`FileAppender` (`src/append/file.rs`).

  build : create_dir_all(parent); OpenOptions.write(true).append(a).truncate(!a).create(true).open
          ⇒ Mutex<SimpleWriter<BufWriter::with_capacity(1024, file)>>
  append: let mut file = self.file.lock();          -- guard lives to the end of the function
          let mut buf = Vec::new();
          self.encoder.encode(&mut SimpleWriter(&mut buf), record)?;   -- into memory (fix 9f38f0b)
          file.write_all(&buf)?;                    -- ONE slice: the whole encoded record
          file.flush()?;
          Ok(())
  (before 9f38f0b the encoder wrote into the BufWriter slice by slice: `encodeUnfixed`)

A record is modelled by the list of slices its encoder hands to `write_all` (`Rec`), so that every
chunking of the same bytes is a different input. Encoder failures and I/O errors of the
filesystem are outside the model (the property quantifies over successful appends).

Two semantics:
* sequential histories (`applyOp`, `runOps`, `trace`): appends and restarts (drop the appender,
  build a new one on the same path) of one appender;
* the small-step concurrent machine (`CState`, `stepThread`, `runSched`): threads execute lists of
  appends; the scheduler may pick any thread at any step; `acquire` is enabled iff the lock is
  free (mutual exclusion of `parking_lot::Mutex` is the assumption), and the guard spans
  encode + flush exactly as in the code.
-/
namespace Log4rs.Rolling

/-- a record as its encoder emits it: the slices passed to `write_all`, in order -/
abbrev Rec := List Bytes

/-- the complete encoded record -/
def encBytes (r : Rec) : Bytes := r.flatten

inductive OpenMode where
  | append
  | truncate
  deriving Repr, DecidableEq

/-- content of the file right after `OpenOptions::open` (`pre = none`: the file did not exist) -/
def openContent (m : OpenMode) (pre : Option Bytes) : Bytes :=
  match m with
  | .append => pre.getD []
  | .truncate => []

namespace FileAppender

/-- `FileAppenderBuilder::build` -/
def build (m : OpenMode) (pre : Option Bytes) : BufFile := { disk := openContent m pre, buf := [] }

/-- the code before 9f38f0b: `encoder.encode(&mut *file, record)` wrote into the BufWriter slice by
slice (kept for the negative witness theorems) -/
def encodeUnfixed (w : BufFile) (r : Rec) : BufFile := r.foldl BufFile.writeAll w

/-- encode into memory, then `file.write_all(&buf)`: the BufWriter sees one slice, whatever the
encoder's chunking -/
def encode (w : BufFile) (r : Rec) : BufFile := w.writeAll (encBytes r)

/-- `FileAppender::append` (the body under the guard) -/
def append (w : BufFile) (r : Rec) : BufFile := (encode w r).flush

inductive Op where
  | append (r : Rec)
  | restart            -- drop the appender (BufWriter::drop flushes) and build a new one on the path
  deriving Repr

def applyOp (m : OpenMode) (w : BufFile) : Op → BufFile
  | .append r => append w r
  | .restart => build m (some w.flush.disk)

def runOps (m : OpenMode) (w : BufFile) (ops : List Op) : BufFile := ops.foldl (applyOp m) w

/-- what `fs::read` returns after every single operation -/
def trace (m : OpenMode) (w : BufFile) : List Op → List Bytes
  | [] => []
  | op :: ops => (applyOp m w op).disk :: trace m (applyOp m w op) ops

end FileAppender


/-! ### several handles on one file, foreign writers, failing encoders

`FileAppender::build` opens with `append(true)` in append mode: `O_APPEND`, i.e. *every* `write`
of *every* such handle goes to the current end of the file (the kernel's guarantee — modelled, not
verified). So with a second `FileAppender` on the same path, or a foreign process doing `>>`, the
file is the plain concatenation of all writes in the order they happen. (In truncate mode the
handle has its own offset; histories with more than one handle are not modelled there.)

`append` with a failing encoder: the record is encoded into memory first, so `?` leaves `append`
before anything reaches the BufWriter — nothing is written, the appender stays usable. Before the
`fix:` commit 9f38f0b the encoder wrote into the BufWriter directly and the slices written before
the error stayed there (former finding `C04/seq-encoder-error-torn`); `applyOp` with
`tearing := true` is that historical behaviour, kept for the `…_unfixed` witness. -/

/-- one shared file, one pending buffer per live appender -/
structure Handles where
  file : Bytes
  bufs : List Bytes
  deriving Repr, DecidableEq

inductive MOp where
  /-- appender `k` handles a record; `failAfter = some n`: the encoder writes the first `n` slices
  and then returns `Err` -/
  | append (k : Nat) (r : Rec) (failAfter : Option Nat)
  /-- another process appends `x` through its own `O_APPEND` handle -/
  | foreign (x : Bytes)
  /-- one more `FileAppender` is built on the same path -/
  | build
  /-- appender `k` is dropped (its `BufWriter` flushes) and a new one is built in its place -/
  | restart (k : Nat)
  deriving Repr

namespace Handles

def view (s : Handles) (k : Nat) : BufFile := { disk := s.file, buf := s.bufs[k]?.getD [] }

def store (s : Handles) (k : Nat) (w : BufFile) : Handles := { file := w.disk, bufs := s.bufs.set k w.buf }

def init (m : OpenMode) (pre : Option Bytes) : Handles := { file := openContent m pre, bufs := [[]] }

def applyOp (m : OpenMode) (s : Handles) (op : MOp) (tearing : Bool := false) : Handles :=
  match op with
  | .append k r none => if k < s.bufs.length then s.store k (FileAppender.append (s.view k) r) else s
  | .append k r (some n) =>
    if tearing ∧ k < s.bufs.length then s.store k (FileAppender.encodeUnfixed (s.view k) (r.take n)) else s
  | .foreign x => { s with file := s.file ++ x }
  | .build => { file := openContent m (some s.file), bufs := s.bufs ++ [[]] }
  | .restart k =>
    if k < s.bufs.length then
      { file := openContent m (some (s.view k).flush.disk), bufs := s.bufs.set k [] }
    else s

/-- what any reader sees after every single operation -/
def trace (m : OpenMode) (s : Handles) : List MOp → List Bytes
  | [] => []
  | op :: ops => (applyOp m s op).file :: trace m (applyOp m s op) ops

/-- the same with the historical behaviour on encoder errors -/
def traceUnfixed (m : OpenMode) (s : Handles) : List MOp → List Bytes
  | [] => []
  | op :: ops => (applyOp m s op true).file :: traceUnfixed m (applyOp m s op true) ops

end Handles

/-- appender indices of a history refer to appenders that exist (`n` = how many exist) -/
def validOps : Nat → List MOp → Bool
  | _, [] => true
  | n, .append k _ _ :: ops => decide (k < n) && validOps n ops
  | n, .foreign _ :: ops => validOps n ops
  | n, .build :: ops => validOps (n + 1) ops
  | n, .restart k :: ops => decide (k < n) && validOps n ops

/-- the encoder of this operation fails after having produced something (before 9f38f0b that
prefix reached the BufWriter) -/
def MOp.torn : MOp → Bool
  | .append _ r (some n) => !(r.take n).flatten.isEmpty
  | _ => false

/-- the operation involves a handle other than the first appender's -/
def MOp.multi : MOp → Bool
  | .append k _ _ => k != 0
  | .foreign _ => true
  | .build => true
  | .restart k => k != 0

/-! ### the concurrent machine -/

/-- where a thread is inside `append` -/
inductive Pc where
  | idle                                         -- outside `append`, not holding the lock
  | writing (r : Rec) (done rest : List Bytes)   -- holds the lock; `done` slices written, `rest` to go (one slice: the whole record)
  | flushed (r : Rec)                            -- `flush` returned; `Ok(())` about to be returned, guard not yet dropped
  deriving Repr, DecidableEq

structure Thread where
  todo : List Rec            -- appends this thread still has to perform (head = the one in flight)
  pc : Pc
  acked : List Rec           -- appends that have returned `Ok`, in order
  deriving Repr, DecidableEq

structure CState where
  w : BufFile
  holder : Option Nat
  threads : List Thread
  /-- ghost: commit order — `(thread, record)` appended when the flush happens; never read by the machine -/
  log : List (Nat × Rec)
  deriving Repr, DecidableEq

def CState.init (m : OpenMode) (pre : Option Bytes) (progs : List (List Rec)) : CState :=
  { w := FileAppender.build m pre, holder := none,
    threads := progs.map (fun p => { todo := p, pc := .idle, acked := [] }), log := [] }

/-- one step of thread `i`; `none` when the thread is not enabled (blocked on the lock / finished) -/
def stepThread (i : Nat) (s : CState) : Option CState :=
  match s.threads[i]? with
  | none => none
  | some t =>
    match t.pc with
    | .idle =>
      match t.todo, s.holder with
      | r :: _, none =>
        some { s with holder := some i, threads := s.threads.set i { t with pc := .writing r [] [encBytes r] } }
      | _, _ => none
    | .writing r dn (c :: cs) =>
      some { s with w := s.w.writeAll c, threads := s.threads.set i { t with pc := .writing r (dn ++ [c]) cs } }
    | .writing r _ [] =>
      some { s with w := s.w.flush, log := s.log ++ [(i, r)], threads := s.threads.set i { t with pc := .flushed r } }
    | .flushed r =>
      some { s with holder := none,
                    threads := s.threads.set i { t with pc := .idle, todo := t.todo.tail, acked := t.acked ++ [r] } }

/-- run a schedule (any list of thread picks; picks of disabled threads are skipped) -/
def runSched (s : CState) : List Nat → CState
  | [] => s
  | i :: rest => runSched ((stepThread i s).getD s) rest

/-- the commit log restricted to one thread -/
def CState.logOf (s : CState) (i : Nat) : List Rec := (s.log.filter (fun e => e.1 == i)).map (·.2)

/-- the bytes of all committed records, in commit order -/
def CState.committed (s : CState) : Bytes := (s.log.map (·.2)).flatMap encBytes

end Log4rs.Rolling
