import Log4rsModel.Rolling.BufWriter
/-
`FileAppender` (`src/append/file.rs`).

  build : create_dir_all(parent); OpenOptions.write(true).append(true).create(true).open;
          if !a { file.set_len(0) }                 -- (before the O_APPEND repair: .append(a).truncate(!a))
          ⇒ Mutex<SimpleWriter<BufWriter::with_capacity(1024, file)>>
  append: let mut file = self.file.lock();          -- guard lives to the end of the function
          let mut buf = Vec::new();
          self.encoder.encode(&mut SimpleWriter(&mut buf), record)?;   -- into memory (fix 9f38f0b)
          file.write_all(&buf)?;                    -- ONE slice: the whole encoded record
          file.flush()?;
          Ok(())
  (before 9f38f0b the encoder wrote into the BufWriter slice by slice: `encodeUnfixed`)

A record is modelled by the list of slices its encoder hands to `write_all` (`Rec`), so that every
chunking of the same bytes is a different input. Encoder failures and I/O errors of the
filesystem are outside the model (the property quantifies over successful appends).

Two semantics:
* sequential histories (`applyOp`, `runOps`, `trace`): appends and restarts (drop the appender,
  build a new one on the same path) of one appender;
* the small-step concurrent machine (`CState`, `stepThread`, `runSched`): threads execute lists of
  appends; the scheduler may pick any thread at any step; `acquire` is enabled iff the lock is
  free (mutual exclusion of `parking_lot::Mutex` is the assumption), and the guard spans
  encode + flush exactly as in the code.
-/
namespace Log4rs.Rolling

/-- a record as its encoder emits it: the slices passed to `write_all`, in order -/
abbrev Rec := List Bytes

/-- the complete encoded record -/
def encBytes (r : Rec) : Bytes := r.flatten

inductive OpenMode where
  | append
  | truncate
  deriving Repr, DecidableEq

/-- content of the file right after `OpenOptions::open` (`pre = none`: the file did not exist) -/
def openContent (m : OpenMode) (pre : Option Bytes) : Bytes :=
  match m with
  | .append => pre.getD []
  | .truncate => []

namespace FileAppender

/-- `FileAppenderBuilder::build` -/
def build (m : OpenMode) (pre : Option Bytes) : BufFile := { disk := openContent m pre, buf := [] }

/-- the code before 9f38f0b: `encoder.encode(&mut *file, record)` wrote into the BufWriter slice by
slice (kept for the negative witness theorems) -/
def encodeUnfixed (w : BufFile) (r : Rec) : BufFile := r.foldl BufFile.writeAll w

/-- encode into memory, then `file.write_all(&buf)`: the BufWriter sees one slice, whatever the
encoder's chunking -/
def encode (w : BufFile) (r : Rec) : BufFile := w.writeAll (encBytes r)

/-- `FileAppender::append` (the body under the guard) -/
def append (w : BufFile) (r : Rec) : BufFile := (encode w r).flush

inductive Op where
  | append (r : Rec)
  | restart            -- drop the appender (BufWriter::drop flushes) and build a new one on the path
  deriving Repr

def applyOp (m : OpenMode) (w : BufFile) : Op → BufFile
  | .append r => append w r
  | .restart => build m (some w.flush.disk)

def runOps (m : OpenMode) (w : BufFile) (ops : List Op) : BufFile := ops.foldl (applyOp m) w

/-- what `fs::read` returns after every single operation -/
def trace (m : OpenMode) (w : BufFile) : List Op → List Bytes
  | [] => []
  | op :: ops => (applyOp m w op).disk :: trace m (applyOp m w op) ops

end FileAppender


/-! ### several handles on one file, foreign writers, external truncation, failing encoders

A descriptor opened with `O_APPEND` (`OpenOptions::append(true)`) puts *every* `write` at the
current end of the file (the kernel's guarantee — modelled, not verified). A descriptor opened
without it has a private offset: every `write` goes to that offset, over whatever is there, and
advances it; beyond the end of the file the gap reads as NUL bytes (`writeAt`).

`FileAppender::build`:
* append mode: `append(true)` — `O_APPEND`;
* truncate mode, since the `fix:` commit "a file appender in truncate mode also writes at the end of
  the file (O_APPEND)": `append(true)` and an explicit `set_len(0)` right after opening — `O_APPEND`
  as well (`truncateUsesAppendFlag := true`, the default);
* truncate mode before that commit: `.append(false).truncate(true)` — NO `O_APPEND`, private offset
  starting at 0 (`truncateUsesAppendFlag := false`, former finding `C04/seq-truncate-private-offset`):
  after a second appender on the path, a foreign `>>` append or an external truncation
  (`logrotate copytruncate`, `: > app.log`) the next acknowledged record lands at the stale offset —
  acknowledged records are overwritten or a NUL hole appears.

`append` with a failing (or panicking) encoder: the record is encoded into memory first, so `?` (or
the unwinding) leaves `append` before anything reaches the BufWriter — nothing is written, the
appender stays usable. Before the `fix:` commit 9f38f0b the encoder wrote into the BufWriter directly
and the slices written before the error stayed there (former finding `C04/seq-encoder-error-torn`);
`applyOp` with `tearing := true` is that historical behaviour, kept for the `…_unfixed` witness. -/

/-- a `write` of `data` through a descriptor WITHOUT `O_APPEND` whose offset is `off`: the bytes go
to that offset, over whatever is there; a gap beyond the end reads as NUL; an empty `data` is no
`write` call at all (`write_all`/`flush_buf` do not call `write` for nothing) -/
def writeAt (file : Bytes) (off : Nat) (data : Bytes) : Bytes :=
  if data.isEmpty then file
  else (file ++ List.replicate (off - file.length) 0).take off ++ data ++ file.drop (off + data.length)

/-- which `FileAppender::build` the model follows by default: `true` = every descriptor has
`O_APPEND` (the crate since the repair), `false` = truncate mode opens without it (before) -/
def truncateUsesAppendFlag : Bool := true

/-- one shared file; per live appender its pending buffer and the placement of its descriptor
(`none`: `O_APPEND`; `some o`: opened without it, private offset `o`) -/
structure Handles where
  file : Bytes
  bufs : List Bytes
  offs : List (Option Nat)
  deriving Repr, DecidableEq

inductive MOp where
  /-- appender `k` handles a record; `failAfter = some n`: the encoder writes the first `n` slices
  and then returns `Err` (or panics, the unwinding being caught by the caller) -/
  | append (k : Nat) (r : Rec) (failAfter : Option Nat)
  /-- another process appends `x` through its own `O_APPEND` handle -/
  | foreign (x : Bytes)
  /-- one more `FileAppender` is built on the same path -/
  | build
  /-- appender `k` is dropped (its `BufWriter` flushes) and a new one is built in its place -/
  | restart (k : Nat)
  /-- another process truncates the file to length 0 (`logrotate copytruncate`, `: > app.log`) -/
  | truncate
  deriving Repr

namespace Handles

def view (s : Handles) (k : Nat) : BufFile := { disk := s.file, buf := s.bufs[k]?.getD [] }

def store (s : Handles) (k : Nat) (w : BufFile) : Handles := { s with file := w.disk, bufs := s.bufs.set k w.buf }

/-- placement of appender `k`'s descriptor -/
def off (s : Handles) (k : Nat) : Option Nat := (s.offs[k]?).join

/-- placement of a descriptor `FileAppender::build` has just opened: `O_APPEND` in append mode and,
with `truncateUsesAppendFlag`, in truncate mode too; otherwise a private offset starting at 0 (the
file has just been truncated) -/
def newOff (m : OpenMode) (truncateUsesAppendFlag : Bool) : Option Nat :=
  match m with
  | .append => none
  | .truncate => if truncateUsesAppendFlag then none else some 0

def init (m : OpenMode) (pre : Option Bytes) (truncateUsesAppendFlag : Bool := Rolling.truncateUsesAppendFlag) : Handles :=
  { file := openContent m pre, bufs := [[]], offs := [newOff m truncateUsesAppendFlag] }

/-- appender `k` runs `f` on its `BufWriter`; what `f` hands to the descriptor is placed at the end
of the file (`O_APPEND`) or at the descriptor's private offset, which then advances -/
def commit (s : Handles) (k : Nat) (f : BufFile → BufFile) : Handles :=
  match s.off k with
  | none => s.store k (f (s.view k))
  | some o =>
    let w := f { disk := [], buf := s.bufs[k]?.getD [] }
    { file := writeAt s.file o w.disk, bufs := s.bufs.set k w.buf, offs := s.offs.set k (some (o + w.disk.length)) }

def applyOp (m : OpenMode) (s : Handles) (op : MOp) (tearing : Bool := false)
    (truncateUsesAppendFlag : Bool := Rolling.truncateUsesAppendFlag) : Handles :=
  match op with
  | .append k r none => if k < s.bufs.length then s.commit k (fun w => FileAppender.append w r) else s
  | .append k r (some n) =>
    if tearing ∧ k < s.bufs.length then s.commit k (fun w => FileAppender.encodeUnfixed w (r.take n)) else s
  | .foreign x => { s with file := s.file ++ x }
  | .truncate => { s with file := [] }
  | .build =>
    { file := openContent m (some s.file), bufs := s.bufs ++ [[]], offs := s.offs ++ [newOff m truncateUsesAppendFlag] }
  | .restart k =>
    if k < s.bufs.length then
      let s' := s.commit k BufFile.flush
      { file := openContent m (some s'.file), bufs := s'.bufs.set k [], offs := s'.offs.set k (newOff m truncateUsesAppendFlag) }
    else s

/-- what any reader sees after every single operation -/
def trace (m : OpenMode) (s : Handles) : List MOp → List Bytes
  | [] => []
  | op :: ops => (applyOp m s op).file :: trace m (applyOp m s op) ops

/-- the same with the historical behaviour on encoder errors -/
def traceUnfixed (m : OpenMode) (s : Handles) : List MOp → List Bytes
  | [] => []
  | op :: ops => (applyOp m s op true).file :: traceUnfixed m (applyOp m s op true) ops

/-- the same for a given variant of `FileAppender::build` (`truncateUsesAppendFlag := false`: the code
before the O_APPEND repair) -/
def traceV (flag : Bool) (m : OpenMode) (s : Handles) : List MOp → List Bytes
  | [] => []
  | op :: ops => (applyOp m s op false flag).file :: traceV flag m (applyOp m s op false flag) ops

end Handles

/-- appender indices of a history refer to appenders that exist (`n` = how many exist) -/
def validOps : Nat → List MOp → Bool
  | _, [] => true
  | n, .append k _ _ :: ops => decide (k < n) && validOps n ops
  | n, .foreign _ :: ops => validOps n ops
  | n, .truncate :: ops => validOps n ops
  | n, .build :: ops => validOps (n + 1) ops
  | n, .restart k :: ops => decide (k < n) && validOps n ops

/-- the encoder of this operation fails after having produced something (before 9f38f0b that
prefix reached the BufWriter) -/
def MOp.torn : MOp → Bool
  | .append _ r (some n) => !(r.take n).flatten.isEmpty
  | _ => false

/-- the operation involves a handle other than the first appender's -/
def MOp.multi : MOp → Bool
  | .append k _ _ => k != 0
  | .foreign _ => true
  | .truncate => true
  | .build => true
  | .restart k => k != 0

/-! ### the concurrent machine -/

/-- where a thread is inside `append` -/
inductive Pc where
  | idle                                         -- outside `append`, not holding the lock
  | writing (r : Rec) (done rest : List Bytes)   -- holds the lock; `done` slices written, `rest` to go (one slice: the whole record)
  | flushed (r : Rec)                            -- `flush` returned; `Ok(())` about to be returned, guard not yet dropped
  deriving Repr, DecidableEq

structure Thread where
  todo : List Rec            -- appends this thread still has to perform (head = the one in flight)
  pc : Pc
  acked : List Rec           -- appends that have returned `Ok`, in order
  deriving Repr, DecidableEq

structure CState where
  w : BufFile
  holder : Option Nat
  threads : List Thread
  /-- ghost: commit order — `(thread, record)` appended when the flush happens; never read by the machine -/
  log : List (Nat × Rec)
  deriving Repr, DecidableEq

def CState.init (m : OpenMode) (pre : Option Bytes) (progs : List (List Rec)) : CState :=
  { w := FileAppender.build m pre, holder := none,
    threads := progs.map (fun p => { todo := p, pc := .idle, acked := [] }), log := [] }

/-- one step of thread `i`; `none` when the thread is not enabled (blocked on the lock / finished) -/
def stepThread (i : Nat) (s : CState) : Option CState :=
  match s.threads[i]? with
  | none => none
  | some t =>
    match t.pc with
    | .idle =>
      match t.todo, s.holder with
      | r :: _, none =>
        some { s with holder := some i, threads := s.threads.set i { t with pc := .writing r [] [encBytes r] } }
      | _, _ => none
    | .writing r dn (c :: cs) =>
      some { s with w := s.w.writeAll c, threads := s.threads.set i { t with pc := .writing r (dn ++ [c]) cs } }
    | .writing r _ [] =>
      some { s with w := s.w.flush, log := s.log ++ [(i, r)], threads := s.threads.set i { t with pc := .flushed r } }
    | .flushed r =>
      some { s with holder := none,
                    threads := s.threads.set i { t with pc := .idle, todo := t.todo.tail, acked := t.acked ++ [r] } }

/-- run a schedule (any list of thread picks; picks of disabled threads are skipped) -/
def runSched (s : CState) : List Nat → CState
  | [] => s
  | i :: rest => runSched ((stepThread i s).getD s) rest

/-- the commit log restricted to one thread -/
def CState.logOf (s : CState) (i : Nat) : List Rec := (s.log.filter (fun e => e.1 == i)).map (·.2)

/-- the bytes of all committed records, in commit order -/
def CState.committed (s : CState) : Bytes := (s.log.map (·.2)).flatMap encBytes

end Log4rs.Rolling
