import Log4rsModel.Rolling.Model
/-
C06 — the statement as an executable check on what an observer of the appender sees, operation by
operation (`Spec06.okEntry`, `Spec06.go`). `Driver/C06.lean` evaluates it on the REAL probe values
and directory sizes; `Properties/C06.lean` proves that the model's histories satisfy it
(`C06_model_meets_spec`) — one formalisation for (P) and (S).

Observer's state: the mode and the limit of the current appender, and the size of the active file
(`none`: no such file). Per operation the observer sees: Ok/Err of the append, EVERY policy
consultation made while the operation ran (size shown to the policy, true size on disk at that
moment), the number of `Roll::roll` invocations, and the size of the active file afterwards.

The statement, clause by clause (an append of a record of `len` bytes whose encoder works):
* the policy is consulted exactly once, after the write;
* the size shown equals the true on-disk size and equals `size before + len` (content that was in
  the file when it was opened counts);
* the roller is invoked iff that size exceeds the limit — never earlier, never deferred, also when
  the roller then fails;
* `Ok`: the file has been rotated away (size > limit) or holds exactly the size shown (≤ limit);
* `Err` can only come from the roller (size > limit): the file is then still there with the size
  shown, or gone (a roller that reports `Err` after doing its work) — never silently emptied.
An append whose encoder fails: `Err`, no consultation, no rotation request, the file unchanged (it
exists afterwards: `get_writer` has run). A restart — possibly with another mode or limit: the file
is kept in append mode and emptied in truncate mode, nothing is consulted. A clock tick changes
nothing.
-/
namespace Log4rs.Rolling

/-- the rolling appender with a size trigger of limit `N` and any roller -/
def sizeCfg (path : Log4rs.Roller.Path) (appendMode : Bool) (N : Nat) (roll : RollFn) : Cfg Unit :=
  { path, appendMode, trig := sizeTrigger N, roll }

namespace Spec06

inductive Ev where
  | arrive (len : Nat) (encFails : Bool)
  | restart (am : Bool) (limit : Nat)
  | tick
  deriving Repr, DecidableEq

structure Entry where
  /-- `none`: the operation is not an append; `some true`: `Ok`; `some false`: `Err` -/
  ok : Option Bool
  consults : List (Nat × Nat)
  calls : Nat
  now : Option Nat
  deriving Repr, DecidableEq

structure S where
  am : Bool
  limit : Nat
  size : Option Nat
  deriving Repr, DecidableEq

/-- does the observation of one operation satisfy the statement? -/
def okEntry (s : S) : Ev → Entry → Bool
  | .arrive len false, e =>
    match e.consults with
    | [(shown, actual)] =>
      shown == actual && shown == s.size.getD 0 + len &&
      e.calls == (if shown > s.limit then 1 else 0) &&
      (match e.ok with
       | some true => if shown > s.limit then e.now == none else e.now == some shown
       | some false => decide (shown > s.limit) && (e.now == some shown || e.now == none)
       | none => false)
    | _ => false
  | .arrive _ true, e =>
    e.consults.isEmpty && e.calls == 0 && e.ok == some false && e.now == some (s.size.getD 0)
  | .restart am' _, e =>
    e.consults.isEmpty && e.calls == 0 && e.ok == none && e.now == some (if am' then s.size.getD 0 else 0)
  | .tick, e => e.consults.isEmpty && e.calls == 0 && e.ok == none && e.now == s.size

/-- the observer's state after the operation (the size is the one observed) -/
def next (s : S) : Ev → Entry → S
  | .restart am' limit', e => { am := am', limit := limit', size := e.now }
  | _, e => { s with size := e.now }

/-- index of the first operation whose observation violates the statement -/
def go : Nat → S → List Ev → List Entry → Option Nat
  | _, _, [], [] => none
  | k, s, ev :: evs, e :: es => if okEntry s ev e then go (k + 1) (next s ev e) evs es else some k
  | k, _, _, _ => some k

/-! ### histories with changed-configuration restarts (model side) -/

/-- the state of the model together with the parameters of the current appender -/
structure St6 where
  am : Bool
  limit : Nat
  st : St Unit

inductive Op6 where
  | x (o : XOp)
  /-- drop the appender and build a new one on the same path with this mode and limit -/
  | reconf (am : Bool) (limit : Nat)
  deriving Repr

def apply6 (path : Log4rs.Roller.Path) (roll : RollFn) (s : St6) : Op6 → Option Out × St6
  | .x o =>
    let r := applyX (sizeCfg path s.am s.limit roll) s.st o
    (r.1, { s with st := r.2 })
  | .reconf am' n' =>
    (none, { am := am', limit := n',
             st := build (sizeCfg path am' n' roll) (dropWriter (sizeCfg path s.am s.limit roll) s.st) })

def trace6 (path : Log4rs.Roller.Path) (roll : RollFn) (s : St6) : List Op6 → List (Option Out × St6)
  | [] => []
  | op :: ops => apply6 path roll s op :: trace6 path roll (apply6 path roll s op).2 ops

def init6 (path : Log4rs.Roller.Path) (roll : RollFn) (am : Bool) (limit : Nat) (d : Log4rs.Roller.Disk) (now : Nat) : St6 :=
  { am, limit, st := init (sizeCfg path am limit roll) d () now }

/-- the event of the statement an operation of the model stands for (`s`: parameters in force) -/
def evOf (s : St6) : Op6 → Ev
  | .x (.op (.append r _)) => .arrive (encBytes r).length false
  | .x (.appendFail r _ _) => .arrive (encBytes r).length true
  | .x (.op .restart) => .restart s.am s.limit
  | .x (.op (.tick _)) => .tick
  | .reconf am' n' => .restart am' n'

/-- what the observer sees of one step of the model -/
def entryOf (path : Log4rs.Roller.Path) (e : Option Out × St6) : Entry :=
  { ok := e.1.map (fun o => decide (o.res = .ok)),
    consults := (e.1.bind (·.consult)).toList,
    calls := match e.1 with | some o => if o.rolled.isSome then 1 else 0 | none => 0,
    now := (e.2.st.disk.get? path).map List.length }

/-- the observer's state of a model state -/
def sOf (path : Log4rs.Roller.Path) (s : St6) : S :=
  { am := s.am, limit := s.limit, size := (s.st.disk.get? path).map List.length }

/-- the events of a history (the parameters in force change at `reconf`) -/
def evsOf (path : Log4rs.Roller.Path) (roll : RollFn) (s : St6) : List Op6 → List Ev
  | [] => []
  | op :: ops => evOf s op :: evsOf path roll (apply6 path roll s op).2 ops

end Spec06
end Log4rs.Rolling
