import Log4rsModel.Rolling.File
import Log4rsModel.Roller.Model
/-
Executable specifications for the appender properties (C04 C05 C06 C17). They are the simplest
reading of the English statements and are evaluated by the driver on what the *real* code did
(file contents / directory snapshots), not on the model.
-/
namespace Log4rs.Rolling.Spec
open Log4rs.Rolling

/-! ### C04 — sequential: the file is `initial ++ whole records`, after every single call -/

/-- expected `fs::read` results after every operation of a history -/
def fileTrace (m : OpenMode) (cur : Bytes) : List FileAppender.Op → List Bytes
  | [] => []
  | .append r :: ops => (cur ++ encBytes r) :: fileTrace m (cur ++ encBytes r) ops
  | .restart :: ops =>
    let c := match m with | .append => cur | .truncate => []
    c :: fileTrace m c ops

/-- the statement's expectation for a whole history, starting from the file that existed before -/
def expectedTrace (m : OpenMode) (pre : Option Bytes) (ops : List FileAppender.Op) : List Bytes :=
  fileTrace m (openContent m pre) ops


/-- the statement for histories with several handles and failing encoders: the file is a plain
concatenation, in call order, of the whole records whose append succeeded and of the foreign
appends; a failed append contributes nothing; a newly built appender keeps everything in append
mode and empties the file in truncate mode; after an external truncation the file holds what was
acknowledged (or appended by a foreign writer) after it -/
def fileTraceM (m : OpenMode) (cur : Bytes) : List MOp → List Bytes
  | [] => []
  | .append _ r none :: ops => (cur ++ encBytes r) :: fileTraceM m (cur ++ encBytes r) ops
  | .append _ _ (some _) :: ops => cur :: fileTraceM m cur ops
  | .foreign x :: ops => (cur ++ x) :: fileTraceM m (cur ++ x) ops
  | .truncate :: ops => [] :: fileTraceM m [] ops
  | .build :: ops =>
    let c := match m with | .append => cur | .truncate => []
    c :: fileTraceM m c ops
  | .restart _ :: ops =>
    let c := match m with | .append => cur | .truncate => []
    c :: fileTraceM m c ops

def expectedTraceM (m : OpenMode) (pre : Option Bytes) (ops : List MOp) : List Bytes :=
  fileTraceM m (openContent m pre) ops

/-! ### C04 — concurrent: the file is `initial ++` a merge of the threads' acknowledged sequences -/

/-- backtracking matcher: can `file` be cut into whole records such that the records of every
thread appear in that thread's order and every record is used exactly once? `fuel` bounds the
number of records still to place. -/
def mergeGo : Nat → List (List Bytes) → Bytes → Bool
  | 0, ths, file => ths.all List.isEmpty && file.isEmpty
  | fuel + 1, ths, file =>
    if ths.all List.isEmpty then file.isEmpty
    else (List.range ths.length).any fun i =>
      match ths[i]? with
      | some (r :: rest) => r.isPrefixOf file && mergeGo fuel (ths.set i rest) (file.drop r.length)
      | _ => false

/-- `file = initial ++ (some order-preserving merge of the threads' whole records)`.
Empty records occupy no bytes and are trivially placed, so they are dropped before matching
(this also keeps the search linear: non-empty generated records start with a unique id). -/
def isMergeOfWhole (initial : Bytes) (threads : List (List Bytes)) (file : Bytes) : Bool :=
  let ths := threads.map (fun t => t.filter (fun r => !r.isEmpty))
  initial.isPrefixOf file &&
    mergeGo ((ths.map List.length).sum) ths (file.drop initial.length)


/-- a snapshot taken WHILE writers run: whole records of the threads, each thread's in its own
order (a prefix of its program), followed by nothing or by a proper prefix of ONE next record -/
def mergePrefixGo : Nat → List (List Bytes) → Bytes → Bool
  | 0, _, file => file.isEmpty
  | fuel + 1, ths, file =>
    file.isEmpty ||
    (List.range ths.length).any fun i =>
      match ths[i]? with
      | some (r :: rest) =>
        if r.length ≤ file.length then r.isPrefixOf file && mergePrefixGo fuel (ths.set i rest) (file.drop r.length)
        else file.isPrefixOf r
      | _ => false

/-- `snapshot = initial ++ merge-prefix of whole records ++ prefix of one record` (`threads`: the
whole programs; empty records dropped as in `isMergeOfWhole`) -/
def isMergePrefix (initial : Bytes) (threads : List (List Bytes)) (snap : Bytes) : Bool :=
  let ths := threads.map (fun t => t.filter (fun r => !r.isEmpty))
  initial.isPrefixOf snap &&
    mergePrefixGo ((ths.map List.length).sum) ths (snap.drop initial.length)

/-! ### rolling appender: reading a directory back (C05 C06 C17)

A snapshot is what the harness reports after an operation: every regular file below the scratch
directory, name relative to it, archives already decompressed. -/

abbrev Snap := List (Log4rs.Roller.Path × Bytes)

def Snap.get? (s : Snap) (p : Log4rs.Roller.Path) : Option Bytes := (s.find? (fun e => e.1 = p)).map (·.2)

/-- contents of the retention window, oldest first: `name(base+count-1) … name(base)` that exist -/
def archives (nameOf : Nat → Log4rs.Roller.Path) (base count : Nat) (get : Log4rs.Roller.Path → Option Bytes) :
    List Bytes :=
  (List.range count).reverse.filterMap (fun j => get (nameOf (base + j)))

/-- retained files oldest → newest, the active file last (`[]` when it does not exist) -/
def diskFiles (nameOf : Nat → Log4rs.Roller.Path) (base count : Nat) (active : Log4rs.Roller.Path)
    (get : Log4rs.Roller.Path → Option Bytes) : List Bytes :=
  archives nameOf base count get ++ [(get active).getD []]

/-- "reading the retained archives from oldest to newest followed by the active file" -/
def readBack (nameOf : Nat → Log4rs.Roller.Path) (base count : Nat) (active : Log4rs.Roller.Path)
    (get : Log4rs.Roller.Path → Option Bytes) : Bytes :=
  (diskFiles nameOf base count active get).flatten

/-- an item of the record stream: its bytes and whether it must not be lost (acknowledged) -/
structure Item where
  bytes : Bytes
  must : Bool
  deriving Repr, DecidableEq

/-- Do the files, in order, consist of whole items of the stream, in stream order, every
acknowledged item present, each file ending at an item boundary? Unacknowledged items (appends
that returned `Err`) may or may not be there. Empty items must have been removed. -/
def matchFiles : Nat → List Item → Bytes → List Bytes → Bool
  | 0, _, _, _ => false
  | fuel + 1, items, cur, files =>
    if cur.isEmpty then
      match files with
      | f :: fs => if f.isEmpty then matchFiles fuel items [] fs else matchFilesIn fuel items f fs
      | [] => items.all (fun it => !it.must)
    else matchFilesIn fuel items cur files
where
  /-- inside a file with `cur` still unexplained -/
  matchFilesIn : Nat → List Item → Bytes → List Bytes → Bool
  | 0, _, _, _ => false
  | fuel + 1, items, cur, files =>
    match items with
    | [] => false
    | it :: rest =>
      (it.bytes.isPrefixOf cur &&
        (let cur' := cur.drop it.bytes.length
         if cur'.isEmpty then matchFiles fuel rest [] files else matchFilesIn fuel rest cur' files))
      || (!it.must && matchFilesIn fuel rest cur files)

/-- C05: the retained files hold a suffix of the stream obtained by dropping whole oldest
files — there is a cut `j` such that the items from `j` on explain the files exactly. -/
def suffixOfWhole (stream : List Item) (files : List Bytes) : Bool :=
  let items := stream.filter (fun it => !it.bytes.isEmpty)
  let fuel := 2 * (items.length + files.length) + 4
  (List.range (items.length + 1)).any (fun j => matchFiles fuel (items.drop j) [] files)

/-- C05, one operation judged on the snapshots before and after it (`prev`, `cur`: retained files
oldest → newest, the active file last; `x` the bytes of the operation's record; `calls` the
observed number of `Roll::roll` calls during the operation; `okRes` whether the append returned
`Ok`). Whole oldest files may have disappeared — at most one per call of the roller and none
without a call — and everything else is still there, in order, followed by the record:
* the record went into the old active file, which may then have been archived (or deleted) with it,
* or the old active file was archived first and the record starts the new one,
* or (only when the append returned `Err`) the record was not written at all. -/
def stepOk (calls : Nat) (prev cur : List Bytes) (x : Bytes) (okRes : Bool) : Bool :=
  let p := prev.dropLast
  let a := prev.getLast?.getD []
  let target := cur.flatten
  (List.range (min calls (p.length + 1) + 1)).any fun m =>
    ((p ++ [a ++ x]).drop m).flatten == target ||
    ((p ++ [a]).drop m).flatten ++ x == target ||
    (!okRes && ((p ++ [a]).drop m).flatten == target)

/-- a restart: append mode changes nothing; truncate mode empties the active file and nothing else -/
def restartOk (appendMode : Bool) (prev cur : List Bytes) : Bool :=
  if appendMode then prev.flatten == cur.flatten
  else prev.dropLast.flatten == cur.flatten && (cur.getLast?.getD []).isEmpty

/-! ### C17 — the statement as a function on the retention window (newest first) -/

/-- the statement's rotation: the rolled content becomes the newest archive, at most `count` kept;
`count = 0` (or the delete roller, modelled as count 0) keeps nothing -/
def rotateWindow (count : Nat) (window : List Bytes) (x : Bytes) : List Bytes := (x :: window).take count

end Log4rs.Rolling.Spec
