import Log4rsModel.Rolling.File
import Log4rsModel.Rolling.Spec
/-
Lemmas about the BufWriter rule and the sequential file appender (C04), reused by the rolling
appender (C05 C06 C17).
-/
namespace Log4rs.Rolling

namespace BufFile

@[simp] theorem flush_buf (w : BufFile) : w.flush.buf = [] := rfl
@[simp] theorem flush_disk (w : BufFile) : w.flush.disk = w.disk ++ w.buf := rfl
@[simp] theorem logical_flush (w : BufFile) : w.flush.logical = w.logical := by
  simp [logical, flush]

/-- the spill rule never reorders: whatever branch is taken, the accepted bytes grow by `data` -/
theorem logical_writeAll (w : BufFile) (data : Bytes) : (w.writeAll data).logical = w.logical ++ data := by
  unfold writeAll logical
  by_cases h1 : data.length < CAP - w.buf.length
  · simp [h1]
  · simp only [h1, if_false]
    by_cases h2 : data.length > CAP - w.buf.length
    · by_cases h3 : data.length ≥ CAP <;> simp [h2, h3, flush]
    · by_cases h3 : data.length ≥ CAP
      · -- write-through with no flush: only possible when the buffer is empty
        have hb : w.buf.length = 0 := by
          simp only [CAP] at h1 h2 h3 ⊢
          omega
        have hb' : w.buf = [] := List.length_eq_zero_iff.mp hb
        have h2' : ¬ (CAP < data.length) := by
          simp only [CAP] at h1 h2 h3 ⊢
          omega
        simp [h2', h3, hb']
      · simp [h2, h3]

/-- the on-disk part only ever grows, and disk ++ buffer is the old disk ++ buffer ++ data -/
theorem writeAll_grows (w : BufFile) (data : Bytes) :
    ∃ p, (w.writeAll data).disk = w.disk ++ p ∧ p ++ (w.writeAll data).buf = w.buf ++ data := by
  unfold writeAll
  by_cases h1 : data.length < CAP - w.buf.length
  · exact ⟨[], by simp [h1]⟩
  · simp only [h1, if_false]
    by_cases h2 : data.length > CAP - w.buf.length
    · by_cases h3 : data.length ≥ CAP
      · exact ⟨w.buf ++ data, by simp [h2, h3, flush]⟩
      · exact ⟨w.buf, by simp [h2, h3, flush]⟩
    · by_cases h3 : data.length ≥ CAP
      · have hb : w.buf.length = 0 := by
          simp only [CAP] at h1 h2 h3 ⊢
          omega
        have hb' : w.buf = [] := List.length_eq_zero_iff.mp hb
        have h2' : ¬ (CAP < data.length) := by
          simp only [CAP] at h1 h2 h3 ⊢
          omega
        exact ⟨data, by simp [h2', h3, hb']⟩
      · exact ⟨[], by simp [h2, h3]⟩

theorem logical_writeLoop (w : BufFile) (data : Bytes) : (w.writeLoop data).logical = w.logical ++ data := by
  unfold writeLoop
  by_cases h : data.isEmpty
  · have : data = [] := List.isEmpty_iff.mp h
    simp [this]
  · simp [h, logical_writeAll]

theorem logical_foldl_writeAll (r : List Bytes) (w : BufFile) :
    (r.foldl writeAll w).logical = w.logical ++ r.flatten := by
  induction r generalizing w with
  | nil => simp
  | cons c cs ih => simp [ih, logical_writeAll]

theorem logical_foldl_writeLoop (r : List Bytes) (w : BufFile) :
    (r.foldl writeLoop w).logical = w.logical ++ r.flatten := by
  induction r generalizing w with
  | nil => simp
  | cons c cs ih => simp [ih, logical_writeLoop]

end BufFile

namespace FileAppender

theorem append_disk (w : BufFile) (r : Rec) : (append w r).disk = w.disk ++ w.buf ++ encBytes r := by
  have := BufFile.logical_writeAll w (encBytes r)
  simp only [BufFile.logical] at this
  simp [append, encode, this]

@[simp] theorem append_buf (w : BufFile) (r : Rec) : (append w r).buf = [] := rfl

@[simp] theorem build_buf (m : OpenMode) (pre : Option Bytes) : (build m pre).buf = [] := rfl
@[simp] theorem build_disk (m : OpenMode) (pre : Option Bytes) : (build m pre).disk = openContent m pre := rfl

theorem applyOp_buf (m : OpenMode) (w : BufFile) (op : Op) : (applyOp m w op).buf = [] := by
  cases op <;> rfl

/-- the model's `fs::read` trace is the specification's, from any quiescent appender -/
theorem trace_eq_fileTrace (m : OpenMode) (ops : List Op) (w : BufFile) (hq : w.buf = []) :
    trace m w ops = Spec.fileTrace m w.disk ops := by
  induction ops generalizing w with
  | nil => rfl
  | cons op ops ih =>
    cases op with
    | append r =>
      have hd : (applyOp m w (.append r)).disk = w.disk ++ encBytes r := by
        simp [applyOp, append_disk, hq]
      simp only [trace, Spec.fileTrace]
      rw [ih _ (applyOp_buf m w _), hd]
    | restart =>
      simp only [trace, Spec.fileTrace]
      rw [ih _ (applyOp_buf m w _)]
      cases m <;> simp [applyOp, build, openContent, hq]

theorem runOps_appends (m : OpenMode) (rs : List Rec) (w : BufFile) (hq : w.buf = []) :
    (runOps m w (rs.map Op.append)).disk = w.disk ++ rs.flatMap encBytes ∧
    (runOps m w (rs.map Op.append)).buf = [] := by
  induction rs generalizing w with
  | nil => simp [runOps, hq]
  | cons r rs ih =>
    have := ih (applyOp m w (.append r)) (applyOp_buf m w _)
    simp only [runOps, List.map_cons, List.foldl_cons] at this ⊢
    rw [this.1, this.2]
    simp [applyOp, append_disk, hq]

end FileAppender


/-! ### several handles, foreign appends, failing encoders -/

namespace BufFile

theorem foldl_writeAll_grows (r : List Bytes) (w : BufFile) :
    ∃ p, (r.foldl writeAll w).disk = w.disk ++ p ∧ p ++ (r.foldl writeAll w).buf = w.buf ++ r.flatten := by
  induction r generalizing w with
  | nil => exact ⟨[], by simp⟩
  | cons c cs ih =>
    obtain ⟨p1, h1, h2⟩ := writeAll_grows w c
    obtain ⟨p2, h3, h4⟩ := ih (w.writeAll c)
    refine ⟨p1 ++ p2, ?_, ?_⟩
    · simp only [List.foldl_cons]
      rw [h3, h1, List.append_assoc]
    · simp only [List.foldl_cons, List.flatten_cons]
      rw [List.append_assoc, h4, ← List.append_assoc, h2, List.append_assoc]

end BufFile

namespace Handles

/-- all appenders are quiescent -/
def Quiet (s : Handles) : Prop := ∀ b ∈ s.bufs, b = []

/-- every descriptor has `O_APPEND` -/
def AllAppend (s : Handles) : Prop := ∀ o ∈ s.offs, o = none

theorem view_quiet (s : Handles) (k : Nat) (h : s.Quiet) : (s.view k).buf = [] := by
  simp only [view]
  cases hk : s.bufs[k]? with
  | none => rfl
  | some b => exact h b (List.mem_of_getElem? hk)

theorem quiet_set (s : Handles) (k : Nat) (h : s.Quiet) : ∀ b ∈ s.bufs.set k [], b = [] := by
  intro b hb
  rcases List.mem_or_eq_of_mem_set hb with h1 | h1
  · exact h b h1
  · exact h1

theorem off_allAppend (s : Handles) (k : Nat) (h : s.AllAppend) : s.off k = none := by
  simp only [off]
  cases hk : s.offs[k]? with
  | none => rfl
  | some o => simp [h o (List.mem_of_getElem? hk)]

/-- with `O_APPEND` everywhere, `commit` is the plain "run on the shared file" -/
theorem commit_allAppend (s : Handles) (k : Nat) (f : BufFile → BufFile) (h : s.AllAppend) :
    s.commit k f = s.store k (f (s.view k)) := by
  simp [commit, off_allAppend s k h]

/-- the variants in which every descriptor `build` opens has `O_APPEND` -/
theorem newOff_none (m : OpenMode) (flag : Bool) (hm : m = .append ∨ flag = true) : newOff m flag = none := by
  rcases hm with rfl | rfl
  · rfl
  · cases m <;> rfl

theorem allAppend_set (s : Handles) (k : Nat) (h : s.AllAppend) : ∀ o ∈ s.offs.set k none, o = none := by
  intro o ho
  rcases List.mem_or_eq_of_mem_set ho with h1 | h1
  · exact h o h1
  · exact h1

/-- the model's trace is the specification's for every history: appends through any appender,
failing encoders, foreign appends, external truncations, further appenders, restarts — in every
variant and mode in which `build` opens with `O_APPEND` -/
theorem traceV_eq_fileTraceM (flag : Bool) (m : OpenMode) (hm : m = .append ∨ flag = true)
    (ops : List MOp) (s : Handles) (hq : s.Quiet) (ha : s.AllAppend)
    (hv : validOps s.bufs.length ops = true) :
    traceV flag m s ops = Spec.fileTraceM m s.file ops := by
  induction ops generalizing s with
  | nil => rfl
  | cons op ops ih =>
    cases op with
    | append k r fa =>
      simp only [validOps, Bool.and_eq_true, decide_eq_true_eq] at hv
      have hvb := view_quiet s k hq
      cases fa with
      | none =>
        have hap : applyOp m s (.append k r none) false flag = s.store k (FileAppender.append (s.view k) r) := by
          simp [applyOp, hv.1, commit_allAppend s k _ ha]
        have hfile : (applyOp m s (.append k r none) false flag).file = s.file ++ encBytes r := by
          have hvd : (s.view k).disk = s.file := rfl
          simp [hap, store, FileAppender.append_disk, hvb, hvd]
        have hq' : (applyOp m s (.append k r none) false flag).Quiet := by
          rw [hap]
          simp only [store, FileAppender.append_buf]
          exact quiet_set s k hq
        have ha' : (applyOp m s (.append k r none) false flag).AllAppend := by
          rw [hap]; exact ha
        have hlen : (applyOp m s (.append k r none) false flag).bufs.length = s.bufs.length := by
          simp [hap, store]
        simp only [traceV, Spec.fileTraceM]
        rw [ih _ hq' ha' (by rw [hlen]; exact hv.2), hfile]
      | some n =>
        -- the encoder failed in memory: nothing happened to the file or to the appender
        have hsame : applyOp m s (.append k r (some n)) false flag = s := by simp [applyOp]
        simp only [traceV, Spec.fileTraceM]
        rw [hsame, ih _ hq ha hv.2]
    | foreign x =>
      simp only [validOps] at hv
      simp only [traceV, Spec.fileTraceM]
      rw [ih _ (by simpa [applyOp, Quiet] using hq) (by simpa [applyOp, AllAppend] using ha) (by simpa [applyOp] using hv)]
      rfl
    | truncate =>
      simp only [validOps] at hv
      simp only [traceV, Spec.fileTraceM]
      rw [ih _ (by simpa [applyOp, Quiet] using hq) (by simpa [applyOp, AllAppend] using ha) (by simpa [applyOp] using hv)]
      rfl
    | build =>
      simp only [validOps] at hv
      have hq' : (applyOp m s .build false flag).Quiet := by
        intro b hb
        simp only [applyOp, List.mem_append, List.mem_singleton] at hb
        rcases hb with hb | hb
        · exact hq b hb
        · exact hb
      have ha' : (applyOp m s .build false flag).AllAppend := by
        intro o ho
        simp only [applyOp, List.mem_append, List.mem_singleton] at ho
        rcases ho with ho | ho
        · exact ha o ho
        · rw [ho]; exact newOff_none m flag hm
      simp only [traceV, Spec.fileTraceM]
      rw [ih _ hq' ha' (by simpa [applyOp] using hv)]
      cases m <;> rfl
    | restart k =>
      simp only [validOps, Bool.and_eq_true, decide_eq_true_eq] at hv
      have hvb := view_quiet s k hq
      have hvd : (s.view k).disk = s.file := rfl
      have hap : applyOp m s (.restart k) false flag =
          { file := openContent m (some s.file), bufs := s.bufs.set k [], offs := s.offs.set k none } := by
        simp [applyOp, hv.1, commit_allAppend s k _ ha, store, newOff_none m flag hm, hvb, hvd]
      have hq' : (applyOp m s (.restart k) false flag).Quiet := by
        rw [hap]; exact quiet_set s k hq
      have ha' : (applyOp m s (.restart k) false flag).AllAppend := by
        rw [hap]; exact allAppend_set s k ha
      have hlen : (applyOp m s (.restart k) false flag).bufs.length = s.bufs.length := by
        simp [hap]
      simp only [traceV, Spec.fileTraceM]
      rw [ih _ hq' ha' (by rw [hlen]; exact hv.2), hap]
      cases m <;> simp [openContent]

/-- the default trace is the trace of the default variant -/
theorem trace_eq_traceV (m : OpenMode) (s : Handles) (ops : List MOp) :
    trace m s ops = traceV truncateUsesAppendFlag m s ops := by
  induction ops generalizing s with
  | nil => rfl
  | cons op ops ih => simp only [trace, traceV]; rw [ih]

theorem init_quiet (m : OpenMode) (pre : Option Bytes) (flag : Bool) : (init m pre flag).Quiet := by
  intro b hb; simpa [init] using hb

theorem init_allAppend (m : OpenMode) (pre : Option Bytes) (flag : Bool) (hm : m = .append ∨ flag = true) :
    (init m pre flag).AllAppend := by
  intro o ho
  simp only [init, List.mem_singleton] at ho
  rw [ho]; exact newOff_none m flag hm

end Handles

end Log4rs.Rolling
