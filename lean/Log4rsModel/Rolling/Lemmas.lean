import Log4rsModel.Rolling.File
import Log4rsModel.Rolling.Spec
/-
Lemmas about the BufWriter rule and the sequential file appender (C04), reused by the rolling
appender (C05 C06 C17).
-/
namespace Log4rs.Rolling

namespace BufFile

@[simp] theorem flush_buf (w : BufFile) : w.flush.buf = [] := rfl
@[simp] theorem flush_disk (w : BufFile) : w.flush.disk = w.disk ++ w.buf := rfl
@[simp] theorem logical_flush (w : BufFile) : w.flush.logical = w.logical := by
  simp [logical, flush]

/-- the spill rule never reorders: whatever branch is taken, the accepted bytes grow by `data` -/
theorem logical_writeAll (w : BufFile) (data : Bytes) : (w.writeAll data).logical = w.logical ++ data := by
  unfold writeAll logical
  by_cases h1 : data.length < CAP - w.buf.length
  · simp [h1]
  · simp only [h1, if_false]
    by_cases h2 : data.length > CAP - w.buf.length
    · by_cases h3 : data.length ≥ CAP <;> simp [h2, h3, flush]
    · by_cases h3 : data.length ≥ CAP
      · -- write-through with no flush: only possible when the buffer is empty
        have hb : w.buf.length = 0 := by
          simp only [CAP] at h1 h2 h3 ⊢
          omega
        have hb' : w.buf = [] := List.length_eq_zero_iff.mp hb
        have h2' : ¬ (CAP < data.length) := by
          simp only [CAP] at h1 h2 h3 ⊢
          omega
        simp [h2', h3, hb']
      · simp [h2, h3]

/-- the on-disk part only ever grows, and disk ++ buffer is the old disk ++ buffer ++ data -/
theorem writeAll_grows (w : BufFile) (data : Bytes) :
    ∃ p, (w.writeAll data).disk = w.disk ++ p ∧ p ++ (w.writeAll data).buf = w.buf ++ data := by
  unfold writeAll
  by_cases h1 : data.length < CAP - w.buf.length
  · exact ⟨[], by simp [h1]⟩
  · simp only [h1, if_false]
    by_cases h2 : data.length > CAP - w.buf.length
    · by_cases h3 : data.length ≥ CAP
      · exact ⟨w.buf ++ data, by simp [h2, h3, flush]⟩
      · exact ⟨w.buf, by simp [h2, h3, flush]⟩
    · by_cases h3 : data.length ≥ CAP
      · have hb : w.buf.length = 0 := by
          simp only [CAP] at h1 h2 h3 ⊢
          omega
        have hb' : w.buf = [] := List.length_eq_zero_iff.mp hb
        have h2' : ¬ (CAP < data.length) := by
          simp only [CAP] at h1 h2 h3 ⊢
          omega
        exact ⟨data, by simp [h2', h3, hb']⟩
      · exact ⟨[], by simp [h2, h3]⟩

theorem logical_writeLoop (w : BufFile) (data : Bytes) : (w.writeLoop data).logical = w.logical ++ data := by
  unfold writeLoop
  by_cases h : data.isEmpty
  · have : data = [] := List.isEmpty_iff.mp h
    simp [this]
  · simp [h, logical_writeAll]

theorem logical_foldl_writeAll (r : List Bytes) (w : BufFile) :
    (r.foldl writeAll w).logical = w.logical ++ r.flatten := by
  induction r generalizing w with
  | nil => simp
  | cons c cs ih => simp [ih, logical_writeAll]

theorem logical_foldl_writeLoop (r : List Bytes) (w : BufFile) :
    (r.foldl writeLoop w).logical = w.logical ++ r.flatten := by
  induction r generalizing w with
  | nil => simp
  | cons c cs ih => simp [ih, logical_writeLoop]

end BufFile

namespace FileAppender

theorem append_disk (w : BufFile) (r : Rec) : (append w r).disk = w.disk ++ w.buf ++ encBytes r := by
  have := BufFile.logical_foldl_writeAll r w
  simp only [BufFile.logical] at this
  simp [append, encode, encBytes, this]

@[simp] theorem append_buf (w : BufFile) (r : Rec) : (append w r).buf = [] := rfl

@[simp] theorem build_buf (m : OpenMode) (pre : Option Bytes) : (build m pre).buf = [] := rfl
@[simp] theorem build_disk (m : OpenMode) (pre : Option Bytes) : (build m pre).disk = openContent m pre := rfl

theorem applyOp_buf (m : OpenMode) (w : BufFile) (op : Op) : (applyOp m w op).buf = [] := by
  cases op <;> rfl

/-- the model's `fs::read` trace is the specification's, from any quiescent appender -/
theorem trace_eq_fileTrace (m : OpenMode) (ops : List Op) (w : BufFile) (hq : w.buf = []) :
    trace m w ops = Spec.fileTrace m w.disk ops := by
  induction ops generalizing w with
  | nil => rfl
  | cons op ops ih =>
    cases op with
    | append r =>
      have hd : (applyOp m w (.append r)).disk = w.disk ++ encBytes r := by
        simp [applyOp, append_disk, hq]
      simp only [trace, Spec.fileTrace]
      rw [ih _ (applyOp_buf m w _), hd]
    | restart =>
      simp only [trace, Spec.fileTrace]
      rw [ih _ (applyOp_buf m w _)]
      cases m <;> simp [applyOp, build, openContent, hq]

theorem runOps_appends (m : OpenMode) (rs : List Rec) (w : BufFile) (hq : w.buf = []) :
    (runOps m w (rs.map Op.append)).disk = w.disk ++ rs.flatMap encBytes ∧
    (runOps m w (rs.map Op.append)).buf = [] := by
  induction rs generalizing w with
  | nil => simp [runOps, hq]
  | cons r rs ih =>
    have := ih (applyOp m w (.append r)) (applyOp_buf m w _)
    simp only [runOps, List.map_cons, List.foldl_cons] at this ⊢
    rw [this.1, this.2]
    simp [applyOp, append_disk, hq]

end FileAppender

end Log4rs.Rolling
