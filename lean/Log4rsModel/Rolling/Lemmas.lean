import Log4rsModel.Rolling.File
import Log4rsModel.Rolling.Spec
/-
Lemmas about the BufWriter rule and the sequential file appender (C04), reused by the rolling
appender (C05 C06 C17).
-/
namespace Log4rs.Rolling

namespace BufFile

@[simp] theorem flush_buf (w : BufFile) : w.flush.buf = [] := rfl
@[simp] theorem flush_disk (w : BufFile) : w.flush.disk = w.disk ++ w.buf := rfl
@[simp] theorem logical_flush (w : BufFile) : w.flush.logical = w.logical := by
  simp [logical, flush]

/-- the spill rule never reorders: whatever branch is taken, the accepted bytes grow by `data` -/
theorem logical_writeAll (w : BufFile) (data : Bytes) : (w.writeAll data).logical = w.logical ++ data := by
  unfold writeAll logical
  by_cases h1 : data.length < CAP - w.buf.length
  · simp [h1]
  · simp only [h1, if_false]
    by_cases h2 : data.length > CAP - w.buf.length
    · by_cases h3 : data.length ≥ CAP <;> simp [h2, h3, flush]
    · by_cases h3 : data.length ≥ CAP
      · -- write-through with no flush: only possible when the buffer is empty
        have hb : w.buf.length = 0 := by
          simp only [CAP] at h1 h2 h3 ⊢
          omega
        have hb' : w.buf = [] := List.length_eq_zero_iff.mp hb
        have h2' : ¬ (CAP < data.length) := by
          simp only [CAP] at h1 h2 h3 ⊢
          omega
        simp [h2', h3, hb']
      · simp [h2, h3]

/-- the on-disk part only ever grows, and disk ++ buffer is the old disk ++ buffer ++ data -/
theorem writeAll_grows (w : BufFile) (data : Bytes) :
    ∃ p, (w.writeAll data).disk = w.disk ++ p ∧ p ++ (w.writeAll data).buf = w.buf ++ data := by
  unfold writeAll
  by_cases h1 : data.length < CAP - w.buf.length
  · exact ⟨[], by simp [h1]⟩
  · simp only [h1, if_false]
    by_cases h2 : data.length > CAP - w.buf.length
    · by_cases h3 : data.length ≥ CAP
      · exact ⟨w.buf ++ data, by simp [h2, h3, flush]⟩
      · exact ⟨w.buf, by simp [h2, h3, flush]⟩
    · by_cases h3 : data.length ≥ CAP
      · have hb : w.buf.length = 0 := by
          simp only [CAP] at h1 h2 h3 ⊢
          omega
        have hb' : w.buf = [] := List.length_eq_zero_iff.mp hb
        have h2' : ¬ (CAP < data.length) := by
          simp only [CAP] at h1 h2 h3 ⊢
          omega
        exact ⟨data, by simp [h2', h3, hb']⟩
      · exact ⟨[], by simp [h2, h3]⟩

theorem logical_writeLoop (w : BufFile) (data : Bytes) : (w.writeLoop data).logical = w.logical ++ data := by
  unfold writeLoop
  by_cases h : data.isEmpty
  · have : data = [] := List.isEmpty_iff.mp h
    simp [this]
  · simp [h, logical_writeAll]

theorem logical_foldl_writeAll (r : List Bytes) (w : BufFile) :
    (r.foldl writeAll w).logical = w.logical ++ r.flatten := by
  induction r generalizing w with
  | nil => simp
  | cons c cs ih => simp [ih, logical_writeAll]

theorem logical_foldl_writeLoop (r : List Bytes) (w : BufFile) :
    (r.foldl writeLoop w).logical = w.logical ++ r.flatten := by
  induction r generalizing w with
  | nil => simp
  | cons c cs ih => simp [ih, logical_writeLoop]

end BufFile

namespace FileAppender

theorem append_disk (w : BufFile) (r : Rec) : (append w r).disk = w.disk ++ w.buf ++ encBytes r := by
  have := BufFile.logical_writeAll w (encBytes r)
  simp only [BufFile.logical] at this
  simp [append, encode, this]

@[simp] theorem append_buf (w : BufFile) (r : Rec) : (append w r).buf = [] := rfl

@[simp] theorem build_buf (m : OpenMode) (pre : Option Bytes) : (build m pre).buf = [] := rfl
@[simp] theorem build_disk (m : OpenMode) (pre : Option Bytes) : (build m pre).disk = openContent m pre := rfl

theorem applyOp_buf (m : OpenMode) (w : BufFile) (op : Op) : (applyOp m w op).buf = [] := by
  cases op <;> rfl

/-- the model's `fs::read` trace is the specification's, from any quiescent appender -/
theorem trace_eq_fileTrace (m : OpenMode) (ops : List Op) (w : BufFile) (hq : w.buf = []) :
    trace m w ops = Spec.fileTrace m w.disk ops := by
  induction ops generalizing w with
  | nil => rfl
  | cons op ops ih =>
    cases op with
    | append r =>
      have hd : (applyOp m w (.append r)).disk = w.disk ++ encBytes r := by
        simp [applyOp, append_disk, hq]
      simp only [trace, Spec.fileTrace]
      rw [ih _ (applyOp_buf m w _), hd]
    | restart =>
      simp only [trace, Spec.fileTrace]
      rw [ih _ (applyOp_buf m w _)]
      cases m <;> simp [applyOp, build, openContent, hq]

theorem runOps_appends (m : OpenMode) (rs : List Rec) (w : BufFile) (hq : w.buf = []) :
    (runOps m w (rs.map Op.append)).disk = w.disk ++ rs.flatMap encBytes ∧
    (runOps m w (rs.map Op.append)).buf = [] := by
  induction rs generalizing w with
  | nil => simp [runOps, hq]
  | cons r rs ih =>
    have := ih (applyOp m w (.append r)) (applyOp_buf m w _)
    simp only [runOps, List.map_cons, List.foldl_cons] at this ⊢
    rw [this.1, this.2]
    simp [applyOp, append_disk, hq]

end FileAppender


/-! ### several handles, foreign appends, failing encoders -/

namespace BufFile

theorem foldl_writeAll_grows (r : List Bytes) (w : BufFile) :
    ∃ p, (r.foldl writeAll w).disk = w.disk ++ p ∧ p ++ (r.foldl writeAll w).buf = w.buf ++ r.flatten := by
  induction r generalizing w with
  | nil => exact ⟨[], by simp⟩
  | cons c cs ih =>
    obtain ⟨p1, h1, h2⟩ := writeAll_grows w c
    obtain ⟨p2, h3, h4⟩ := ih (w.writeAll c)
    refine ⟨p1 ++ p2, ?_, ?_⟩
    · simp only [List.foldl_cons]
      rw [h3, h1, List.append_assoc]
    · simp only [List.foldl_cons, List.flatten_cons]
      rw [List.append_assoc, h4, ← List.append_assoc, h2, List.append_assoc]

end BufFile

namespace Handles

/-- all appenders are quiescent -/
def Quiet (s : Handles) : Prop := ∀ b ∈ s.bufs, b = []

theorem view_quiet (s : Handles) (k : Nat) (h : s.Quiet) : (s.view k).buf = [] := by
  simp only [view]
  cases hk : s.bufs[k]? with
  | none => rfl
  | some b => exact h b (List.mem_of_getElem? hk)

theorem quiet_set (s : Handles) (k : Nat) (h : s.Quiet) : ∀ b ∈ s.bufs.set k [], b = [] := by
  intro b hb
  rcases List.mem_or_eq_of_mem_set hb with h1 | h1
  · exact h b h1
  · exact h1

/-- the model's trace is the specification's for every history: appends through any appender,
failing encoders, foreign appends, further appenders, restarts -/
theorem trace_eq_fileTraceM (m : OpenMode) (ops : List MOp) (s : Handles) (hq : s.Quiet)
    (hv : validOps s.bufs.length ops = true) :
    trace m s ops = Spec.fileTraceM m s.file ops := by
  induction ops generalizing s with
  | nil => rfl
  | cons op ops ih =>
    cases op with
    | append k r fa =>
      simp only [validOps, Bool.and_eq_true, decide_eq_true_eq] at hv
      have hvb := view_quiet s k hq
      cases fa with
      | none =>
        have hfile : (applyOp m s (.append k r none)).file = s.file ++ encBytes r := by
          have hvd : (s.view k).disk = s.file := rfl
          simp [applyOp, hv.1, store, FileAppender.append_disk, hvb, hvd]
        have hq' : (applyOp m s (.append k r none)).Quiet := by
          simp only [applyOp, hv.1, if_true, store, FileAppender.append_buf]
          exact quiet_set s k hq
        have hlen : (applyOp m s (.append k r none)).bufs.length = s.bufs.length := by
          simp [applyOp, hv.1, store]
        simp only [trace, Spec.fileTraceM]
        rw [ih _ hq' (by rw [hlen]; exact hv.2), hfile]
      | some n =>
        -- the encoder failed in memory: nothing happened to the file or to the appender
        have hsame : applyOp m s (.append k r (some n)) = s := by simp [applyOp]
        simp only [trace, Spec.fileTraceM]
        rw [hsame, ih _ hq hv.2]
    | foreign x =>
      simp only [validOps] at hv
      simp only [trace, Spec.fileTraceM]
      rw [ih _ (by simpa [applyOp, Quiet] using hq) (by simpa [applyOp] using hv)]
      rfl
    | build =>
      simp only [validOps] at hv
      have hq' : (applyOp m s .build).Quiet := by
        intro b hb
        simp only [applyOp, List.mem_append, List.mem_singleton] at hb
        rcases hb with hb | hb
        · exact hq b hb
        · exact hb
      simp only [trace, Spec.fileTraceM]
      rw [ih _ hq' (by simpa [applyOp] using hv)]
      cases m <;> rfl
    | restart k =>
      simp only [validOps, Bool.and_eq_true, decide_eq_true_eq] at hv
      have hvb := view_quiet s k hq
      have hq' : (applyOp m s (.restart k)).Quiet := by
        simp only [applyOp, hv.1, if_true]
        exact quiet_set s k hq
      have hlen : (applyOp m s (.restart k)).bufs.length = s.bufs.length := by
        simp [applyOp, hv.1]
      have hvd : (s.view k).disk = s.file := rfl
      simp only [trace, Spec.fileTraceM]
      rw [ih _ hq' (by rw [hlen]; exact hv.2)]
      cases m <;> simp [applyOp, hv.1, openContent, hvb, hvd]

end Handles

end Log4rs.Rolling
