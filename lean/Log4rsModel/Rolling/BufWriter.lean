/-
`std::io::BufWriter<File>` as the two file appenders use it (`BufWriter::with_capacity(1024, file)`).

Modelled, not verified (DESIGN §3): the byte-exact std rule

  fn write_all(&mut self, buf) {                       // BufWriter::write has the same shape
      if buf.len() < self.spare_capacity() { buffer it }
      else {                                            // write_all_cold / write_cold
          if buf.len() > self.spare_capacity() { self.flush_buf()?; }
          if buf.len() >= self.buf.capacity() { self.get_mut().write_all(buf) }   // write-through
          else { buffer it }
      }
  }
  fn flush(&mut self) { self.flush_buf()?; self.get_mut().flush() }
  impl Drop { fn drop(&mut self) { if !self.panicked { let _ = self.flush_buf(); } } }

A `File` opened with `append(true)` writes at the end of the file; a file opened with
`truncate(true)` starts empty and the single handle writes sequentially, so in both modes a write
of `data` turns the on-disk content `c` into `c ++ data`. `File::write` is assumed to accept the
whole slice (regular files), so `BufWriter::write` returns `buf.len()` and the default
`Write::write_all` loop of `LogWriter` performs exactly one `write` per non-empty chunk.
-/
namespace Log4rs.Rolling

abbrev Bytes := List Nat

/-- capacity both appenders pass to `BufWriter::with_capacity` -/
def CAP : Nat := 1024

/-- an open `BufWriter<File>`: the on-disk content of the file and the not yet written buffer -/
structure BufFile where
  disk : Bytes
  buf : Bytes
  deriving Repr, DecidableEq

namespace BufFile

/-- `BufWriter::flush_buf` (and `flush`, and `Drop`) -/
def flush (w : BufFile) : BufFile := { disk := w.disk ++ w.buf, buf := [] }

/-- `BufWriter::write_all` / `BufWriter::write` for one slice -/
def writeAll (w : BufFile) (data : Bytes) : BufFile :=
  if data.length < CAP - w.buf.length then
    { w with buf := w.buf ++ data }
  else
    let w1 := if data.length > CAP - w.buf.length then w.flush else w
    if data.length ≥ CAP then { w1 with disk := w1.disk ++ data }
    else { w1 with buf := w1.buf ++ data }

/-- the default `io::Write::write_all` loop over `write` (what `LogWriter` inherits):
`while !buf.is_empty() { write(buf) … }` — no call at all for an empty slice -/
def writeLoop (w : BufFile) (data : Bytes) : BufFile :=
  if data.isEmpty then w else w.writeAll data

/-- everything the writer has accepted so far, in order -/
def logical (w : BufFile) : Bytes := w.disk ++ w.buf

end BufFile

end Log4rs.Rolling
