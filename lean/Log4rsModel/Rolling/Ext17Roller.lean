import Log4rsModel.Rolling.Ext17Spec
import Log4rsModel.Rolling.LemmasWindow
import Log4rsModel.Roller.Lemmas
/-
The fixed-window roller under the harness's three ways of making it misbehave (C17, C06): exactly
what is on the disk afterwards, slot by slot — for the fault-free rotation, for a rotation stopped
before step `k`, and for the wrapper that reports `Err` after the work is done.
-/
namespace Log4rs.Rolling
open Log4rs.Roller

/-- `runSteps` looks at the fault oracle only at the indices of the steps it runs -/
theorem runSteps_congr (r : RollerCfg) (file : Path) (f g : Nat → Bool) (l : List Step) (k : Nat) (d : Disk)
    (h : ∀ i, k ≤ i → i < k + l.length → f i = g i) : runSteps r file f k l d = runSteps r file g k l d := by
  induction l generalizing k d with
  | nil => rfl
  | cons s l ih =>
    simp only [runSteps]
    rw [← h k (Nat.le_refl _) (by simp)]
    by_cases hf : f k
    · simp [hf]
    · simp only [hf]
      cases applyStep r file s d with
      | error e => rfl
      | ok d' => exact ih (k + 1) d' (fun i h1 h2 => h i (by omega) (by simp only [List.length_cons]; omega))

theorem idxL_add (b a p : Nat) : idxL b (a + p) = idxL (b + a) p ++ idxL b a := by
  induction p with
  | zero => simp [idxL]
  | succ p ih =>
    rw [← Nat.add_assoc, idxL_succ, idxL_succ, ih, Nat.add_assoc]
    rfl

/-- fault-free shift steps -/
theorem runSteps_shiftList (r : RollerCfg) (file : Path) (fault : Nat → Bool) (is : List Nat) (rest : List Step)
    (k : Nat) (d : Disk) (hf : ∀ i, k ≤ i → i < k + is.length → fault i = false) :
    runSteps r file fault k (is.map Step.shift ++ rest) d =
      runSteps r file fault (k + is.length) rest (shiftRun r.nameOf is d) := by
  induction is generalizing k d with
  | nil => simp [shiftRun]
  | cons i is ih =>
    simp only [List.map_cons, List.cons_append, runSteps]
    rw [hf k (Nat.le_refl _) (by simp)]
    simp only [Bool.false_eq_true, if_false, applyStep, shiftRun]
    rw [ih (k + 1) _ (fun j h1 h2 => hf j (by omega) (by simp only [List.length_cons]; omega))]
    simp only [List.length_cons]
    congr 1
    omega

theorem shiftRun_idxL (r : RollerCfg) (b p : Nat) (d : Disk) :
    shiftRun r.nameOf (idxL b p) d = applyShifts { r with base := b } p d := by
  induction p generalizing d with
  | zero => rfl
  | succ p ih =>
    rw [idxL_succ]
    simp only [shiftRun, applyShifts]
    exact ih _

theorem idxL_length (b p : Nat) : (idxL b p).length = p := by simp [idxL]

theorem fixedWindowRoll_fault_aux (r : RollerCfg) (file : Path) (d : Disk) (a k : Nat) (hk : r.count = a + k + 1) :
    fixedWindowRoll r file (faultFn (some k)) d =
      (.error (.injected k), applyShifts { r with base := r.base + a } k d) := by
  have hc : r.count ≠ 0 := by omega
  unfold fixedWindowRoll
  rw [if_neg hc, Log4rs.Rolling.steps_eq]
  have hsplit : r.count - 1 = a + k := by omega
  rw [hsplit, idxL_add, List.map_append, List.append_assoc]
  rw [runSteps_shiftList r file _ _ _ 0 d (by
    intro i _ h2
    rw [idxL_length] at h2
    simp [faultFn]
    omega)]
  rw [idxL_length, shiftRun_idxL]
  have hfk : faultFn (some k) k = true := by simp [faultFn]
  cases hrest : (List.map Step.shift (idxL r.base a) ++ [Step.final]) with
  | nil => simp at hrest
  | cons s rest =>
    simp only [runSteps, Nat.zero_add, hfk, if_true]

/-- a rotation whose step `k` fails: the first `k` shifts have happened, nothing else -/
theorem fixedWindowRoll_fault (r : RollerCfg) (file : Path) (d : Disk) (k : Nat) (hk : k < r.count) :
    fixedWindowRoll r file (faultFn (some k)) d =
      (.error (.injected k), applyShifts { r with base := r.base + (r.count - 1 - k) } k d) :=
  fixedWindowRoll_fault_aux r file d (r.count - 1 - k) k (by omega)

/-- a fault index beyond the last step is never consulted -/
theorem fixedWindowRoll_fault_beyond (r : RollerCfg) (file : Path) (d : Disk) (k : Nat) (hk : Spec17.nSteps r.count ≤ k) :
    fixedWindowRoll r file (faultFn (some k)) d = fixedWindowRoll r file (fun _ => false) d := by
  unfold fixedWindowRoll
  by_cases hc : r.count = 0
  · have : faultFn (some k) 0 = false := by
      simp only [Spec17.nSteps, hc, if_true] at hk
      simp [faultFn]; omega
    simp [hc, this]
  · simp only [hc, if_false]
    apply runSteps_congr
    intro i _ h2
    simp only [Spec17.nSteps, hc, if_false] at hk
    have hlen : (steps r.base r.count).length = r.count := by
      simp [steps]; omega
    rw [hlen] at h2
    simp [faultFn]; omega

theorem faultFn_none : faultFn none = fun _ => false := by
  funext k; simp [faultFn]

/-- the delete roller is the fixed-window roller that keeps nothing -/
theorem deleteRoll_eq (r : RollerCfg) (hc : r.count = 0) (file : Path) (fault : Nat → Bool) (d : Disk) :
    deleteRoll file fault d = fixedWindowRoll r file fault d := by
  simp [deleteRoll, fixedWindowRoll, hc]

/-- `count = 0` / delete: the three behaviours -/
theorem fixedWindowRoll_zero (r : RollerCfg) (hc : r.count = 0) (file : Path) (fault : Nat → Bool) (d : Disk) (a : Bytes)
    (ha : d.get? file = some a) :
    fixedWindowRoll r file fault d = if fault 0 then (.error (.injected 0), d) else (.ok (d.erase file), d.erase file) := by
  simp [fixedWindowRoll, hc, ha]

/-- a run of steps that succeeds has met no fault -/
theorem runSteps_ok_nofault (r : RollerCfg) (file : Path) (fault : Nat → Bool) (l : List Step) (k : Nat) (d : Disk)
    (x d' : Disk) (h : runSteps r file fault k l d = (.ok x, d')) : ∀ i, k ≤ i → i < k + l.length → fault i = false := by
  induction l generalizing k d with
  | nil => intro i h1 h2; simp at h2; omega
  | cons s l ih =>
    simp only [runSteps] at h
    by_cases hf : fault k
    · simp [hf] at h
    · simp only [hf] at h
      cases ha : applyStep r file s d with
      | error e => simp [ha] at h
      | ok d'' =>
        simp only [ha] at h
        intro i h1 h2
        by_cases hik : i = k
        · subst hik; simpa using hf
        · exact ih (k + 1) d'' h i (by omega) (by simp only [List.length_cons] at h2; omega)

/-- a successful roll is the fault-free roll -/
theorem fixedWindowRoll_ok_faultfree (r : RollerCfg) (file : Path) (fault : Nat → Bool) (d x d' : Disk)
    (h : fixedWindowRoll r file fault d = (.ok x, d')) : fixedWindowRoll r file (fun _ => false) d = (.ok x, d') := by
  unfold fixedWindowRoll at h ⊢
  by_cases hc : r.count = 0
  · simp only [hc, if_true] at h ⊢
    by_cases hf : fault 0
    · simp [hf] at h
    · simpa [hf] using h
  · simp only [hc, if_false] at h ⊢
    rw [← h]
    exact (runSteps_congr r file fault (fun _ => false) _ 0 d
      (fun i h1 h2 => runSteps_ok_nofault r file fault _ 0 d x d' h i h1 h2)).symm

end Log4rs.Rolling
