import Log4rsModel.Rolling.File
import Log4rsModel.Roller.Model
/-
`RollingFileAppender` (`src/append/rolling_file/mod.rs`) with `CompoundPolicy`
(`policy/compound/mod.rs`) as a state machine over the shared `Disk`.

  append(record):
      let mut writer = self.writer.lock();                    -- guard spans the whole function
      let is_pre_process = self.policy.is_pre_process();
      let log_writer = self.get_writer(&mut writer)?;         -- (re)opens the file if writer is None
      if is_pre_process {
          let len = log_writer.len;
          self.policy.process(&mut LogFile{writer, path, len})?;     -- may roll: writer := None
          let log_writer_new = self.get_writer(&mut writer)?;
          log_writer_new.write_all(&self.encode_whole(record)?)?;  log_writer_new.flush()?;   -- encode into memory first (9f38f0b)
      } else {
          log_writer.write_all(&self.encode_whole(record)?)?;  log_writer.flush()?;
          let len = log_writer.len;
          self.policy.process(&mut LogFile{writer, path, len})?;     -- an Err here: record on disk, append = Err
      }
      Ok(())
  get_writer: if None { first = !opened.swap(true); a' = a || !first;      -- truncate only at the FIRST open
                        open(append(a'), truncate(!a'), create); len = a' ? metadata.len : 0; BufWriter(1024) }
  CompoundPolicy::process: if trigger.trigger(log)? { log.roll() /* writer = None: drop flushes */; roller.roll(path)?; }

The trigger is abstract: a state `σ`, `fire : σ → len → now → answer × σ` and the `isPreProcess`
flag; the size, on-start-up, time and scripted user triggers are instances. The roller is a
function on the disk (`Roller.deleteRoll`, `Roller.fixedWindowRoll cfg`, or anything else) that
also receives the fault oracle of the current operation. Errors of `open`/`write`/`flush`
themselves and encoder failures are outside the model.
-/
namespace Log4rs.Rolling
open Log4rs.Roller (Disk Path FsErr)

inductive TrigAns where
  | no
  | yes
  | err          -- `trigger()` returned `Err` (only user-defined triggers do)
  deriving Repr, DecidableEq

structure Trigger (σ : Type) where
  /-- `is_pre_process()` -/
  pre : Bool
  /-- `trigger(&LogFile)`: sees `len_estimate()` and (time trigger) the clock -/
  fire : σ → (len now : Nat) → TrigAns × σ
  /-- state of the trigger of a newly built appender (start-up / restart at time `now`) -/
  reinit : σ → (now : Nat) → σ

/-- `SizeTrigger::trigger`: `len_estimate() > limit`; post-process -/
def sizeTrigger (limit : Nat) : Trigger Unit :=
  { pre := false, fire := fun _ len _ => (if len > limit then .yes else .no, ()), reinit := fun _ _ => () }

/-- `OnStartUpTrigger`: the state is "the `Once` has run"; pre-process -/
def onStartupTrigger (minSize : Nat) : Trigger Bool :=
  { pre := true,
    fire := fun done len _ => if done then (.no, true) else (if len ≥ minSize then .yes else .no, true),
    reinit := fun _ _ => false }

/-- `TimeTrigger` for the second / minute units (`unit` = 1 or 60 seconds), `max_random_delay = 0`,
in a zone whose offset is a whole number of minutes. `get_next_time` (after the `fix:` commit
80d997f): an interval below 1 counts as 1; truncate to the unit, add `n` units (`modulate`:
`n - field % n` units, field = second of minute / minute of hour); always after `now`. -/
structure TimeCfg where
  unit : Nat
  n : Nat
  modulate : Bool
  deriving Repr, DecidableEq

def TimeCfg.next (c : TimeCfg) (now : Nat) : Nat :=
  let t := now / c.unit * c.unit
  let field := now / c.unit % 60
  let n := max c.n 1
  let inc := if c.modulate then n - field % n else n
  t + inc * c.unit

/-- state = `next_roll_time`; pre-process -/
def timeTrigger (c : TimeCfg) : Trigger Nat :=
  { pre := true,
    fire := fun next _ now => if now ≥ next then (.yes, c.next now) else (.no, next),
    reinit := fun _ now => c.next now }

/-- a user-defined trigger that answers from a script (shared by all appenders built from the
same trigger object); when the script is exhausted it answers `false` -/
def scriptedTrigger (pre : Bool) : Trigger (List TrigAns) :=
  { pre, fire := fun s _ _ => match s with | [] => (.no, []) | a :: rest => (a, rest), reinit := fun s _ => s }

abbrev RollFn := Path → (Nat → Bool) → Disk → Except FsErr Disk × Disk

structure Cfg (σ : Type) where
  path : Path
  appendMode : Bool
  trig : Trigger σ
  roll : RollFn

/-- `LogWriter` minus the file itself: BufWriter's pending bytes and the running byte count -/
structure Writer where
  buf : Bytes
  len : Nat
  deriving Repr, DecidableEq

structure St (σ : Type) where
  disk : Disk
  writer : Option Writer
  tst : σ
  now : Nat
  /-- `RollingFileAppender::opened`: this appender has opened its file at least once -/
  opened : Bool := false

inductive Res where
  | ok
  | errTrigger
  | errRoll
  | errEncode     -- the encoder returned `Err` (only produced by `appendFail`)
  deriving Repr, DecidableEq

structure Out where
  res : Res
  /-- policy consultation of this append: (`len_estimate()` shown, true size of the file on disk then) -/
  consult : Option (Nat × Nat)
  /-- `none`: roller not invoked; `some true`: invoked and succeeded; `some false`: invoked and failed -/
  rolled : Option Bool
  deriving Repr, DecidableEq

variable {σ : Type}

/-- content of the active file (`[]` when it does not exist) -/
def fileOf (cfg : Cfg σ) (d : Disk) : Bytes := (d.get? cfg.path).getD []

/-- `get_writer`: truncate mode discards the old content at the appender's first open only -/
def getWriter (cfg : Cfg σ) (s : St σ) : St σ × Writer :=
  match s.writer with
  | some w => (s, w)
  | none =>
    let am := cfg.appendMode || s.opened
    let content := if am then fileOf cfg s.disk else []
    let w : Writer := { buf := [], len := if am then content.length else 0 }
    ({ s with disk := s.disk.set cfg.path content, writer := some w, opened := true }, w)

/-- `encoder.encode(log_writer, record)`: `LogWriter` inherits the default `write_all` loop over
`write`, each `write` adds the accepted byte count to `len` -/
def writeRec (cfg : Cfg σ) (d : Disk) (w : Writer) (r : Rec) : Disk × Writer :=
  let bf := r.foldl BufFile.writeLoop { disk := fileOf cfg d, buf := w.buf }
  (d.set cfg.path bf.disk, { buf := bf.buf, len := w.len + (encBytes r).length })

/-- `log_writer.flush()` -/
def flushW (cfg : Cfg σ) (d : Disk) (w : Writer) : Disk × Writer :=
  (d.set cfg.path (fileOf cfg d ++ w.buf), { w with buf := [] })

/-- dropping the `LogWriter` (`LogFile::roll`, or dropping the appender): BufWriter::drop flushes -/
def dropWriter (cfg : Cfg σ) (s : St σ) : St σ :=
  match s.writer with
  | none => s
  | some w => { s with disk := (flushW cfg s.disk w).1, writer := none }

/-- `write_all(&self.encode_whole(record)?)` + flush through the open writer: the record is encoded
into memory and reaches the `LogWriter` as one slice, whatever the encoder's chunking -/
def writeAndFlush (cfg : Cfg σ) (s : St σ) (w : Writer) (r : Rec) : St σ × Writer :=
  let (d1, w1) := writeRec cfg s.disk w [encBytes r]
  let (d2, w2) := flushW cfg d1 w1
  ({ s with disk := d2, writer := some w2 }, w2)

/-- `CompoundPolicy::process` -/
def process (cfg : Cfg σ) (s : St σ) (len : Nat) (fault : Nat → Bool) : Res × Option Bool × St σ :=
  let (ans, t') := cfg.trig.fire s.tst len s.now
  let s := { s with tst := t' }
  match ans with
  | .err => (.errTrigger, none, s)
  | .no => (.ok, none, s)
  | .yes =>
    let s := dropWriter cfg s
    match cfg.roll cfg.path fault s.disk with
    | (.ok _, d') => (.ok, some true, { s with disk := d' })
    | (.error _, d') => (.errRoll, some false, { s with disk := d' })

/-- `RollingFileAppender::append` -/
def append (cfg : Cfg σ) (s : St σ) (r : Rec) (fault : Nat → Bool) : Out × St σ :=
  let (s, w) := getWriter cfg s
  if cfg.trig.pre then
    let consult := (w.len, (fileOf cfg s.disk).length)
    let (res, rolled, s) := process cfg s w.len fault
    match res with
    | .ok =>
      let (s, w) := getWriter cfg s
      let (s, _) := writeAndFlush cfg s w r
      ({ res := .ok, consult := some consult, rolled }, s)
    | e => ({ res := e, consult := some consult, rolled }, s)
  else
    let (s, w) := writeAndFlush cfg s w r
    let consult := (w.len, (fileOf cfg s.disk).length)
    let (res, rolled, s) := process cfg s w.len fault
    ({ res, consult := some consult, rolled }, s)

/-- `append` with an encoder that returns `Err` (after `n` slices — immaterial since 9f38f0b:
`encode_whole` works in memory): `write_all(&self.encode_whole(record)?)` leaves the function
before anything is written. Pre-process: the policy has already run and the writer has already
been (re)opened — `get_writer` precedes `encode_whole` in the statement; post-process: nothing but
`get_writer` has happened, no flush, no policy consultation. The writer stays open. -/
def appendFail (cfg : Cfg σ) (s : St σ) (_r : Rec) (_n : Nat) (fault : Nat → Bool) : Out × St σ :=
  let (s, w) := getWriter cfg s
  if cfg.trig.pre then
    let consult := (w.len, (fileOf cfg s.disk).length)
    let (res, rolled, s) := process cfg s w.len fault
    match res with
    | .ok =>
      let (s, _) := getWriter cfg s
      ({ res := .errEncode, consult := some consult, rolled }, s)
    | e => ({ res := e, consult := some consult, rolled }, s)
  else
    ({ res := .errEncode, consult := none, rolled := none }, s)

/-- the code before 9f38f0b (kept for the negative witness theorems): the encoder wrote into the
`LogWriter` slice by slice; on `Err` the slices already written stayed in its buffer (counted in
`len`) or were on disk if they had spilled, and reached the file with the next record or when the
writer was dropped (former finding `C05/encoder-error-torn`) -/
def appendFailUnfixed (cfg : Cfg σ) (s : St σ) (r : Rec) (n : Nat) (fault : Nat → Bool) : Out × St σ :=
  let (s, w) := getWriter cfg s
  if cfg.trig.pre then
    let consult := (w.len, (fileOf cfg s.disk).length)
    let (res, rolled, s) := process cfg s w.len fault
    match res with
    | .ok =>
      let (s, w) := getWriter cfg s
      let (d1, w1) := writeRec cfg s.disk w (r.take n)
      ({ res := .errEncode, consult := some consult, rolled }, { s with disk := d1, writer := some w1 })
    | e => ({ res := e, consult := some consult, rolled }, s)
  else
    let (d1, w1) := writeRec cfg s.disk w (r.take n)
    ({ res := .errEncode, consult := none, rolled := none }, { s with disk := d1, writer := some w1 })

/-- `RollingFileAppenderBuilder::build` on the current disk: fresh trigger, file opened immediately -/
def build (cfg : Cfg σ) (s : St σ) : St σ :=
  (getWriter cfg { s with writer := none, tst := cfg.trig.reinit s.tst s.now, opened := false }).1

/-- start of the first appender on a disk -/
def init (cfg : Cfg σ) (d : Disk) (t0 : σ) (now : Nat) : St σ :=
  build cfg { disk := d, writer := none, tst := t0, now }

/-- drop the appender and build a new one on the same path -/
def restart (cfg : Cfg σ) (s : St σ) : St σ := build cfg (dropWriter cfg s)

inductive Op where
  | append (r : Rec) (fault : Option Nat)   -- `fault = some k`: step `k` of this append's rotation fails
  | restart
  | tick (dt : Nat)                          -- the clock advances
  deriving Repr

def faultFn (f : Option Nat) : Nat → Bool := fun k => f == some k

def applyOp (cfg : Cfg σ) (s : St σ) : Op → Option Out × St σ
  | .append r f => let (o, s') := append cfg s r (faultFn f); (some o, s')
  | .restart => (none, restart cfg s)
  | .tick dt => (none, { s with now := s.now + dt })

/-- run a history; the outputs of the operations, in order, and the final state -/
def run (cfg : Cfg σ) (s : St σ) : List Op → List (Option Out) × St σ
  | [] => ([], s)
  | op :: ops =>
    let (o, s1) := applyOp cfg s op
    let (os, s2) := run cfg s1 ops
    (o :: os, s2)

/-- the states after every operation (what the harness snapshots) -/
def trace (cfg : Cfg σ) (s : St σ) : List Op → List (Option Out × St σ)
  | [] => []
  | op :: ops => applyOp cfg s op :: trace cfg (applyOp cfg s op).2 ops

/-! ### the compressing final step of the fixed-window roller, as it is

`Compression::compress` for gzip / zstd is three fallible steps: `File::open(src)`;
`File::create(dst)` + copy + `finish()` (slot `base` now holds the compressed segment);
`fs::remove_file(src)`. The shared `Roller.fixedWindowRoll` treats it as one atomic step. Here the
last sub-step can fail on its own (fault index `count`, the hook `rotate_point(u32::MAX - 1)`
between the copy and `remove_file`): the roller returns `Err` although slot `base` already holds
the segment and the log file is still there. `leavesCopy = true` is the code as it is: the archive
copy stays (finding `C05/compress-failure-duplicates`: the appender goes on appending to the log
file and the next rotation archives the same records again). `leavesCopy = false` is the intended
repair (remove the destination when `compress` fails). -/

/-- what the driver uses: `true` = the code as it is; to be flipped to `false` when /repo removes
the destination on a failed compress -/
def compressLeavesCopyDefault : Bool := false

def fixedWindowRollC (leavesCopy : Bool) (r : Log4rs.Roller.RollerCfg) (file : Path) (fault : Nat → Bool) (d : Disk) :
    Except FsErr Disk × Disk :=
  if r.count = 0 then Log4rs.Roller.fixedWindowRoll r file fault d else
  match r.comp with
  | .none => Log4rs.Roller.fixedWindowRoll r file fault d
  | _ =>
    match Log4rs.Roller.fixedWindowRoll r file fault d, d.get? file with
    | (.ok x, d'), some c =>
      if fault r.count then
        -- copy written, `remove_file(src)` not executed
        (.error (.injected r.count),
          if leavesCopy then d'.set file c else (d'.set file c).erase (r.nameOf r.base))
      else (.ok x, d')
    | e, _ => e

/-- a roller that, when fault index `late` is set, runs `inner` without faults and then reports
`Err` although the work is done (the harness's roller wrapper `g!record`) -/
def lateRoll (inner : RollFn) (late : Nat) : RollFn := fun p f d =>
  if f late then
    match inner p (fun _ => false) d with
    | (.ok _, d') => (.error (.injected late), d')
    | e => e
  else inner p f d

/-- histories that also contain appends whose encoder fails -/
inductive XOp where
  | op (o : Op)
  | appendFail (r : Rec) (n : Nat) (fault : Option Nat)
  deriving Repr

def applyX (cfg : Cfg σ) (s : St σ) : XOp → Option Out × St σ
  | .op o => applyOp cfg s o
  | .appendFail r n f => let (o, s') := appendFail cfg s r n (faultFn f); (some o, s')

def traceX (cfg : Cfg σ) (s : St σ) : List XOp → List (Option Out × St σ)
  | [] => []
  | op :: ops => applyX cfg s op :: traceX cfg (applyX cfg s op).2 ops

end Log4rs.Rolling
